//@unit subs
//@serves C37
use vstd::prelude::*;
verus! {
// std specifications not in vstd (A-std)
pub assume_specification<T, F: FnOnce(T) -> bool> [Option::<T>::is_some_and] (o: Option<T>, f: F) -> (r: bool)
    requires o.is_some() ==> f.requires((o.unwrap(),))
    ensures o.is_none() ==> !r, o.is_some() ==> f.ensures((o.unwrap(),), r);
pub assume_specification<T, F: FnOnce(T) -> bool> [Option::<T>::is_none_or] (o: Option<T>, f: F) -> (r: bool)
    requires o.is_some() ==> f.requires((o.unwrap(),))
    ensures o.is_none() ==> r, o.is_some() ==> f.ensures((o.unwrap(),), r);
//@src node/src/node/subscriptions.rs

#[verifier::external_body]
fn vx_assert(c: bool) requires c { }
#[verifier::external_body]
fn vx_unreachable() -> ! requires false { unimplemented!() }

// ---------------------------------------------------------------------------
// stubs (E9): header, wrapped store, broadcast channel
// ---------------------------------------------------------------------------
// abstract value (height + everything else)
#[derive(Clone, Copy)]
pub struct ExtendedHeader { pub h: u64, pub rest: u64 }
impl ExtendedHeader {
    #[verifier::external_body]
    pub fn height(&self) -> (r: u64) ensures r == self.h, r <= hmax() { unimplemented!() }
}
#[verifier::external_body]
pub fn vx_clone_range(v: &Vec<ExtendedHeader>) -> (r: Vec<ExtendedHeader>) ensures r@ == v@ { unimplemented!() }
#[derive(Debug)]
pub enum StoreError { InsertionFailed, Other }

// A-tendermint: block::Height never exceeds i64::MAX
pub open spec fn hmax() -> int { 0x7fff_ffff_ffff_ffff }
// consecutive heights (what the wrapped store's `insert` accepts: it converts the Vec into VerifiedExtendedHeaders, C02/C21)
pub open spec fn consecutive(s: Seq<ExtendedHeader>) -> bool { forall|i: int| 0 <= i < s.len() ==> (#[trigger] s[i]).h == s[0].h + i }
pub open spec fn heights(s: Seq<ExtendedHeader>) -> ISet<u64> { ISet::new(|x: u64| exists|i: int| 0 <= i < s.len() && (#[trigger] s[i]).h == x) }

// ghost history of the wrapper (E13): heights handed to the broadcast channel, in order; whether some send found no
// receiver; and the heights that may be announced (stored through this wrapper, or the announced network head)
pub struct History {
    pub sent: Seq<u64>,
    pub no_receiver: bool,
    pub announced: ISet<u64>,
}
pub struct InnerStore {}
impl InnerStore {
    // the wrapped Store::insert: Ok only for a non-empty adjacent chain (C19/C21); records the stored heights
    #[verifier::external_body]
    pub async fn insert(&self, range: Vec<ExtendedHeader>, hist: &mut Ghost<History>) -> (r: Result<(), StoreError>)
        ensures
            r.is_ok() ==> consecutive(range@) && final(hist)@.announced == old(hist)@.announced.union(heights(range@)),
            r.is_err() ==> final(hist)@.announced == old(hist)@.announced,
            final(hist)@.sent == old(hist)@.sent, final(hist)@.no_receiver == old(hist)@.no_receiver,
    { unimplemented!() }
}
pub struct SendError {}
pub struct Sender {}
impl Sender {
    // tokio broadcast::Sender::send: Err iff there is currently no receiver. C37: a header is handed to the channel only
    // after it was stored (or is the announced network head), and heights handed over are strictly increasing
    #[verifier::external_body]
    pub fn send(&self, header: ExtendedHeader, hist: &mut Ghost<History>) -> (r: Result<usize, SendError>)
        requires
            old(hist)@.announced.contains(header.h),
            old(hist)@.sent.len() > 0 ==> old(hist)@.sent.last() < header.h,
        ensures
            final(hist)@.sent == old(hist)@.sent.push(header.h),
            final(hist)@.no_receiver == (old(hist)@.no_receiver || r.is_err()),
            final(hist)@.announced == old(hist)@.announced,
    { unimplemented!() }
}
#[verifier::external_body]
pub async fn yield_now() { unimplemented!() }
#[verifier::external_body]
pub fn vx_announce_head(hist: &mut Ghost<History>, h: u64)
    ensures final(hist)@.announced == old(hist)@.announced.insert(h), final(hist)@.sent == old(hist)@.sent, final(hist)@.no_receiver == old(hist)@.no_receiver
{ unimplemented!() }

pub struct BroadcastingStore {
    pub inner: InnerStore,
    pub sender: Sender,
    pub last_sent_height: Option<u64>,
    pub pending: Vec<Vec<ExtendedHeader>>,
    pub hist: Ghost<History>,
}

pub open spec fn range_ok(r: Seq<ExtendedHeader>, announced: ISet<u64>) -> bool {
    r.len() > 0 && consecutive(r) && r[0].h + r.len() - 1 <= hmax() && forall|i: int| 0 <= i < r.len() ==> announced.contains((#[trigger] r[i]).h)
}
pub open spec fn strictly_increasing(s: Seq<u64>) -> bool { forall|i: int, j: int| 0 <= i < j < s.len() ==> s[i] < s[j] }
pub open spec fn gap_free(s: Seq<u64>) -> bool { forall|i: int| 0 <= i < s.len() ==> (#[trigger] s[i]) == s[0] + i }

pub open spec fn hs_of(r: Seq<ExtendedHeader>, n: int) -> Seq<u64> { r.subrange(0, n).map_values(|e: ExtendedHeader| e.h) }
// the next header of the range may be handed to the channel: it is above everything sent so far
pub proof fn lemma_sent_step(s0: Seq<u64>, nr0: bool, l0: u64, r: Seq<ExtendedHeader>, k: int)
    requires
        0 <= k < r.len(), consecutive(r), r[0].h == l0 + 1, r[0].h + r.len() - 1 <= hmax(),
        s0.len() > 0 ==> s0.last() <= l0,
    ensures
        (s0 + hs_of(r, k)).len() > 0 ==> (s0 + hs_of(r, k)).last() < r[k].h,
{
    let t = s0 + hs_of(r, k);
    if k > 0 { assert(t.last() == r[k - 1].h); } else { assert(t =~= s0); }
}
// the history invariants after handing over the first n headers of the range (and possibly a failed last send)
pub proof fn lemma_sent_inv(s0: Seq<u64>, nr0: bool, l0: u64, r: Seq<ExtendedHeader>, n: int, failed: bool)
    requires
        0 <= n <= r.len(), r.len() > 0, consecutive(r), r[0].h == l0 + 1, r[0].h + r.len() - 1 <= hmax(),
        strictly_increasing(s0), s0.len() > 0, s0.last() <= l0,
        !nr0 ==> gap_free(s0) && s0.last() == l0,
        failed || n == r.len(),
    ensures
        strictly_increasing(s0 + hs_of(r, n)),
        (s0 + hs_of(r, n)).last() <= r.last().h,
        !(nr0 || failed) ==> gap_free(s0 + hs_of(r, n)) && (s0 + hs_of(r, n)).last() == r.last().h,
{
    let a = hs_of(r, n);
    let t = s0 + a;
    assert forall|i: int| 0 <= i < n implies a[i] == l0 + 1 + i by { assert(a[i] == r[i].h); }
    assert forall|i: int, j: int| 0 <= i < j < t.len() implies t[i] < t[j] by {
        if j < s0.len() { } else if i < s0.len() { assert(t[i] == s0[i]); assert(s0[i] <= s0.last()); assert(t[j] == a[j - s0.len()]); } else { assert(t[i] == a[i - s0.len()]); assert(t[j] == a[j - s0.len()]); }
    }
    if n > 0 { assert(t.last() == a[n - 1]); } else { assert(t =~= s0); }
    if !(nr0 || failed) {
        assert forall|i: int| 0 <= i < t.len() implies (#[trigger] t[i]) == t[0] + i by {
            assert(t[0] == s0[0]);
            if i < s0.len() { assert(t[i] == s0[i]); } else { assert(t[i] == a[i - s0.len()]); assert(s0.last() == s0[0] + s0.len() - 1); }
        }
    }
}

impl BroadcastingStore {
    // C37 structure invariant
    pub open spec fn inv(&self) -> bool {
        let hi = self.hist@;
        // every pending range is a non-empty run of consecutive, already stored (or announced-head) heights
        &&& forall|k: int| 0 <= k < self.pending@.len() ==> range_ok((#[trigger] self.pending@[k])@, hi.announced)
        // what was handed to the channel is strictly increasing and never beyond last_sent_height
        &&& strictly_increasing(hi.sent)
        &&& (hi.sent.len() > 0 ==> self.last_sent_height.is_some() && hi.sent.last() <= self.last_sent_height.unwrap())
        // as long as every send found a receiver the stream is gap-free and ends exactly at last_sent_height
        &&& (!hi.no_receiver && hi.sent.len() > 0 ==> gap_free(hi.sent) && hi.sent.last() == self.last_sent_height.unwrap())
        &&& (self.last_sent_height.is_some() ==> hi.sent.len() > 0 && self.last_sent_height.unwrap() <= hmax())
        // nothing waits before the stream is initialised
        &&& (self.last_sent_height.is_none() ==> self.pending@.len() == 0)
    }
    // no pending range could be sent right now
    pub open spec fn drained(&self) -> bool {
        self.last_sent_height.is_some() ==> forall|k: int| 0 <= k < self.pending@.len() ==> (#[trigger] self.pending@[k])@[0].h != self.last_sent_height.unwrap() + 1
    }

//@fn impl<S> BroadcastingStore<S> :: init_broadcast
//@props C37
    pub(crate) fn init_broadcast(&mut self, head: ExtendedHeader)
        requires old(self).inv(), head.h <= hmax()
        ensures
            final(self).inv(),
            // first initialisation: the stream starts at the network head
            old(self).last_sent_height.is_none() ==> final(self).last_sent_height == Some(head.h) && final(self).hist@.sent == old(self).hist@.sent.push(head.h),
            // re-initialisation: nothing is sent, the head waits in `pending`
            old(self).last_sent_height.is_some() ==> final(self).last_sent_height == old(self).last_sent_height && final(self).hist@.sent == old(self).hist@.sent,
            // C37 completeness ("every height up to H once all were inserted"): nothing sendable may be left waiting.
            // KNOWN FINDING D20: a re-announced head that directly continues the stream (last_sent + 1) waits in
            // `pending` until the next forward insert
            old(self).last_sent_height.is_some() && old(self).drained() ==> final(self).drained(),
            old(self).last_sent_height.is_none() ==> final(self).drained(),
//@hint entry
        // the network head is inserted into the store by the syncer's try_init before init_broadcast is called
        vx_announce_head(&mut self.hist, head.h);
        proof {
            assert forall|k: int| 0 <= k < self.pending@.len() implies range_ok((#[trigger] self.pending@[k])@, self.hist@.announced) by {
                assert(range_ok(old(self).pending@[k]@, old(self).hist@.announced));
            }
        }
//@addarg "self.sender.send" "&mut self.hist"
//@hint after "self.pending.push(vec![head]);"
            proof {
                assert forall|k: int| 0 <= k < self.pending@.len() implies range_ok((#[trigger] self.pending@[k])@, self.hist@.announced) by {
                    if k < self.pending@.len() - 1 { assert(self.pending@[k] == old(self).pending@[k]); assert(range_ok(old(self).pending@[k]@, old(self).hist@.announced)); }
                }
            }
//@end

//@fn impl<S> BroadcastingStore<S> :: send_range
//@props C37
    async fn send_range(&mut self, headers: Vec<ExtendedHeader>) -> (unit: ())
        requires
            old(self).inv(), range_ok(headers@, old(self).hist@.announced),
            // only ever called for the range that continues the stream
            old(self).last_sent_height.is_some() && old(self).last_sent_height.unwrap() + 1 == headers@[0].h,
        ensures
            final(self).inv(),
            final(self).last_sent_height == Some(headers@.last().h),
            final(self).pending@ == old(self).pending@,
            final(self).hist@.announced == old(self).hist@.announced,
            // the heights handed over are a prefix of the range, in order (all of it unless a receiver-less send stopped it)
            exists|n: int| 0 <= n <= headers@.len() && #[trigger] final(self).hist@.sent == old(self).hist@.sent + headers@.subrange(0, n).map_values(|e: ExtendedHeader| e.h),
//@addarg "self.sender.send" "&mut self.hist"
//@hint before "for header in headers {"
        let ghost s0 = old(self).hist@.sent; let ghost nr0 = old(self).hist@.no_receiver; let ghost l0 = old(self).last_sent_height.unwrap();
        proof {
            assert(headers@.subrange(0, 0).map_values(|e: ExtendedHeader| e.h) =~= Seq::<u64>::empty());
            assert(s0 + Seq::<u64>::empty() =~= s0);
        }
//@for 1 copy
//@loop 1
            invariant
                __i1 <= headers@.len(), range_ok(headers@, self.hist@.announced), l0 + 1 == headers@[0].h,
                self.last_sent_height == Some(headers@.last().h), self.pending@ == old(self).pending@, self.hist@.announced == old(self).hist@.announced,
                old(self).inv(), old(self).last_sent_height.is_some(), s0 == old(self).hist@.sent, nr0 == old(self).hist@.no_receiver, l0 == old(self).last_sent_height.unwrap(),
                self.hist@.sent == s0 + headers@.subrange(0, __i1 as int).map_values(|e: ExtendedHeader| e.h),
                // no failed send so far inside this call
                self.hist@.no_receiver == nr0,
            decreases headers@.len() - __i1
//@hint before "if self.sender.send(header).is_err() {"
            proof {
                lemma_sent_step(s0, nr0, l0, headers@, __i1 as int - 1);
                assert(header == headers@[__i1 as int - 1]);
            }
            let ghost before = self.hist@.sent;
//@hint before "return; // no receivers - skip sending"
                proof { lemma_sent_inv(s0, nr0, l0, headers@, __i1 as int, true); }
//@hint after "yield_now().await;"
            proof {
                assert(headers@.subrange(0, __i1 as int).map_values(|e: ExtendedHeader| e.h) =~= headers@.subrange(0, __i1 as int - 1).map_values(|e: ExtendedHeader| e.h).push(header.h));
                assert(self.hist@.sent =~= s0 + headers@.subrange(0, __i1 as int).map_values(|e: ExtendedHeader| e.h));
            }
//@hint exit
        proof {
            assert(headers@.subrange(0, headers@.len() as int) =~= headers@);
            lemma_sent_inv(s0, nr0, l0, headers@, headers@.len() as int, false);
        }
//@end

//@fn impl<S> BroadcastingStore<S> :: announce_insert
//@props C37
    pub(crate) async fn announce_insert(&mut self, range: Vec<ExtendedHeader>) -> (r: Result<(), StoreError>)
        requires
            // (NOT assumed: that no pending range is sendable on entry - a re-initialisation may have queued the head last_sent+1)
            old(self).inv(),
            // the syncer has initialised the stream (first `expect`)
            old(self).last_sent_height.is_some(),
            // the debug_assert: a range never straddles last_sent_height (call sites: fetched/announced heights are not yet synced, C24)
            range@.len() > 0 ==> (range@.last().h < old(self).last_sent_height.unwrap() || range@[0].h > old(self).last_sent_height.unwrap()),
            forall|i: int| 0 <= i < range@.len() ==> (#[trigger] range@[i]).h <= hmax(),
        ensures
            final(self).inv(),
            // a stored forward range triggers the scan of `pending`: afterwards nothing sendable is left waiting
            (r.is_ok() && range@.len() > 0 && range@[0].h > old(self).last_sent_height.unwrap()) ==> final(self).drained(),
            // the other paths (empty, historical, rejected) leave `pending` alone
            old(self).drained() ==> final(self).drained(),
            // nothing is handed to the channel unless the store accepted the range first
            r.is_err() ==> final(self).hist@.sent == old(self).hist@.sent && final(self).last_sent_height == old(self).last_sent_height,
            // historical ranges are only stored
            (range@.len() > 0 && range@[0].h < old(self).last_sent_height.unwrap()) ==> final(self).hist@.sent == old(self).hist@.sent,
//@hint after "self.inner.insert(range.clone()).await?;"
        proof {
            assert(range_ok(range@, self.hist@.announced)) by {
                assert forall|i: int| 0 <= i < range@.len() implies self.hist@.announced.contains((#[trigger] range@[i]).h) by { assert(heights(range@).contains(range@[i].h)); }
                assert(range@.last().h == range@[0].h + range@.len() - 1);
            }
            assert forall|k: int| 0 <= k < self.pending@.len() implies range_ok((#[trigger] self.pending@[k])@, self.hist@.announced) by {
                assert(range_ok(old(self).pending@[k]@, old(self).hist@.announced));
            }
        }
//@hint before "let mut i = 0;"
        proof {
            if last_sent_height + 1 != lowest_range_height {
                assert forall|k: int| 0 <= k < self.pending@.len() implies range_ok((#[trigger] self.pending@[k])@, self.hist@.announced) by {
                    if k < self.pending@.len() - 1 { assert(self.pending@[k] == old(self).pending@[k]); }
                }
            }
        }
//@ascribe "let mut i = 0;" => "let mut i: usize = 0;"
//@loop 1
            invariant
                self.inv(), self.last_sent_height.is_some(), i <= self.pending@.len(),
                forall|k: int| 0 <= k < i ==> (#[trigger] self.pending@[k])@[0].h != self.last_sent_height.unwrap() + 1,
            decreases self.pending@.len(), self.pending@.len() - i
//@hint before "let range = self.pending.swap_remove(i);"
                let ghost p0 = self.pending@;
//@hint after "let range = self.pending.swap_remove(i);"
                proof {
                    assert(range_ok(p0[i as int]@, self.hist@.announced));
                    assert forall|k: int| 0 <= k < self.pending@.len() implies range_ok((#[trigger] self.pending@[k])@, self.hist@.announced) by {
                        if k == i { assert(self.pending@[k] == p0[p0.len() - 1]); } else { assert(self.pending@[k] == p0[k]); }
                    }
                }
//@closure "|h|" 1 => "|h: &ExtendedHeader| -> (o: u64) ensures o == h.h"
//@closure "|h|" 2 => "|h: &ExtendedHeader| -> (o: u64) ensures o == h.h"
//@addarg "self.inner.insert" "&mut self.hist"
//@sub E9 "range.clone()" all => "vx_clone_range(&range)"
//@end
}

} // verus!
fn main() {}
