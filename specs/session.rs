//@unit session
//@serves C26 C27
use vstd::prelude::*;
use std::ops::RangeInclusive;
verus! {
//@include range
//@src node/src/p2p/header_session.rs

// ---------------------------------------------------------------------------
// std specifications not in vstd (A-std)
// ---------------------------------------------------------------------------
pub assume_specification [u64::div_ceil] (x: u64, rhs: u64) -> (r: u64)
    requires rhs > 0
    ensures r == (if x as int % rhs as int == 0 { x as int / rhs as int } else { x as int / rhs as int + 1 });
pub assume_specification [<u64 as std::cmp::Ord>::clamp] (x: u64, lo: u64, hi: u64) -> (r: u64)
    ensures lo <= hi ==> r == (if x < lo { lo } else if x > hi { hi } else { x });

// ---------------------------------------------------------------------------
// stubs of the surrounding system (E9)
// ---------------------------------------------------------------------------
//@const MIN_AMOUNT_PER_REQ
//@const MAX_AMOUNT_PER_REQ
//@const MAX_CONCURRENT_REQS

#[derive(Debug)]
pub enum HeaderExError { InvalidRequest, InvalidResponse, Other }
#[derive(Debug)]
pub enum P2pError { HeaderEx(HeaderExError), WorkerDied, Other }
impl vstd::std_specs::convert::FromSpecImpl<HeaderExError> for P2pError {
    open spec fn obeys_from_spec() -> bool { true }
    open spec fn from_spec(e: HeaderExError) -> P2pError { P2pError::HeaderEx(e) }
}
impl From<HeaderExError> for P2pError { fn from(e: HeaderExError) -> P2pError { P2pError::HeaderEx(e) } }
type PResult<T, E = P2pError> = std::result::Result<T, E>;

pub struct ExtendedHeader { pub h: u64, pub rest: u64 }
#[derive(Debug)]
pub struct TypesError {}
// C02: `a.verify_adjacent_range(hs)` succeeded: hs is the verified chain directly after a
pub uninterp spec fn adjacent_range_ok(a: ExtendedHeader, hs: Seq<ExtendedHeader>) -> bool;
// C01: `validate()` succeeded
pub uninterp spec fn header_valid(a: ExtendedHeader) -> bool;
impl ExtendedHeader {
    // A-tendermint: block::Height is at most i64::MAX
    #[verifier::external_body]
    pub fn height(&self) -> (r: u64) ensures r == self.h, r <= 0x7fff_ffff_ffff_ffff { unimplemented!() }
    #[verifier::external_body]
    pub fn validate(&self) -> (r: Result<(), TypesError>) ensures r.is_ok() == header_valid(*self) { unimplemented!() }
    #[verifier::external_body]
    pub fn verify_adjacent_range(&self, hs: &[ExtendedHeader]) -> (r: Result<(), TypesError>)
        ensures r.is_ok() == adjacent_range_ok(*self, hs@) { unimplemented!() }
}

pub struct CmdTx {}
impl CmdTx {
    #[verifier::external_body]
    pub fn clone(&self) -> CmdTx { unimplemented!() }
}
// the set of in-flight requests (FuturesUnordered of boxed futures): only (origin height, amount) of each is modelled
pub struct Tasks { pub outstanding: Ghost<Seq<(u64, u64)>> }
impl Tasks {
    #[verifier::external_body]
    pub fn new() -> (t: Tasks) ensures t.outstanding@.len() == 0 { unimplemented!() }
    // C26: every request the session issues is a non-empty range of at most 64 headers that does not wrap around
    #[verifier::external_body]
    pub fn push(&mut self, f: OpaqueFuture)
        requires f.amount >= 1, f.amount <= MAX_AMOUNT_PER_REQ, f.height >= 1, f.height + f.amount - 1 <= u64::MAX
        ensures final(self).outstanding@ == old(self).outstanding@.push((f.height, f.amount))
    { unimplemented!() }
}
// C26's premise about the peers: a response is a prefix of its request (possibly empty) with the requested heights
pub open spec fn prefix_resp(h: u64, a: u64, v: Seq<ExtendedHeader>) -> bool {
    v.len() <= a && forall|i: int| 0 <= i < v.len() ==> (#[trigger] v[i]).h == h + i
}
pub open spec fn req_ok(h: u64, a: u64) -> bool { a >= 1 && a <= MAX_AMOUNT_PER_REQ && h >= 1 && h + a - 1 <= u64::MAX }
impl Tasks {
    // FuturesUnordered::next: any in-flight request may complete next, with any admissible response (this is the
    // quantification over schedules); None iff nothing is in flight
    #[verifier::external_body]
    pub async fn next(&mut self) -> (r: Option<(u64, u64, PResult<Vec<ExtendedHeader>>)>)
        ensures match r {
            None => old(self).outstanding@.len() == 0 && final(self).outstanding@ == old(self).outstanding@,
            Some((h, a, res)) => exists|k: int| 0 <= k < old(self).outstanding@.len() && #[trigger] old(self).outstanding@[k] == (h, a)
                && final(self).outstanding@ == old(self).outstanding@.remove(k)
                && (res.is_ok() ==> prefix_resp(h, a, res.unwrap()@)),
        }
    { unimplemented!() }
}
// slice::sort_unstable_by_key(|span| span.first().expect(..).height()): every span must be non-empty (the `expect`)
#[verifier::external_body]
pub fn vx_sort_spans_by_first_height(responses: &mut Vec<Vec<ExtendedHeader>>)
    requires forall|i: int| 0 <= i < old(responses)@.len() ==> (#[trigger] old(responses)@[i])@.len() > 0
    ensures final(responses)@.len() == old(responses)@.len()
{ unimplemented!() }
// into_iter().flatten().collect()
#[verifier::external_body]
pub fn vx_flatten(responses: Vec<Vec<ExtendedHeader>>) -> (r: Vec<ExtendedHeader>) { unimplemented!() }
pub struct OpaqueFuture { pub height: u64, pub amount: u64 }
impl OpaqueFuture {
    // FutureExt::boxed: the same future behind a Box
    pub fn boxed(self) -> (r: OpaqueFuture) ensures r == self { self }
}
#[verifier::external_body]
pub fn vx_request_future(p2p_cmd_rx: CmdTx, request: HeaderRequest, height: u64, amount: u64) -> (f: OpaqueFuture)
    requires request.origin == height, request.amount == amount
    ensures f.height == height, f.amount == amount
{ unimplemented!() }
pub struct HeaderRequest { pub origin: u64, pub amount: u64 }
impl HeaderRequest {
    #[verifier::external_body]
    pub fn with_origin(height: u64, amount: u64) -> (r: HeaderRequest) ensures r.origin == height, r.amount == amount { unimplemented!() }
}

pub struct HeaderSession {
    pub to_fetch: Option<BlockRange>,
    pub cmd_tx: CmdTx,
    pub tasks: Tasks,
    pub batch_size: u64,
}

impl HeaderSession {
    // what is still to be requested is a valid range, and the batch size is within the protocol's bounds
    pub open spec fn inv(&self) -> bool {
        &&& MIN_AMOUNT_PER_REQ <= self.batch_size <= MAX_AMOUNT_PER_REQ
        &&& self.to_fetch.is_some() ==> r_valid(self.to_fetch.unwrap())
    }

//@fn impl HeaderSession :: new
//@props C26 C27
    pub(crate) fn new(range: BlockRange, cmd_tx: CmdTx) -> (s: HeaderSession)
        // C27: the session is only ever created for a non-empty range (an empty one is re-requested forever)
        requires r_valid(range)
        ensures s.inv(), s.to_fetch == Some(range), s.tasks.outstanding@.len() == 0,
//@sub E9 "FuturesUnordered::new()" => "Tasks::new()"
//@end

//@fn impl HeaderSession :: run
//@props C26 C27
    // termination of the receive loop is NOT claimed (peers may fail forever: liveness)
    #[verifier::exec_allows_no_decreases_clause]
    pub(crate) async fn run(&mut self) -> (r: PResult<Vec<ExtendedHeader>>)
        requires old(self).inv(), all_req_ok(old(self).tasks.outstanding@)
        ensures final(self).inv(), all_req_ok(final(self).tasks.outstanding@),
//@ascribe "let mut responses = Vec::new();" => "let mut responses: Vec<Vec<ExtendedHeader>> = Vec::new();"
//@for 1
//@loop 1
            invariant self.inv(), all_req_ok(self.tasks.outstanding@), responses@.len() == 0,
            decreases __i1_end - __i1
//@sub E9 "while let Some((height, requested_amount, res)) = self.tasks.next().await {"
        loop
            invariant
                self.inv(), all_req_ok(self.tasks.outstanding@),
                forall|i: int| 0 <= i < responses@.len() ==> (#[trigger] responses@[i])@.len() > 0,
        {
            let ghost before = self.tasks.outstanding@;
            let __next = self.tasks.next().await;
            let Some((height, requested_amount, res)) = __next else { break; };
            proof {
                let k = choose|k: int| 0 <= k < before.len() && #[trigger] before[k] == (height, requested_amount) && self.tasks.outstanding@ == before.remove(k);
                assert(req_ok(before[k].0, before[k].1));
                assert forall|j: int| 0 <= j < self.tasks.outstanding@.len() implies req_ok((#[trigger] self.tasks.outstanding@[j]).0, self.tasks.outstanding@[j].1) by {
                    if j < k { assert(self.tasks.outstanding@[j] == before[j]); } else { assert(self.tasks.outstanding@[j] == before[j + 1]); }
                }
            }
//@sub E9 "responses.sort_unstable_by_key(|span| { span.first() .expect(\"empty spans aren't added in receiving loop\") .height() });" => "vx_sort_spans_by_first_height(&mut responses);"
//@sub E9 "responses.into_iter().flatten().collect()" => "vx_flatten(responses)"
//@end

//@fn impl HeaderSession :: send_next_request
//@props C26
    pub(crate) async fn send_next_request(&mut self) -> (unit: ())   // named unit result: Verus attaches an awaited call's postcondition to it
        requires old(self).inv()
        ensures
            final(self).inv(), final(self).batch_size == old(self).batch_size,
            old(self).to_fetch.is_none() ==> final(self).to_fetch.is_none() && final(self).tasks.outstanding@ == old(self).tasks.outstanding@,
            old(self).to_fetch.is_some() ==> {
                let o = old(self).to_fetch.unwrap();
                let lim = old(self).batch_size;
                &&& is_rest(o, lim, final(self).to_fetch)
                &&& final(self).tasks.outstanding@ == old(self).tasks.outstanding@.push((take_start(o, lim) as u64, (o@.end - take_start(o, lim) + 1) as u64))
            },
//@end

//@fn impl HeaderSession :: send_request
//@props C26
    pub(crate) async fn send_request(&mut self, height: u64, amount: u64) -> (unit: ())
        requires amount >= 1, amount <= MAX_AMOUNT_PER_REQ, height >= 1, height + amount - 1 <= u64::MAX
        ensures
            final(self).to_fetch == old(self).to_fetch, final(self).batch_size == old(self).batch_size,
            final(self).tasks.outstanding@ == old(self).tasks.outstanding@.push((height, amount)),
//@opaque "async move {" 1 => "vx_request_future(p2p_cmd_rx, request, height, amount)"
//@end
}

pub open spec fn all_req_ok(s: Seq<(u64, u64)>) -> bool { forall|k: int| 0 <= k < s.len() ==> req_ok((#[trigger] s[k]).0, s[k].1) }

// the batch taken from the top of `o` (`limit` heights, or all of it) and what is left of it
pub open spec fn take_start(o: BlockRange, limit: u64) -> int { if r_len(o) <= limit { o@.start as int } else { o@.end - limit + 1 } }
pub open spec fn is_take(o: BlockRange, limit: u64, b: BlockRange) -> bool { b@.start == take_start(o, limit) && b@.end == o@.end && !b@.exhausted }
pub open spec fn is_rest(o: BlockRange, limit: u64, r: Option<BlockRange>) -> bool {
    if r_len(o) <= limit { r.is_none() } else { r.is_some() && r.unwrap()@.start == o@.start && r.unwrap()@.end == o@.end - limit && !r.unwrap()@.exhausted }
}

//@fn - :: take_next_batch
//@props C26
fn take_next_batch(range_to_fetch: &mut Option<BlockRange>, limit: u64) -> (res: Option<BlockRange>)
    requires old(range_to_fetch).is_some() ==> r_valid(old(range_to_fetch).unwrap())
    ensures
        res.is_none() <==> (limit == 0 || old(range_to_fetch).is_none()),
        res.is_none() ==> *final(range_to_fetch) == *old(range_to_fetch),
        res.is_some() ==> {
            let o = old(range_to_fetch).unwrap(); let b = res.unwrap();
            &&& is_take(o, limit, b) && is_rest(o, limit, *final(range_to_fetch))
            // a non-empty batch of at most `limit` heights taken from the top; the remainder is the rest of the range
            &&& r_valid(b) && r_len(b) <= limit && b@.end == o@.end
            &&& (final(range_to_fetch).is_none() ==> b == o)
            &&& (final(range_to_fetch).is_some() ==> r_valid(final(range_to_fetch).unwrap())
                    && final(range_to_fetch).unwrap()@.start == o@.start && final(range_to_fetch).unwrap()@.end + 1 == b@.start)
        },
//@end

pub struct P2p { pub cmd_tx: CmdTx }
impl P2p {
//@fn impl P2p :: get_verified_headers_range @ node/src/p2p.rs
//@props C27
    pub async fn get_verified_headers_range(&self, from: &ExtendedHeader, amount: u64) -> (r: PResult<Vec<ExtendedHeader>>)
        ensures
            // C27: whatever is returned is the verified chain directly after a valid `from`
            r.is_ok() ==> header_valid(*from) && adjacent_range_ok(*from, r.unwrap()@),
//@closure "|_|" 1 => "|_e: TypesError| -> (o: HeaderExError) ensures o is InvalidRequest"
//@closure "|_|" 2 => "|_e: TypesError| -> (o: HeaderExError) ensures o is InvalidResponse"
//@hint before "let mut session = HeaderSession::new(range, self.cmd_tx.clone());"
        // C27: what is requested from the network is exactly the `amount` heights following `from`
        proof { assert(range@.start == from.h + 1 && range@.end == from.h + amount && !range@.exhausted); }
//@closure "|offset|" => "|offset: u64| -> (o: Option<u64>) ensures o.is_some() ==> o.unwrap() == height + offset"
//@end

//@fn impl P2p :: get_unverified_header_range @ node/src/p2p.rs
//@props C27
    pub(crate) async fn get_unverified_header_range(&self, range: BlockRange) -> (r: PResult<Vec<ExtendedHeader>>)
        requires !range@.exhausted, range@.start >= 1,
        ensures
            r.is_ok() ==> r.unwrap()@.len() > 0 && adjacent_range_ok(r.unwrap()@[0], r.unwrap()@.subrange(1, r.unwrap()@.len() as int)),
//@closure "|_|" => "|_e: TypesError| -> (o: HeaderExError) ensures o is InvalidResponse"
//@end
}

} // verus!
fn main() {}
