//@unit session
//@serves C26 C27
use vstd::prelude::*;
use std::ops::RangeInclusive;
verus! {
//@include range
//@src node/src/p2p/header_session.rs

// ---------------------------------------------------------------------------
// std specifications not in vstd (A-std)
// ---------------------------------------------------------------------------
pub assume_specification [u64::div_ceil] (x: u64, rhs: u64) -> (r: u64)
    requires rhs > 0
    ensures r == (if x as int % rhs as int == 0 { x as int / rhs as int } else { x as int / rhs as int + 1 });
pub assume_specification [<u64 as std::cmp::Ord>::clamp] (x: u64, lo: u64, hi: u64) -> (r: u64)
    ensures lo <= hi ==> r == (if x < lo { lo } else if x > hi { hi } else { x });

// ---------------------------------------------------------------------------
// stubs of the surrounding system (E9)
// ---------------------------------------------------------------------------
//@const MIN_AMOUNT_PER_REQ
//@const MAX_AMOUNT_PER_REQ
//@const MAX_CONCURRENT_REQS

#[derive(Debug)]
pub enum HeaderExError { InvalidRequest, InvalidResponse, Other }
#[derive(Debug)]
pub enum P2pError { HeaderEx(HeaderExError), WorkerDied, Other }
impl vstd::std_specs::convert::FromSpecImpl<HeaderExError> for P2pError {
    open spec fn obeys_from_spec() -> bool { true }
    open spec fn from_spec(e: HeaderExError) -> P2pError { P2pError::HeaderEx(e) }
}
impl From<HeaderExError> for P2pError { fn from(e: HeaderExError) -> P2pError { P2pError::HeaderEx(e) } }
type PResult<T, E = P2pError> = std::result::Result<T, E>;

pub struct ExtendedHeader { pub h: u64, pub rest: u64 }
#[derive(Debug)]
pub struct TypesError {}
// C02: `a.verify_adjacent_range(hs)` succeeded: hs is the verified chain directly after a
pub uninterp spec fn adjacent_range_ok(a: ExtendedHeader, hs: Seq<ExtendedHeader>) -> bool;
// C01: `validate()` succeeded
pub uninterp spec fn header_valid(a: ExtendedHeader) -> bool;
impl ExtendedHeader {
    // A-tendermint: block::Height is at most i64::MAX
    #[verifier::external_body]
    pub fn height(&self) -> (r: u64) ensures r == self.h, r <= 0x7fff_ffff_ffff_ffff { unimplemented!() }
    #[verifier::external_body]
    pub fn validate(&self) -> (r: Result<(), TypesError>) ensures r.is_ok() == header_valid(*self) { unimplemented!() }
    #[verifier::external_body]
    pub fn verify_adjacent_range(&self, hs: &[ExtendedHeader]) -> (r: Result<(), TypesError>)
        ensures r.is_ok() == adjacent_range_ok(*self, hs@) { unimplemented!() }
}

pub struct CmdTx {}
impl CmdTx {
    #[verifier::external_body]
    pub fn clone(&self) -> CmdTx { unimplemented!() }
}
// the set of in-flight requests (FuturesUnordered of boxed futures): only (origin height, amount) of each is modelled
pub struct Tasks { pub outstanding: Ghost<Seq<(u64, u64)>> }
impl Tasks {
    #[verifier::external_body]
    pub fn new() -> (t: Tasks) ensures t.outstanding@.len() == 0 { unimplemented!() }
    // C26: every request the session issues is a non-empty range of at most 64 headers that does not wrap around
    #[verifier::external_body]
    pub fn push(&mut self, f: OpaqueFuture)
        requires f.amount >= 1, f.amount <= MAX_AMOUNT_PER_REQ, f.height >= 1, f.height + f.amount - 1 <= u64::MAX
        ensures final(self).outstanding@ == old(self).outstanding@.push((f.height, f.amount))
    { unimplemented!() }
}
// C26's premise about the peers: a response is a prefix of its request (possibly empty) with the requested heights
pub open spec fn prefix_resp(h: u64, a: u64, v: Seq<ExtendedHeader>) -> bool {
    v.len() <= a && forall|i: int| 0 <= i < v.len() ==> (#[trigger] v[i]).h == h + i
}
pub open spec fn req_ok(h: u64, a: u64) -> bool { a >= 1 && a <= MAX_AMOUNT_PER_REQ && h >= 1 && h + a - 1 <= u64::MAX }
impl Tasks {
    // FuturesUnordered::next: any in-flight request may complete next, with any admissible response (this is the
    // quantification over schedules); None iff nothing is in flight
    #[verifier::external_body]
    pub async fn next(&mut self) -> (r: Option<(u64, u64, PResult<Vec<ExtendedHeader>>)>)
        ensures match r {
            None => old(self).outstanding@.len() == 0 && final(self).outstanding@ == old(self).outstanding@,
            Some((h, a, res)) => exists|k: int| 0 <= k < old(self).outstanding@.len() && #[trigger] old(self).outstanding@[k] == (h, a)
                && final(self).outstanding@ == old(self).outstanding@.remove(k)
                && (res.is_ok() ==> prefix_resp(h, a, res.unwrap()@)),
        }
    { unimplemented!() }
}
// the spans as sequences
pub open spec fn sp_view(r: Seq<Vec<ExtendedHeader>>) -> Seq<Seq<ExtendedHeader>> { Seq::new(r.len(), |i: int| r[i]@) }
// `b` is a permutation of `a`: p maps positions of b to positions of a, q is its inverse
pub open spec fn perm_pair(a: Seq<Seq<ExtendedHeader>>, b: Seq<Seq<ExtendedHeader>>, p: Seq<int>, q: Seq<int>) -> bool {
    &&& a.len() == b.len() && p.len() == a.len() && q.len() == a.len()
    &&& forall|i: int| 0 <= i < b.len() ==> 0 <= #[trigger] p[i] < a.len() && b[i] == a[p[i]] && q[p[i]] == i
    &&& forall|j: int| 0 <= j < a.len() ==> 0 <= #[trigger] q[j] < b.len() && p[q[j]] == j
}
pub open spec fn sorted_by_first(b: Seq<Seq<ExtendedHeader>>) -> bool {
    forall|i: int, j: int| 0 <= i < j < b.len() ==> (#[trigger] b[i])[0].h <= (#[trigger] b[j])[0].h
}
// slice::sort_unstable_by_key(|span| span.first().expect(..).height()) (A-std): a permutation of the input, ascending by
// the key; every span must be non-empty (the `expect` in the key closure)
#[verifier::external_body]
pub fn vx_sort_spans_by_first_height(responses: &mut Vec<Vec<ExtendedHeader>>)
    requires forall|i: int| 0 <= i < old(responses)@.len() ==> (#[trigger] old(responses)@[i])@.len() > 0
    ensures
        final(responses)@.len() == old(responses)@.len(),
        sorted_by_first(sp_view(final(responses)@)),
        exists|p: Seq<int>, q: Seq<int>| perm_pair(sp_view(old(responses)@), sp_view(final(responses)@), p, q),
{ unimplemented!() }
// concatenation of the spans in order
pub open spec fn flat(b: Seq<Seq<ExtendedHeader>>) -> Seq<ExtendedHeader>
    decreases b.len()
{
    if b.len() == 0 { Seq::empty() } else { flat(b.drop_last()) + b.last() }
}
// into_iter().flatten().collect() (A-std)
#[verifier::external_body]
pub fn vx_flatten(responses: Vec<Vec<ExtendedHeader>>) -> (r: Vec<ExtendedHeader>)
    ensures r@ == flat(sp_view(responses@))
{ unimplemented!() }
pub struct OpaqueFuture { pub height: u64, pub amount: u64 }
impl OpaqueFuture {
    // FutureExt::boxed: the same future behind a Box
    pub fn boxed(self) -> (r: OpaqueFuture) ensures r == self { self }
}
#[verifier::external_body]
pub fn vx_request_future(p2p_cmd_rx: CmdTx, request: HeaderRequest, height: u64, amount: u64) -> (f: OpaqueFuture)
    requires request.origin == height, request.amount == amount
    ensures f.height == height, f.amount == amount
{ unimplemented!() }
pub struct HeaderRequest { pub origin: u64, pub amount: u64 }
impl HeaderRequest {
    #[verifier::external_body]
    pub fn with_origin(height: u64, amount: u64) -> (r: HeaderRequest) ensures r.origin == height, r.amount == amount { unimplemented!() }
}

pub struct HeaderSession {
    pub to_fetch: Option<BlockRange>,
    pub cmd_tx: CmdTx,
    pub tasks: Tasks,
    pub batch_size: u64,
}

// ---------------------------------------------------------------------------
// C26: the requested range [lo, hi] is at every moment partitioned into what is still to be fetched, the requests in
// flight and the spans received: every height is counted exactly once (pointwise counting, no pairwise reasoning)
// ---------------------------------------------------------------------------
pub open spec fn covers(p: (u64, u64), x: int) -> bool { p.0 <= x < p.0 + p.1 }
pub open spec fn cnt_out(s: Seq<(u64, u64)>, x: int) -> int
    decreases s.len()
{
    if s.len() == 0 { 0 } else { cnt_out(s.drop_last(), x) + (if covers(s.last(), x) { 1int } else { 0int }) }
}
pub open spec fn span_ok(v: Seq<ExtendedHeader>) -> bool {
    v.len() > 0 && v[0].h + v.len() - 1 <= u64::MAX && forall|i: int| 0 <= i < v.len() ==> (#[trigger] v[i]).h == v[0].h + i
}
pub open spec fn span_covers(v: Seq<ExtendedHeader>, x: int) -> bool { v.len() > 0 && v[0].h <= x < v[0].h + v.len() }
pub open spec fn cnt_sp(s: Seq<Seq<ExtendedHeader>>, x: int) -> int
    decreases s.len()
{
    if s.len() == 0 { 0 } else { cnt_sp(s.drop_last(), x) + (if span_covers(s.last(), x) { 1int } else { 0int }) }
}
pub open spec fn in_fetch(f: Option<BlockRange>, x: int) -> int { if f.is_some() && r_has(f.unwrap(), x) { 1 } else { 0 } }
pub open spec fn in_range(lo: int, hi: int, x: int) -> int { if lo <= x <= hi { 1 } else { 0 } }

#[verifier::opaque]
pub open spec fn sess_inv(f: Option<BlockRange>, out: Seq<(u64, u64)>, sp: Seq<Seq<ExtendedHeader>>, lo: int, hi: int) -> bool {
    &&& (f.is_some() ==> r_valid(f.unwrap()))
    &&& all_req_ok(out)
    &&& forall|i: int| 0 <= i < sp.len() ==> span_ok(#[trigger] sp[i])
    &&& forall|x: int| in_fetch(f, x) + #[trigger] cnt_out(out, x) + cnt_sp(sp, x) == in_range(lo, hi, x)
}

pub proof fn lemma_cnt_out_push(s: Seq<(u64, u64)>, e: (u64, u64), x: int)
    ensures cnt_out(s.push(e), x) == cnt_out(s, x) + (if covers(e, x) { 1int } else { 0int })
{
    assert(s.push(e).drop_last() =~= s);
}
pub proof fn lemma_cnt_out_remove(s: Seq<(u64, u64)>, k: int, x: int)
    requires 0 <= k < s.len()
    ensures cnt_out(s.remove(k), x) == cnt_out(s, x) - (if covers(s[k], x) { 1int } else { 0int })
    decreases s.len()
{
    if k == s.len() - 1 {
        assert(s.remove(k) =~= s.drop_last());
    } else {
        let t = s.drop_last();
        lemma_cnt_out_remove(t, k, x);
        assert(s.remove(k).drop_last() =~= t.remove(k));
        assert(s.remove(k).last() == s.last());
        assert(t[k] == s[k]);
    }
}
pub proof fn lemma_cnt_sp_push(s: Seq<Seq<ExtendedHeader>>, e: Seq<ExtendedHeader>, x: int)
    ensures cnt_sp(s.push(e), x) == cnt_sp(s, x) + (if span_covers(e, x) { 1int } else { 0int })
{
    assert(s.push(e).drop_last() =~= s);
}
pub proof fn lemma_sp_view_push(r: Seq<Vec<ExtendedHeader>>, v: Vec<ExtendedHeader>)
    ensures sp_view(r.push(v)) =~= sp_view(r).push(v@)
{}
pub proof fn lemma_all_req_ok_remove(s: Seq<(u64, u64)>, k: int)
    requires all_req_ok(s), 0 <= k < s.len()
    ensures all_req_ok(s.remove(k))
{
    let t = s.remove(k);
    assert forall|j: int| 0 <= j < t.len() implies req_ok((#[trigger] t[j]).0, t[j].1) by {
        if j < k { assert(t[j] == s[j]); } else { assert(t[j] == s[j + 1]); }
    }
}
pub proof fn lemma_all_req_ok_push(s: Seq<(u64, u64)>, e: (u64, u64))
    requires all_req_ok(s), req_ok(e.0, e.1)
    ensures all_req_ok(s.push(e))
{
    let t = s.push(e);
    assert forall|j: int| 0 <= j < t.len() implies req_ok((#[trigger] t[j]).0, t[j].1) by {
        if j < s.len() { assert(t[j] == s[j]); }
    }
}
// the start of a fresh session: everything is still to be fetched
pub proof fn lemma_sess_init(r: BlockRange)
    requires r_valid(r)
    ensures sess_inv(Some(r), Seq::empty(), Seq::empty(), r@.start as int, r@.end as int)
{
    reveal(sess_inv);
    assert(all_req_ok(Seq::<(u64, u64)>::empty()));
}
// a batch is cut from the top of what is to be fetched and becomes a request in flight
pub proof fn lemma_step_take(f0: Option<BlockRange>, f1: Option<BlockRange>, out: Seq<(u64, u64)>, sp: Seq<Seq<ExtendedHeader>>, lo: int, hi: int, lim: u64)
    requires
        sess_inv(f0, out, sp, lo, hi), f0.is_some(), 1 <= lim <= MAX_AMOUNT_PER_REQ, is_rest(f0.unwrap(), lim, f1),
    ensures
        sess_inv(f1, out.push((take_start(f0.unwrap(), lim) as u64, (f0.unwrap()@.end - take_start(f0.unwrap(), lim) + 1) as u64)), sp, lo, hi),
        req_ok(take_start(f0.unwrap(), lim) as u64, (f0.unwrap()@.end - take_start(f0.unwrap(), lim) + 1) as u64),
{
    reveal(sess_inv);
    let o = f0.unwrap();
    let e = (take_start(o, lim) as u64, (o@.end - take_start(o, lim) + 1) as u64);
    assert(r_valid(o));
    assert(req_ok(e.0, e.1));
    lemma_all_req_ok_push(out, e);
    assert forall|x: int| in_fetch(f1, x) + #[trigger] cnt_out(out.push(e), x) + cnt_sp(sp, x) == in_range(lo, hi, x) by {
        lemma_cnt_out_push(out, e, x);
        assert(in_fetch(f0, x) + cnt_out(out, x) + cnt_sp(sp, x) == in_range(lo, hi, x));
    }
}
// a request leaves the in-flight set and comes back as: a span (prefix of length n) plus a request for the remainder
pub proof fn lemma_step_resp(f: Option<BlockRange>, out0: Seq<(u64, u64)>, k: int, sp0: Seq<Seq<ExtendedHeader>>, v: Seq<ExtendedHeader>, lo: int, hi: int)
    requires
        sess_inv(f, out0, sp0, lo, hi), 0 <= k < out0.len(), prefix_resp(out0[k].0, out0[k].1, v),
    ensures
        // nothing received: the same request goes out again
        v.len() == 0 ==> sess_inv(f, out0.remove(k).push(out0[k]), sp0, lo, hi),
        // everything received
        v.len() == out0[k].1 ==> sess_inv(f, out0.remove(k), sp0.push(v), lo, hi),
        // a proper prefix received: the remainder is requested
        0 < v.len() < out0[k].1 ==> sess_inv(f, out0.remove(k).push(((out0[k].0 + v.len()) as u64, (out0[k].1 - v.len()) as u64)), sp0.push(v), lo, hi)
            && req_ok((out0[k].0 + v.len()) as u64, (out0[k].1 - v.len()) as u64),
        all_req_ok(out0.remove(k)), req_ok(out0[k].0, out0[k].1),
{
    reveal(sess_inv);
    let (h, a) = out0[k];
    let out1 = out0.remove(k);
    assert(req_ok(out0[k].0, out0[k].1));
    lemma_all_req_ok_remove(out0, k);
    if v.len() == 0 {
        lemma_all_req_ok_push(out1, (h, a));
        assert forall|x: int| in_fetch(f, x) + #[trigger] cnt_out(out1.push((h, a)), x) + cnt_sp(sp0, x) == in_range(lo, hi, x) by {
            lemma_cnt_out_remove(out0, k, x); lemma_cnt_out_push(out1, (h, a), x);
            assert(in_fetch(f, x) + cnt_out(out0, x) + cnt_sp(sp0, x) == in_range(lo, hi, x));
        }
    } else {
        assert(v[0].h == h);
        assert(span_ok(v));
        let sp1 = sp0.push(v);
        assert forall|i: int| 0 <= i < sp1.len() implies span_ok(#[trigger] sp1[i]) by { if i < sp0.len() { assert(sp1[i] == sp0[i]); } }
        if v.len() == a {
            assert forall|x: int| in_fetch(f, x) + #[trigger] cnt_out(out1, x) + cnt_sp(sp1, x) == in_range(lo, hi, x) by {
                lemma_cnt_out_remove(out0, k, x); lemma_cnt_sp_push(sp0, v, x);
                assert(in_fetch(f, x) + cnt_out(out0, x) + cnt_sp(sp0, x) == in_range(lo, hi, x));
            }
        } else {
            let e = ((h + v.len()) as u64, (a - v.len()) as u64);
            assert(req_ok(e.0, e.1));
            lemma_all_req_ok_push(out1, e);
            assert forall|x: int| in_fetch(f, x) + #[trigger] cnt_out(out1.push(e), x) + cnt_sp(sp1, x) == in_range(lo, hi, x) by {
                lemma_cnt_out_remove(out0, k, x); lemma_cnt_out_push(out1, e, x); lemma_cnt_sp_push(sp0, v, x);
                assert(in_fetch(f, x) + cnt_out(out0, x) + cnt_sp(sp0, x) == in_range(lo, hi, x));
            }
        }
    }
}
// a header-ex error: the same request goes out again
pub proof fn lemma_step_err(f: Option<BlockRange>, out0: Seq<(u64, u64)>, k: int, sp0: Seq<Seq<ExtendedHeader>>, lo: int, hi: int)
    requires sess_inv(f, out0, sp0, lo, hi), 0 <= k < out0.len(),
    ensures sess_inv(f, out0.remove(k).push(out0[k]), sp0, lo, hi), all_req_ok(out0.remove(k)), req_ok(out0[k].0, out0[k].1),
{
    reveal(sess_inv);
    let out1 = out0.remove(k);
    assert(req_ok(out0[k].0, out0[k].1));
    lemma_all_req_ok_remove(out0, k);
    lemma_all_req_ok_push(out1, out0[k]);
    assert forall|x: int| in_fetch(f, x) + #[trigger] cnt_out(out1.push(out0[k]), x) + cnt_sp(sp0, x) == in_range(lo, hi, x) by {
        lemma_cnt_out_remove(out0, k, x); lemma_cnt_out_push(out1, out0[k], x);
        assert(in_fetch(f, x) + cnt_out(out0, x) + cnt_sp(sp0, x) == in_range(lo, hi, x));
    }
}

// ---- the end of the session: only spans are left ----
pub proof fn lemma_cnt_sp_facts(s: Seq<Seq<ExtendedHeader>>, x: int)
    ensures
        cnt_sp(s, x) >= 0,
        cnt_sp(s, x) >= 1 ==> exists|i: int| 0 <= i < s.len() && span_covers(#[trigger] s[i], x),
        forall|i: int| 0 <= i < s.len() && span_covers(#[trigger] s[i], x) ==> cnt_sp(s, x) >= 1,
        forall|i: int, j: int| 0 <= i < j < s.len() && span_covers(#[trigger] s[i], x) && span_covers(#[trigger] s[j], x) ==> cnt_sp(s, x) >= 2,
    decreases s.len()
{
    if s.len() > 0 {
        let t = s.drop_last();
        lemma_cnt_sp_facts(t, x);
        if cnt_sp(s, x) >= 1 {
            if span_covers(s.last(), x) { assert(span_covers(s[s.len() - 1], x)); }
            else { let i = choose|i: int| 0 <= i < t.len() && span_covers(#[trigger] t[i], x); assert(t[i] == s[i]); }
        }
        assert forall|i: int| 0 <= i < s.len() && span_covers(#[trigger] s[i], x) implies cnt_sp(s, x) >= 1 by {
            if i < t.len() { assert(t[i] == s[i]); }
        }
        assert forall|i: int, j: int| 0 <= i < j < s.len() && span_covers(#[trigger] s[i], x) && span_covers(#[trigger] s[j], x) implies cnt_sp(s, x) >= 2 by {
            assert(t[i] == s[i]);
            if j < t.len() { assert(t[j] == s[j]); }
        }
    }
}
// what the final lemma needs of a list of spans: exact tiling of [a, hi], stated pointwise
pub open spec fn covered(b: Seq<Seq<ExtendedHeader>>, x: int) -> bool { exists|i: int| 0 <= i < b.len() && #[trigger] span_covers(b[i], x) }
pub open spec fn tiles(b: Seq<Seq<ExtendedHeader>>, a: int, hi: int) -> bool {
    &&& forall|i: int| 0 <= i < b.len() ==> span_ok(#[trigger] b[i])
    &&& forall|i: int, x: int| 0 <= i < b.len() && #[trigger] span_covers(b[i], x) ==> a <= x <= hi
    &&& forall|x: int| a <= x <= hi ==> #[trigger] covered(b, x)
    &&& forall|i: int, j: int, x: int| 0 <= i < b.len() && 0 <= j < b.len() && #[trigger] span_covers(b[i], x) && #[trigger] span_covers(b[j], x) ==> i == j
}
pub proof fn lemma_sess_final(sp: Seq<Seq<ExtendedHeader>>, lo: int, hi: int)
    requires sess_inv(None, Seq::empty(), sp, lo, hi)
    ensures tiles(sp, lo, hi)
{
    reveal(sess_inv);
    assert forall|x: int| cnt_sp(sp, x) == in_range(lo, hi, x) by {
        assert(in_fetch(None::<BlockRange>, x) + cnt_out(Seq::<(u64, u64)>::empty(), x) + cnt_sp(sp, x) == in_range(lo, hi, x));
    }
    assert forall|i: int, x: int| 0 <= i < sp.len() && #[trigger] span_covers(sp[i], x) implies lo <= x <= hi by { lemma_cnt_sp_facts(sp, x); }
    assert forall|x: int| lo <= x <= hi implies #[trigger] covered(sp, x) by { lemma_cnt_sp_facts(sp, x); }
    assert forall|i: int, j: int, x: int| 0 <= i < sp.len() && 0 <= j < sp.len() && #[trigger] span_covers(sp[i], x) && #[trigger] span_covers(sp[j], x) implies i == j by {
        lemma_cnt_sp_facts(sp, x);
        if i < j { } else if j < i { }
    }
}
pub proof fn lemma_tiles_perm(a: Seq<Seq<ExtendedHeader>>, b: Seq<Seq<ExtendedHeader>>, p: Seq<int>, q: Seq<int>, lo: int, hi: int)
    requires tiles(a, lo, hi), perm_pair(a, b, p, q)
    ensures tiles(b, lo, hi)
{
    assert forall|i: int| 0 <= i < b.len() implies span_ok(#[trigger] b[i]) by { assert(b[i] == a[p[i]]); }
    assert forall|i: int, x: int| 0 <= i < b.len() && #[trigger] span_covers(b[i], x) implies lo <= x <= hi by { assert(b[i] == a[p[i]]); assert(span_covers(a[p[i]], x)); }
    assert forall|x: int| lo <= x <= hi implies #[trigger] covered(b, x) by {
        assert(covered(a, x));
        let j = choose|j: int| 0 <= j < a.len() && #[trigger] span_covers(a[j], x);
        assert(b[q[j]] == a[p[q[j]]]);
        assert(span_covers(b[q[j]], x));
    }
    assert forall|i: int, j: int, x: int| 0 <= i < b.len() && 0 <= j < b.len() && #[trigger] span_covers(b[i], x) && #[trigger] span_covers(b[j], x) implies i == j by {
        assert(b[i] == a[p[i]]); assert(b[j] == a[p[j]]);
        assert(span_covers(a[p[i]], x) && span_covers(a[p[j]], x));
        assert(p[i] == p[j]);
        assert(q[p[i]] == i && q[p[j]] == j);
    }
}
// spans sorted by their first height that tile [a, hi] concatenate to exactly a, a+1, ..., hi
pub proof fn lemma_tile_flat(b: Seq<Seq<ExtendedHeader>>, a: int, hi: int)
    requires tiles(b, a, hi), sorted_by_first(b), a <= hi + 1
    ensures flat(b).len() == hi - a + 1, forall|k: int| 0 <= k < flat(b).len() ==> (#[trigger] flat(b)[k]).h == a + k
    decreases b.len()
{
    if b.len() == 0 {
        if a <= hi { assert(covered(b, a)); let i = choose|i: int| 0 <= i < b.len() && #[trigger] span_covers(b[i], a); }
    } else {
        let n = b.len() as int;
        let last = b[n - 1];
        let t = b.drop_last();
        assert(span_ok(last));
        let fl = last[0].h as int;
        assert(span_covers(last, fl));
        assert(a <= fl <= hi);
        // the last span ends at hi
        assert(covered(b, hi));
        let ih = choose|i: int| 0 <= i < b.len() && #[trigger] span_covers(b[i], hi);
        if ih != n - 1 {
            assert(b[ih][0].h <= b[n - 1][0].h);
            assert(span_covers(b[ih], fl));
        }
        assert(span_covers(last, hi));
        assert(fl + last.len() - 1 >= hi);
        if fl + last.len() - 1 > hi { assert(span_covers(last, hi + 1)); }
        assert(fl + last.len() - 1 == hi);
        // the spans before it tile [a, fl - 1]
        assert forall|i: int| 0 <= i < t.len() implies span_ok(#[trigger] t[i]) by { assert(t[i] == b[i]); }
        assert forall|i: int, x: int| 0 <= i < t.len() && #[trigger] span_covers(t[i], x) implies a <= x <= fl - 1 by {
            assert(t[i] == b[i]);
            assert(span_covers(b[i], x));
            if x >= fl {
                assert(b[i][0].h <= b[n - 1][0].h);
                assert(span_ok(b[i]));
                assert(span_covers(b[i], fl));
            }
        }
        assert forall|x: int| a <= x <= fl - 1 implies #[trigger] covered(t, x) by {
            assert(covered(b, x));
            let i = choose|i: int| 0 <= i < b.len() && #[trigger] span_covers(b[i], x);
            assert(i != n - 1);
            assert(t[i] == b[i]);
        }
        assert forall|i: int, j: int, x: int| 0 <= i < t.len() && 0 <= j < t.len() && #[trigger] span_covers(t[i], x) && #[trigger] span_covers(t[j], x) implies i == j by {
            assert(t[i] == b[i]); assert(t[j] == b[j]);
            assert(span_covers(b[i], x) && span_covers(b[j], x));
        }
        assert forall|i: int, j: int| 0 <= i < j < t.len() implies (#[trigger] t[i])[0].h <= (#[trigger] t[j])[0].h by { assert(t[i] == b[i]); assert(t[j] == b[j]); }
        lemma_tile_flat(t, a, fl - 1);
        let f0 = flat(t);
        assert(flat(b) == f0 + last);
        assert forall|k: int| 0 <= k < flat(b).len() implies (#[trigger] flat(b)[k]).h == a + k by {
            if k < f0.len() { assert(flat(b)[k] == f0[k]); } else { assert(flat(b)[k] == last[k - f0.len()]); }
        }
    }
}

impl HeaderSession {
    // what is still to be requested is a valid range, and the batch size is within the protocol's bounds
    pub open spec fn inv(&self) -> bool {
        &&& MIN_AMOUNT_PER_REQ <= self.batch_size <= MAX_AMOUNT_PER_REQ
        &&& self.to_fetch.is_some() ==> r_valid(self.to_fetch.unwrap())
    }

//@fn impl HeaderSession :: new
//@props C26 C27
    pub(crate) fn new(range: BlockRange, cmd_tx: CmdTx) -> (s: HeaderSession)
        // C27: the session is only ever created for a non-empty range (an empty one is re-requested forever)
        requires r_valid(range)
        ensures s.inv(), s.to_fetch == Some(range), s.tasks.outstanding@.len() == 0,
//@sub E9 "FuturesUnordered::new()" => "Tasks::new()"
//@end

//@fn impl HeaderSession :: run
//@props C26 C27
    // termination of the receive loop is NOT claimed (peers may fail forever: liveness)
    #[verifier::exec_allows_no_decreases_clause]
    pub(crate) async fn run(&mut self) -> (r: PResult<Vec<ExtendedHeader>>)
        requires
            // a fresh session (HeaderSession::new): the whole range is still to be fetched, nothing is in flight
            old(self).inv(), old(self).to_fetch.is_some(), old(self).tasks.outstanding@.len() == 0,
        ensures
            // C26: a session that completes returns every height of the range exactly once, in ascending order
            r.is_ok() ==> {
                let range = old(self).to_fetch.unwrap();
                &&& r.unwrap()@.len() == r_len(range)
                &&& forall|k: int| 0 <= k < r.unwrap()@.len() ==> (#[trigger] r.unwrap()@[k]).h == range@.start + k
            },
//@ascribe "let mut responses = Vec::new();" => "let mut responses: Vec<Vec<ExtendedHeader>> = Vec::new();"
//@hint after "let mut responses = Vec::new();"
        let ghost lo = self.to_fetch.unwrap()@.start as int; let ghost hi = self.to_fetch.unwrap()@.end as int;
        proof {
            lemma_sess_init(self.to_fetch.unwrap());
            assert(sp_view(responses@) =~= Seq::<Seq<ExtendedHeader>>::empty());
            assert(self.tasks.outstanding@ =~= Seq::<(u64, u64)>::empty());
        }
//@for 1
//@loop 1
            invariant
                self.inv(), responses@.len() == 0, __i1 <= __i1_end,
                lo == old(self).to_fetch.unwrap()@.start, hi == old(self).to_fetch.unwrap()@.end, lo <= hi,
                sess_inv(self.to_fetch, self.tasks.outstanding@, sp_view(responses@), lo, hi),
                __i1 > 0 ==> (self.to_fetch.is_some() ==> self.tasks.outstanding@.len() > 0),
            decreases __i1_end - __i1
//@loopstart 1
            let ghost f0 = self.to_fetch; let ghost o0 = self.tasks.outstanding@;
//@loopend 1
            proof { if f0.is_some() { lemma_step_take(f0, self.to_fetch, o0, sp_view(responses@), lo, hi, self.batch_size); } }
//@sub E9 "while let Some((height, requested_amount, res)) = self.tasks.next().await {"
        loop
            invariant
                self.inv(),
                lo == old(self).to_fetch.unwrap()@.start, hi == old(self).to_fetch.unwrap()@.end, lo <= hi,
                sess_inv(self.to_fetch, self.tasks.outstanding@, sp_view(responses@), lo, hi),
                // something is in flight as long as something is left to fetch
                self.to_fetch.is_some() ==> self.tasks.outstanding@.len() > 0,
            ensures self.tasks.outstanding@.len() == 0
        {
            let ghost before = self.tasks.outstanding@; let ghost f0 = self.to_fetch; let ghost r0 = responses@;
            let __next = self.tasks.next().await;
            let Some((height, requested_amount, res)) = __next else { break; };
            let ghost k = choose|k: int| 0 <= k < before.len() && #[trigger] before[k] == (height, requested_amount) && self.tasks.outstanding@ == before.remove(k)
                && (res.is_ok() ==> prefix_resp(height, requested_amount, res.unwrap()@));
//@hint before "let headers_len = headers.len() as u64;"
                    let ghost hv = headers@; let ghost f1 = self.to_fetch; let ghost o1 = self.tasks.outstanding@;
                    proof { lemma_step_resp(f0, before, k, sp_view(r0), hv, lo, hi); }
//@hint after "responses.push(headers);"
                        proof { lemma_sp_view_push(r0, headers); }
//@hint after "self.send_next_request().await;" 2
                        proof { if f1.is_some() { lemma_step_take(f1, self.to_fetch, o1, sp_view(responses@), lo, hi, self.batch_size); } }
//@hint before "self.send_request(height, requested_amount).await;"
                    proof { lemma_step_err(f0, before, k, sp_view(r0), lo, hi); }
//@afterloop 2
        proof {
            assert(self.tasks.outstanding@ =~= Seq::<(u64, u64)>::empty());
            lemma_sess_final(sp_view(responses@), lo, hi);
            assert forall|i: int| 0 <= i < responses@.len() implies (#[trigger] responses@[i])@.len() > 0 by { assert(span_ok(sp_view(responses@)[i])); }
        }
        let ghost unsorted = sp_view(responses@);
//@sub E9 "responses.sort_unstable_by_key(|span| { span.first() .expect(\"empty spans aren't added in receiving loop\") .height() });" => "vx_sort_spans_by_first_height(&mut responses);"
//@hint before "Ok(responses.into_iter().flatten().collect())"
        proof {
            // (if the spans were not reordered at all, the identity is the permutation)
            if unsorted != sp_view(responses@) {
                let (p, q) = choose|p: Seq<int>, q: Seq<int>| perm_pair(unsorted, sp_view(responses@), p, q);
                lemma_tiles_perm(unsorted, sp_view(responses@), p, q, lo, hi);
            }
            lemma_tile_flat(sp_view(responses@), lo, hi);
        }
//@sub E9 "responses.into_iter().flatten().collect()" => "vx_flatten(responses)"
//@end

//@fn impl HeaderSession :: send_next_request
//@props C26
    pub(crate) async fn send_next_request(&mut self) -> (unit: ())   // named unit result: Verus attaches an awaited call's postcondition to it
        requires old(self).inv()
        ensures
            final(self).inv(), final(self).batch_size == old(self).batch_size,
            old(self).to_fetch.is_none() ==> final(self).to_fetch.is_none() && final(self).tasks.outstanding@ == old(self).tasks.outstanding@,
            old(self).to_fetch.is_some() ==> {
                let o = old(self).to_fetch.unwrap();
                let lim = old(self).batch_size;
                &&& is_rest(o, lim, final(self).to_fetch)
                &&& final(self).tasks.outstanding@ == old(self).tasks.outstanding@.push((take_start(o, lim) as u64, (o@.end - take_start(o, lim) + 1) as u64))
            },
//@end

//@fn impl HeaderSession :: send_request
//@props C26
    pub(crate) async fn send_request(&mut self, height: u64, amount: u64) -> (unit: ())
        requires amount >= 1, amount <= MAX_AMOUNT_PER_REQ, height >= 1, height + amount - 1 <= u64::MAX
        ensures
            final(self).to_fetch == old(self).to_fetch, final(self).batch_size == old(self).batch_size,
            final(self).tasks.outstanding@ == old(self).tasks.outstanding@.push((height, amount)),
//@opaque "async move {" 1 => "vx_request_future(p2p_cmd_rx, request, height, amount)"
//@end
}

pub open spec fn all_req_ok(s: Seq<(u64, u64)>) -> bool { forall|k: int| 0 <= k < s.len() ==> req_ok((#[trigger] s[k]).0, s[k].1) }

// the batch taken from the top of `o` (`limit` heights, or all of it) and what is left of it
pub open spec fn take_start(o: BlockRange, limit: u64) -> int { if r_len(o) <= limit { o@.start as int } else { o@.end - limit + 1 } }
pub open spec fn is_take(o: BlockRange, limit: u64, b: BlockRange) -> bool { b@.start == take_start(o, limit) && b@.end == o@.end && !b@.exhausted }
pub open spec fn is_rest(o: BlockRange, limit: u64, r: Option<BlockRange>) -> bool {
    if r_len(o) <= limit { r.is_none() } else { r.is_some() && r.unwrap()@.start == o@.start && r.unwrap()@.end == o@.end - limit && !r.unwrap()@.exhausted }
}

//@fn - :: take_next_batch
//@props C26
fn take_next_batch(range_to_fetch: &mut Option<BlockRange>, limit: u64) -> (res: Option<BlockRange>)
    requires old(range_to_fetch).is_some() ==> r_valid(old(range_to_fetch).unwrap())
    ensures
        res.is_none() <==> (limit == 0 || old(range_to_fetch).is_none()),
        res.is_none() ==> *final(range_to_fetch) == *old(range_to_fetch),
        res.is_some() ==> {
            let o = old(range_to_fetch).unwrap(); let b = res.unwrap();
            &&& is_take(o, limit, b) && is_rest(o, limit, *final(range_to_fetch))
            // a non-empty batch of at most `limit` heights taken from the top; the remainder is the rest of the range
            &&& r_valid(b) && r_len(b) <= limit && b@.end == o@.end
            &&& (final(range_to_fetch).is_none() ==> b == o)
            &&& (final(range_to_fetch).is_some() ==> r_valid(final(range_to_fetch).unwrap())
                    && final(range_to_fetch).unwrap()@.start == o@.start && final(range_to_fetch).unwrap()@.end + 1 == b@.start)
        },
//@end

pub struct P2p { pub cmd_tx: CmdTx }
impl P2p {
//@fn impl P2p :: get_verified_headers_range @ node/src/p2p.rs
//@props C27
    pub async fn get_verified_headers_range(&self, from: &ExtendedHeader, amount: u64) -> (r: PResult<Vec<ExtendedHeader>>)
        ensures
            // C27: whatever is returned is the verified chain directly after a valid `from`
            r.is_ok() ==> header_valid(*from) && adjacent_range_ok(*from, r.unwrap()@),
            // ... and it is exactly the `amount` heights following `from`, in order (C26's contract of `run`)
            r.is_ok() ==> r.unwrap()@.len() == amount && forall|k: int| 0 <= k < r.unwrap()@.len() ==> (#[trigger] r.unwrap()@[k]).h == from.h + 1 + k,
//@closure "|_|" 1 => "|_e: TypesError| -> (o: HeaderExError) ensures o is InvalidRequest"
//@closure "|_|" 2 => "|_e: TypesError| -> (o: HeaderExError) ensures o is InvalidResponse"
//@hint before "let mut session = HeaderSession::new(range, self.cmd_tx.clone());"
        // C27: what is requested from the network is exactly the `amount` heights following `from`
        proof { assert(range@.start == from.h + 1 && range@.end == from.h + amount && !range@.exhausted); }
//@closure "|offset|" => "|offset: u64| -> (o: Option<u64>) ensures o.is_some() ==> o.unwrap() == height + offset"
//@end

//@fn impl P2p :: get_unverified_header_range @ node/src/p2p.rs
//@props C27
    pub(crate) async fn get_unverified_header_range(&self, range: BlockRange) -> (r: PResult<Vec<ExtendedHeader>>)
        requires !range@.exhausted, range@.start >= 1,
        ensures
            r.is_ok() ==> r.unwrap()@.len() > 0 && adjacent_range_ok(r.unwrap()@[0], r.unwrap()@.subrange(1, r.unwrap()@.len() as int)),
            r.is_ok() ==> r.unwrap()@.len() == r_len(range) && forall|k: int| 0 <= k < r.unwrap()@.len() ==> (#[trigger] r.unwrap()@[k]).h == range@.start + k,
//@closure "|_|" => "|_e: TypesError| -> (o: HeaderExError) ensures o is InvalidResponse"
//@end
}

} // verus!
fn main() {}
