//@unit shrex
//@serves C09 C16
use vstd::prelude::*;
verus! {
// std specifications not in vstd (A-std)
pub assume_specification<T, F: FnOnce(T) -> bool> [Option::<T>::is_some_and] (o: Option<T>, f: F) -> (r: bool)
    requires o.is_some() ==> f.requires((o.unwrap(),))
    ensures o.is_none() ==> !r, o.is_some() ==> f.ensures((o.unwrap(),), r);
pub assume_specification<T, F: FnOnce(T) -> bool> [Option::<T>::is_none_or] (o: Option<T>, f: F) -> (r: bool)
    requires o.is_some() ==> f.requires((o.unwrap(),))
    ensures o.is_none() ==> r, o.is_some() ==> f.ensures((o.unwrap(),), r);
//@src node/src/p2p/shrex/codec.rs

// ---------------------------------------------------------------------------
// stubs (E9): the extension of an ODS (C08's function, uninterpreted here) and the DAH of an EDS (real code of C01's unit)
// ---------------------------------------------------------------------------
//@const SHARE_SIZE @types/src/consts.rs

#[derive(Clone, Copy, PartialEq, Eq)]
pub enum AppVersion { V1, V2, V3 }
pub struct TypesError {}
pub struct ExtendedDataSquare { pub id: u64 }
// from_ods(ods, app_version): Some(eds) when the ODS is a valid square of valid shares, extended by the erasure code
pub uninterp spec fn eds_from_ods(ods: Seq<Seq<u8>>, v: AppVersion) -> Option<ExtendedDataSquare>;
impl ExtendedDataSquare {
    #[verifier::external_body]
    pub fn from_ods(ods_shares: Vec<Vec<u8>>, app_version: AppVersion) -> (r: Result<ExtendedDataSquare, TypesError>)
        ensures match r {
            Ok(e) => eds_from_ods(ods_shares@.map_values(|s: Vec<u8>| s@), app_version) == Some(e),
            Err(_) => eds_from_ods(ods_shares@.map_values(|s: Vec<u8>| s@), app_version).is_none(),
        }
    { unimplemented!() }
}
#[derive(PartialEq, Eq, Structural)]
pub struct DataAvailabilityHeader { pub roots: u64 }
pub uninterp spec fn dah_of(e: ExtendedDataSquare) -> DataAvailabilityHeader;
impl DataAvailabilityHeader {
    #[verifier::external_body]
    pub fn from_eds(e: &ExtendedDataSquare) -> (r: DataAvailabilityHeader) ensures r == dah_of(*e) { unimplemented!() }
}
// derive(PartialEq) on the DAH: structural comparison of the row and column roots
#[verifier::external_body]
pub fn vx_dah_ne(a: &DataAvailabilityHeader, b: &DataAvailabilityHeader) -> (r: bool) ensures r == (*a != *b) { unimplemented!() }
pub struct EdsId { pub height: u64 }
#[derive(Debug)]
pub enum CodecError { RequestDecode, ResponseDecode, ResponseVerification }
impl CodecError {
    #[verifier::external_body]
    pub fn response_decode_str(s: &str) -> (e: CodecError) ensures e is ResponseDecode { unimplemented!() }
}
impl vstd::std_specs::convert::FromSpecImpl<TypesError> for CodecError {
    open spec fn obeys_from_spec() -> bool { true }
    open spec fn from_spec(e: TypesError) -> CodecError { CodecError::ResponseDecode }
}
impl From<TypesError> for CodecError { fn from(e: TypesError) -> CodecError { CodecError::ResponseDecode } }
#[verifier::external_body]
pub fn vx_to_vec(s: &[u8]) -> (r: Vec<u8>) ensures r@ == s@ { unimplemented!() }

// the payload cut into 512-byte shares, in order
pub open spec fn chunks_of(raw: Seq<u8>, n: int) -> Seq<Seq<u8>>
    decreases n
{
    if n <= 0 { Seq::empty() } else { chunks_of(raw, n - 1).push(raw.subrange((n - 1) * SHARE_SIZE as int, n * SHARE_SIZE as int)) }
}

//@fn impl ResponseCodec for ExtendedDataSquare :: decode_and_verify
//@props C09 C16
fn decode_and_verify(
    raw_data: &[u8],
    _req: &EdsId,
    dah: &DataAvailabilityHeader,
    app_version: AppVersion,
) -> (r: Result<ExtendedDataSquare, CodecError>)
    ensures
        // C09: accepted only if the payload is a non-empty whole number of shares that form an original data square whose
        // extension reproduces the header's DAH exactly; that square is what is returned
        r.is_ok() ==> {
            &&& raw_data@.len() > 0 && raw_data@.len() % (SHARE_SIZE as nat) == 0
            &&& eds_from_ods(chunks_of(raw_data@, raw_data@.len() as int / SHARE_SIZE as int), app_version) == Some(r.unwrap())
            &&& dah_of(r.unwrap()) == *dah
        },
        // ... and conversely such a payload is accepted
        (raw_data@.len() > 0 && raw_data@.len() % (SHARE_SIZE as nat) == 0
            && eds_from_ods(chunks_of(raw_data@, raw_data@.len() as int / SHARE_SIZE as int), app_version).is_some()
            && dah_of(eds_from_ods(chunks_of(raw_data@, raw_data@.len() as int / SHARE_SIZE as int), app_version).unwrap()) == *dah) ==> r.is_ok(),
//@sub E9 "CodecError::response_decode(" all => "CodecError::response_decode_str("
//@sub E9 ".map_err(CodecError::response_decode)?" => "?"
//@sub E9-op "&computed_dah != dah" => "vx_dah_ne(&computed_dah, dah)"
//@sub E7 "for raw_share in raw_data.chunks(SHARE_SIZE) {"
    let ghost nchunks = raw_data@.len() as int / SHARE_SIZE as int;
    let mut __c: usize = 0;
    while __c < raw_data.len() / SHARE_SIZE
        invariant
            __c <= raw_data@.len() / (SHARE_SIZE as nat), raw_data@.len() % (SHARE_SIZE as nat) == 0, nchunks == raw_data@.len() as int / SHARE_SIZE as int,
            ods_shares@.map_values(|s: Vec<u8>| s@) =~= chunks_of(raw_data@, __c as int),
        decreases raw_data@.len() / (SHARE_SIZE as nat) - __c
    {
        // slice::chunks: the __c-th chunk of a payload that is a whole number of chunks
        let raw_share = vstd::slice::slice_subrange(raw_data, __c * SHARE_SIZE, (__c + 1) * SHARE_SIZE);
        __c += 1;
        proof { assert(chunks_of(raw_data@, __c as int) =~= chunks_of(raw_data@, __c as int - 1).push(raw_share@)); }
//@sub E9 "raw_share.to_vec()" => "vx_to_vec(raw_share)"
//@hint after "ods_shares.push(raw_share.to_vec());"
        proof {
            assert(ods_shares@.map_values(|s: Vec<u8>| s@) =~= chunks_of(raw_data@, __c as int));
        }
//@end

} // verus!
fn main() {}
