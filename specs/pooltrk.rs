//@unit pooltrk
//@serves C40
use vstd::prelude::*;
verus! {
//@src node/src/p2p/shrex/pool_tracker.rs

#[verifier::external_body]
fn vx_assert(c: bool) requires c { }
#[verifier::external_body]
fn vx_unreachable() -> ! requires false { unimplemented!() }

pub assume_specification<T, F: FnOnce(T) -> bool> [Option::<T>::is_none_or] (o: Option<T>, f: F) -> (r: bool)
    requires o.is_some() ==> f.requires((o.unwrap(),))
    ensures o.is_none() ==> r, o.is_some() ==> f.ensures((o.unwrap(),), r);
pub assume_specification<T, F: FnOnce(T) -> bool> [Option::<T>::is_some_and] (o: Option<T>, f: F) -> (r: bool)
    requires o.is_some() ==> f.requires((o.unwrap(),))
    ensures o.is_none() ==> !r, o.is_some() ==> f.ensures((o.unwrap(),), r);

// ---------------------------------------------------------------------------
// stubs (E9): ids, the std collections behind abstract views
// ---------------------------------------------------------------------------
//@const ROOT_HASH_WINDOW
#[derive(Clone, Copy, PartialEq, Eq, Structural)]
pub struct PeerId { pub v: u64 }
#[derive(Clone, Copy, PartialEq, Eq, Structural)]
pub struct Hash { pub v: u64 }
pub enum Event { AddPeers(Vec<PeerId>), BlockPeers(Vec<PeerId>) }
#[derive(Debug)]
pub struct StoreError {}
pub enum HeaderTaskError { Timeout(u64), StoreError { height: u64, source: StoreError } }
pub struct ExtendedHeader { pub h: u64, pub data_hash: Option<Hash> }
impl ExtendedHeader {
    #[verifier::external_body]
    pub fn height(&self) -> (r: u64) ensures r == self.h { unimplemented!() }
}
#[derive(Debug)]
pub enum GetPoolError { CandidatesNotValidated, HeightTooOld, HeightNotTracked }
// VecDeque<Event>
pub struct Events { pub g: Ghost<Seq<Event>> }
impl Events {
    pub open spec fn view(&self) -> Seq<Event> { self.g@ }
    #[verifier::external_body]
    pub fn push_back(&mut self, e: Event) ensures final(self)@ == old(self)@.push(e) { unimplemented!() }
}
// HashSet<PeerId>
pub struct Voted { pub g: Ghost<Set<PeerId>> }
impl Voted {
    pub open spec fn view(&self) -> Set<PeerId> { self.g@ }
    #[verifier::external_body]
    pub fn insert(&mut self, p: PeerId) -> (b: bool) ensures final(self)@ == old(self)@.insert(p), b == !old(self)@.contains(p) { unimplemented!() }
    #[verifier::external_body]
    pub fn contains(&self, p: &PeerId) -> (b: bool) ensures b == self@.contains(*p) { unimplemented!() }
    #[verifier::external_body]
    pub fn remove(&mut self, p: &PeerId) -> (b: bool) ensures final(self)@ == old(self)@.remove(*p), b == old(self)@.contains(*p) { unimplemented!() }
}
// E8: `peers.into_iter().collect()`: the voters as a list
#[verifier::external_body]
pub fn vx_voters(v: Voted) -> (r: Vec<PeerId>) ensures r@.to_set() == v@ { unimplemented!() }
// HashMap<Hash, Vec<PeerId>>
pub struct HashPeers { pub g: Ghost<Map<Hash, Seq<PeerId>>> }
impl HashPeers {
    pub open spec fn view(&self) -> Map<Hash, Seq<PeerId>> { self.g@ }
    // `.entry(k).or_insert_with(Vec::new)` / `.entry(k).or_default()`
    #[verifier::external_body]
    pub fn vx_entry_or_new(&mut self, k: Hash) -> (r: &mut Vec<PeerId>)
        ensures r@ == (if old(self)@.contains_key(k) { old(self)@[k] } else { Seq::<PeerId>::empty() }), final(self)@ == old(self)@.insert(k, final(r)@)
    { unimplemented!() }
    #[verifier::external_body]
    pub fn get(&self, k: &Hash) -> (r: Option<&Vec<PeerId>>)
        ensures r.is_some() == self@.contains_key(*k), r.is_some() ==> r.unwrap()@ == self@[*k]
    { unimplemented!() }
    #[verifier::external_body]
    pub fn get_mut(&mut self, k: &Hash) -> (r: Option<&mut Vec<PeerId>>)
        ensures
            !old(self)@.contains_key(*k) ==> r.is_none() && final(self)@ == old(self)@,
            old(self)@.contains_key(*k) ==> r.is_some() && r.unwrap()@ == old(self)@[*k] && final(self)@ == old(self)@.insert(*k, final(r.unwrap())@),
    { unimplemented!() }
    #[verifier::external_body]
    pub fn contains_key(&self, k: &Hash) -> (b: bool) ensures b == self@.contains_key(*k) { unimplemented!() }
    #[verifier::external_body]
    pub fn insert(&mut self, k: Hash, v: Vec<PeerId>) -> (o: Option<Vec<PeerId>>)
        ensures final(self)@ == old(self)@.insert(k, v@)
    { unimplemented!() }
    #[verifier::external_body]
    pub fn remove(&mut self, k: &Hash) -> (o: Option<Vec<PeerId>>)
        ensures final(self)@ == old(self)@.remove(*k), o.is_some() == old(self)@.contains_key(*k), o.is_some() ==> o.unwrap()@ == old(self)@[*k]
    { unimplemented!() }
}
// `Vec::iter()`: the offered peers, in order (std::slice::Iter has no view in the installed vstd)
pub struct PeersIter<'a> { pub v: &'a Vec<PeerId> }
pub trait VxIter {
    spec fn seq(&self) -> Seq<PeerId>;
    fn vx_iter(&self) -> (r: PeersIter<'_>) ensures r.v@ == self.seq();
}
impl VxIter for Vec<PeerId> {
    open spec fn seq(&self) -> Seq<PeerId> { self@ }
    #[verifier::external_body]
    fn vx_iter(&self) -> (r: PeersIter<'_>) { unimplemented!() }
}
// `.unwrap_or_default()` on Option<Vec<PeerId>>
#[verifier::external_body]
pub fn vx_unwrap_or_empty(o: Option<Vec<PeerId>>) -> (r: Vec<PeerId>)
    ensures r@ == (if o.is_some() { o.unwrap()@ } else { Seq::<PeerId>::empty() })
{ unimplemented!() }
#[verifier::external_body]
pub fn vx_clone_peers(v: &Vec<PeerId>) -> (r: Vec<PeerId>) ensures r@ == v@ { unimplemented!() }
// E8: `candidates.values().flat_map(|pool| pool.iter().cloned()).collect()`: every peer under any remaining hash
#[verifier::external_body]
pub fn vx_all_peers(c: &HashPeers) -> (r: Vec<PeerId>)
    ensures forall|p: PeerId| r@.contains(p) <==> exists|h: Hash| c@.contains_key(h) && #[trigger] c@[h].contains(p)
{ unimplemented!() }

pub enum PeerPool {
    Candidates((Voted, HashPeers)),
    Validated(Hash),
}
// HashMap<u64, PeerPool>
pub struct Pools { pub g: Ghost<Map<u64, PeerPool>> }
impl Pools {
    pub open spec fn view(&self) -> Map<u64, PeerPool> { self.g@ }
    #[verifier::external_body]
    pub fn get(&self, k: &u64) -> (r: Option<&PeerPool>)
        ensures r.is_some() == self@.contains_key(*k), r.is_some() ==> *r.unwrap() == self@[*k]
    { unimplemented!() }
    #[verifier::external_body]
    pub fn get_mut(&mut self, k: &u64) -> (r: Option<&mut PeerPool>)
        ensures
            !old(self)@.contains_key(*k) ==> r.is_none() && final(self)@ == old(self)@,
            old(self)@.contains_key(*k) ==> r.is_some() && *r.unwrap() == old(self)@[*k] && final(self)@ == old(self)@.insert(*k, *final(r.unwrap())),
    { unimplemented!() }
    // `.entry(k).or_default()`; PeerPool::default() is an empty candidates pool
    #[verifier::external_body]
    pub fn vx_entry_or_default(&mut self, k: u64) -> (r: &mut PeerPool)
        ensures
            *r == (if old(self)@.contains_key(k) { old(self)@[k] } else { PeerPool::Candidates((Voted { g: Ghost(Set::empty()) }, HashPeers { g: Ghost(Map::empty()) })) }),
            final(self)@ == old(self)@.insert(k, *final(r)),
    { unimplemented!() }
    #[verifier::external_body]
    pub fn contains_key(&self, k: &u64) -> (b: bool) ensures b == self@.contains_key(*k) { unimplemented!() }
    #[verifier::external_body]
    pub fn remove(&mut self, k: &u64) -> (o: Option<PeerPool>)
        ensures final(self)@ == old(self)@.remove(*k), o.is_some() == old(self)@.contains_key(*k), o.is_some() ==> o.unwrap() == old(self)@[*k]
    { unimplemented!() }
}

// the data hash of the validated header the store holds (will hold) at a height
pub uninterp spec fn stored_hash(h: u64) -> Hash;
// C40's premise "data hashes differ across heights"
pub open spec fn hashes_differ() -> bool { forall|a: u64, b: u64| a != b ==> stored_hash(a) != stored_hash(b) }

// the peer announced this hash for a height whose stored header has it
pub open spec fn announced_right(ann: Set<(PeerId, Hash, u64)>, p: PeerId, x: Hash) -> bool {
    exists|h: u64| #[trigger] ann.contains((p, x, h)) && stored_hash(h) == x
}
pub struct PoolTracker {
    pub hash_pools: Pools,
    pub validated_pools: HashPeers,
    pub subjective_head: Option<u64>,
    pub pending_events: Events,
    // ghost (E13): every (peer, data hash, height) announced so far
    pub ann: Ghost<Set<(PeerId, Hash, u64)>>,
}
pub open spec fn stale_of(head: u64) -> u64 { if head >= ROOT_HASH_WINDOW { (head - ROOT_HASH_WINDOW) as u64 } else { 0 } }
impl PoolTracker {
    // E11: pushes the future that waits for the header of `height` (its result reaches `poll`)
    #[verifier::external_body]
    fn queue_get_header_from_store(&mut self, height: u64)
        ensures *final(self) == *old(self)
    { unimplemented!() }

    pub open spec fn inv(&self) -> bool {
        // a validated height points to an existing list and carries the hash of the stored header
        &&& forall|h: u64| #![trigger self.hash_pools@[h]] self.hash_pools@.contains_key(h) && self.hash_pools@[h] is Validated ==>
                self.validated_pools@.contains_key(self.hash_pools@[h]->Validated_0) && self.hash_pools@[h]->Validated_0 == stored_hash(h)
        // whoever sits in a validated list announced that hash for a height whose stored header has it
        &&& forall|x: Hash, i: int| #![trigger self.validated_pools@[x][i]] self.validated_pools@.contains_key(x) && 0 <= i < self.validated_pools@[x].len() ==>
                announced_right(self.ann@, self.validated_pools@[x][i], x)
        // candidates of a height announced exactly that (hash, height)
        &&& forall|h: u64, x: Hash, i: int| #![trigger self.hash_pools@[h]->Candidates_0.1@[x][i]]
                self.hash_pools@.contains_key(h) && self.hash_pools@[h] is Candidates && self.hash_pools@[h]->Candidates_0.1@.contains_key(x) && 0 <= i < self.hash_pools@[h]->Candidates_0.1@[x].len() ==>
                self.ann@.contains((self.hash_pools@[h]->Candidates_0.1@[x][i], x, h))
        // only heights newer than the stale threshold are tracked
        &&& forall|h: u64| #![trigger self.hash_pools@.contains_key(h)] self.hash_pools@.contains_key(h) ==> self.subjective_head.is_some() && h > stale_of(self.subjective_head.unwrap())
    }
}

//@fn - :: stale_height_threshold
//@props C40
fn stale_height_threshold(subjective_head: u64) -> (r: u64)
    ensures r == stale_of(subjective_head)
//@end

impl PoolTracker {
//@fn impl<S> PoolTracker<S> :: get_pool
//@props C40
    pub fn get_pool(&self, height: u64) -> (r: Result<PeersIter<'_>, GetPoolError>)
        requires self.inv()
        ensures
            // offered only from a validated pool: every offered peer announced the data hash of the stored header of some
            // height with that hash - this height, when hashes differ across heights
            r.is_ok() ==> self.hash_pools@.contains_key(height) && self.hash_pools@[height] is Validated && {
                let offered = self.validated_pools@[stored_hash(height)];
                &&& r.unwrap().v@ == offered
                &&& forall|i: int| 0 <= i < offered.len() ==> announced_right(self.ann@, #[trigger] offered[i], stored_hash(height))
                &&& hashes_differ() ==> forall|i: int| 0 <= i < offered.len() ==> self.ann@.contains((#[trigger] offered[i], stored_hash(height), height))
            },
            r is Err ==> match r->Err_0 {
                GetPoolError::CandidatesNotValidated => self.hash_pools@.contains_key(height) && self.hash_pools@[height] is Candidates,
                GetPoolError::HeightTooOld => !self.hash_pools@.contains_key(height) && self.subjective_head.is_some() && height <= stale_of(self.subjective_head.unwrap()),
                GetPoolError::HeightNotTracked => !self.hash_pools@.contains_key(height),
            },
//@closure "|head|" => "|head: u64| -> (b: bool) ensures b == (height <= stale_of(head))"
//@sub E9 ".iter()" => ".vx_iter()"
//@end

//@fn impl<S> PoolTracker<S> :: add_peer_for_hash
//@props C40
    pub fn add_peer_for_hash(&mut self, peer_id: PeerId, data_hash: Hash, height: u64)
        requires old(self).inv()
        ensures
            final(self).inv(),
            final(self).ann@ == old(self).ann@.insert((peer_id, data_hash, height)),
            final(self).subjective_head == old(self).subjective_head,
            // stale heights (and everything before the first validated header) are ignored
            (old(self).subjective_head.is_none() || height <= stale_of(old(self).subjective_head.unwrap())) ==>
                final(self).hash_pools@ == old(self).hash_pools@ && final(self).validated_pools@ == old(self).validated_pools@ && final(self).pending_events@ == old(self).pending_events@,
            // a validated height: the right hash joins the pool, another hash gets the peer blocked
            (old(self).hash_pools@.contains_key(height) && old(self).hash_pools@[height] is Validated) ==> {
                &&& final(self).hash_pools@ == old(self).hash_pools@
                &&& data_hash == stored_hash(height) ==> final(self).validated_pools@ == old(self).validated_pools@.insert(data_hash, old(self).validated_pools@[data_hash].push(peer_id))
                        && final(self).pending_events@.len() == old(self).pending_events@.len() + 1 && final(self).pending_events@.last() is AddPeers && final(self).pending_events@.last()->AddPeers_0@ == seq![peer_id]
                &&& data_hash != stored_hash(height) ==> final(self).validated_pools@ == old(self).validated_pools@
                        && final(self).pending_events@.len() == old(self).pending_events@.len() + 1 && final(self).pending_events@.last() is BlockPeers && final(self).pending_events@.last()->BlockPeers_0@ == seq![peer_id]
            },
            // a second announcement for a height that is not validated yet gets the peer blocked
            (old(self).hash_pools@.contains_key(height) && old(self).hash_pools@[height] is Candidates && old(self).hash_pools@[height]->Candidates_0.0@.contains(peer_id)) ==> {
                &&& final(self).pending_events@.len() == old(self).pending_events@.len() + 1 && final(self).pending_events@.last() is BlockPeers && final(self).pending_events@.last()->BlockPeers_0@ == seq![peer_id]
                &&& final(self).validated_pools@ == old(self).validated_pools@
            },
//@closure "|stale_height|" => "|stale_height: u64| -> (b: bool) ensures b == (height <= stale_height)"
//@sub E9 "self.hash_pools.entry(height).or_default()" => "self.hash_pools.vx_entry_or_default(height)"
//@sub E9 "candidates .entry(data_hash) .or_insert_with(Vec::new) .push(peer_id);" => "candidates.vx_entry_or_new(data_hash).push(peer_id);"
//@sub E9 "self.validated_pools .entry(data_hash) .or_default() .push(peer_id);" => "self.validated_pools.vx_entry_or_new(data_hash).push(peer_id);"
//@hint entry
        self.ann = Ghost(self.ann@.insert((peer_id, data_hash, height)));
        proof { lemma_ann_grows(*old(self), *self); }
        let ghost mid = *self;
//@hint before "return;" 2
                    proof { lemma_add_inv(mid, *self, peer_id, data_hash, height); }
//@hint exit
        proof { lemma_add_inv(mid, *self, peer_id, data_hash, height); }
//@end

//@fn impl<S> PoolTracker<S> :: validate_pool
//@props C40
    fn validate_pool(&mut self, data_hash: Hash, height: u64)
        requires old(self).inv(), data_hash == stored_hash(height)
        ensures
            final(self).inv(), final(self).ann == old(self).ann, final(self).subjective_head == old(self).subjective_head,
            // a candidates pool becomes validated: the peers under the header's hash are offered, all others are blocked
            (old(self).hash_pools@.contains_key(height) && old(self).hash_pools@[height] is Candidates) ==> {
                let cands = old(self).hash_pools@[height]->Candidates_0.1@;
                let good = if cands.contains_key(data_hash) { cands[data_hash] } else { Seq::<PeerId>::empty() };
                &&& final(self).hash_pools@ == old(self).hash_pools@.insert(height, PeerPool::Validated(data_hash))
                &&& final(self).validated_pools@ == old(self).validated_pools@.insert(data_hash, good)
                &&& blocked_others(old(self).pending_events@, final(self).pending_events@, cands.remove(data_hash))
            },
            !(old(self).hash_pools@.contains_key(height) && old(self).hash_pools@[height] is Candidates) ==>
                final(self).hash_pools@ == old(self).hash_pools@ && final(self).validated_pools@ == old(self).validated_pools@ && final(self).pending_events@ == old(self).pending_events@,
//@sub E9 "candidates.remove(&data_hash).unwrap_or_default()" => "vx_unwrap_or_empty(candidates.remove(&data_hash))"
//@sub E9 "validated_peers.clone()" => "vx_clone_peers(&validated_peers)"
//@sub E8 "candidates .values() .flat_map(|pool| pool.iter().cloned()) .collect()" => "vx_all_peers(candidates)"
//@hint before "trace!("
                    let ghost others = candidates@;
                    proof {
                        let any_other = exists|h: Hash| others.contains_key(h) && (#[trigger] others[h]).len() > 0;
                        if any_other {
                            let h = choose|h: Hash| others.contains_key(h) && (#[trigger] others[h]).len() > 0;
                            assert(others[h].contains(others[h][0]));
                            assert(bad_peers@.contains(others[h][0]));
                        }
                        if bad_peers@.len() > 0 {
                            assert(bad_peers@.contains(bad_peers@[0]));
                            let h = choose|h: Hash| others.contains_key(h) && #[trigger] others[h].contains(bad_peers@[0]);
                            assert(others[h].len() > 0);
                        }
                    }
                    let ghost ev_mid = self.pending_events@;
//@hint after "*pool = PeerPool::Validated(data_hash);"
                    proof {
                        assert(ev_mid.subrange(0, old(self).pending_events@.len() as int) =~= old(self).pending_events@);
                        assert(self.pending_events@.subrange(0, old(self).pending_events@.len() as int) =~= old(self).pending_events@);
                    }
//@hint exit
        proof {
            let a = *old(self);
            if a.hash_pools@.contains_key(height) {
                if a.hash_pools@[height] is Candidates {
                    assert(self.hash_pools@ =~= a.hash_pools@.insert(height, PeerPool::Validated(data_hash)));
                } else {
                    assert(self.hash_pools@ =~= a.hash_pools@);
                }
            }
            lemma_validate_inv(a, *self, data_hash, height);
        }
//@end

//@fn impl<S> PoolTracker<S> :: try_update_subjective_head
//@props C40
    fn try_update_subjective_head(&mut self, height: u64)
        requires old(self).inv(), hashes_differ()
        ensures
            final(self).inv(), final(self).ann == old(self).ann, final(self).pending_events == old(self).pending_events,
            // the newest validated height
            final(self).subjective_head == Some(if old(self).subjective_head.is_some() && old(self).subjective_head.unwrap() >= height { old(self).subjective_head.unwrap() } else { height }),
            // pools at or below the stale threshold are dropped, all others kept as they were
            forall|h: u64| #![trigger final(self).hash_pools@.contains_key(h)] final(self).hash_pools@.contains_key(h) <==> old(self).hash_pools@.contains_key(h) && h > stale_of(final(self).subjective_head.unwrap()),
            forall|h: u64| #![trigger final(self).hash_pools@[h]] final(self).hash_pools@.contains_key(h) ==> final(self).hash_pools@[h] == old(self).hash_pools@[h],
//@for 1
//@loop 1
            invariant
                hashes_differ(), old(self).inv(), old(self).subjective_head == Some(old_subjective_head), height > old_subjective_head,
                self.subjective_head == Some(height), self.ann == old(self).ann, self.pending_events == old(self).pending_events,
                to_evict_start == stale_of(old_subjective_head), to_evict_end == stale_of(height), __i1_end == to_evict_end, to_evict_start <= __i1 <= __i1_end, __i1_done ==> __i1 == __i1_end,
                // evicted so far: everything below the cursor (the cursor itself once done)
                forall|h: u64| #![trigger self.hash_pools@.contains_key(h)] self.hash_pools@.contains_key(h) <==> old(self).hash_pools@.contains_key(h) && (h > __i1 || (h == __i1 && !__i1_done)) ,
                forall|h: u64| #![trigger self.hash_pools@[h]] self.hash_pools@.contains_key(h) ==> self.hash_pools@[h] == old(self).hash_pools@[h],
                // validated lists: exactly those of the evicted validated heights are gone
                forall|x: Hash| #![trigger self.validated_pools@.contains_key(x)] self.validated_pools@.contains_key(x) ==> old(self).validated_pools@.contains_key(x) && self.validated_pools@[x] == old(self).validated_pools@[x],
                forall|h: u64| #![trigger old(self).hash_pools@[h]] self.hash_pools@.contains_key(h) && old(self).hash_pools@[h] is Validated ==> self.validated_pools@.contains_key(old(self).hash_pools@[h]->Validated_0),
            decreases (if __i1_done { 0int } else { __i1_end - __i1 + 1 })
//@hint before "for h in to_evict_start..=to_evict_end {"
        proof { assert(to_evict_start <= to_evict_end); }
//@loopend 1
            proof {
                assert forall|k: u64| self.hash_pools@.contains_key(k) && #[trigger] old(self).hash_pools@[k] is Validated implies self.validated_pools@.contains_key(old(self).hash_pools@[k]->Validated_0) by {
                    // the evicted height h carried stored_hash(h); another height carries another hash
                    assert(k != h);
                    assert(old(self).hash_pools@[k]->Validated_0 == stored_hash(k));
                }
            }
//@hint exit
        proof { lemma_evict_inv(*old(self), *self); }
//@end

//@fn impl<S> PoolTracker<S> :: poll
//@props C40
//@block "Err(HeaderTaskError::Timeout(height)) => {"
    // the header of a tracked height did not arrive in time: the pool is dropped and its voters are blocked
    fn poll__on_timeout(&mut self, height: u64)
        requires old(self).inv()
        ensures
            final(self).inv(), final(self).ann == old(self).ann, final(self).subjective_head == old(self).subjective_head,
            final(self).hash_pools@ == old(self).hash_pools@.remove(height), final(self).validated_pools == old(self).validated_pools,
            (old(self).hash_pools@.contains_key(height) && old(self).hash_pools@[height] is Candidates) ==>
                final(self).pending_events@.len() == old(self).pending_events@.len() + 1 && final(self).pending_events@.last() is BlockPeers
                && final(self).pending_events@.last()->BlockPeers_0@.to_set() == old(self).hash_pools@[height]->Candidates_0.0@,
//@sub E8 "peers.into_iter().collect()" => "vx_voters(peers)"
//@sub E11 "continue;" => "return;"
//@hint before "continue;"
                    proof { lemma_evict_inv(*old(self), *self); }
//@end

//@fn impl<S> PoolTracker<S> :: poll
//@props C40
//@block "Err(HeaderTaskError::StoreError { height, source }) => {"
    fn poll__on_store_error(&mut self, height: u64, source: StoreError)
        requires old(self).inv()
        ensures
            final(self).inv(), final(self).ann == old(self).ann, final(self).subjective_head == old(self).subjective_head,
            final(self).hash_pools@ == old(self).hash_pools@.remove(height), final(self).validated_pools == old(self).validated_pools, final(self).pending_events == old(self).pending_events,
//@sub E11 "continue;" => "return;"
//@hint before "continue;"
                    proof { lemma_evict_inv(*old(self), *self); }
//@end

//@fn impl<S> PoolTracker<S> :: poll
//@props C40
//@span "let height = header.height();" "self.validate_pool(data_hash, height);"
    // a header arrived from the store: the subjective head moves, the height's pool is validated with the header's hash
    fn poll__on_header(&mut self, header: ExtendedHeader)
        requires old(self).inv(), hashes_differ(), header.data_hash == Some(stored_hash(header.h))
        ensures
            final(self).inv(), final(self).ann == old(self).ann,
            final(self).subjective_head.is_some() && final(self).subjective_head.unwrap() >= header.h,
            // the height's pool (if still tracked) is validated now
            final(self).hash_pools@.contains_key(header.h) ==> final(self).hash_pools@[header.h] is Validated,
//@sub E9 "header .header .data_hash .expect(\"headers from store must pass validate\")" => "header.data_hash.unwrap()"
//@end
}

// what validate_pool reports about the losers: one BlockPeers event with every peer under another hash (if there is one),
// after the AddPeers event for the winners (if there is one)
pub open spec fn blocked_others(ev0: Seq<Event>, ev1: Seq<Event>, others: Map<Hash, Seq<PeerId>>) -> bool {
    let any_other = exists|h: Hash| others.contains_key(h) && (#[trigger] others[h]).len() > 0;
    &&& ev0.len() <= ev1.len() && ev1.subrange(0, ev0.len() as int) == ev0
    &&& any_other ==> ev1.len() > ev0.len() && ev1.last() is BlockPeers
            && forall|p: PeerId| ev1.last()->BlockPeers_0@.contains(p) <==> exists|h: Hash| others.contains_key(h) && #[trigger] others[h].contains(p)
    &&& !any_other ==> forall|k: int| ev0.len() <= k < ev1.len() ==> !(#[trigger] ev1[k] is BlockPeers)
}
pub proof fn lemma_validate_inv(a: PoolTracker, b: PoolTracker, x: Hash, h: u64)
    requires
        a.inv(), x == stored_hash(h), b.ann == a.ann, b.subjective_head == a.subjective_head,
        a.hash_pools@.contains_key(h) && a.hash_pools@[h] is Candidates ==> {
            let cands = a.hash_pools@[h]->Candidates_0.1@;
            &&& b.hash_pools@ == a.hash_pools@.insert(h, PeerPool::Validated(x))
            &&& b.validated_pools@ == a.validated_pools@.insert(x, if cands.contains_key(x) { cands[x] } else { Seq::<PeerId>::empty() })
        },
        !(a.hash_pools@.contains_key(h) && a.hash_pools@[h] is Candidates) ==> b.hash_pools@ == a.hash_pools@ && b.validated_pools@ == a.validated_pools@,
    ensures b.inv()
{
    if a.hash_pools@.contains_key(h) && a.hash_pools@[h] is Candidates {
        let cands = a.hash_pools@[h]->Candidates_0.1@;
        assert forall|k: u64| b.hash_pools@.contains_key(k) && #[trigger] b.hash_pools@[k] is Validated implies
            b.validated_pools@.contains_key(b.hash_pools@[k]->Validated_0) && b.hash_pools@[k]->Validated_0 == stored_hash(k) by {
            if k != h { assert(a.hash_pools@.contains_key(k) && a.hash_pools@[k] == b.hash_pools@[k]); }
        }
        assert forall|y: Hash, i: int| b.validated_pools@.contains_key(y) && 0 <= i < b.validated_pools@[y].len() implies announced_right(b.ann@, #[trigger] b.validated_pools@[y][i], y) by {
            if y == x {
                assert(cands.contains_key(x));
                assert(a.ann@.contains((a.hash_pools@[h]->Candidates_0.1@[x][i], x, h)));
            } else {
                assert(a.validated_pools@.contains_key(y) && a.validated_pools@[y][i] == b.validated_pools@[y][i]);
                assert(announced_right(a.ann@, a.validated_pools@[y][i], y));
            }
        }
        assert forall|k: u64, y: Hash, i: int| b.hash_pools@.contains_key(k) && b.hash_pools@[k] is Candidates && b.hash_pools@[k]->Candidates_0.1@.contains_key(y) && 0 <= i < b.hash_pools@[k]->Candidates_0.1@[y].len()
            implies b.ann@.contains((#[trigger] b.hash_pools@[k]->Candidates_0.1@[y][i], y, k)) by {
            assert(k != h);
            assert(a.hash_pools@.contains_key(k) && a.hash_pools@[k] == b.hash_pools@[k]);
            assert(a.ann@.contains((a.hash_pools@[k]->Candidates_0.1@[y][i], y, k)));
        }
        assert forall|k: u64| #[trigger] b.hash_pools@.contains_key(k) implies b.subjective_head.is_some() && k > stale_of(b.subjective_head.unwrap()) by {
            assert(a.hash_pools@.contains_key(k));
        }
    } else {
        lemma_same_inv(a, b);
    }
}
pub proof fn lemma_same_inv(a: PoolTracker, b: PoolTracker)
    requires a.inv(), b.ann == a.ann, b.subjective_head == a.subjective_head, b.hash_pools@ == a.hash_pools@, b.validated_pools@ == a.validated_pools@
    ensures b.inv()
{}
// eviction: a sub-map of the pools whose validated heights kept their lists, under a head that makes every kept height fresh
pub proof fn lemma_evict_inv(a: PoolTracker, b: PoolTracker)
    requires
        a.inv(), b.ann == a.ann,
        forall|h: u64| #![trigger b.hash_pools@.contains_key(h)] b.hash_pools@.contains_key(h) ==> a.hash_pools@.contains_key(h) && b.hash_pools@[h] == a.hash_pools@[h] && b.subjective_head.is_some() && h > stale_of(b.subjective_head.unwrap()),
        forall|x: Hash| #![trigger b.validated_pools@.contains_key(x)] b.validated_pools@.contains_key(x) ==> a.validated_pools@.contains_key(x) && b.validated_pools@[x] == a.validated_pools@[x],
        forall|h: u64| #![trigger a.hash_pools@[h]] b.hash_pools@.contains_key(h) && a.hash_pools@[h] is Validated ==> b.validated_pools@.contains_key(a.hash_pools@[h]->Validated_0),
    ensures b.inv()
{
    assert forall|y: Hash, i: int| b.validated_pools@.contains_key(y) && 0 <= i < b.validated_pools@[y].len() implies announced_right(b.ann@, #[trigger] b.validated_pools@[y][i], y) by {
        assert(announced_right(a.ann@, a.validated_pools@[y][i], y));
    }
    assert forall|k: u64, y: Hash, i: int| b.hash_pools@.contains_key(k) && b.hash_pools@[k] is Candidates && b.hash_pools@[k]->Candidates_0.1@.contains_key(y) && 0 <= i < b.hash_pools@[k]->Candidates_0.1@[y].len()
        implies b.ann@.contains((#[trigger] b.hash_pools@[k]->Candidates_0.1@[y][i], y, k)) by {
        assert(a.ann@.contains((a.hash_pools@[k]->Candidates_0.1@[y][i], y, k)));
    }
}

// what add_peer_for_hash does to a tracked, not stale height (the announcement is already recorded in `a.ann`)
pub open spec fn add_step(a: PoolTracker, b: PoolTracker, p: PeerId, x: Hash, h: u64) -> bool {
    let before = if a.hash_pools@.contains_key(h) { a.hash_pools@[h] } else { PeerPool::Candidates((Voted { g: Ghost(Set::empty()) }, HashPeers { g: Ghost(Map::empty()) })) };
    &&& b.ann == a.ann && b.subjective_head == a.subjective_head
    &&& b.hash_pools@.contains_key(h) && b.hash_pools@ == a.hash_pools@.insert(h, b.hash_pools@[h])
    &&& match before {
        PeerPool::Validated(v) => b.hash_pools@[h] == before && (
            if v == x { a.validated_pools@.contains_key(x) ==> b.validated_pools@ == a.validated_pools@.insert(x, a.validated_pools@[x].push(p)) }
            else { b.validated_pools@ == a.validated_pools@ }),
        PeerPool::Candidates((voted, cands)) => b.validated_pools@ == a.validated_pools@ && b.hash_pools@[h] is Candidates && (
            if voted@.contains(p) { b.hash_pools@[h]->Candidates_0.1@ == cands@ }
            else { b.hash_pools@[h]->Candidates_0.1@ == cands@.insert(x, (if cands@.contains_key(x) { cands@[x] } else { Seq::<PeerId>::empty() }).push(p)) }),
    }
}
pub proof fn lemma_add_inv(a: PoolTracker, b: PoolTracker, p: PeerId, x: Hash, h: u64)
    requires a.inv(), a.ann@.contains((p, x, h)), a.subjective_head.is_some() && h > stale_of(a.subjective_head.unwrap()), add_step(a, b, p, x, h)
    ensures b.inv()
{
    let before = if a.hash_pools@.contains_key(h) { a.hash_pools@[h] } else { PeerPool::Candidates((Voted { g: Ghost(Set::empty()) }, HashPeers { g: Ghost(Map::empty()) })) };
    assert forall|k: u64| b.hash_pools@.contains_key(k) && #[trigger] b.hash_pools@[k] is Validated implies
        b.validated_pools@.contains_key(b.hash_pools@[k]->Validated_0) && b.hash_pools@[k]->Validated_0 == stored_hash(k) by {
        assert(a.hash_pools@.contains_key(k) && a.hash_pools@[k] == b.hash_pools@[k]);
    }
    assert forall|y: Hash, i: int| b.validated_pools@.contains_key(y) && 0 <= i < b.validated_pools@[y].len() implies announced_right(b.ann@, #[trigger] b.validated_pools@[y][i], y) by {
        if before is Validated && before->Validated_0 == x && y == x && i == a.validated_pools@[x].len() {
            assert(b.validated_pools@[y][i] == p);
            assert(b.ann@.contains((p, x, h)) && stored_hash(h) == x);
        } else {
            assert(a.validated_pools@.contains_key(y) && a.validated_pools@[y][i] == b.validated_pools@[y][i]);
            assert(announced_right(a.ann@, a.validated_pools@[y][i], y));
        }
    }
    assert forall|k: u64, y: Hash, i: int| b.hash_pools@.contains_key(k) && b.hash_pools@[k] is Candidates && b.hash_pools@[k]->Candidates_0.1@.contains_key(y) && 0 <= i < b.hash_pools@[k]->Candidates_0.1@[y].len()
        implies b.ann@.contains((#[trigger] b.hash_pools@[k]->Candidates_0.1@[y][i], y, k)) by {
        if k == h {
            let cands = before->Candidates_0.1;
            if cands@.contains_key(y) && i < cands@[y].len() {
                assert(b.hash_pools@[k]->Candidates_0.1@[y][i] == cands@[y][i]);
                if a.hash_pools@.contains_key(h) { assert(a.ann@.contains((a.hash_pools@[h]->Candidates_0.1@[y][i], y, h))); }
            }
        } else {
            assert(a.hash_pools@.contains_key(k) && a.hash_pools@[k] == b.hash_pools@[k]);
            assert(a.ann@.contains((a.hash_pools@[k]->Candidates_0.1@[y][i], y, k)));
        }
    }
    assert forall|k: u64| #[trigger] b.hash_pools@.contains_key(k) implies b.subjective_head.is_some() && k > stale_of(b.subjective_head.unwrap()) by {
        if k != h { assert(a.hash_pools@.contains_key(k)); }
    }
}
// more announcements keep the invariant
pub proof fn lemma_ann_grows(a: PoolTracker, b: PoolTracker)
    requires a.inv(), b.hash_pools == a.hash_pools, b.validated_pools == a.validated_pools, b.subjective_head == a.subjective_head, a.ann@.subset_of(b.ann@)
    ensures b.inv()
{
    assert forall|x: Hash, i: int| b.validated_pools@.contains_key(x) && 0 <= i < b.validated_pools@[x].len() implies announced_right(b.ann@, #[trigger] b.validated_pools@[x][i], x) by {
        assert(announced_right(a.ann@, a.validated_pools@[x][i], x));
        let h = choose|h: u64| #[trigger] a.ann@.contains((a.validated_pools@[x][i], x, h)) && stored_hash(h) == x;
        assert(b.ann@.contains((b.validated_pools@[x][i], x, h)));
    }
}
} // verus!
fn main() {}
