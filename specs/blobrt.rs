//@unit blobrt
//@serves C11 C16
//@src types/src/blob/commitment.rs
// C11, byte level: the bytes of every sparse share written by build_sparse_share / split_blob_to_shares, read back by the
// real accessors of types/src/share.rs and by Blob::reconstruct; the round trip is a lemma over those contracts.
use vstd::prelude::*;
verus! {
// A-64bit: usize is 64 bits wide in this unit (see DESIGN C11: on a 32-bit target `shares_needed * 482` can overflow)
global size_of usize == 8;

#[verifier::external_body]
fn vx_assert(c: bool) requires c { }
#[verifier::external_body]
fn vx_unreachable() -> ! requires false { unimplemented!() }
pub assume_specification<T, F: FnOnce(T) -> bool> [Option::<T>::is_some_and] (o: Option<T>, f: F) -> (r: bool)
    requires o.is_some() ==> f.requires((o.unwrap(),))
    ensures o.is_none() ==> !r, o.is_some() ==> f.ensures((o.unwrap(),), r);
pub assume_specification<T, F: FnOnce(T) -> bool> [Option::<T>::is_none_or] (o: Option<T>, f: F) -> (r: bool)
    requires o.is_some() ==> f.requires((o.unwrap(),))
    ensures o.is_none() ==> r, o.is_some() ==> f.ensures((o.unwrap(),), r);
pub assume_specification [usize::div_ceil] (x: usize, rhs: usize) -> (r: usize)
    requires rhs != 0
    ensures r == (if x % rhs == 0 { (x / rhs) as int } else { x / rhs + 1 });

//@const NS_VER_SIZE @ types/src/nmt.rs
//@const NS_ID_SIZE @ types/src/nmt.rs
//@const NS_SIZE @ types/src/nmt.rs
pub mod appconsts {
use super::*;
pub const NAMESPACE_SIZE: usize = NS_SIZE;   // types/src/consts.rs appconsts::NAMESPACE_SIZE
//@const SHARE_SIZE @ types/src/consts.rs
//@const SHARE_INFO_BYTES @ types/src/consts.rs
//@const SEQUENCE_LEN_BYTES @ types/src/consts.rs
//@const SHARE_VERSION_ZERO @ types/src/consts.rs
//@const SHARE_VERSION_ONE @ types/src/consts.rs
//@const MAX_SHARE_VERSION @ types/src/consts.rs
//@const FIRST_SPARSE_SHARE_CONTENT_SIZE @ types/src/consts.rs
//@const CONTINUATION_SPARSE_SHARE_CONTENT_SIZE @ types/src/consts.rs
//@const SIGNER_SIZE @ types/src/consts.rs
}
//@const SHARE_SEQUENCE_LENGTH_OFFSET @ types/src/share.rs
//@const SHARE_SIGNER_OFFSET @ types/src/share.rs

// the text of a formatted message (E4: `format!(..)` -> `vx_fmt()`, arguments not evaluated)
#[derive(Debug)]
pub struct VxStr {}
#[verifier::external_body]
pub fn vx_fmt() -> VxStr { unimplemented!() }
#[derive(Debug)]
pub enum Error {
    MaxShareVersionExceeded(u8), ShareSequenceLenExceeded(usize), MissingSigner, UnsupportedShareVersion(u8), SignerNotSupported,
    InvalidShareSize(usize), InvalidNamespace, MissingShares, ExpectedShareWithSequenceStart, UnexpectedReservedNamespace,
    BlobSharesMetadataMismatch(VxStr), UnexpectedSequenceStart, Validation, Other,
}
type Result<T, E = Error> = std::result::Result<T, E>;

// ---------------------------------------------------------------------------
// stubs (E9): namespaces and addresses are their bytes (C14 / C47 are about the types themselves)
// ---------------------------------------------------------------------------
#[derive(Clone, Copy, PartialEq, Eq, Structural)]
pub struct Namespace { pub v: u64 }
pub uninterp spec fn ns_raw(n: Namespace) -> Seq<u8>;
pub open spec fn ns_bytes(n: Namespace) -> Seq<u8> { if ns_raw(n).len() == NS_SIZE { ns_raw(n) } else { Seq::new(NS_SIZE as nat, |i: int| 0u8) } }
pub uninterp spec fn ns_valid(b: Seq<u8>) -> bool;       // what Namespace::from_raw accepts (C14, Kani)
pub uninterp spec fn ns_reserved(n: Namespace) -> bool;  // Namespace::is_reserved (C14, Kani)
// a Namespace *is* its 29 bytes
pub uninterp spec fn ns_of(b: Seq<u8>) -> Namespace;
pub axiom fn ax_ns_of(a: Namespace)
    ensures ns_of(ns_bytes(a)) == a;
impl Namespace {
    #[verifier::external_body]
    pub fn as_bytes(&self) -> (r: &[u8]) ensures r@ == ns_bytes(*self), r@.len() == NS_SIZE { unimplemented!() }
    #[verifier::external_body]
    pub fn new_unchecked(a: [u8; 29]) -> (r: Namespace) ensures ns_bytes(r) == a@, ns_of(ns_bytes(r)) == r { unimplemented!() }
    #[verifier::external_body]
    pub fn from_raw(b: &[u8]) -> (r: Result<Namespace>)
        ensures r.is_ok() == (b@.len() == NS_SIZE && ns_valid(b@)), r.is_ok() ==> ns_bytes(r.unwrap()) == b@ && ns_of(b@) == r.unwrap()
    { unimplemented!() }
    #[verifier::external_body]
    pub fn is_reserved(&self) -> (b: bool) ensures b == ns_reserved(*self) { unimplemented!() }
    // Namespace::PARITY_SHARE: the maximal namespace, which is (secondary) reserved
    #[verifier::external_body]
    pub fn parity_share() -> (r: Namespace) ensures ns_reserved(r), ns_of(ns_bytes(r)) == r { unimplemented!() }
}
#[derive(Clone, Copy, PartialEq, Eq, Structural)]
pub struct AccAddress { pub v: u64 }
pub uninterp spec fn acc_raw(a: AccAddress) -> Seq<u8>;
pub open spec fn acc_bytes(a: AccAddress) -> Seq<u8> { if acc_raw(a).len() == appconsts::SIGNER_SIZE { acc_raw(a) } else { Seq::new(appconsts::SIGNER_SIZE as nat, |i: int| 0u8) } }
pub uninterp spec fn acc_of(b: Seq<u8>) -> AccAddress;
pub axiom fn ax_acc_of(a: AccAddress)
    ensures acc_of(acc_bytes(a)) == a;
impl AccAddress {
    #[verifier::external_body]
    pub fn as_bytes(&self) -> (r: &[u8]) ensures r@ == acc_bytes(*self), r@.len() == appconsts::SIGNER_SIZE { unimplemented!() }
    // AccAddress::try_from(&[u8]): Ok exactly for 20 bytes
    #[verifier::external_body]
    pub fn try_from(b: &[u8]) -> (r: Result<AccAddress>)
        ensures r.is_ok() == (b@.len() == appconsts::SIGNER_SIZE), r.is_ok() ==> acc_bytes(r.unwrap()) == b@ && acc_of(b@) == r.unwrap()
    { unimplemented!() }
}

// big-endian u32 (bytes::BufMut::put_u32 and u32::from_be_bytes, A-std)
pub open spec fn be32(x: u32) -> Seq<u8> { seq![(x >> 24u32) as u8, (x >> 16u32) as u8, (x >> 8u32) as u8, x as u8] }
pub proof fn lemma_be32_inj(a: u32, b: u32)
    requires be32(a) == be32(b)
    ensures a == b
{
    assert(be32(a)[0] == be32(b)[0] && be32(a)[1] == be32(b)[1] && be32(a)[2] == be32(b)[2] && be32(a)[3] == be32(b)[3]);
    assert(a == b) by(bit_vector)
        requires (a >> 24u32) as u8 == (b >> 24u32) as u8, (a >> 16u32) as u8 == (b >> 16u32) as u8, (a >> 8u32) as u8 == (b >> 8u32) as u8, a as u8 == b as u8;
}
pub open spec fn from_be(b: Seq<u8>) -> u32 { choose|x: u32| be32(x) == b }
pub proof fn lemma_from_be(x: u32)
    ensures from_be(be32(x)) == x
{ lemma_be32_inj(from_be(be32(x)), x); }
// `u32::from_be_bytes(slice.try_into().unwrap())`: panics unless the slice has 4 bytes
#[verifier::external_body]
pub fn vx_u32_from_be(b: &[u8]) -> (r: u32) requires b@.len() == 4 ensures be32(r) == b@ { unimplemented!() }
// `slice.try_into().unwrap()` into a fixed array: panics unless the lengths agree
#[verifier::external_body]
pub fn vx_arr29(b: &[u8]) -> (r: [u8; 29]) requires b@.len() == 29 ensures r@ == b@ { unimplemented!() }
#[verifier::external_body]
pub fn vx_arr512(b: &[u8]) -> (r: [u8; 512]) requires b@.len() == 512 ensures r@ == b@ { unimplemented!() }

// std::io::Cursor<&[u8]> through bytes::Buf
pub struct Cursor { pub pos: usize, pub bytes: Ghost<Seq<u8>> }
impl Cursor {
    #[verifier::external_body]
    pub fn new(data: &[u8]) -> (c: Cursor) ensures c.pos == 0, c.bytes@ == data@ { unimplemented!() }
    #[verifier::external_body]
    pub fn has_remaining(&self) -> (b: bool) ensures b == (self.pos < self.bytes@.len()) { unimplemented!() }
    #[verifier::external_body]
    pub fn remaining(&self) -> (r: usize) ensures r == (if self.pos <= self.bytes@.len() { (self.bytes@.len() - self.pos) as usize } else { 0usize }) { unimplemented!() }
    #[verifier::external_body]
    pub fn position(&self) -> (r: u64) ensures r == self.pos { unimplemented!() }
    #[verifier::external_body]
    pub fn inner_len(&self) -> (r: usize) ensures r == self.bytes@.len() { unimplemented!() }
}
// bytes::BytesMut
pub struct BytesMut { pub g: Ghost<Seq<u8>> }
impl BytesMut {
    pub open spec fn view(&self) -> Seq<u8> { self.g@ }
    #[verifier::external_body]
    pub fn with_capacity(c: usize) -> (b: BytesMut) ensures b@.len() == 0 { unimplemented!() }
    #[verifier::external_body]
    pub fn put_slice(&mut self, s: &[u8]) ensures final(self)@ == old(self)@ + s@ { unimplemented!() }
    #[verifier::external_body]
    pub fn put_u8(&mut self, v: u8) ensures final(self)@ == old(self)@.push(v) { unimplemented!() }
    #[verifier::external_body]
    pub fn put_u32(&mut self, v: u32) ensures final(self)@ == old(self)@ + be32(v) { unimplemented!() }
    #[verifier::external_body]
    pub fn len(&self) -> (r: usize) ensures r == self@.len() { unimplemented!() }
    // grows with the fill byte (only growth is used)
    #[verifier::external_body]
    pub fn resize(&mut self, new_len: usize, v: u8)
        requires new_len >= old(self)@.len()
        ensures final(self)@ == old(self)@ + Seq::new((new_len - old(self)@.len()) as nat, |i: int| v)
    { unimplemented!() }
    #[verifier::external_body]
    pub fn as_slice(&self) -> (r: &[u8]) ensures r@ == self@ { unimplemented!() }
}
// data.copy_to_slice(&mut bytes[a..b]): panics unless a <= b <= bytes.len() and b - a <= data.remaining()
#[verifier::external_body]
fn vx_copy_to_slice(data: &mut Cursor, bytes: &mut BytesMut, a: usize, b: usize)
    requires a <= b <= old(bytes)@.len(), old(data).pos <= old(data).bytes@.len(), b - a <= old(data).bytes@.len() - old(data).pos
    ensures
        final(data).pos == old(data).pos + (b - a), final(data).bytes == old(data).bytes,
        final(bytes)@ == old(bytes)@.subrange(0, a as int) + old(data).bytes@.subrange(old(data).pos as int, old(data).pos + (b - a)) + old(bytes)@.subrange(b as int, old(bytes)@.len() as int),
{ unimplemented!() }

// ---------------------------------------------------------------------------
// the info byte (real code)
// ---------------------------------------------------------------------------
pub struct InfoByte(pub u8);
impl InfoByte {
//@fn impl InfoByte :: new @ types/src/share/info_byte.rs
//@props C11
    pub fn new(version: u8, is_sequence_start: bool) -> (r: Result<Self>)
        ensures r.is_ok() == (version <= appconsts::MAX_SHARE_VERSION),
            r.is_ok() ==> r.unwrap().0 == info_spec(version, is_sequence_start)
//@ascribe "let sequence_start = if is_sequence_start { 1 } else { 0 };" => "let sequence_start: u8 = if is_sequence_start { 1 } else { 0 };"
//@hint before "Ok(Self(prefix + sequence_start))"
            proof { assert((version << 1u8) <= 254 && (version << 1u8) == 2 * version) by(bit_vector) requires version <= 127; }
//@end
//@fn impl InfoByte :: version @ types/src/share/info_byte.rs
//@props C11
    pub fn version(&self) -> (r: u8) ensures r == self.0 / 2
//@hint entry
        proof { let x = self.0; assert(x >> 1u8 == x / 2) by(bit_vector); }
//@end
//@fn impl InfoByte :: is_sequence_start @ types/src/share/info_byte.rs
//@props C11
    pub fn is_sequence_start(&self) -> (r: bool) ensures r == (self.0 % 2 == 1)
//@end
//@fn impl InfoByte :: as_u8 @ types/src/share/info_byte.rs
//@props C11
    pub fn as_u8(&self) -> (r: u8) ensures r == self.0
//@end
//@fn impl InfoByte :: from_raw @ types/src/share/info_byte.rs
//@props C11 C16
    pub(crate) fn from_raw(byte: u8) -> (r: Result<Self>)
        ensures r.is_ok() == (byte / 2 <= appconsts::MAX_SHARE_VERSION), r.is_ok() ==> r.unwrap().0 == byte
//@hint entry
        proof { assert(byte >> 1u8 == byte / 2) by(bit_vector); }
//@end
//@fn impl InfoByte :: from_raw_unchecked @ types/src/share/info_byte.rs
//@props C11
    pub(crate) fn from_raw_unchecked(byte: u8) -> (r: Self) ensures r.0 == byte
//@end
}
// version in the upper seven bits, sequence-start flag in the lowest
pub open spec fn info_spec(version: u8, first: bool) -> u8 { (2 * version + (if first { 1int } else { 0int })) as u8 }

// ---------------------------------------------------------------------------
// the layout of a sparse share (written from the share format, not from the code):
//   namespace (29) | info byte | first share only: sequence length (4, big endian) [| signer (20) for share version 1] | data | zero padding
// ---------------------------------------------------------------------------
pub open spec fn zeros(n: int) -> Seq<u8> { Seq::new((if n >= 0 { n } else { 0 }) as nat, |i: int| 0u8) }
pub open spec fn share_header(ns: Namespace, version: u8, first: bool, total_len: u32, signer: Option<AccAddress>) -> Seq<u8> {
    ns_bytes(ns).push(info_spec(version, first))
        + (if first { be32(total_len) + (if version == appconsts::SHARE_VERSION_ONE && signer.is_some() { acc_bytes(signer.unwrap()) } else { Seq::<u8>::empty() }) } else { Seq::<u8>::empty() })
}
pub open spec fn share_layout(ns: Namespace, version: u8, first: bool, total_len: u32, signer: Option<AccAddress>, chunk: Seq<u8>) -> Seq<u8> {
    let h = share_header(ns, version, first, total_len, signer);
    h + chunk + zeros(appconsts::SHARE_SIZE - h.len() - chunk.len())
}
// room for data in a share
pub open spec fn share_space(first: bool, version: u8) -> int {
    appconsts::SHARE_SIZE as int - NS_SIZE as int - appconsts::SHARE_INFO_BYTES as int
        - (if first { appconsts::SEQUENCE_LEN_BYTES as int + (if version == appconsts::SHARE_VERSION_ONE { appconsts::SIGNER_SIZE as int } else { 0 }) } else { 0 })
}

pub struct Share { pub data: [u8; 512], pub is_parity: bool }
impl Share {
//@fn impl Share :: from_raw @ types/src/share.rs
//@props C11 C16
    pub fn from_raw(data: &[u8]) -> (r: Result<Self>)
        ensures
            r.is_ok() == (data@.len() == appconsts::SHARE_SIZE && ns_valid(data@.subrange(0, NS_SIZE as int)) && data@[NS_SIZE as int] / 2 <= appconsts::MAX_SHARE_VERSION),
            r.is_ok() ==> r.unwrap().data@ == data@ && !r.unwrap().is_parity,
//@sub E9 "data.try_into().unwrap()" => "vx_arr512(data)"
//@end
//@fn impl Share :: is_parity @ types/src/share.rs
//@props C11
    pub fn is_parity(&self) -> (r: bool) ensures r == self.is_parity
//@end
//@fn impl Share :: namespace @ types/src/share.rs
//@props C11 C16
    pub fn namespace(&self) -> (r: Namespace)
        ensures !self.is_parity ==> ns_bytes(r) == self.data@.subrange(0, NS_SIZE as int), self.is_parity ==> ns_reserved(r), ns_of(ns_bytes(r)) == r
//@sub E9 "self.data[..NS_SIZE].try_into().unwrap()" => "vx_arr29(&self.data[..NS_SIZE])"
//@sub E9 "Namespace::PARITY_SHARE" => "Namespace::parity_share()"
//@end
//@fn impl Share :: info_byte @ types/src/share.rs
//@props C11 C16
    pub fn info_byte(&self) -> (r: Option<InfoByte>)
        ensures r.is_some() == !self.is_parity, r.is_some() ==> r.unwrap().0 == self.data@[NS_SIZE as int]
//@end
//@fn impl Share :: sequence_length @ types/src/share.rs
//@props C11 C16
    pub fn sequence_length(&self) -> (r: Option<u32>)
        ensures
            r.is_some() == (!self.is_parity && self.data@[NS_SIZE as int] % 2 == 1),
            r.is_some() ==> be32(r.unwrap()) == self.data@.subrange(30, 34),
//@sub E9 "sequence_length_bytes.try_into().unwrap()," => "sequence_length_bytes"
//@sub E9 "u32::from_be_bytes(" => "vx_u32_from_be("
//@end
//@fn impl Share :: signer @ types/src/share.rs
//@props C11 C16
    pub fn signer(&self) -> (r: Option<AccAddress>)
        ensures
            r.is_some() == (!self.is_parity && self.data@[NS_SIZE as int] % 2 == 1 && self.data@[NS_SIZE as int] / 2 == appconsts::SHARE_VERSION_ONE),
            r.is_some() ==> acc_bytes(r.unwrap()) == self.data@.subrange(34, 54) && acc_of(acc_bytes(r.unwrap())) == r.unwrap(),
//@end
//@fn impl Share :: payload @ types/src/share.rs
//@props C11 C16
    pub fn payload(&self) -> (r: Option<&[u8]>)
        ensures
            r.is_some() == !self.is_parity,
            r.is_some() ==> r.unwrap()@ == self.data@.subrange(
                appconsts::SHARE_SIZE - share_space(self.data@[NS_SIZE as int] % 2 == 1, self.data@[NS_SIZE as int] / 2), appconsts::SHARE_SIZE as int),
//@end
}

//@fn - :: cursor_inner_length
//@props C11
fn cursor_inner_length(cursor: &Cursor) -> (r: usize) ensures r == cursor.bytes@.len()
//@sub E9 "cursor.get_ref().as_ref().len()" => "cursor.inner_len()"
//@end

// how many bytes the share starting at cursor position `pos` takes
pub open spec fn take_len(pos: int, len: int, version: u8) -> int {
    if share_space(pos == 0, version) <= len - pos { share_space(pos == 0, version) } else { len - pos }
}

//@fn - :: build_sparse_share
//@props C11
fn build_sparse_share(
    namespace: Namespace,
    share_version: u8,
    signer: Option<&AccAddress>,
    data: &mut Cursor,
) -> (r: Result<Share>)
    requires old(data).pos < old(data).bytes@.len()
    ensures
        final(data).bytes == old(data).bytes,
        r.is_ok() ==> final(data).pos == old(data).pos + take_len(old(data).pos as int, old(data).bytes@.len() as int, share_version),
        r.is_ok() ==> share_version <= appconsts::MAX_SHARE_VERSION && (old(data).pos == 0 ==> old(data).bytes@.len() <= u32::MAX)
            && (old(data).pos == 0 && share_version == appconsts::SHARE_VERSION_ONE ==> signer.is_some()),
        // the bytes of the share: header, the next piece of the data, zero padding
        r.is_ok() ==> !r.unwrap().is_parity && r.unwrap().data@ == share_layout(namespace, share_version, old(data).pos == 0, old(data).bytes@.len() as u32,
            (if signer.is_some() { Some(*signer.unwrap()) } else { None }),
            old(data).bytes@.subrange(old(data).pos as int, old(data).pos + take_len(old(data).pos as int, old(data).bytes@.len() as int, share_version))),
        // and it only fails for what the share format cannot carry
        (share_version <= appconsts::MAX_SHARE_VERSION && (old(data).pos != 0 || old(data).bytes@.len() <= u32::MAX)
            && (old(data).pos == 0 && share_version == appconsts::SHARE_VERSION_ONE ==> signer.is_some()) && ns_valid(ns_bytes(namespace))) ==> r.is_ok(),
//@sub E9 "let data_len = data_len .try_into() .map_err(|_| Error::ShareSequenceLenExceeded(data_len))?;" => "let data_len: u32 = if data_len <= u32::MAX as usize { data_len as u32 } else { return Err(Error::ShareSequenceLenExceeded(data_len)) };"
//@sub E9 "let signer = signer.as_ref().ok_or(Error::MissingSigner)?;" => "let signer = match signer.as_ref() { Some(s) => s, None => return Err(Error::MissingSigner) };"
//@sub E9 "data.copy_to_slice(&mut bytes[current_size..current_size + read_amount]);" => "vx_copy_to_slice(data, &mut bytes, current_size, current_size + read_amount);"
//@sub E9 "Share::from_raw(&bytes)" => "Share::from_raw(bytes.as_slice())"
//@hint before "// Calculate amount of bytes to read"
    let ghost hdr = bytes@;
//@hint before "Share::from_raw("
    proof {
        let sg: Option<AccAddress> = if signer.is_some() { Some(*signer.unwrap()) } else { None };
        assert(hdr =~= share_header(namespace, share_version, is_first_share, old(data).bytes@.len() as u32, sg));
        let chunk = old(data).bytes@.subrange(old(data).pos as int, old(data).pos + read_amount);
        assert(bytes@ =~= hdr + chunk + zeros(appconsts::SHARE_SIZE - hdr.len() - chunk.len()));
        assert(bytes@.subrange(0, NS_SIZE as int) =~= ns_bytes(namespace));
        assert(bytes@[NS_SIZE as int] == info_spec(share_version, is_first_share));
    }
//@end

// ---------------------------------------------------------------------------
// the whole split: share i carries the i-th piece of the data
// ---------------------------------------------------------------------------
pub open spec fn first_cap(version: u8) -> int { share_space(true, version) }
pub open spec fn off(i: int, version: u8) -> int { if i <= 0 { 0 } else { first_cap(version) + (i - 1) * 482 } }
pub open spec fn clip(x: int, len: int) -> int { if x <= len { x } else { len } }
pub open spec fn piece(d: Seq<u8>, i: int, version: u8) -> Seq<u8> { d.subrange(clip(off(i, version), d.len() as int), clip(off(i + 1, version), d.len() as int)) }
pub open spec fn split_spec(ns: Namespace, version: u8, d: Seq<u8>, signer: Option<AccAddress>, shares: Seq<Share>) -> bool {
    &&& forall|i: int| 0 <= i < shares.len() ==> !(#[trigger] shares[i]).is_parity && shares[i].data@ == share_layout(ns, version, i == 0, d.len() as u32, signer, piece(d, i, version))
    // every share but the last is full; the last one is not empty
    &&& shares.len() >= 1 ==> off(shares.len() - 1, version) < d.len() <= off(shares.len() as int, version)
    &&& shares.len() == 0 ==> d.len() == 0
}

//@fn - :: split_blob_to_shares
//@props C11
fn split_blob_to_shares(
    namespace: Namespace,
    share_version: u8,
    blob_data: &[u8],
    signer: Option<&AccAddress>,
) -> (r: Result<Vec<Share>>)
    ensures
        r.is_ok() ==> split_spec(namespace, share_version, blob_data@, (if signer.is_some() { Some(*signer.unwrap()) } else { None }), r.unwrap()@)
            && blob_data@.len() <= u32::MAX && (blob_data@.len() > 0 ==> share_version <= appconsts::MAX_SHARE_VERSION),
        (share_version <= appconsts::MAX_SHARE_VERSION && blob_data@.len() <= u32::MAX && (share_version == appconsts::SHARE_VERSION_ONE ==> signer.is_some()) && ns_valid(ns_bytes(namespace))) ==> r.is_ok(),
//@ascribe "let mut shares = Vec::new();" => "let mut shares: Vec<Share> = Vec::new(); let ghost d = blob_data@; let ghost sg: Option<AccAddress> = if signer.is_some() { Some(*signer.unwrap()) } else { None };"
//@loop 1
        invariant
            cursor.bytes@ == d, d == blob_data@, cursor.pos <= d.len(),
            sg == (if signer.is_some() { Some(*signer.unwrap()) } else { None }),
            cursor.pos == clip(off(shares@.len() as int, share_version), d.len() as int),
            shares@.len() >= 1 ==> off(shares@.len() - 1, share_version) < d.len(),
            shares@.len() >= 1 ==> d.len() <= u32::MAX && share_version <= appconsts::MAX_SHARE_VERSION,
            forall|i: int| 0 <= i < shares@.len() ==> !(#[trigger] shares@[i]).is_parity && shares@[i].data@ == share_layout(namespace, share_version, i == 0, d.len() as u32, sg, piece(d, i, share_version)),
        decreases cursor.bytes@.len() - cursor.pos
//@hint before "Ok(shares)"
    proof {
        let n = shares@.len() as int;
        if n >= 1 { assert(d.len() <= off(n, share_version)); }
        assert(split_spec(namespace, share_version, d, sg, shares@));
    }
//@loopstart 1
        let ghost k = shares@.len() as int;
        let ghost p0 = cursor.pos as int;
//@loopend 1
        proof {
            assert(p0 == clip(off(k, share_version), d.len() as int));
            assert(p0 == off(k, share_version));
            assert(p0 + take_len(p0, d.len() as int, share_version) == clip(off(k + 1, share_version), d.len() as int));
            assert((p0 == 0) == (k == 0));
        }
//@end

// ---------------------------------------------------------------------------
// reading back (Blob::reconstruct, real code)
// ---------------------------------------------------------------------------
#[derive(Clone, Copy, PartialEq, Eq, Structural)]
pub enum AppVersion { V1, V2, V3, V4, V5, V6, V7 }
pub struct Commitment {}
pub struct Blob { pub namespace: Namespace, pub data: Vec<u8>, pub share_version: u8, pub signer: Option<AccAddress> }
// what Blob::new / Commitment::from_blob reject (share version against the app version, empty data ...): C12's concern
pub uninterp spec fn blob_new_ok(ns: Namespace, d: Seq<u8>, signer: Option<AccAddress>, v: AppVersion) -> bool;
impl Blob {
    // Blob::new is under contract in the blob unit (C12: validation + commitment); here only what it stores
    #[verifier::external_body]
    pub fn new(namespace: Namespace, data: Vec<u8>, signer: Option<AccAddress>, app_version: AppVersion) -> (r: Result<Blob>)
        ensures
            r.is_ok() == blob_new_ok(namespace, data@, signer, app_version),
            r.is_ok() ==> r.unwrap().namespace == namespace && r.unwrap().data@ == data@ && r.unwrap().signer == signer
                && r.unwrap().share_version == (if signer.is_none() { appconsts::SHARE_VERSION_ZERO } else { appconsts::SHARE_VERSION_ONE }),
    { unimplemented!() }
}
// `IntoIterator<Item = &Share>` over a slice of shares
pub struct ShareIter<'a> { pub s: &'a [Share], pub pos: usize }
impl<'a> ShareIter<'a> {
    pub open spec fn rest(&self) -> Seq<Share> { self.s@.subrange(self.pos as int, self.s@.len() as int) }
    #[verifier::external_body]
    pub fn into_iter(self) -> (r: ShareIter<'a>) ensures r == self { unimplemented!() }
    #[verifier::external_body]
    pub fn next(&mut self) -> (r: Option<&'a Share>)
        requires old(self).pos <= old(self).s@.len()
        ensures
            final(self).s == old(self).s, final(self).pos <= final(self).s@.len(),
            old(self).pos < old(self).s@.len() ==> r.is_some() && *r.unwrap() == old(self).s@[old(self).pos as int] && final(self).pos == old(self).pos + 1,
            old(self).pos >= old(self).s@.len() ==> r.is_none() && final(self).pos == old(self).pos,
    { unimplemented!() }
}
pub open spec fn n_shares(len: int, has_signer: bool) -> int {
    let first = if has_signer { appconsts::FIRST_SPARSE_SHARE_CONTENT_SIZE as int - appconsts::SIGNER_SIZE as int } else { appconsts::FIRST_SPARSE_SHARE_CONTENT_SIZE as int };
    if len <= first { 1 }
    else {
        let rest = len - first;
        1 + (if rest % 482 == 0 { rest / 482 } else { rest / 482 + 1 })
    }
}
//@fn - :: shares_needed_for_blob @ types/src/blob.rs
//@props C11
fn shares_needed_for_blob(blob_len: usize, has_signer: bool) -> (r: usize)
    ensures r == n_shares(blob_len as int, has_signer)
//@end

// payload bytes of share i of a sequence, as the accessors see them
pub open spec fn payload_of(s: Share) -> Seq<u8> {
    s.data@.subrange(appconsts::SHARE_SIZE - share_space(s.data@[NS_SIZE as int] % 2 == 1, s.data@[NS_SIZE as int] / 2), appconsts::SHARE_SIZE as int)
}
pub open spec fn payloads(s: Seq<Share>, n: int) -> Seq<u8>
    decreases n
{ if n <= 0 { Seq::<u8>::empty() } else { payloads(s, n - 1) + payload_of(s[n - 1]) } }

// a continuation share of the sequence that `first` starts: same namespace, same share version, not a sequence start
pub open spec fn cont_ok(x: Share, first: Share) -> bool {
    !x.is_parity && x.data@.subrange(0, NS_SIZE as int) == first.data@.subrange(0, NS_SIZE as int) && x.data@[NS_SIZE as int] as int == 2 * (first.data@[NS_SIZE as int] / 2)
}
pub proof fn lemma_payloads_len(s: Seq<Share>, n: int, ver: u8)
    requires 1 <= n <= s.len(), s[0].data@[NS_SIZE as int] % 2 == 1, s[0].data@[NS_SIZE as int] / 2 == ver, forall|i: int| 1 <= i < n ==> cont_ok(#[trigger] s[i], s[0])
    ensures payloads(s, n).len() == share_space(true, ver) + (n - 1) * 482
    decreases n
{
    if n == 1 {
        assert(payloads(s, 0) =~= Seq::<u8>::empty());
    } else {
        lemma_payloads_len(s, n - 1, ver);
        assert(cont_ok(s[n - 1], s[0]));
        let b = s[n - 1].data@[NS_SIZE as int];
        assert(b % 2 == 0 && b / 2 == ver);
    }
}
// what a reconstructed blob is, in terms of the bytes of the shares it was read from
pub open spec fn reconstruct_post(s: Seq<Share>, b: Blob) -> bool {
    let first = s[0];
    let ver = (first.data@[NS_SIZE as int] / 2) as u8;
    let n = n_shares(b.data@.len() as int, b.signer.is_some());
    &&& s.len() >= n >= 1 && !first.is_parity && first.data@[NS_SIZE as int] % 2 == 1
    &&& ns_bytes(b.namespace) == first.data@.subrange(0, NS_SIZE as int) && !ns_reserved(b.namespace)
    &&& b.share_version == ver && (ver == appconsts::SHARE_VERSION_ZERO || ver == appconsts::SHARE_VERSION_ONE)
    &&& b.signer.is_some() == (ver == appconsts::SHARE_VERSION_ONE) && (b.signer.is_some() ==> acc_bytes(b.signer.unwrap()) == first.data@.subrange(34, 54))
    &&& be32(b.data@.len() as u32) == first.data@.subrange(30, 34) && b.data@.len() <= u32::MAX
    // the data: the payloads of the first n shares, cut at the sequence length
    &&& b.data@ == payloads(s, n).take(b.data@.len() as int)
    // the continuation shares belong to the same sequence
    &&& forall|i: int| 1 <= i < n ==> cont_ok(#[trigger] s[i], first)
}
// a well-formed sequence: a first share of a user namespace with share version 0 or 1, enough continuation shares of the same
// namespace and version, and a blob that Blob::new accepts
pub open spec fn reconstruct_accepts(s: Seq<Share>, v: AppVersion) -> bool {
    &&& s.len() >= 1 && !s[0].is_parity && s[0].data@[NS_SIZE as int] % 2 == 1
    &&& {
        let first = s[0];
        let ver = (first.data@[NS_SIZE as int] / 2) as u8;
        let len = from_be(first.data@.subrange(30, 34)) as int;
        let n = n_shares(len, ver == appconsts::SHARE_VERSION_ONE);
        let ns = ns_of(first.data@.subrange(0, NS_SIZE as int));
        let sg = if ver == appconsts::SHARE_VERSION_ONE { Some(acc_of(first.data@.subrange(34, 54))) } else { None };
        &&& ns_bytes(ns) == first.data@.subrange(0, NS_SIZE as int) && !ns_reserved(ns)
        &&& ver == appconsts::SHARE_VERSION_ZERO || ver == appconsts::SHARE_VERSION_ONE
        &&& (ver == appconsts::SHARE_VERSION_ONE ==> acc_bytes(sg.unwrap()) == first.data@.subrange(34, 54))
        &&& s.len() >= n
        &&& forall|i: int| 1 <= i < n ==> cont_ok(#[trigger] s[i], first)
        &&& blob_new_ok(ns, payloads(s, n).take(len), sg, v)
    }
}
impl Blob {
//@fn impl Blob :: reconstruct @ types/src/blob.rs
//@props C11
    pub fn reconstruct<'a>(shares: ShareIter<'a>, app_version: AppVersion) -> (r: Result<Self>)
        requires shares.pos <= shares.s@.len()
        ensures
            r.is_ok() ==> reconstruct_post(shares.rest(), r.unwrap()),
            // and every well-formed sequence that Blob::new accepts is reconstructed
            reconstruct_accepts(shares.rest(), app_version) ==> r.is_ok(),
//@hint entry
        let ghost it0 = shares;
        let ghost s = shares.rest();
//@hint before "let mut data ="
        proof {
            assert(s[0] == *first_share);
            assert(shares_needed <= blob_len as int / 482 + 2);
            lemma_from_be(blob_len);
        }
//@hint before "for _ in 1..shares_needed {"
        proof {
            assert(payloads(s, 0) =~= Seq::<u8>::empty());
            assert(payloads(s, 1) =~= payload_of(s[0]));
        }
//@for 1
//@loop 1
            invariant
                it.s == it0.s, it0.pos <= it.pos <= it.s@.len(), s == it0.rest(), it0 == shares, s.len() >= 1, s[0] == *first_share,
                !first_share.is_parity, first_share.data@[NS_SIZE as int] % 2 == 1, share_version == first_share.data@[NS_SIZE as int] / 2,
                ns_bytes(namespace) == first_share.data@.subrange(0, NS_SIZE as int), !ns_reserved(namespace),
                __i1_end == shares_needed, 1 <= __i1 <= __i1_end,
                it.pos == it0.pos + __i1,
                data@ == payloads(s, __i1 as int),
                forall|i: int| 1 <= i < __i1 ==> cont_ok(#[trigger] s[i], *first_share),
                ns_of(ns_bytes(namespace)) == namespace, from_be(first_share.data@.subrange(30, 34)) == blob_len,
                shares_needed == n_shares(blob_len as int, share_version == appconsts::SHARE_VERSION_ONE),
            decreases __i1_end - __i1
//@loopstart 1
            proof {
                if reconstruct_accepts(s, app_version) {
                    assert(s.len() >= shares_needed);
                    assert(cont_ok(s[__i1 - 1], s[0]));
                    assert(s[__i1 - 1] == it0.s@[it.pos as int]);
                }
            }
//@loopend 1
            proof {
                assert(s[__i1 - 1] == *share);
                if share.is_parity { assert(false); }
                assert(share.data@[NS_SIZE as int] == 2 * share_version);
                assert(cont_ok(s[__i1 - 1], *first_share));
            }
//@hint before "// remove padding"
        proof {
            assert(payloads(s, 1) =~= payload_of(s[0])) by { assert(payloads(s, 0) =~= Seq::<u8>::empty()); }
            lemma_payloads_len(s, shares_needed as int, share_version);
            assert(share_space(true, share_version) + (shares_needed - 1) * 482 >= blob_len);
        }
// the iterator made from the argument shadows it; renamed so that the contract can still name the argument (E9)
//@sub E9 "let mut shares = shares.into_iter();" => "let mut it = shares.into_iter();"
//@sub E9 "shares.next()" all => "it.next()"
//@sub E4 "format!( \"expected namespace ({:?}) got ({:?})\", namespace, share.namespace() )" => "vx_fmt()"
//@sub E4 "format!( \"expected share version ({share_version}) got ({version})\" )" => "vx_fmt()"
//@end
}
// ---------------------------------------------------------------------------
// the round trip, as a lemma over the contracts above: whatever split_blob_to_shares returns for a non-empty blob of a user
// namespace (split_spec), Blob::reconstruct accepts it (reconstruct_accepts, if Blob::new accepts the blob) and what it returns
// (reconstruct_post) is the blob; the number of shares is the reported share count
// ---------------------------------------------------------------------------
pub proof fn lemma_share_fields(ns: Namespace, ver: u8, first: bool, len: u32, signer: Option<AccAddress>, chunk: Seq<u8>)
    requires chunk.len() <= share_space(first, ver), ver == 0 || ver == 1, signer.is_some() == (ver == 1)
    ensures ({
        let x = share_layout(ns, ver, first, len, signer, chunk);
        &&& x.len() == 512 && x.subrange(0, 29) == ns_bytes(ns) && x[29] == info_spec(ver, first)
        &&& first ==> x.subrange(30, 34) == be32(len)
        &&& first && ver == 1 ==> x.subrange(34, 54) == acc_bytes(signer.unwrap())
        &&& x.subrange(512 - share_space(first, ver), 512) == chunk + zeros(share_space(first, ver) - chunk.len())
    })
{
    let x = share_layout(ns, ver, first, len, signer, chunk);
    let h = share_header(ns, ver, first, len, signer);
    assert(h.len() == 512 - share_space(first, ver));
    assert(x.subrange(0, 29) =~= ns_bytes(ns));
    if first { assert(x.subrange(30, 34) =~= be32(len)); }
    if first && ver == 1 { assert(x.subrange(34, 54) =~= acc_bytes(signer.unwrap())); }
    assert(x.subrange(512 - share_space(first, ver), 512) =~= chunk + zeros(share_space(first, ver) - chunk.len()));
}
pub proof fn lemma_payloads_split(ns: Namespace, ver: u8, d: Seq<u8>, signer: Option<AccAddress>, shares: Seq<Share>, k: int)
    requires split_spec(ns, ver, d, signer, shares), 0 <= k <= shares.len(), ver == 0 || ver == 1, signer.is_some() == (ver == 1)
    ensures
        k < shares.len() ==> payloads(shares, k) == d.subrange(0, off(k, ver)),
        k == shares.len() ==> payloads(shares, k).len() >= d.len() && payloads(shares, k).take(d.len() as int) == d,
    decreases k
{
    if k == 0 {
        assert(payloads(shares, 0) =~= d.subrange(0, 0));
        if shares.len() == 0 { assert(payloads(shares, 0).take(0) =~= d); }
    } else {
        lemma_payloads_split(ns, ver, d, signer, shares, k - 1);
        let i = k - 1;
        let x = shares[i];
        assert(!x.is_parity && x.data@ == share_layout(ns, ver, i == 0, d.len() as u32, signer, piece(d, i, ver)));
        assert(off(i, ver) < d.len());
        assert(off(i + 1, ver) - off(i, ver) == share_space(i == 0, ver));
        lemma_share_fields(ns, ver, i == 0, d.len() as u32, signer, piece(d, i, ver));
        assert(x.data@[29] % 2 == 1 <==> i == 0);
        assert(x.data@[29] / 2 == ver);
        assert(payload_of(x) == piece(d, i, ver) + zeros(share_space(i == 0, ver) - piece(d, i, ver).len()));
        assert(payloads(shares, i) == d.subrange(0, off(i, ver)));
        if k < shares.len() {
            assert(off(k, ver) < d.len());
            assert(piece(d, i, ver) == d.subrange(off(i, ver), off(k, ver)));
            assert(payloads(shares, k) =~= d.subrange(0, off(k, ver)));
        } else {
            assert(piece(d, i, ver) == d.subrange(off(i, ver), d.len() as int));
            assert(payloads(shares, k).take(d.len() as int) =~= d);
        }
    }
}
pub proof fn lemma_round_trip(ns: Namespace, ver: u8, d: Seq<u8>, signer: Option<AccAddress>, shares: Seq<Share>, b: Blob, v: AppVersion)
    requires
        split_spec(ns, ver, d, signer, shares), 0 < d.len() <= u32::MAX, ver == 0 || ver == 1, signer.is_some() == (ver == 1), !ns_reserved(ns),
    ensures
        shares.len() == n_shares(d.len() as int, signer.is_some()),
        reconstruct_post(shares, b) ==> b.data@ == d && b.namespace == ns && b.signer == signer && b.share_version == ver,
        blob_new_ok(ns, d, signer, v) ==> reconstruct_accepts(shares, v),
{
    let n = shares.len() as int;
    let len = d.len() as int;
    assert(n >= 1);
    // the count
    if len > first_cap(ver) {
        let rest = len - first_cap(ver);
        assert((n - 1) * 482 >= rest && (n - 2) * 482 < rest);
        lemma_ceil_div_unique(rest, 482, n - 1);
    } else {
        if n >= 2 { assert(off(n - 1, ver) >= first_cap(ver)); }
    }
    assert(n == n_shares(len, signer.is_some()));
    // the fields of every share
    assert forall|i: int| 0 <= i < n implies !(#[trigger] shares[i]).is_parity && shares[i].data@.subrange(0, 29) == ns_bytes(ns)
        && shares[i].data@[29] == info_spec(ver, i == 0) && (i == 0 ==> shares[i].data@.subrange(30, 34) == be32(len as u32))
        && (i == 0 && ver == 1 ==> shares[i].data@.subrange(34, 54) == acc_bytes(signer.unwrap())) by {
        assert(off(i, ver) < len);
        lemma_share_fields(ns, ver, i == 0, len as u32, signer, piece(d, i, ver));
    }
    let first = shares[0];
    assert(first.data@[29] % 2 == 1 && first.data@[29] / 2 == ver);
    assert forall|i: int| 1 <= i < n implies cont_ok(#[trigger] shares[i], first) by {
        assert(shares[i].data@[29] == info_spec(ver, false));
    }
    lemma_payloads_split(ns, ver, d, signer, shares, n);
    ax_ns_of(ns);
    lemma_from_be(len as u32);
    if signer.is_some() { ax_acc_of(signer.unwrap()); }
    if reconstruct_post(shares, b) {
        lemma_be32_inj(b.data@.len() as u32, len as u32);
        assert(b.data@.len() == len);
        assert(b.data@ == d);
        ax_ns_of(b.namespace);
        assert(b.namespace == ns);
        if b.signer.is_some() { ax_acc_of(b.signer.unwrap()); }
        assert(b.signer == signer);
    }
    if blob_new_ok(ns, d, signer, v) {
        assert(payloads(shares, n).take(len) == d);
        assert(reconstruct_accepts(shares, v));
    }
}
pub proof fn lemma_ceil_div_unique(n: int, d: int, q: int)
    requires d > 0, n > 0, q * d >= n, (q - 1) * d < n
    ensures q == (if n % d == 0 { n / d } else { n / d + 1 })
{
    vstd::arithmetic::div_mod::lemma_fundamental_div_mod(n, d);
    vstd::arithmetic::div_mod::lemma_mod_bound(n, d);
    let k = n / d;
    assert(n == d * k + n % d);
    if n % d == 0 {
        assert(q * d >= k * d && (q - 1) * d < k * d) by(nonlinear_arith) requires q * d >= n, (q - 1) * d < n, n == d * k;
        assert(q >= k && q - 1 < k) by(nonlinear_arith) requires q * d >= k * d, (q - 1) * d < k * d, d > 0;
    } else {
        assert(q > k) by(nonlinear_arith) requires q * d >= n, n == d * k + n % d, n % d > 0, d > 0;
        assert(q - 1 <= k) by(nonlinear_arith) requires (q - 1) * d < n, n == d * k + n % d, n % d < d, d > 0;
    }
}
} // verus!
fn main() {}
