//@unit header
//@serves C01 C02 C16 C21
use vstd::prelude::*;
use std::collections::HashMap;
verus! {
//@include commit
//@src types/src/extended_header.rs
//@begin-export

// ---------------------------------------------------------------------------
// more tendermint / celestia types (E9 stubs)
// ---------------------------------------------------------------------------
#[derive(PartialEq, Eq, Clone, Copy, Structural)]
pub struct Version { pub block: u64, pub app: u64 }
pub struct Header {
    pub version: Version, pub chain_id: ChainId, pub height: Height, pub time: Time,
    pub last_block_id: Option<BlockId>, pub data_hash: Option<TmHash>,
    pub validators_hash: TmHash, pub next_validators_hash: TmHash,
    pub rest: u64,   // every other field covered by the header hash (consensus/app/results hashes, proposer, ...)
}
// A-crypto: hashes are uninterpreted and collision free (injectivity axioms below)
pub uninterp spec fn header_hash(h: Header) -> TmHash;
pub uninterp spec fn set_hash(s: Set) -> TmHash;
// the DAH hash IS the simple merkle hash of all row roots followed by all column roots (proved for the real `hash()` below)
pub open spec fn dah_hash(d: DataAvailabilityHeader) -> TmHash { simple_hash_spec(roots_bytes(d)) }
pub uninterp spec fn chain_len(c: ChainId) -> nat;
pub uninterp spec fn default_hash() -> TmHash;
pub uninterp spec fn sig_len(s: Signature) -> nat;

impl Header {
    #[verifier::external_body]
    pub fn hash(&self) -> (r: TmHash) ensures r == header_hash(*self) { unimplemented!() }
}
impl Set {
    #[verifier::external_body]
    pub fn hash(&self) -> (r: TmHash) ensures r == set_hash(*self) { unimplemented!() }
}
impl ChainId {
    #[verifier::external_body]
    pub fn str_len(&self) -> (r: usize) ensures r == chain_len(*self) { unimplemented!() }
}
impl Signature {
    #[verifier::external_body]
    pub fn bytes_len(&self) -> (r: usize) ensures r == sig_len(*self) { unimplemented!() }
}
#[verifier::external_body]
pub fn vx_unwrap_or_default(o: Option<TmHash>) -> (r: TmHash)
    ensures r == (match o { Some(h) => h, None => default_hash() })
{ unimplemented!() }
#[verifier::external_body]
pub fn vx_hash_is_none(h: &TmHash) -> (b: bool) ensures b == (*h == default_hash()) { unimplemented!() }

// local clock (A-clock): read once per call; far enough from the end of representable time that +10s does not overflow
pub uninterp spec fn clock() -> u64;
pub struct Duration { pub d: u64 }
impl Time {
    #[verifier::external_body]
    pub fn now() -> (r: Time) ensures r.v == clock(), clock() < 0x7fff_ffff_ffff_ffff { unimplemented!() }
    #[verifier::external_body]
    pub fn checked_add(self, d: Duration) -> (r: Option<Time>)
        ensures self.v + d.d <= u64::MAX ==> r == Some(Time { v: (self.v + d.d) as u64 }), self.v + d.d > u64::MAX ==> r.is_none()
    { unimplemented!() }
    #[verifier::external_body]
    pub fn after(&self, other: Time) -> (b: bool) ensures b == (self.v > other.v) { unimplemented!() }
    #[verifier::external_body]
    pub fn before(&self, other: Time) -> (b: bool) ensures b == (self.v < other.v) { unimplemented!() }
}
pub const VERIFY_CLOCK_DRIFT: Duration = Duration { d: 10_000_000_000 };  // types/src/extended_header.rs: Duration::from_secs(10), in ns

#[derive(PartialEq, Eq, Clone, Copy, Structural)]
pub enum AppVersion { V1, V2, V3, V4, V5, V6, V7 }
impl AppVersion {
    #[verifier::external_body]
    pub fn from_u64(v: u64) -> (r: Option<AppVersion>) ensures r == (if 1 <= v <= 7 { Some(app_of(v)) } else { None }) { unimplemented!() }
}
pub uninterp spec fn max_width_spec(v: AppVersion) -> usize;
#[verifier::external_body]
pub fn max_extended_square_width(v: AppVersion) -> (r: usize) ensures r == max_width_spec(v) { unimplemented!() }

pub struct NamespacedHash { pub v: u64 }
pub struct DataAvailabilityHeader { pub row_roots: Vec<NamespacedHash>, pub column_roots: Vec<NamespacedHash> }
// simple_hash_from_byte_vectors::<Sha256> over the 90-byte arrays of the roots (A-crypto: uninterpreted, collision free)
pub uninterp spec fn nh_array(h: NamespacedHash) -> Seq<u8>;
pub uninterp spec fn simple_hash_spec(items: Seq<Seq<u8>>) -> TmHash;
pub open spec fn vviews(s: Seq<Vec<u8>>) -> Seq<Seq<u8>> { Seq::new(s.len(), |i: int| s[i]@) }
pub open spec fn arrays(s: Seq<NamespacedHash>) -> Seq<Seq<u8>> { Seq::new(s.len(), |i: int| nh_array(s[i])) }
pub open spec fn roots_bytes(d: DataAvailabilityHeader) -> Seq<Seq<u8>> {
    arrays(d.row_roots@) + arrays(d.column_roots@)
}
impl NamespacedHash {
    #[verifier::external_body]
    pub fn to_array(&self) -> (r: Vec<u8>) ensures r@ == nh_array(*self) { unimplemented!() }
}
#[verifier::external_body]
pub fn vx_simple_hash_sha256(items: &Vec<Vec<u8>>) -> (r: TmHash)
    ensures r == simple_hash_spec(vviews(items@))
{ unimplemented!() }
impl DataAvailabilityHeader {
//@fn impl DataAvailabilityHeader :: hash @ types/src/data_availability_header.rs
//@props C01
    pub fn hash(&self) -> (r: TmHash)
        ensures r == simple_hash_spec(roots_bytes(*self)), r == dah_hash(*self)
//@sub E8 "let all_roots: Vec<_> = self .row_roots .iter() .chain(self.column_roots.iter()) .map(|root| root.to_array()) .collect();"
        let mut all_roots: Vec<Vec<u8>> = Vec::new();
        let mut __a: usize = 0;
        while __a < self.row_roots.len()
            invariant __a <= self.row_roots@.len(),
                vviews(all_roots@) == arrays(self.row_roots@.subrange(0, __a as int)),
            decreases self.row_roots@.len() - __a
        {
            let root = &self.row_roots[__a]; __a += 1;
            let ghost prev = all_roots@;
            all_roots.push(root.to_array());
            proof {
                let tgt = arrays(self.row_roots@.subrange(0, __a as int));
                let tprev = arrays(self.row_roots@.subrange(0, __a as int - 1));
                assert(vviews(prev) == tprev);
                assert forall|i: int| 0 <= i < tgt.len() implies vviews(all_roots@)[i] == tgt[i] by {
                    if i < prev.len() { assert(all_roots@[i] == prev[i]); assert(vviews(prev)[i] == tprev[i]); }
                }
                assert(vviews(all_roots@) =~= tgt);
            }
        }
        let mut __b: usize = 0;
        while __b < self.column_roots.len()
            invariant __b <= self.column_roots@.len(),
                vviews(all_roots@) == arrays(self.row_roots@)
                    + arrays(self.column_roots@.subrange(0, __b as int)),
            decreases self.column_roots@.len() - __b
        {
            let root = &self.column_roots[__b]; __b += 1;
            let ghost prev = all_roots@;
            all_roots.push(root.to_array());
            proof {
                let tgt = arrays(self.row_roots@) + arrays(self.column_roots@.subrange(0, __b as int));
                let tprev = arrays(self.row_roots@) + arrays(self.column_roots@.subrange(0, __b as int - 1));
                assert(vviews(prev) == tprev);
                assert forall|i: int| 0 <= i < tgt.len() implies vviews(all_roots@)[i] == tgt[i] by {
                    if i < prev.len() { assert(all_roots@[i] == prev[i]); assert(vviews(prev)[i] == tprev[i]); }
                }
                assert(vviews(all_roots@) =~= tgt);
            }
        }
        proof {
            assert(self.row_roots@.subrange(0, self.row_roots@.len() as int) =~= self.row_roots@);
            assert(self.column_roots@.subrange(0, self.column_roots@.len() as int) =~= self.column_roots@);
        }
//@sub E9 "Hash::Sha256(simple_hash_from_byte_vectors::<Sha256>(&all_roots))" => "vx_simple_hash_sha256(&all_roots)"
//@end
}

pub struct ExtendedHeader { pub header: Header, pub commit: Commit, pub validator_set: Set, pub dah: DataAvailabilityHeader }

//@const GENESIS_HEIGHT @ types/src/block.rs
//@const MAX_CHAIN_ID_LEN @ types/src/consts.rs
//@const MIN_SQUARE_SIZE @ types/src/consts.rs
pub const MIN_EXTENDED_SQUARE_WIDTH: usize = MIN_SQUARE_SIZE * 2;   // types/src/consts.rs (data_availability_header): super::appconsts::MIN_SQUARE_SIZE * 2
//@const BLOCK_PROTOCOL @ types/src/consts.rs
pub const SIGNATURE_LENGTH: usize = 64;  // tendermint::signature::SIGNATURE_LENGTH

// ---------------------------------------------------------------------------
// basic validation predicates, written from the property statement
// ---------------------------------------------------------------------------
pub open spec fn hdr_basic(h: Header) -> bool {
    &&& h.version.block == BLOCK_PROTOCOL
    &&& chain_len(h.chain_id) <= MAX_CHAIN_ID_LEN
    &&& h.height.v != 0
    &&& (h.height.v == GENESIS_HEIGHT ==> h.last_block_id.is_none())
    &&& (h.height.v != GENESIS_HEIGHT ==> h.last_block_id.is_some())
}
pub open spec fn sig_basic(s: CommitSig) -> bool {
    match s {
        CommitSig::BlockIdFlagAbsent => true,
        CommitSig::BlockIdFlagCommit { signature, .. } => signature.is_some() && sig_len(signature.unwrap()) == SIGNATURE_LENGTH,
        CommitSig::BlockIdFlagNil { signature, .. } => signature.is_some() && sig_len(signature.unwrap()) == SIGNATURE_LENGTH,
    }
}
pub open spec fn id_is_zero(id: BlockId) -> bool {
    id.hash == default_hash() && id.part_set_header.hash == default_hash() && id.part_set_header.total == 0
}
pub open spec fn commit_basic(c: Commit) -> bool {
    c.height.v >= GENESIS_HEIGHT ==> {
        &&& !id_is_zero(c.block_id)
        &&& c.signatures@.len() > 0
        &&& forall|i: int| 0 <= i < c.signatures@.len() ==> sig_basic(#[trigger] c.signatures@[i])
    }
}
pub open spec fn set_basic(s: Set) -> bool { s.validators_@.len() > 0 && s.proposer_.is_some() }
pub open spec fn dah_basic(d: DataAvailabilityHeader, v: AppVersion) -> bool {
    &&& d.column_roots@.len() == d.row_roots@.len()
    &&& d.row_roots@.len() >= MIN_EXTENDED_SQUARE_WIDTH
    &&& d.row_roots@.len() <= max_width_spec(v)
}

pub trait ValidateBasic {
    spec fn basic_ok(&self) -> bool;
    fn validate_basic(&self) -> (r: std::result::Result<(), ValidationError>)
        ensures r.is_ok() == self.basic_ok();
}

impl ValidateBasic for Header {
    open spec fn basic_ok(&self) -> bool { hdr_basic(*self) }
//@fn impl ValidateBasic for Header :: validate_basic @ types/src/block/header.rs
//@props C01
//@macro bail_validation => return Err(ValidationError::Other)
    fn validate_basic(&self) -> (r: std::result::Result<(), ValidationError>)
//@sub E9 "self.chain_id.as_str().len()" all => "self.chain_id.str_len()"
//@sub E9 "version::BLOCK_PROTOCOL" all => "BLOCK_PROTOCOL"
//@end
}

//@fn - :: is_zero @ types/src/block/commit.rs
//@props C01
fn is_zero(id: &BlockId) -> (b: bool)
    ensures b == id_is_zero(*id)
//@sub E9 "matches!(id.hash, Hash::None)" => "vx_hash_is_none(&id.hash)"
//@sub E9 "matches!(id.part_set_header.hash, Hash::None)" => "vx_hash_is_none(&id.part_set_header.hash)"
//@end

impl ValidateBasic for CommitSig {
    open spec fn basic_ok(&self) -> bool { sig_basic(*self) }
//@fn impl ValidateBasic for CommitSig :: validate_basic @ types/src/block/commit.rs
//@props C01
//@macro bail_validation => return Err(ValidationError::Other)
    fn validate_basic(&self) -> (r: std::result::Result<(), ValidationError>)
//@sub E9 "signature.as_bytes().is_empty()" => "(signature.bytes_len() == 0)"
//@sub E9 "signature.as_bytes().len()" all => "signature.bytes_len()"
//@end
}

impl ValidateBasic for Commit {
    open spec fn basic_ok(&self) -> bool { commit_basic(*self) }
//@fn impl ValidateBasic for Commit :: validate_basic @ types/src/block/commit.rs
//@props C01
//@macro bail_validation => return Err(ValidationError::Other)
    fn validate_basic(&self) -> (r: std::result::Result<(), ValidationError>)
//@for 1
//@loop 1
                invariant
                    __i1 <= self.signatures@.len(), self.height.v >= GENESIS_HEIGHT,
                    forall|i: int| 0 <= i < __i1 ==> sig_basic(#[trigger] self.signatures@[i]),
                decreases self.signatures@.len() - __i1
//@hint before "commit_sig.validate_basic()?;"
                proof { if !sig_basic(self.signatures@[__i1 - 1]) { assert(!commit_basic(*self)); } }
//@end
}

impl ValidateBasic for Set {
    open spec fn basic_ok(&self) -> bool { set_basic(*self) }
//@fn impl ValidateBasic for Set :: validate_basic @ types/src/validator_set.rs
//@props C01
//@macro bail_validation => return Err(ValidationError::Other)
    fn validate_basic(&self) -> (r: std::result::Result<(), ValidationError>)
//@end
}

impl DataAvailabilityHeader {
//@fn impl ValidateBasicWithAppVersion for DataAvailabilityHeader :: validate_basic @ types/src/data_availability_header.rs
//@props C01
//@macro bail_validation => return Err(ValidationError::Other)
    fn validate_basic(&self, app_version: AppVersion) -> (r: std::result::Result<(), ValidationError>)
        ensures r.is_ok() == dah_basic(*self, app_version)
//@end
}

// ---------------------------------------------------------------------------
// C01: what `validate` accepts, written from the property statement
// ---------------------------------------------------------------------------
pub open spec fn light_ok(s: Set, chain: ChainId, height: Height, c: Commit) -> bool {
    &&& s.validators_@.len() == c.signatures@.len()
    &&& height == c.height
    &&& 3 * tally(s, c, chain, s.validators_@.len() as int) > 2 * s.total
}
pub open spec fn validate_core(e: ExtendedHeader) -> bool {
    &&& hdr_basic(e.header) && commit_basic(e.commit) && set_basic(e.validator_set)
    &&& set_hash(e.validator_set) == e.header.validators_hash
    &&& dah_hash(e.dah) == (match e.header.data_hash { Some(h) => h, None => default_hash() })
    &&& e.commit.height.v == e.header.height.v
    &&& e.commit.block_id.hash == header_hash(e.header)
    &&& light_ok(e.validator_set, e.header.chain_id, e.header.height, e.commit)
    &&& 1 <= e.header.version.app <= 7
    &&& dah_basic(e.dah, app_of(e.header.version.app))
}
pub open spec fn app_of(v: u64) -> AppVersion {
    if v == 1 { AppVersion::V1 } else if v == 2 { AppVersion::V2 } else if v == 3 { AppVersion::V3 } else if v == 4 { AppVersion::V4 }
    else if v == 5 { AppVersion::V5 } else if v == 6 { AppVersion::V6 } else { AppVersion::V7 }
}

// adjacency as used by C02 / C21
pub open spec fn hdr_time(e: ExtendedHeader) -> u64 { e.header.time.v }
pub open spec fn last_hash(e: ExtendedHeader) -> TmHash {
    match e.header.last_block_id { Some(b) => b.hash, None => default_hash() }
}
pub open spec fn trusting_ok(t: ExtendedHeader, u: ExtendedHeader) -> bool {
    exists|mask: Seq<bool>| #![trigger msum(t.validator_set.validators_@, mask, t.validator_set.validators_@.len() as int)] {
        &&& mask.len() == t.validator_set.validators_@.len()
        &&& msum(t.validator_set.validators_@, mask, t.validator_set.validators_@.len() as int) * 3 > 1 * t.validator_set.total
        &&& forall|k: int| 0 <= k < mask.len() && #[trigger] mask[k] ==> exists|i: int| 0 <= i < u.commit.signatures@.len() && trusted_signer(t.validator_set, u.commit, t.header.chain_id, i, k)
    }
}
pub open spec fn verify_ok(t: ExtendedHeader, u: ExtendedHeader) -> bool {
    &&& u.header.height.v > t.header.height.v
    &&& u.header.chain_id == t.header.chain_id
    &&& hdr_time(u) > hdr_time(t)
    &&& hdr_time(u) < clock() + VERIFY_CLOCK_DRIFT.d
    &&& (u.header.height.v == t.header.height.v + 1 ==> u.header.validators_hash == t.header.next_validators_hash && last_hash(u) == t.commit.block_id.hash)
    &&& (u.header.height.v != t.header.height.v + 1 ==> trusting_ok(t, u))
}
pub open spec fn link_ok(t: ExtendedHeader, us: Seq<ExtendedHeader>, i: int) -> bool {
    &&& verify_ok(if i == 0 { t } else { us[i - 1] }, us[i])
    &&& (i > 0 ==> us[i].header.height.v == us[i - 1].header.height.v + 1)
}
pub open spec fn range_ok(t: ExtendedHeader, us: Seq<ExtendedHeader>, n: int) -> bool {
    forall|i: int| 0 <= i < n ==> #[trigger] link_ok(t, us, i)
}
// A-tendermint: heights are bounded by i64::MAX; validator sets satisfy their constructor invariant
pub open spec fn eh_inv(e: ExtendedHeader) -> bool { e.header.height.v <= 0x7fff_ffff_ffff_ffff && set_valid(e.validator_set) }

// protobuf decoding (prost + tendermint TryFrom conversions): opaque relation; decoded values satisfy the tendermint invariants (A-prost, A-tendermint)
pub uninterp spec fn decoded_from(bytes: Seq<u8>, e: ExtendedHeader) -> bool;
impl ExtendedHeader {
    #[verifier::external_body]
    pub fn decode(bytes: &[u8]) -> (r: Result<ExtendedHeader>)
        ensures r.is_ok() ==> decoded_from(bytes@, r.unwrap()) && eh_inv(r.unwrap())
    { unimplemented!() }

//@fn impl ExtendedHeader :: decode_and_validate
//@props C01 C16 C28
    pub fn decode_and_validate(bytes: &[u8]) -> (res: Result<Self>)
        ensures res.is_ok() ==> decoded_from(bytes@, res.unwrap()) && validate_core(res.unwrap())
//@end

//@fn impl ExtendedHeader :: chain_id
//@props C02
    pub fn chain_id(&self) -> (r: &ChainId) ensures *r == self.header.chain_id
//@end
//@fn impl ExtendedHeader :: height
//@props C01 C02
    pub fn height(&self) -> (r: u64) ensures r == self.header.height.v
//@end
//@fn impl ExtendedHeader :: time
//@props C02
    pub fn time(&self) -> (r: Time) ensures r == self.header.time
//@end
//@fn impl ExtendedHeader :: hash
//@props C02
    pub fn hash(&self) -> (r: TmHash) ensures r == self.commit.block_id.hash
//@end
//@fn impl ExtendedHeader :: last_header_hash
//@props C02
    pub fn last_header_hash(&self) -> (r: TmHash) ensures r == last_hash(*self)
//@sub E9 "self.header .last_block_id .map(|block_id| block_id.hash) .unwrap_or_default()" => "vx_unwrap_or_default(match self.header.last_block_id { Some(block_id) => Some(block_id.hash), None => None })"
//@end

// the accessor for validated headers: its `expect` is an obligation, so a caller handling peer input must have checked the
// version first (seed C16-b: validate() itself switched to this accessor)
//@fn impl ExtendedHeader :: app_version
//@props C01 C16
    pub fn app_version(&self) -> (r: AppVersion)
        requires 1 <= self.header.version.app <= 7
        ensures r == app_of(self.header.version.app)
//@end

//@fn impl ExtendedHeader :: validate
//@props C01 C16
//@macro bail_validation => return Err(Error::Validation(ValidationError::Other))
    pub fn validate(&self) -> (res: Result<()>)
        requires eh_inv(*self)
        ensures
            // [props: C01] soundness: everything the statement lists is bound
            res.is_ok() ==> validate_core(*self),
            // [props: C01] completeness for honestly produced headers (one entry per validator, all block-commit signatures valid)
            (validate_core(*self) && self.validator_set.validators_@.len() <= 0x7fff_ffff
                && all_commit_sigs_valid(self.validator_set, self.commit, self.header.chain_id, self.commit.signatures@.len() as int))
              ==> res.is_ok(),
//@sub E9 "self.header.data_hash.unwrap_or_default()" all => "vx_unwrap_or_default(self.header.data_hash)"
//@sub E9 "AppVersion::from_u64(app_version).ok_or(Error::UnsupportedAppVersion(app_version))?" => "(match AppVersion::from_u64(app_version) { Some(v) => v, None => return Err(Error::UnsupportedAppVersion(app_version)) })"
//@end

//@fn impl ExtendedHeader :: verify
//@props C02
//@macro bail_verification => return Err(Error::Verification(VerificationError::Other))
    pub fn verify(&self, untrusted: &ExtendedHeader) -> (res: Result<()>)
        requires eh_inv(*self), eh_inv(*untrusted)
        ensures
            res.is_ok() ==> verify_ok(*self, *untrusted),
            // adjacent headers: accepted exactly when linked
            untrusted.header.height.v == self.header.height.v + 1 ==> (res.is_ok() <==> verify_ok(*self, *untrusted)),
//@sub E9 "DEFAULT_TRUST_LEVEL" => "TrustLevelRatio::new(1, 3)"
//@end

//@fn impl ExtendedHeader :: verify_adjacent
//@props C02
//@macro bail_verification => return Err(Error::Verification(VerificationError::Other))
    pub fn verify_adjacent(&self, untrusted: &ExtendedHeader) -> (res: Result<()>)
        requires eh_inv(*self), eh_inv(*untrusted)
        ensures res.is_ok() <==> (untrusted.header.height.v == self.header.height.v + 1 && verify_ok(*self, *untrusted)),
//@end

//@fn impl ExtendedHeader :: verify_range
//@props C02
//@macro bail_verification => return Err(Error::Verification(VerificationError::Other))
    pub fn verify_range(&self, untrusted: &[ExtendedHeader]) -> (res: Result<()>)
        requires eh_inv(*self), forall|i: int| 0 <= i < untrusted@.len() ==> eh_inv(#[trigger] untrusted@[i])
        ensures res.is_ok() ==> range_ok(*self, untrusted@, untrusted@.len() as int),
//@hint after "let mut trusted = self;"
        let ghost us = untrusted@;
//@for 1
//@loop 1
            invariant
                us == untrusted@,
                __i1 <= us.len(),
                eh_inv(*self), forall|i: int| 0 <= i < us.len() ==> eh_inv(#[trigger] us[i]),
                eh_inv(*trusted),
                *trusted == (if __i1 == 0 { *self } else { us[__i1 - 1] }),
                range_ok(*self, us, __i1 as int),
            decreases us.len() - __i1
//@hint after "trusted.verify(untrusted)?;"
            proof { assert(link_ok(*self, us, __i1 - 1)); }
//@end

//@fn impl ExtendedHeader :: verify_adjacent_range
//@props C02
//@macro bail_verification => return Err(Error::Verification(VerificationError::Other))
    pub fn verify_adjacent_range(&self, untrusted: &[ExtendedHeader]) -> (res: Result<()>)
        requires eh_inv(*self), forall|i: int| 0 <= i < untrusted@.len() ==> eh_inv(#[trigger] untrusted@[i])
        ensures res.is_ok() ==> range_ok(*self, untrusted@, untrusted@.len() as int)
            && (untrusted@.len() > 0 ==> untrusted@[0].header.height.v == self.header.height.v + 1),
//@end
}



// C02/C21: `u` is the verified adjacent successor of `t`
pub open spec fn adjacent_ok(t: ExtendedHeader, u: ExtendedHeader) -> bool {
    u.header.height.v == t.header.height.v + 1 && verify_ok(t, u)
}
pub open spec fn chain_ok(hs: Seq<ExtendedHeader>) -> bool {
    forall|i: int| 0 < i < hs.len() ==> adjacent_ok(hs[i - 1], #[trigger] hs[i])
}
#[verifier::external_body]
pub fn vx_tail(v: &Vec<ExtendedHeader>) -> (r: &[ExtendedHeader])
    requires v@.len() >= 1
    ensures r@ == v@.subrange(1, v@.len() as int)
{ &v[1..] }

pub struct VerifiedExtendedHeaders(pub Vec<ExtendedHeader>);
impl VerifiedExtendedHeaders {
//@fn impl TryFrom<Vec<ExtendedHeader>> for VerifiedExtendedHeaders :: try_from @ node/src/store/utils.rs
//@props C02 C21
    pub fn try_from(headers: Vec<ExtendedHeader>) -> (res: Result<Self>)
        requires forall|i: int| 0 <= i < headers@.len() ==> eh_inv(#[trigger] headers@[i])
        ensures res.is_ok() ==> res.unwrap().0@ == headers@ && chain_ok(headers@)
//@sub E9 "Vec::default()" => "Vec::new()"
//@sub E9 "&headers[1..]" => "vx_tail(&headers)"
//@hint before "Ok(Self(headers))"
        proof {
            assert forall|i: int| 0 < i < headers@.len() implies adjacent_ok(headers@[i - 1], #[trigger] headers@[i]) by {
                let us = headers@.subrange(1, headers@.len() as int);
                assert(link_ok(headers@[0], us, i - 1));
                if i > 1 { assert(us[i - 2] == headers@[i - 1]); }
                assert(us[i - 1] == headers@[i]);
            }
        }
//@end
}

// ---------------------------------------------------------------------------
// C01: "changing any consensus-relevant part makes validation fail" as lemmas over the contract of `validate`
// (collision resistance / unforgeability enter as the axioms below: A-crypto)
// ---------------------------------------------------------------------------
#[verifier::external_body]
pub proof fn axiom_header_hash_injective(h1: Header, h2: Header)
    ensures header_hash(h1) == header_hash(h2) ==> h1 == h2 { }
#[verifier::external_body]
pub proof fn axiom_set_hash_injective(s1: Set, s2: Set)
    ensures set_hash(s1) == set_hash(s2) ==> (s1.validators_@.len() == s2.validators_@.len()
        && forall|i: int| 0 <= i < s1.validators_@.len() ==> (#[trigger] s1.validators_@[i]).pub_key == s2.validators_@[i].pub_key && s1.validators_@[i].power_ == s2.validators_@[i].power_) { }
#[verifier::external_body]
pub proof fn axiom_simple_hash_injective(a: Seq<Seq<u8>>, b: Seq<Seq<u8>>)
    ensures simple_hash_spec(a) == simple_hash_spec(b) ==> a == b { }
#[verifier::external_body]
pub proof fn axiom_nh_array_injective(a: NamespacedHash, b: NamespacedHash)
    ensures nh_array(a) == nh_array(b) ==> a == b { }
pub proof fn axiom_dah_hash_injective(d1: DataAvailabilityHeader, d2: DataAvailabilityHeader)
    requires d1.row_roots@.len() == d1.column_roots@.len(), d2.row_roots@.len() == d2.column_roots@.len()
    ensures dah_hash(d1) == dah_hash(d2) ==> (d1.row_roots@ == d2.row_roots@ && d1.column_roots@ == d2.column_roots@)
{
    if dah_hash(d1) == dah_hash(d2) {
        axiom_simple_hash_injective(roots_bytes(d1), roots_bytes(d2));
        let a = roots_bytes(d1); let b = roots_bytes(d2);
        assert(a.len() == 2 * d1.row_roots@.len() && b.len() == 2 * d2.row_roots@.len());
        let n = d1.row_roots@.len() as int;
        assert forall|i: int| 0 <= i < n implies d1.row_roots@[i] == d2.row_roots@[i] by {
            assert(a[i] == nh_array(d1.row_roots@[i]) && b[i] == nh_array(d2.row_roots@[i]));
            axiom_nh_array_injective(d1.row_roots@[i], d2.row_roots@[i]);
        }
        assert forall|i: int| 0 <= i < n implies d1.column_roots@[i] == d2.column_roots@[i] by {
            assert(a[n + i] == nh_array(d1.column_roots@[i]) && b[n + i] == nh_array(d2.column_roots@[i]));
            axiom_nh_array_injective(d1.column_roots@[i], d2.column_roots@[i]);
        }
        assert(d1.row_roots@ =~= d2.row_roots@);
        assert(d1.column_roots@ =~= d2.column_roots@);
    }
}

// any field covered by the block hash (incl. data hash, validators hash, height, time, chain id ...)
pub proof fn lemma_c01_header_field(e: ExtendedHeader, e2: ExtendedHeader)
    requires validate_core(e), e2.commit == e.commit, e2.header != e.header
    ensures !validate_core(e2)
{ axiom_header_hash_injective(e.header, e2.header); }
// any DAH row or column root
pub proof fn lemma_c01_dah_root(e: ExtendedHeader, e2: ExtendedHeader)
    requires validate_core(e), e2.header == e.header,
        e2.dah.row_roots@ != e.dah.row_roots@ || e2.dah.column_roots@ != e.dah.column_roots@
    ensures !validate_core(e2)
{ if validate_core(e2) { axiom_dah_hash_injective(e.dah, e2.dah); } }
// any validator key or power (or adding/removing a validator)
pub proof fn lemma_c01_validator(e: ExtendedHeader, e2: ExtendedHeader, i: int)
    requires validate_core(e), e2.header == e.header,
        e2.validator_set.validators_@.len() != e.validator_set.validators_@.len()
        || (0 <= i < e.validator_set.validators_@.len() && (e2.validator_set.validators_@[i].pub_key != e.validator_set.validators_@[i].pub_key
              || e2.validator_set.validators_@[i].power_ != e.validator_set.validators_@[i].power_))
    ensures !validate_core(e2)
{ axiom_set_hash_injective(e.validator_set, e2.validator_set); }
// the commit's block id hash or height
pub proof fn lemma_c01_commit_id_height(e: ExtendedHeader, e2: ExtendedHeader)
    requires validate_core(e), e2.header == e.header,
        e2.commit.block_id.hash != e.commit.block_id.hash || e2.commit.height != e.commit.height
    ensures !validate_core(e2)
{ }
// round / block-id parts / chain id: they are part of every vote's sign bytes; with no signature valid for the changed bytes the tally is empty
pub proof fn lemma_tally_zero(s: Set, c: Commit, chain: ChainId, n: int)
    requires forall|i: int| 0 <= i < n ==> !#[trigger] signed_ok(s, c, chain, i)
    ensures tally(s, c, chain, n) == 0
    decreases n
{ if n > 0 { lemma_tally_zero(s, c, chain, n - 1); } }
pub proof fn lemma_c01_sign_bytes(e2: ExtendedHeader)
    requires forall|i: int| 0 <= i < e2.validator_set.validators_@.len() ==> !#[trigger] signed_ok(e2.validator_set, e2.commit, e2.header.chain_id, i)
    ensures !validate_core(e2)
{ lemma_tally_zero(e2.validator_set, e2.commit, e2.header.chain_id, e2.validator_set.validators_@.len() as int); }
//@end-export
} // verus!
fn main() {}
