//@unit ptrack
//@serves C39
use vstd::prelude::*;
verus! {
// std specifications not in vstd (A-std)
pub assume_specification<T, F: FnOnce(T) -> bool> [Option::<T>::is_some_and] (o: Option<T>, f: F) -> (r: bool)
    requires o.is_some() ==> f.requires((o.unwrap(),))
    ensures o.is_none() ==> !r, o.is_some() ==> f.ensures((o.unwrap(),), r);
pub assume_specification<T, F: FnOnce(T) -> bool> [Option::<T>::is_none_or] (o: Option<T>, f: F) -> (r: bool)
    requires o.is_some() ==> f.requires((o.unwrap(),))
    ensures o.is_none() ==> r, o.is_some() ==> f.ensures((o.unwrap(),), r);
//@src node/src/peer_tracker.rs

#[verifier::external_body]
fn vx_assert(c: bool) requires c { }
#[verifier::external_body]
fn vx_unreachable() -> ! requires false { unimplemented!() }

// ---------------------------------------------------------------------------
// stubs of the surrounding types (E9): ids, time, events, the std collections behind their abstract views
// ---------------------------------------------------------------------------
#[derive(Clone, Copy, PartialEq, Eq, Structural)]
pub struct PeerId { pub v: u64 }
impl PeerId {
    #[verifier::external_body]
    pub fn to_owned(&self) -> (r: PeerId) ensures r == *self { unimplemented!() }
}
#[derive(Clone, Copy, PartialEq, Eq, Structural)]
pub struct ConnectionId { pub v: u64 }
#[derive(Clone, Copy)]
pub struct Duration { pub ns: u64 }
impl Duration {
    // std::cmp::Ord::max / min on Duration (A-std)
    #[verifier::external_body]
    pub fn max(self, o: Duration) -> (r: Duration) ensures r.ns == (if self.ns >= o.ns { self.ns } else { o.ns }) { unimplemented!() }
    #[verifier::external_body]
    pub fn min(self, o: Duration) -> (r: Duration) ensures r.ns == (if self.ns <= o.ns { self.ns } else { o.ns }) { unimplemented!() }
}
#[derive(Clone, Copy)]
pub struct Instant { pub t: u64 }
impl Instant {
    #[verifier::external_body]
    pub fn now() -> Instant { unimplemented!() }
}
// E9: `disconnected_at.is_none_or(|tm| tm.elapsed() <= EXPIRED_AFTER)`: a clock read, any answer is possible (irrelevant to C39)
#[verifier::external_body]
pub fn vx_recently_disconnected(at: &Option<Instant>) -> bool { unimplemented!() }

pub enum NodeEvent { PeerConnected { id: PeerId, trusted: bool }, PeerDisconnected { id: PeerId, trusted: bool } }
pub struct EventPublisher {}
impl EventPublisher {
    #[verifier::external_body]
    pub fn send(&self, ev: NodeEvent) { unimplemented!() }
}
pub struct PingFailure {}
pub struct PingEvent { pub peer: PeerId, pub connection: ConnectionId, pub result: Result<Duration, PingFailure> }
// `ev.result.as_ref().ok().copied()`
#[verifier::external_body]
pub fn vx_ok_copied(r: &Result<Duration, PingFailure>) -> Option<Duration> { unimplemented!() }
pub struct ConnectionInfo { pub ping: Option<Duration> }
impl ConnectionInfo {
    #[verifier::external_body]
    pub fn default() -> ConnectionInfo { unimplemented!() }
}

// HashMap<ConnectionId, ConnectionInfo>: only the key set matters for C39
pub struct ConnMap { pub g: Ghost<Set<ConnectionId>> }
impl ConnMap {
    pub open spec fn view(&self) -> Set<ConnectionId> { self.g@ }
    #[verifier::external_body]
    pub fn new() -> (r: ConnMap) ensures r@ == Set::<ConnectionId>::empty() { unimplemented!() }
    #[verifier::external_body]
    pub fn is_empty(&self) -> (b: bool) ensures b == (self@ == Set::<ConnectionId>::empty()) { unimplemented!() }
    #[verifier::external_body]
    pub fn insert(&mut self, k: ConnectionId, v: ConnectionInfo) -> (o: Option<ConnectionInfo>)
        ensures final(self)@ == old(self)@.insert(k)
    { unimplemented!() }
    #[verifier::external_body]
    pub fn get_mut(&mut self, k: &ConnectionId) -> (r: Option<&mut ConnectionInfo>)
        ensures final(self)@ == old(self)@, r.is_some() == old(self)@.contains(*k)
    { unimplemented!() }
    #[verifier::external_body]
    pub fn len(&self) -> (n: usize) ensures n == self@.len() { unimplemented!() }
    #[verifier::external_body]
    pub fn contains_key(&self, k: &ConnectionId) -> (b: bool) ensures b == self@.contains(*k) { unimplemented!() }
    #[verifier::external_body]
    pub fn remove(&mut self, k: &ConnectionId) -> (o: Option<ConnectionInfo>) ensures final(self)@ == old(self)@.remove(*k), o.is_some() == old(self)@.contains(*k) { unimplemented!() }
    // E8: `retain(|id, _| *id != connection_id)` keeps every key but `connection_id`
    #[verifier::external_body]
    pub fn vx_retain_ne(&mut self, k: ConnectionId)
        ensures final(self)@ == old(self)@.remove(k)
    { unimplemented!() }
}
// HashSet<u32>
pub struct TagSet { pub g: Ghost<Set<u32>> }
impl TagSet {
    pub open spec fn view(&self) -> Set<u32> { self.g@ }
    #[verifier::external_body]
    pub fn new() -> (r: TagSet) ensures r@ == Set::<u32>::empty() { unimplemented!() }
    #[verifier::external_body]
    pub fn is_empty(&self) -> (b: bool) ensures b == (self@ == Set::<u32>::empty()) { unimplemented!() }
    #[verifier::external_body]
    pub fn contains(&self, t: &u32) -> (b: bool) ensures b == self@.contains(*t) { unimplemented!() }
    #[verifier::external_body]
    pub fn insert(&mut self, t: u32) -> (b: bool)
        ensures final(self)@ == old(self)@.insert(t), b == !old(self)@.contains(t)
    { unimplemented!() }
    #[verifier::external_body]
    pub fn remove(&mut self, t: &u32) -> (b: bool)
        ensures final(self)@ == old(self)@.remove(*t), b == old(self)@.contains(*t)
    { unimplemented!() }
    #[verifier::external_body]
    pub fn len(&self) -> (n: usize) ensures n == self@.len() { unimplemented!() }
}

#[derive(Clone, Copy, PartialEq, Eq, Structural)]
pub enum NodeKind { Unknown, Bridge, Full, Light }
// the agent-version string is parsed by str::split (outside the verifier's subset): an uninterpreted function of the string
pub uninterp spec fn kind_of_agent(s: &str) -> NodeKind;
impl NodeKind {
    #[verifier::external_body]
    fn from_agent_version(s: &str) -> (k: NodeKind) ensures k == kind_of_agent(s) { unimplemented!() }
}

pub struct Peer {
    pub id: PeerId,
    pub connections: ConnMap,
    pub protected: TagSet,
    pub trusted: bool,
    pub archival: bool,
    pub node_kind: NodeKind,
    pub disconnected_at: Option<Instant>,
}
// what the statistics are about (PeerTrackerInfo's field documentation)
pub open spec fn connected(p: Peer) -> bool { p.connections@ != Set::<ConnectionId>::empty() }
pub open spec fn conn_trusted(p: Peer) -> bool { connected(p) && p.trusted }
pub open spec fn conn_full(p: Peer) -> bool { connected(p) && (p.node_kind is Full || p.node_kind is Bridge) }
pub open spec fn conn_archival(p: Peer) -> bool { connected(p) && p.archival }
pub open spec fn is_prot(p: Peer) -> bool { p.protected@ != Set::<u32>::empty() }
// a freshly tracked peer: known, nothing else
pub open spec fn fresh_peer(p: Peer, id: PeerId) -> bool {
    p.id == id && !connected(p) && !is_prot(p) && !p.trusted && !p.archival && p.node_kind is Unknown && p.disconnected_at.is_some()
}

// HashMap<PeerId, Peer>
pub struct PeerMap { pub g: Ghost<Map<PeerId, Peer>> }
pub struct VacantEntry<'a> { pub map: &'a mut PeerMap, pub key: PeerId }
pub struct OccupiedEntry<'a> { pub map: &'a mut PeerMap, pub key: PeerId }
pub enum Entry<'a> { Vacant(VacantEntry<'a>), Occupied(OccupiedEntry<'a>) }
impl PeerMap {
    pub open spec fn view(&self) -> Map<PeerId, Peer> { self.g@ }
    #[verifier::external_body]
    pub fn new() -> (r: PeerMap) ensures r@ == Map::<PeerId, Peer>::empty() { unimplemented!() }
    // a HashMap holds at most usize::MAX entries
    #[verifier::external_body]
    pub proof fn lemma_len(&self) ensures self@.dom().len() <= usize::MAX { }
    #[verifier::external_body]
    pub fn get(&self, k: &PeerId) -> (r: Option<&Peer>)
        ensures r.is_some() == self@.contains_key(*k), r.is_some() ==> *r.unwrap() == self@[*k]
    { unimplemented!() }
    #[verifier::external_body]
    pub fn get_mut(&mut self, k: &PeerId) -> (r: Option<&mut Peer>)
        ensures
            !old(self)@.contains_key(*k) ==> r.is_none() && final(self)@ == old(self)@,
            old(self)@.contains_key(*k) ==> r.is_some() && *r.unwrap() == old(self)@[*k] && final(self)@ == old(self)@.insert(*k, *final(r.unwrap())),
    { unimplemented!() }
    #[verifier::external_body]
    pub fn contains_key(&self, k: &PeerId) -> (b: bool) ensures b == self@.contains_key(*k) { unimplemented!() }
    #[verifier::external_body]
    pub fn len(&self) -> (n: usize) ensures n == self@.dom().len() { unimplemented!() }
    #[verifier::external_body]
    pub fn remove(&mut self, k: &PeerId) -> (o: Option<Peer>)
        ensures final(self)@ == old(self)@.remove(*k), o.is_some() == old(self)@.contains_key(*k), o.is_some() ==> o.unwrap() == old(self)@[*k]
    { unimplemented!() }
    #[verifier::external_body]
    pub fn entry(&mut self, k: PeerId) -> (e: Entry<'_>)
        ensures
            (e is Vacant) == !old(self)@.contains_key(k),
            match e {
                Entry::Vacant(v) => v.key == k && *v.map == *old(self) && *final(v.map) == *final(self),
                Entry::Occupied(v) => v.key == k && *v.map == *old(self) && *final(v.map) == *final(self),
            },
    { unimplemented!() }
    // the iteration order of HashMap::values is unspecified: some duplicate-free enumeration of the keys
    #[verifier::external_body]
    pub fn values(&self) -> (it: Values<'_>)
        ensures it.map@ == self@, it.pos@ == 0, it.keys@.no_duplicates(), it.keys@.to_set() == self@.dom(), it.keys@.len() <= usize::MAX
    { unimplemented!() }
    // E11: `retain(|_, peer| { BODY })`: an entry stays iff BODY answers true; BODY's contract is the one proved for the block `gc__keep`
    #[verifier::external_body]
    pub fn vx_retain_keep(&mut self)
        ensures
            final(self)@.submap_of(old(self)@),
            forall|k: PeerId| #[trigger] old(self)@.contains_key(k) && (connected(old(self)@[k]) || is_prot(old(self)@[k])) ==> final(self)@.contains_key(k),
    { unimplemented!() }
}
impl<'a> VacantEntry<'a> {
    #[verifier::external_body]
    pub fn insert(self, p: Peer) -> (r: &'a mut Peer)
        ensures *r == p, final(self.map)@ == old(self.map)@.insert(self.key, *final(r))
    { unimplemented!() }
}
impl<'a> Entry<'a> {
    #[verifier::external_body]
    pub fn or_insert_with<F: FnOnce() -> Peer>(self, f: F) -> (r: &'a mut Peer)
        requires f.requires(())
        ensures
            self is Vacant ==> old(self->Vacant_0.map)@.dom().insert(self->Vacant_0.key).len() <= usize::MAX,
            self is Vacant ==> f.ensures((), *r) && final(self->Vacant_0.map)@ == old(self->Vacant_0.map)@.insert(self->Vacant_0.key, *final(r)),
            self is Occupied ==> *r == old(self->Occupied_0.map)@[self->Occupied_0.key] && final(self->Occupied_0.map)@ == old(self->Occupied_0.map)@.insert(self->Occupied_0.key, *final(r)),
    { unimplemented!() }
}
pub struct Values<'a> { pub src: &'a PeerMap, pub map: Ghost<Map<PeerId, Peer>>, pub keys: Ghost<Seq<PeerId>>, pub pos: Ghost<int> }
impl<'a> Values<'a> {
    #[verifier::external_body]
    pub fn next(&mut self) -> (r: Option<&'a Peer>)
        requires 0 <= old(self).pos@ <= old(self).keys@.len()
        ensures
            final(self).map == old(self).map, final(self).keys == old(self).keys,
            old(self).pos@ < old(self).keys@.len() ==> r.is_some() && *r.unwrap() == old(self).map@[old(self).keys@[old(self).pos@]] && final(self).pos@ == old(self).pos@ + 1,
            old(self).pos@ >= old(self).keys@.len() ==> r.is_none() && final(self).pos@ == old(self).pos@,
    { unimplemented!() }
}
// HashMap<u32, usize>
pub struct Counter { pub g: Ghost<Map<u32, usize>> }
impl Counter {
    pub open spec fn view(&self) -> Map<u32, usize> { self.g@ }
    #[verifier::external_body]
    pub fn new() -> (r: Counter) ensures r@ == Map::<u32, usize>::empty() { unimplemented!() }
    // `.entry(tag).or_default()`
    #[verifier::external_body]
    pub fn vx_entry_or_default(&mut self, k: u32) -> (r: &mut usize)
        ensures *r == (if old(self)@.contains_key(k) { old(self)@[k] } else { 0usize }), final(self)@ == old(self)@.insert(k, *final(r))
    { unimplemented!() }
    #[verifier::external_body]
    pub fn get_mut(&mut self, k: &u32) -> (r: Option<&mut usize>)
        ensures
            !old(self)@.contains_key(*k) ==> r.is_none() && final(self)@ == old(self)@,
            old(self)@.contains_key(*k) ==> r.is_some() && *r.unwrap() == old(self)@[*k] && final(self)@ == old(self)@.insert(*k, *final(r.unwrap())),
    { unimplemented!() }
    #[verifier::external_body]
    pub fn get(&self, k: &u32) -> (r: Option<&usize>)
        ensures r.is_some() == self@.contains_key(*k), r.is_some() ==> *r.unwrap() == self@[*k]
    { unimplemented!() }
    #[verifier::external_body]
    pub fn contains_key(&self, k: &u32) -> (b: bool) ensures b == self@.contains_key(*k) { unimplemented!() }
    // `.get(&tag).copied().unwrap_or(0)`
    #[verifier::external_body]
    pub fn vx_get_or_zero(&self, k: &u32) -> (r: usize)
        ensures r == count_of(self@, *k)
    { unimplemented!() }
}
pub open spec fn count_of(c: Map<u32, usize>, tag: u32) -> nat { if c.contains_key(tag) { c[tag] as nat } else { 0 } }

pub struct PeerTrackerInfo {
    pub num_connected_peers: u64,
    pub num_connected_trusted_peers: u64,
    pub num_connected_full_nodes: u64,
    pub num_connected_archival_nodes: u64,
}
impl PartialEq for PeerTrackerInfo {
    fn eq(&self, o: &PeerTrackerInfo) -> (b: bool) ensures b == (*self == *o) {
        self.num_connected_peers == o.num_connected_peers && self.num_connected_trusted_peers == o.num_connected_trusted_peers
            && self.num_connected_full_nodes == o.num_connected_full_nodes && self.num_connected_archival_nodes == o.num_connected_archival_nodes
    }
}
impl vstd::std_specs::cmp::PartialEqSpecImpl for PeerTrackerInfo {
    open spec fn obeys_eq_spec() -> bool { true }
    open spec fn eq_spec(&self, o: &PeerTrackerInfo) -> bool { *self == *o }
}
impl PeerTrackerInfo {
    #[verifier::external_body]
    pub fn default() -> (r: PeerTrackerInfo)
        ensures r.num_connected_peers == 0, r.num_connected_trusted_peers == 0, r.num_connected_full_nodes == 0, r.num_connected_archival_nodes == 0
    { unimplemented!() }
    #[verifier::external_body]
    pub fn vx_ne(&self, o: &PeerTrackerInfo) -> (b: bool) ensures b == (*self != *o) { unimplemented!() }
    #[verifier::external_body]
    pub fn vx_clone(&self) -> (r: PeerTrackerInfo) ensures r == *self { unimplemented!() }
}
// tokio::sync::watch::Sender<PeerTrackerInfo>: the view is the value receivers observe.  The real sender is updated
// through `&self` (interior mutability); here the holder is `&mut` so that the update is visible to the verifier (A-watch)
pub struct InfoTx { pub g: Ghost<PeerTrackerInfo> }
impl InfoTx {
    pub open spec fn view(&self) -> PeerTrackerInfo { self.g@ }
    // `watch::channel(PeerTrackerInfo::default()).0`
    #[verifier::external_body]
    pub fn vx_channel(init: PeerTrackerInfo) -> (r: InfoTx) ensures r@ == init { unimplemented!() }
    // `self.info_tx.borrow().to_owned()`
    #[verifier::external_body]
    pub fn vx_current(&self) -> (r: PeerTrackerInfo) ensures r == self@ { unimplemented!() }
    // E11: `send_if_modified(|info| { BODY })` runs BODY on the published value; BODY's contract is the one proved for the
    // block `recount_peer_tracker_info__body`: afterwards the published value is the recount of `peers`
    #[verifier::external_body]
    pub fn vx_send_if_modified(&mut self, peers: &PeerMap)
        ensures stats_match(final(self)@, peers@)
    { unimplemented!() }
}

// ---------------------------------------------------------------------------
// the abstraction: counting peers with a property
// ---------------------------------------------------------------------------
pub open spec fn cnt(m: Map<PeerId, Peer>, f: spec_fn(Peer) -> bool) -> nat {
    m.dom().filter(|k: PeerId| f(m[k])).len()
}
pub open spec fn f_conn() -> spec_fn(Peer) -> bool { |p: Peer| connected(p) }
pub open spec fn f_trusted() -> spec_fn(Peer) -> bool { |p: Peer| conn_trusted(p) }
pub open spec fn f_full() -> spec_fn(Peer) -> bool { |p: Peer| conn_full(p) }
pub open spec fn f_archival() -> spec_fn(Peer) -> bool { |p: Peer| conn_archival(p) }
pub open spec fn with_tag(tag: u32) -> spec_fn(Peer) -> bool { |p: Peer| p.protected@.contains(tag) }
// C39: the published statistics equal a recount of the tracked peers
pub open spec fn stats_match(i: PeerTrackerInfo, m: Map<PeerId, Peer>) -> bool {
    &&& i.num_connected_peers as nat == cnt(m, f_conn())
    &&& i.num_connected_trusted_peers as nat == cnt(m, f_trusted())
    &&& i.num_connected_full_nodes as nat == cnt(m, f_full())
    &&& i.num_connected_archival_nodes as nat == cnt(m, f_archival())
}
// C39: the per-tag protected counts equal the number of peers protected with that tag
pub open spec fn tags_match(c: Map<u32, usize>, m: Map<PeerId, Peer>) -> bool {
    forall|tag: u32| #[trigger] count_of(c, tag) == cnt(m, with_tag(tag))
}

// counting along an enumeration of the keys
pub open spec fn cnt_prefix(m: Map<PeerId, Peer>, keys: Seq<PeerId>, n: int, f: spec_fn(Peer) -> bool) -> nat
    decreases n
{
    if n <= 0 { 0 } else { cnt_prefix(m, keys, n - 1, f) + (if f(m[keys[n - 1]]) { 1nat } else { 0nat }) }
}
pub proof fn lemma_cnt_prefix(m: Map<PeerId, Peer>, keys: Seq<PeerId>, n: int, f: spec_fn(Peer) -> bool)
    requires keys.no_duplicates(), 0 <= n <= keys.len()
    ensures
        cnt_prefix(m, keys, n, f) == keys.subrange(0, n).to_set().filter(|k: PeerId| f(m[k])).len(),
        cnt_prefix(m, keys, n, f) <= n,
    decreases n
{
    let g = |k: PeerId| f(m[k]);
    if n == 0 {
        assert(keys.subrange(0, 0).to_set() =~= Set::<PeerId>::empty());
        assert(Set::<PeerId>::empty().filter(g) =~= Set::<PeerId>::empty());
    } else {
        lemma_cnt_prefix(m, keys, n - 1, f);
        let a = keys.subrange(0, n - 1).to_set();
        let b = keys.subrange(0, n).to_set();
        let k = keys[n - 1];
        assert(b =~= a.insert(k)) by {
            assert forall|x: PeerId| b.contains(x) <==> a.insert(k).contains(x) by {
                if b.contains(x) { let i = choose|i: int| 0 <= i < n && #[trigger] keys.subrange(0, n)[i] == x; if i < n - 1 { assert(keys.subrange(0, n - 1)[i] == x); } }
                if a.contains(x) { let i = choose|i: int| 0 <= i < n - 1 && #[trigger] keys.subrange(0, n - 1)[i] == x; assert(keys.subrange(0, n)[i] == x); }
                if x == k { assert(keys.subrange(0, n)[n - 1] == x); }
            }
        }
        assert(!a.contains(k)) by {
            if a.contains(k) { let i = choose|i: int| 0 <= i < n - 1 && #[trigger] keys.subrange(0, n - 1)[i] == k; assert(keys[i] == keys[n - 1]); }
        }
        if f(m[k]) {
            assert(b.filter(g) =~= a.filter(g).insert(k));
        } else {
            assert(b.filter(g) =~= a.filter(g));
        }
    }
}
pub proof fn lemma_cnt_all(m: Map<PeerId, Peer>, keys: Seq<PeerId>, f: spec_fn(Peer) -> bool)
    requires keys.no_duplicates(), keys.to_set() == m.dom()
    ensures cnt_prefix(m, keys, keys.len() as int, f) == cnt(m, f)
{
    lemma_cnt_prefix(m, keys, keys.len() as int, f);
    assert(keys.subrange(0, keys.len() as int) =~= keys);
}
pub proof fn lemma_cnt_empty(f: spec_fn(Peer) -> bool)
    ensures cnt(Map::<PeerId, Peer>::empty(), f) == 0
{
    let m = Map::<PeerId, Peer>::empty();
    assert(m.dom().filter(|k: PeerId| f(m[k])) =~= Set::<PeerId>::empty());
}
// a count never exceeds the number of tracked peers
pub proof fn lemma_cnt_le(m: Map<PeerId, Peer>, f: spec_fn(Peer) -> bool)
    ensures cnt(m, f) <= m.dom().len()
{
    vstd::set_lib::lemma_len_subset(m.dom().filter(|k: PeerId| f(m[k])), m.dom());
}
// changing one peer changes a count by that peer's contribution
pub open spec fn one(b: bool) -> int { if b { 1 } else { 0 } }
pub proof fn lemma_cnt_insert(m: Map<PeerId, Peer>, k: PeerId, p: Peer, f: spec_fn(Peer) -> bool)
    ensures cnt(m.insert(k, p), f) == cnt(m, f) - one(m.contains_key(k) && f(m[k])) + one(f(p))
{
    let m2 = m.insert(k, p);
    let s = m.dom().filter(|x: PeerId| f(m[x]));
    let s2 = m2.dom().filter(|x: PeerId| f(m2[x]));
    if f(p) {
        assert(s2 =~= s.insert(k));
    } else {
        assert(s2 =~= s.remove(k));
    }
}
// dropping peers that do not count leaves a count unchanged
pub proof fn lemma_cnt_submap(m: Map<PeerId, Peer>, m2: Map<PeerId, Peer>, f: spec_fn(Peer) -> bool)
    requires m2.submap_of(m), forall|k: PeerId| #[trigger] m.contains_key(k) && f(m[k]) ==> m2.contains_key(k)
    ensures cnt(m2, f) == cnt(m, f)
{
    let s2 = m2.dom().filter(|x: PeerId| f(m2[x]));
    let s = m.dom().filter(|x: PeerId| f(m[x]));
    assert forall|x: PeerId| s2.contains(x) <==> s.contains(x) by {
        if s2.contains(x) { assert(m2.dom().contains(x)); assert(m.dom().contains(x) && m2[x] == m[x]); }
        if s.contains(x) { assert(m.contains_key(x) && f(m[x])); assert(m2.contains_key(x)); assert(m2.dom().contains(x)); assert(m2[x] == m[x]); }
    }
    assert(s2 =~= s);
}

pub struct PeerTracker {
    pub peers: PeerMap,
    pub protect_counter: Counter,
    pub info_tx: InfoTx,
    pub event_pub: EventPublisher,
}
impl PeerTracker {
    // C39, the representation invariant of the tracker
    pub open spec fn inv(&self) -> bool {
        &&& stats_match(self.info_tx@, self.peers@)
        &&& tags_match(self.protect_counter@, self.peers@)
    }
}

// ---------------------------------------------------------------------------
// the real functions
// ---------------------------------------------------------------------------
impl NodeKind {
//@fn impl NodeKind :: is_full
//@props C39
    pub(crate) fn is_full(&self) -> (b: bool)
        ensures b == (*self is Full || *self is Bridge)
//@end
}

impl Peer {
//@fn impl Peer :: new
//@props C39
    fn new(id: PeerId) -> (p: Peer)
        ensures fresh_peer(p, id)
//@sub E9 "HashMap::new()" => "ConnMap::new()"
//@sub E9 "HashSet::new()" => "TagSet::new()"
//@end

//@fn impl Peer :: is_connected
//@props C39
    pub(crate) fn is_connected(&self) -> (b: bool)
        ensures b == connected(*self)
//@end

//@fn impl Peer :: is_trusted
//@props C39
    pub(crate) fn is_trusted(&self) -> (b: bool)
        ensures b == self.trusted
//@end

//@fn impl Peer :: is_protected
//@props C39
    pub(crate) fn is_protected(&self) -> (b: bool)
        ensures b == is_prot(*self)
//@end

//@fn impl Peer :: is_protected_with_tag
//@props C39
    pub(crate) fn is_protected_with_tag(&self, tag: u32) -> (b: bool)
        ensures b == self.protected@.contains(tag)
//@end

//@fn impl Peer :: is_archival
//@props C39
    pub(crate) fn is_archival(&self) -> (b: bool)
        ensures b == self.archival
//@end

//@fn impl Peer :: is_full
//@props C39
    pub(crate) fn is_full(&self) -> (b: bool)
        ensures b == (self.node_kind is Full || self.node_kind is Bridge)
//@end
}

impl PeerTracker {
//@fn impl PeerTracker :: new
//@props C39
    pub(crate) fn new(event_pub: EventPublisher) -> (t: PeerTracker)
        ensures t.inv(), t.peers@ == Map::<PeerId, Peer>::empty()
//@sub E9 "peers: HashMap::new()" => "peers: PeerMap::new()"
//@sub E9 "protect_counter: HashMap::new()" => "protect_counter: Counter::new()"
//@sub E9 "watch::channel(PeerTrackerInfo::default()).0" => "InfoTx::vx_channel(PeerTrackerInfo::default())"
//@hint entry
        proof {
            lemma_cnt_empty(f_conn()); lemma_cnt_empty(f_trusted()); lemma_cnt_empty(f_full()); lemma_cnt_empty(f_archival());
            assert forall|tag: u32| cnt(Map::<PeerId, Peer>::empty(), with_tag(tag)) == 0 by { lemma_cnt_empty(with_tag(tag)); }
        }
//@end

//@fn impl PeerTracker :: info
//@props C39
    pub(crate) fn info(&self) -> (i: PeerTrackerInfo)
        requires self.inv()
        ensures stats_match(i, self.peers@)
//@sub E9 "self.info_tx.borrow().to_owned()" => "self.info_tx.vx_current()"
//@end

//@fn impl PeerTracker :: protected_len
//@props C39
    pub(crate) fn protected_len(&self, tag: u32) -> (n: usize)
        requires self.inv()
        ensures n as nat == cnt(self.peers@, with_tag(tag))
//@sub E9 "self.protect_counter.get(&tag).copied().unwrap_or(0)" => "self.protect_counter.vx_get_or_zero(&tag)"
//@end

//@fn impl PeerTracker :: recount_peer_tracker_info
//@props C39
//@block "self.info_tx.send_if_modified(|info| {"
    fn recount_peer_tracker_info__body(&self, info: &mut PeerTrackerInfo) -> (modified: bool)
        ensures stats_match(*final(info), self.peers@), modified == (*old(info) != *final(info))
//@for 1 iter next
//@loop 1
            invariant
                __i1_it.map@ == self.peers@, __i1_it.keys@.no_duplicates(), __i1_it.keys@.to_set() == self.peers@.dom(), __i1_it.keys@.len() <= usize::MAX,
                0 <= __i1_it.pos@ <= __i1_it.keys@.len(),
                new_info.num_connected_peers as nat == cnt_prefix(self.peers@, __i1_it.keys@, __i1_it.pos@, f_conn()),
                new_info.num_connected_trusted_peers as nat == cnt_prefix(self.peers@, __i1_it.keys@, __i1_it.pos@, f_trusted()),
                new_info.num_connected_full_nodes as nat == cnt_prefix(self.peers@, __i1_it.keys@, __i1_it.pos@, f_full()),
                new_info.num_connected_archival_nodes as nat == cnt_prefix(self.peers@, __i1_it.keys@, __i1_it.pos@, f_archival()),
            ensures
                __i1_it.pos@ == __i1_it.keys@.len(),
            decreases __i1_it.keys@.len() - __i1_it.pos@
//@loopstart 1
                proof {
                    let n = __i1_it.pos@;
                    lemma_cnt_prefix(self.peers@, __i1_it.keys@, n - 1, f_conn()); lemma_cnt_prefix(self.peers@, __i1_it.keys@, n - 1, f_trusted());
                    lemma_cnt_prefix(self.peers@, __i1_it.keys@, n - 1, f_full()); lemma_cnt_prefix(self.peers@, __i1_it.keys@, n - 1, f_archival());
                }
//@afterloop 1
            proof {
                lemma_cnt_all(self.peers@, __i1_it.keys@, f_conn()); lemma_cnt_all(self.peers@, __i1_it.keys@, f_trusted());
                lemma_cnt_all(self.peers@, __i1_it.keys@, f_full()); lemma_cnt_all(self.peers@, __i1_it.keys@, f_archival());
            }
//@end

//@fn impl PeerTracker :: recount_peer_tracker_info
//@props C39
    fn recount_peer_tracker_info(&mut self)
        ensures stats_match(final(self).info_tx@, final(self).peers@), final(self).peers == old(self).peers, final(self).protect_counter == old(self).protect_counter
//@opaque "self.info_tx.send_if_modified(|info| {" => "self.info_tx.vx_send_if_modified(&self.peers"
//@end

//@fn impl PeerTracker :: set_trusted
//@props C39
    pub(crate) fn set_trusted(&mut self, peer_id: &PeerId, is_trusted: bool)
        requires old(self).inv()
        ensures
            final(self).inv(),
            touched(old(self).peers@, final(self).peers@, *peer_id),
            final(self).peers@[*peer_id] == (Peer { trusted: is_trusted, ..base_of(old(self).peers@, final(self).peers@, *peer_id) }),
//@closure "||" => "|| -> (p: Peer) ensures fresh_peer(p, *peer_id)"
//@hint before "self.recount_peer_tracker_info();"
        proof { lemma_tags_update(old(self).protect_counter@, old(self).peers@, *peer_id, self.peers@[*peer_id]); }
//@end

//@fn impl PeerTracker :: mark_as_archival
//@props C39
    pub(crate) fn mark_as_archival(&mut self, peer_id: &PeerId)
        requires old(self).inv()
        ensures
            final(self).inv(),
            touched(old(self).peers@, final(self).peers@, *peer_id),
            final(self).peers@[*peer_id] == (Peer { archival: true, ..base_of(old(self).peers@, final(self).peers@, *peer_id) }),
//@closure "||" => "|| -> (p: Peer) ensures fresh_peer(p, *peer_id)"
//@hint before "self.recount_peer_tracker_info();"
        proof { lemma_tags_update(old(self).protect_counter@, old(self).peers@, *peer_id, self.peers@[*peer_id]); }
//@end

//@fn impl PeerTracker :: add_peer_id
//@props C39
    pub(crate) fn add_peer_id(&mut self, peer_id: &PeerId) -> (b: bool)
        requires old(self).inv()
        ensures
            final(self).inv(),
            b == !old(self).peers@.contains_key(*peer_id),
            !b ==> final(self).peers@ == old(self).peers@,
            b ==> touched(old(self).peers@, final(self).peers@, *peer_id) && fresh_peer(final(self).peers@[*peer_id], *peer_id),
//@hint after "entry.insert(Peer::new(*peer_id));"
                proof {
                    lemma_tags_update(old(self).protect_counter@, old(self).peers@, *peer_id, self.peers@[*peer_id]);
                    lemma_stats_update(old(self).info_tx@, old(self).peers@, *peer_id, self.peers@[*peer_id]);
                }
//@end

//@fn impl PeerTracker :: protect
//@props C39
    pub(crate) fn protect(&mut self, peer_id: &PeerId, tag: u32) -> (b: bool)
        requires old(self).inv()
        ensures
            final(self).inv(),
            touched(old(self).peers@, final(self).peers@, *peer_id),
            final(self).peers@[*peer_id] == (Peer { protected: final(self).peers@[*peer_id].protected, ..base_of(old(self).peers@, final(self).peers@, *peer_id) }),
            final(self).peers@[*peer_id].protected@ == base_tags(old(self).peers@, *peer_id).insert(tag),
            // true iff the peer changes state from unprotected to protected
            b == (base_tags(old(self).peers@, *peer_id) == Set::<u32>::empty()),
//@closure "||" => "|| -> (p: Peer) ensures fresh_peer(p, *peer_id)"
//@sub E9 "self.protect_counter.entry(tag).or_default()" => "self.protect_counter.vx_entry_or_default(tag)"
//@hint before "*self.protect_counter.entry(tag).or_default() += 1;"
            proof {
                let m0 = old(self).peers@;
                if m0.contains_key(*peer_id) { old(self).peers.lemma_len(); assert(m0.dom().insert(*peer_id) =~= m0.dom()); }
                lemma_cnt_room(m0, *peer_id, tag);
                assert(count_of(old(self).protect_counter@, tag) == cnt(m0, with_tag(tag)));
            }
//@hint before "!was_protected"
        proof {
            let m0 = old(self).peers@; let k = *peer_id; let p = *peer;
            lemma_stats_update(old(self).info_tx@, m0, k, p);
            assert forall|t: u32| #[trigger] count_of(self.protect_counter@, t) == cnt(m0.insert(k, p), with_tag(t)) by {
                lemma_cnt_insert(m0, k, p, with_tag(t));
                assert(count_of(old(self).protect_counter@, t) == cnt(m0, with_tag(t)));
            }
            assert(base_tags(m0, k).insert(tag) != Set::<u32>::empty()) by { assert(base_tags(m0, k).insert(tag).contains(tag)); }
        }
//@end

//@fn impl PeerTracker :: unprotect
//@props C39
    pub(crate) fn unprotect(&mut self, peer_id: &PeerId, tag: u32) -> (b: bool)
        requires old(self).inv()
        ensures
            final(self).inv(),
            !old(self).peers@.contains_key(*peer_id) ==> !b && final(self).peers@ == old(self).peers@,
            old(self).peers@.contains_key(*peer_id) ==> {
                &&& touched(old(self).peers@, final(self).peers@, *peer_id)
                &&& final(self).peers@[*peer_id] == (Peer { protected: final(self).peers@[*peer_id].protected, ..old(self).peers@[*peer_id] })
                &&& final(self).peers@[*peer_id].protected@ == old(self).peers@[*peer_id].protected@.remove(tag)
                // true iff the peer changes state from protected to unprotected
                &&& b == (is_prot(old(self).peers@[*peer_id]) && !is_prot(final(self).peers@[*peer_id]))
            },
//@hint before "*self .protect_counter .get_mut(&tag)"
            proof { lemma_cnt_has(old(self).peers@, *peer_id, tag); assert(count_of(old(self).protect_counter@, tag) == cnt(old(self).peers@, with_tag(tag))); }
//@hint before "was_protected && !peer.is_protected()"
        proof {
            let m0 = old(self).peers@; let k = *peer_id; let p = *peer;
            lemma_stats_update(old(self).info_tx@, m0, k, p);
            assert forall|t: u32| #[trigger] count_of(self.protect_counter@, t) == cnt(m0.insert(k, p), with_tag(t)) by {
                lemma_cnt_insert(m0, k, p, with_tag(t));
                assert(count_of(old(self).protect_counter@, t) == cnt(m0, with_tag(t)));
            }
        }
//@end

//@fn impl PeerTracker :: add_connection
//@props C39
    pub(crate) fn add_connection(&mut self, peer_id: &PeerId, connection_id: ConnectionId)
        requires old(self).inv()
        ensures
            final(self).inv(),
            touched(old(self).peers@, final(self).peers@, *peer_id),
            final(self).peers@[*peer_id].connections@ == base_of(old(self).peers@, final(self).peers@, *peer_id).connections@.insert(connection_id),
            final(self).peers@[*peer_id] == (Peer { connections: final(self).peers@[*peer_id].connections, disconnected_at: final(self).peers@[*peer_id].disconnected_at, ..base_of(old(self).peers@, final(self).peers@, *peer_id) }),
//@closure "||" => "|| -> (p: Peer) ensures fresh_peer(p, *peer_id)"
//@hint before "self.recount_peer_tracker_info();"
            proof { lemma_tags_update(old(self).protect_counter@, old(self).peers@, *peer_id, self.peers@[*peer_id]); }
//@hint exit
        proof {
            let m0 = old(self).peers@; let k = *peer_id; let p = self.peers@[k];
            assert(p.connections@.contains(connection_id));
            if prev_connected {
                lemma_tags_update(old(self).protect_counter@, m0, k, p);
                lemma_stats_update(old(self).info_tx@, m0, k, p);
            }
        }
//@end

//@fn impl PeerTracker :: remove_connection
//@props C39
    pub(crate) fn remove_connection(&mut self, peer_id: &PeerId, connection_id: ConnectionId)
        requires old(self).inv()
        ensures
            final(self).inv(),
            !old(self).peers@.contains_key(*peer_id) ==> final(self).peers@ == old(self).peers@,
            old(self).peers@.contains_key(*peer_id) ==> {
                &&& touched(old(self).peers@, final(self).peers@, *peer_id)
                &&& final(self).peers@[*peer_id].connections@ == old(self).peers@[*peer_id].connections@.remove(connection_id)
                &&& final(self).peers@[*peer_id].protected == old(self).peers@[*peer_id].protected
                &&& final(self).peers@[*peer_id].trusted == old(self).peers@[*peer_id].trusted
                &&& connected(final(self).peers@[*peer_id]) ==> final(self).peers@[*peer_id] == (Peer { connections: final(self).peers@[*peer_id].connections, ..old(self).peers@[*peer_id] })
            },
//@sub E8 "peer.connections.retain(|id, _| *id != connection_id)" => "peer.connections.vx_retain_ne(connection_id)"
//@hint before "self.recount_peer_tracker_info();"
            proof { lemma_tags_update(old(self).protect_counter@, old(self).peers@, *peer_id, self.peers@[*peer_id]); }
//@hint exit
        proof {
            let m0 = old(self).peers@; let k = *peer_id; let p = self.peers@[k];
            if connected(p) {
                assert(connected(m0[k])) by { if !connected(m0[k]) { assert(p.connections@ =~= Set::<ConnectionId>::empty()); } }
                lemma_tags_update(old(self).protect_counter@, m0, k, p);
                lemma_stats_update(old(self).info_tx@, m0, k, p);
            }
        }
//@end

//@fn impl PeerTracker :: on_agent_version
//@props C39
    pub(crate) fn on_agent_version(&mut self, peer_id: &PeerId, agent_version: &str)
        requires old(self).inv()
        ensures
            final(self).inv(),
            !(old(self).peers@.contains_key(*peer_id) && connected(old(self).peers@[*peer_id])) ==> final(self).peers@ == old(self).peers@,
            old(self).peers@.contains_key(*peer_id) && connected(old(self).peers@[*peer_id]) ==>
                final(self).peers@ == old(self).peers@.insert(*peer_id, Peer { node_kind: kind_of_agent(agent_version), ..old(self).peers@[*peer_id] }),
//@sub E8 "&& peer.is_connected() {" => "{ if peer.is_connected() {"
//@hint before "self.recount_peer_tracker_info();"
            proof { lemma_tags_update(old(self).protect_counter@, old(self).peers@, *peer_id, self.peers@[*peer_id]); }
//@hint exit
        }
        proof {
            let m0 = old(self).peers@; let k = *peer_id;
            if m0.contains_key(k) && !connected(m0[k]) { assert(self.peers@ =~= m0); }
        }
//@end

//@fn impl PeerTracker :: on_ping_event
//@props C39
    pub(crate) fn on_ping_event(&mut self, ev: &PingEvent)
        requires old(self).inv()
        ensures
            final(self).inv(),
            final(self).peers@.dom() == old(self).peers@.dom(),
            forall|k: PeerId| #[trigger] final(self).peers@.contains_key(k) ==> final(self).peers@[k] == (Peer { connections: final(self).peers@[k].connections, ..old(self).peers@[k] })
                && final(self).peers@[k].connections@ == old(self).peers@[k].connections@,
//@sub E8 "&& let Some(conn_info) = peer.connections.get_mut(&ev.connection) {" => "{ if let Some(conn_info) = peer.connections.get_mut(&ev.connection) {"
//@sub E9 "ev.result.as_ref().ok().copied()" => "vx_ok_copied(&ev.result)"
//@hint exit
        }
        proof {
            let m0 = old(self).peers@; let k = ev.peer;
            if m0.contains_key(k) {
                let p = self.peers@[k];
                assert(self.peers@ =~= m0.insert(k, p));
                lemma_tags_update(old(self).protect_counter@, m0, k, p);
                lemma_stats_update(old(self).info_tx@, m0, k, p);
            }
        }
//@end

//@fn impl PeerTracker :: gc
//@props C39
//@block "self.peers.retain(|_, peer| {"
    fn gc__keep(peer: &Peer) -> (keep: bool)
        // C39: garbage collection never forgets a connected or protected peer
        ensures (connected(*peer) || is_prot(*peer)) ==> keep
//@sub E9 "peer.disconnected_at.is_none_or(|tm| tm.elapsed() <= EXPIRED_AFTER)" => "vx_recently_disconnected(&peer.disconnected_at)"
//@end

//@fn impl PeerTracker :: gc
//@props C39
    pub(crate) fn gc(&mut self)
        requires old(self).inv()
        ensures
            final(self).inv(),
            final(self).peers@.submap_of(old(self).peers@),
            forall|k: PeerId| #[trigger] old(self).peers@.contains_key(k) && (connected(old(self).peers@[k]) || is_prot(old(self).peers@[k])) ==> final(self).peers@.contains_key(k),
//@opaque "self.peers.retain(|_, peer| {" => "self.peers.vx_retain_keep("
//@hint exit
        proof {
            let m = old(self).peers@; let m2 = self.peers@;
            lemma_cnt_submap(m, m2, f_conn()); lemma_cnt_submap(m, m2, f_trusted()); lemma_cnt_submap(m, m2, f_full()); lemma_cnt_submap(m, m2, f_archival());
            assert forall|t: u32| #[trigger] count_of(self.protect_counter@, t) == cnt(m2, with_tag(t)) by {
                assert forall|k: PeerId| #[trigger] m.contains_key(k) && with_tag(t)(m[k]) implies m2.contains_key(k) by { assert(m[k].protected@.contains(t)); assert(is_prot(m[k])); }
                lemma_cnt_submap(m, m2, with_tag(t));
                assert(count_of(old(self).protect_counter@, t) == cnt(m, with_tag(t)));
            }
        }
//@end
}

// the peer `k` was (re)written, every other peer is untouched
pub open spec fn touched(m: Map<PeerId, Peer>, m2: Map<PeerId, Peer>, k: PeerId) -> bool {
    m2.contains_key(k) && m2 == m.insert(k, m2[k])
}
// the peer an update starts from: the tracked one, or a fresh one (whose clock reading is the final one's)
pub open spec fn base_of(m: Map<PeerId, Peer>, m2: Map<PeerId, Peer>, k: PeerId) -> Peer {
    if m.contains_key(k) { m[k] } else {
        Peer { id: k, connections: ConnMap { g: Ghost(Set::<ConnectionId>::empty()) }, protected: TagSet { g: Ghost(Set::<u32>::empty()) }, trusted: false, archival: false, node_kind: NodeKind::Unknown, disconnected_at: m2[k].disconnected_at }
    }
}
pub open spec fn base_tags(m: Map<PeerId, Peer>, k: PeerId) -> Set<u32> { if m.contains_key(k) { m[k].protected@ } else { Set::<u32>::empty() } }

// re-inserting a peer with the same tags keeps the per-tag counts
pub proof fn lemma_tags_update(c: Map<u32, usize>, m: Map<PeerId, Peer>, k: PeerId, p: Peer)
    requires tags_match(c, m), m.contains_key(k) ==> p.protected@ == m[k].protected@, !m.contains_key(k) ==> p.protected@ == Set::<u32>::empty()
    ensures tags_match(c, m.insert(k, p))
{
    assert forall|tag: u32| #[trigger] count_of(c, tag) == cnt(m.insert(k, p), with_tag(tag)) by {
        lemma_cnt_insert(m, k, p, with_tag(tag));
    }
}
// re-inserting a peer with the same connectedness and flags keeps the statistics
pub proof fn lemma_stats_update(i: PeerTrackerInfo, m: Map<PeerId, Peer>, k: PeerId, p: Peer)
    requires
        stats_match(i, m),
        m.contains_key(k) ==> connected(p) == connected(m[k]) && p.trusted == m[k].trusted && p.archival == m[k].archival && p.node_kind == m[k].node_kind,
        !m.contains_key(k) ==> !connected(p),
    ensures stats_match(i, m.insert(k, p))
{
    lemma_cnt_insert(m, k, p, f_conn()); lemma_cnt_insert(m, k, p, f_trusted()); lemma_cnt_insert(m, k, p, f_full()); lemma_cnt_insert(m, k, p, f_archival());
}
// a peer that does not carry the tag yet leaves room for one more in the tag's count
pub proof fn lemma_cnt_room(m: Map<PeerId, Peer>, k: PeerId, tag: u32)
    requires !(m.contains_key(k) && m[k].protected@.contains(tag)), m.dom().insert(k).len() <= usize::MAX
    ensures cnt(m, with_tag(tag)) + 1 <= usize::MAX
{
    let s = m.dom().filter(|x: PeerId| with_tag(tag)(m[x]));
    assert(!s.contains(k));
    assert(s.insert(k).subset_of(m.dom().insert(k)));
    vstd::set_lib::lemma_len_subset(s.insert(k), m.dom().insert(k));
}
// a peer that carries the tag is counted
pub proof fn lemma_cnt_has(m: Map<PeerId, Peer>, k: PeerId, tag: u32)
    requires m.contains_key(k), m[k].protected@.contains(tag)
    ensures cnt(m, with_tag(tag)) >= 1
{
    let s = m.dom().filter(|x: PeerId| with_tag(tag)(m[x]));
    assert(s.contains(k));
    if s.len() == 0 { assert(s =~= Set::<PeerId>::empty()); }
}
} // verus!
fn main() {}
