//@unit abci
//@serves C45
use vstd::prelude::*;
verus! {
// std specifications not in vstd (A-std)
pub assume_specification<T, F: FnOnce(T) -> bool> [Option::<T>::is_some_and] (o: Option<T>, f: F) -> (r: bool)
    requires o.is_some() ==> f.requires((o.unwrap(),))
    ensures o.is_none() ==> !r, o.is_some() ==> f.ensures((o.unwrap(),), r);
pub assume_specification<T, F: FnOnce(T) -> bool> [Option::<T>::is_none_or] (o: Option<T>, f: F) -> (r: bool)
    requires o.is_some() ==> f.requires((o.unwrap(),))
    ensures o.is_none() ==> r, o.is_some() ==> f.ensures((o.unwrap(),), r);
//@src grpc/src/abci_proofs.rs

// ---------------------------------------------------------------------------
// stubs (E9): ics23 proofs and their verification are uninterpreted
// ---------------------------------------------------------------------------
pub struct ProofSpec { pub id: u64 }
pub struct CommitmentProof { pub id: u64 }
pub struct ExistenceProof { pub key: Vec<u8>, pub value: Vec<u8> }
#[derive(Debug)]
pub enum ProofError {
    RootMismatch, AbciProofMissing, UnsupportedSpec, Decode, ExistanceProofMissing,
    UnevenProofsAndKeysLengths(usize, usize), OperationKeyMismatch(Vec<u8>, Vec<u8>),
}
pub struct CommitmentOp { pub key: Vec<u8>, pub spec: ProofSpec, pub proof: CommitmentProof }
// the existence proof (if any) a commitment proof carries for a key
pub uninterp spec fn exist_of(p: CommitmentProof, key: Seq<u8>) -> Option<ExistenceProof>;
impl CommitmentOp {
    #[verifier::external_body]
    pub fn get_existence_proof(&self, key: &[u8]) -> (r: Option<&ExistenceProof>)
        ensures match r { Some(e) => exist_of(self.proof, key@) == Some(*e), None => exist_of(self.proof, key@).is_none() }
    { unimplemented!() }
}
// ics23::verify_membership::<Sha256Provider>(proof, spec, root, key, value)
pub uninterp spec fn ics23_ok(proof: CommitmentProof, spec: ProofSpec, root: Seq<u8>, key: Seq<u8>, value: Seq<u8>) -> bool;
#[verifier::external_body]
pub fn vx_ics23_verify_membership(proof: &CommitmentProof, spec: &ProofSpec, root: &Vec<u8>, key: &Vec<u8>, value: &[u8]) -> (r: bool)
    ensures r == ics23_ok(*proof, *spec, root@, key@, value@)
{ unimplemented!() }
#[verifier::external_body]
pub fn vx_bytes_ne(a: &[u8], b: &Vec<u8>) -> (r: bool) ensures r == (a@ != b@) { unimplemented!() }
#[verifier::external_body]
pub fn vx_to_vec(s: &[u8]) -> (r: Vec<u8>) ensures r@ == s@ { unimplemented!() }
#[verifier::external_body]
pub fn vx_clone_bytes(s: &Vec<u8>) -> (r: Vec<u8>) ensures r@ == s@ { unimplemented!() }

// `keys.into_iter().fuse()`: the keys in order, None for ever after the last one
pub struct KeysIter { pub items: Vec<Vec<u8>>, pub pos: usize }
impl KeysIter {
    pub fn new(items: Vec<Vec<u8>>) -> (r: KeysIter) ensures r.items@ == items@, r.pos == 0 { KeysIter { items, pos: 0 } }
    #[verifier::external_body]
    pub fn next(&mut self) -> (r: Option<&[u8]>)
        requires old(self).pos <= old(self).items@.len()
        ensures
            final(self).items@ == old(self).items@,
            old(self).pos < old(self).items@.len() ==> r.is_some() && r.unwrap()@ == old(self).items@[old(self).pos as int]@ && final(self).pos == old(self).pos + 1,
            old(self).pos >= old(self).items@.len() ==> r.is_none() && final(self).pos == old(self).pos,
    { unimplemented!() }
}

pub struct ProofChain(pub Vec<CommitmentOp>);

// C45: the chain links `leaf` under keys[0] through every tree up to `root`: op i carries an existence proof for its own
// key == keys[i], and ics23 verifies that op i proves (key i -> leaf i) under root i, where leaf 0 is the given leaf,
// leaf i+1 is root i, root i is the value of the existence proof op i+1 carries (looked up with key i), and the last
// root is the expected uppermost root
pub open spec fn root_at(ops: Seq<CommitmentOp>, keys: Seq<Seq<u8>>, root: Seq<u8>, i: int) -> Seq<u8> {
    if i + 1 < ops.len() { exist_of(ops[i + 1].proof, keys[i]).unwrap().value@ } else { root }
}
pub open spec fn leaf_at(ops: Seq<CommitmentOp>, keys: Seq<Seq<u8>>, root: Seq<u8>, leaf: Seq<u8>, i: int) -> Seq<u8> {
    if i == 0 { leaf } else { root_at(ops, keys, root, i - 1) }
}
pub open spec fn link_ok(ops: Seq<CommitmentOp>, keys: Seq<Seq<u8>>, root: Seq<u8>, leaf: Seq<u8>, i: int) -> bool {
    &&& keys[i] == ops[i].key@
    &&& exist_of(ops[i].proof, keys[i]).is_some()
    &&& (i + 1 < ops.len() ==> exist_of(ops[i + 1].proof, keys[i]).is_some())
    &&& ics23_ok(ops[i].proof, ops[i].spec, root_at(ops, keys, root, i), ops[i].key@, leaf_at(ops, keys, root, leaf, i))
}
pub open spec fn chain_links(ops: Seq<CommitmentOp>, keys: Seq<Seq<u8>>, root: Seq<u8>, leaf: Seq<u8>) -> bool {
    keys.len() == ops.len() && forall|i: int| 0 <= i < ops.len() ==> #[trigger] link_ok(ops, keys, root, leaf, i)
}

impl ProofChain {
//@fn impl ProofChain :: verify_membership
//@props C45
    pub fn verify_membership(&self, root: &[u8], keys: Vec<Vec<u8>>, leaf: &[u8]) -> (r: Result<(), ProofError>)
        requires
            // a ProofChain is only built by TryFrom<ProofOps>, which rejects an empty list; the only caller passes two keys
            self.0@.len() >= 1, keys@.len() >= 1,
        ensures
            r.is_ok() ==> chain_links(self.0@, keys@.map_values(|k: Vec<u8>| k@), root@, leaf@),
//@drop "let root = root.as_ref();"
//@sub E9 "let mut current_leaf = leaf.as_ref();" => "let mut current_leaf = leaf; let ghost ks = keys@.map_values(|k: Vec<u8>| k@);"
//@ascribe "let mut current_idx = 0;" => "let mut current_idx: usize = 0;"
//@sub E9 "let mut keys = keys.into_iter().fuse();" => "let mut keys = KeysIter::new(keys);"
//@sub E9 "while let Some(key) = keys.next() {"
        loop
            invariant
                keys.items@.map_values(|k: Vec<u8>| k@) == ks, keys.pos == current_idx, current_idx <= ks.len(), self.0@.len() >= 1, ks.len() >= 1,
                current_idx <= self.0@.len(),
                current_leaf@ == leaf_at(self.0@, ks, root@, leaf@, current_idx as int),
                forall|i: int| 0 <= i < current_idx ==> #[trigger] link_ok(self.0@, ks, root@, leaf@, i),
                // nothing is left to verify once the uppermost tree has been reached
                current_idx > 0 && current_idx == self.0@.len() ==> keys.pos >= ks.len(),
            ensures current_idx >= ks.len()
            decreases ks.len() + 1 - keys.pos
        {
            let __k = keys.next();
            let Some(key) = __k else { break; };
            proof { assert(key@ == ks[current_idx as int]); }
//@drop "let key = key.as_ref();"
//@sub E9-op "key != proof.key" => "vx_bytes_ne(key, &proof.key)"
//@sub E9 "proof.key.clone()," => "vx_clone_bytes(&proof.key),"
//@sub E9 "key.to_vec()," => "vx_to_vec(key),"
//@closure "|proof|" => "|proof: &ExistenceProof| -> (o: &[u8]) ensures o@ == proof.value@"
//@sub E9 "ics23::verify_membership::<Sha256Provider>(" => "vx_ics23_verify_membership("
//@sub E9 "&current_root.to_vec(), // removing to_vec needs fix upstream" => "&vx_to_vec(current_root),"
//@hint after "current_leaf = current_root;"
            proof { assert(link_ok(self.0@, ks, root@, leaf@, current_idx as int)); }
//@end
}

// ---------------------------------------------------------------------------
// the caller: GrpcClient::get_verified_balance_impl (grpc/src/client.rs)
// ---------------------------------------------------------------------------
pub struct Address { pub b: Vec<u8> }
impl Address {
    #[verifier::external_body]
    pub fn as_bytes(&self) -> (r: &[u8]) ensures r@ == self.b@ { unimplemented!() }
}
pub uninterp spec fn bond_denom() -> Seq<u8>;
pub uninterp spec fn bank_key() -> Seq<u8>;   // b"bank"
pub struct Denom {}
impl Denom {
    #[verifier::external_body]
    pub fn as_bytes(&self) -> (r: &[u8]) ensures r@ == bond_denom() { unimplemented!() }
}
pub const BOND_DENOM: Denom = Denom {};
pub struct Header { pub app_hash: Vec<u8>, pub validators_hash: Vec<u8>, pub data_hash: Vec<u8>, pub last_results_hash: Vec<u8>, pub consensus_hash: Vec<u8> }
pub struct ExtendedHeader { pub h: u64, pub header: Header }
impl ExtendedHeader {
    #[verifier::external_body]
    pub fn height(&self) -> (r: u64) ensures r == self.h { unimplemented!() }
}
#[derive(PartialEq, Eq, Clone, Copy, Structural, Debug)]
pub enum ErrorCode { Success, Other }
pub struct ProofOps { pub id: u64 }
pub struct AbciQueryResponse { pub code: ErrorCode, pub log: u64, pub value: Vec<u8>, pub proof_ops: Option<ProofOps> }
#[derive(Debug)]
pub enum Error { AbciQuery(ErrorCode, u64), Proof(ProofError), FailedToParseResponse, Transport }
impl vstd::std_specs::convert::FromSpecImpl<ProofError> for Error {
    open spec fn obeys_from_spec() -> bool { true }
    open spec fn from_spec(e: ProofError) -> Error { Error::Proof(e) }
}
impl From<ProofError> for Error { fn from(e: ProofError) -> Error { Error::Proof(e) } }
impl ProofChain {
    // TryFrom<ProofOps> for ProofChain: an empty operation list is AbciProofMissing
    #[verifier::external_body]
    pub fn vx_try_from(ops: Option<ProofOps>) -> (r: Result<ProofChain, ProofError>)
        ensures r.is_ok() ==> r.unwrap().0@.len() >= 1
    { unimplemented!() }
}
pub struct Coin { pub amount: u64 }
impl Coin {
    pub fn utia(amount: u64) -> (r: Coin) ensures r.amount == amount { Coin { amount } }
}
pub uninterp spec fn amount_of(value: Seq<u8>) -> Option<u64>;
#[verifier::external_body]
pub fn vx_parse_amount(value: &Vec<u8>) -> (r: Result<u64, Error>)
    ensures match r { Ok(a) => amount_of(value@) == Some(a), Err(e) => amount_of(value@).is_none() && e is FailedToParseResponse }
{ unimplemented!() }
pub struct Context {}
pub struct GrpcClient { pub answer: Ghost<AbciQueryResponse> }
impl GrpcClient {
    // one ABCI query `store/bank/key` with proof at `height`; whatever the (untrusted) node answers
    #[verifier::external_body]
    pub async fn vx_abci_query(&self, data: &Vec<u8>, height: u64) -> (r: Result<AbciQueryResponse, Error>)
    { unimplemented!() }
}
#[verifier::external_body]
pub fn vx_vec_with_capacity(n: usize) -> (r: Vec<u8>) ensures r@.len() == 0 { unimplemented!() }
#[verifier::external_body]
pub fn vx_bank() -> (r: Vec<u8>) ensures r@ == bank_key() { unimplemented!() }

// the bank-store key of an account's balance in the bond denomination
pub open spec fn balance_key(addr: Seq<u8>) -> Seq<u8> { seq![0x02u8, addr.len() as u8] + addr + bond_denom() }

pub open spec fn balance_keys(addr: Seq<u8>) -> Seq<Seq<u8>> { Seq::empty().push(balance_key(addr)).push(bank_key()) }
pub open spec fn balance_proved(chain: ProofChain, addr: Seq<u8>, app_hash: Seq<u8>, value: Seq<u8>) -> bool {
    chain_links(chain.0@, balance_keys(addr), app_hash, value)
}

impl GrpcClient {
//@fn impl GrpcClient :: get_verified_balance_impl @ grpc/src/client.rs
//@props C45
    async fn get_verified_balance_impl(&self, address: &Address, header: &ExtendedHeader, context: &Context) -> (r: Result<Coin, Error>)
        ensures
            // C45: a balance is reported only if a proof chain links (balance key -> returned value) through the bank store
            // to the header's app hash
            r.is_ok() ==> exists|chain: ProofChain, value: Seq<u8>| #![trigger balance_proved(chain, address.b@, header.header.app_hash@, value)]
                balance_proved(chain, address.b@, header.header.app_hash@, value) && amount_of(value) == Some(r.unwrap().amount),
//@hint before "Ok(Coin::utia(amount))"
        proof { assert(balance_proved(proof, address.b@, header.header.app_hash@, response.value@)); }
//@sub E9 "Vec::with_capacity(1 + 1 + appconsts::SIGNER_SIZE + 4)" => "vx_vec_with_capacity(26)"
//@sub E9 "self .abci_query(&prefixed_account_key, \"store/bank/key\", height, true) .context(context) .await?" => "self.vx_abci_query(&prefixed_account_key, height).await?"
//@sub E9 "let proof: ProofChain = response.proof_ops.unwrap_or_default().try_into()?;" => "let proof: ProofChain = ProofChain::vx_try_from(response.proof_ops)?;"
//@sub E9 "[prefixed_account_key.as_slice(), b\"bank\"]," => "__keys,"
//@hint before "proof.verify_membership("
        let __keys = vec![vx_clone_bytes(&prefixed_account_key), vx_bank()];
        let ghost kv = __keys@.map_values(|k: Vec<u8>| k@);
        proof {
            assert(prefixed_account_key@ =~= balance_key(address.b@));
            assert(kv =~= balance_keys(address.b@));
        }
//@sub E8 "let amount = std::str::from_utf8(&response.value) .map_err(|_| Error::FailedToParseResponse)? .parse() .map_err(|_| Error::FailedToParseResponse)?;" => "let amount = vx_parse_amount(&response.value)?;"
//@sub E9-op "response.code != ErrorCode::Success" => "!(response.code == ErrorCode::Success)"
//@sub E9 "1.max(header.height().saturating_sub(1))" => "(if header.height().saturating_sub(1) >= 1 { header.height().saturating_sub(1) } else { 1u64 })"
//@end
}

} // verus!
fn main() {}
