//@unit framing
//@serves C30 C16
use vstd::prelude::*;
verus! {
// std specifications not in vstd (A-std)
pub assume_specification<T, F: FnOnce(T) -> bool> [Option::<T>::is_some_and] (o: Option<T>, f: F) -> (r: bool)
    requires o.is_some() ==> f.requires((o.unwrap(),))
    ensures o.is_none() ==> !r, o.is_some() ==> f.ensures((o.unwrap(),), r);
pub assume_specification<T, F: FnOnce(T) -> bool> [Option::<T>::is_none_or] (o: Option<T>, f: F) -> (r: bool)
    requires o.is_some() ==> f.requires((o.unwrap(),))
    ensures o.is_none() ==> r, o.is_some() ==> f.ensures((o.unwrap(),), r);
//@src node/src/p2p/header_ex.rs

// ---------------------------------------------------------------------------
// stubs (E9): prost codecs are uninterpreted functions of the bytes; the stream is a ghost byte sequence read in
// ARBITRARY chunks (the quantification over chunkings)
// ---------------------------------------------------------------------------
pub struct HeaderRequest { pub id: u64 }
#[derive(Clone, Copy)]
pub struct HeaderResponse { pub id: u64 }
pub struct DecodeError {}
// prost::decode_length_delimiter: the varint at the front of the buffer and the number of bytes it occupies (1..=10)
pub uninterp spec fn varint_dec(b: Seq<u8>) -> Option<(usize, int)>;
#[verifier::external_body]
pub proof fn axiom_varint_width(b: Seq<u8>)
    ensures varint_dec(b).is_some() ==> 1 <= varint_dec(b).unwrap().1 <= 10 && varint_dec(b).unwrap().1 <= b.len()
{}
pub uninterp spec fn resp_dec(b: Seq<u8>) -> Option<HeaderResponse>;
pub uninterp spec fn req_dec(b: Seq<u8>) -> Option<HeaderRequest>;
#[verifier::external_body]
pub fn vx_decode_length_delimiter(buf: &[u8]) -> (r: Result<(usize, &[u8]), DecodeError>)
    ensures match r {
        Ok((len, rest)) => varint_dec(buf@).is_some() && varint_dec(buf@).unwrap().0 == len && rest@ == buf@.subrange(varint_dec(buf@).unwrap().1, buf@.len() as int),
        Err(_) => varint_dec(buf@).is_none(),
    }
{ unimplemented!() }
impl HeaderResponse {
    #[verifier::external_body]
    pub fn decode(b: &[u8]) -> (r: Result<HeaderResponse, DecodeError>)
        ensures match r { Ok(m) => resp_dec(b@) == Some(m), Err(_) => resp_dec(b@).is_none() }
    { unimplemented!() }
}
impl HeaderRequest {
    #[verifier::external_body]
    pub fn decode(b: &[u8]) -> (r: Result<HeaderRequest, DecodeError>)
        ensures match r { Ok(m) => req_dec(b@) == Some(m), Err(_) => req_dec(b@).is_none() }
    { unimplemented!() }
}

// one length-delimited frame at the front of `b`: (payload, rest)
pub open spec fn frame1(b: Seq<u8>) -> Option<(Seq<u8>, Seq<u8>)> {
    if b.len() == 0 { None } else {
        match varint_dec(b) {
            Some((len, k)) => if b.len() - k >= len { Some((b.subrange(k, k + len), b.subrange(k + len, b.len() as int))) } else { None },
            None => None,
        }
    }
}
pub open spec fn resp_frame(b: Seq<u8>) -> Option<(HeaderResponse, Seq<u8>)> {
    match frame1(b) { Some((payload, rest)) => match resp_dec(payload) { Some(m) => Some((m, rest)), None => None }, None => None }
}
pub open spec fn req_frame(b: Seq<u8>) -> Option<HeaderRequest> {
    match frame1(b) { Some((payload, rest)) => req_dec(payload), None => None }
}
// all response frames at the front of `b`, in order, up to the first byte sequence that is not a complete valid frame
pub open spec fn resp_frames(b: Seq<u8>) -> Seq<HeaderResponse>
    decreases b.len()
    when true
    via resp_frames_dec
{
    match resp_frame(b) {
        Some((m, rest)) => if rest.len() < b.len() { seq![m] + resp_frames(rest) } else { seq![m] },
        None => Seq::empty(),
    }
}
#[via_fn]
proof fn resp_frames_dec(b: Seq<u8>) {}

//@fn - :: parse_delimiter
//@props C30 C16
fn parse_delimiter(buf: &[u8]) -> (r: Option<(usize, &[u8])>)
    ensures match r {
        Some((len, rest)) => buf@.len() > 0 && varint_dec(buf@).is_some() && varint_dec(buf@).unwrap().0 == len && rest@ == buf@.subrange(varint_dec(buf@).unwrap().1, buf@.len() as int),
        None => buf@.len() == 0 || varint_dec(buf@).is_none(),
    }
//@sub E9 "let Ok(len) = prost::decode_length_delimiter(&mut buf) else {" => "let Ok((len, buf)) = vx_decode_length_delimiter(buf) else {"
//@end

//@fn - :: parse_header_response
//@props C30 C16
fn parse_header_response(buf: &[u8]) -> (r: Option<(HeaderResponse, &[u8])>)
    ensures match r {
        Some((m, rest)) => resp_frame(buf@) == Some((m, rest@)) && rest@.len() < buf@.len(),
        None => resp_frame(buf@).is_none(),
    }
//@hint entry
    proof { axiom_varint_width(buf@); }
//@hint after "let (len, rest) = parse_delimiter(buf)?;"
    proof {
        let k = varint_dec(buf@).unwrap().1;
        if rest@.len() >= len {
            assert(rest@.subrange(0, len as int) =~= buf@.subrange(k, k + len));
            assert(rest@.subrange(len as int, rest@.len() as int) =~= buf@.subrange(k + len, buf@.len() as int));
        }
    }
//@end

//@fn - :: parse_header_request
//@props C30 C16
fn parse_header_request(buf: &[u8]) -> (r: Option<HeaderRequest>)
    ensures r == req_frame(buf@)
//@hint entry
    proof { axiom_varint_width(buf@); }
//@hint after "let (len, rest) = parse_delimiter(buf)?;"
    proof {
        let k = varint_dec(buf@).unwrap().1;
        if rest@.len() >= len {
            assert(rest@.subrange(0, len as int) =~= buf@.subrange(k, k + len));
            assert(rest@.subrange(len as int, rest@.len() as int) =~= buf@.subrange(k + len, buf@.len() as int));
        }
    }
//@end

// ---- the reading side: a stream delivered in arbitrary chunks ----
#[derive(Debug)]
pub struct IoError {}
pub struct Elapsed {}
// `failed`: the stream reported an I/O error (E13)
pub struct Stream { pub data: Ghost<Seq<u8>>, pub pos: Ghost<int>, pub failed: Ghost<bool> }
// timeout(t, io.read(&mut buf[from..])): a timeout, an I/O error, or SOME number of the next bytes of the stream (at
// least one unless the stream is at its end or the buffer is full, at most what fits) copied to buf[from..]
#[verifier::external_body]
pub async fn vx_timed_read(io: &mut Stream, buf: &mut Vec<u8>, from: usize, t: Duration) -> (r: Result<Result<usize, IoError>, Elapsed>)
    requires from <= old(buf)@.len(), 0 <= old(io).pos@ <= old(io).data@.len()
    ensures
        final(io).data@ == old(io).data@, final(buf)@.len() == old(buf)@.len(),
        final(buf)@.subrange(0, from as int) == old(buf)@.subrange(0, from as int),
        match r {
            Ok(Ok(n)) => n <= old(buf)@.len() - from && final(io).pos@ == old(io).pos@ + n && final(io).pos@ <= old(io).data@.len()
                && final(buf)@.subrange(from as int, from + n) == old(io).data@.subrange(old(io).pos@, old(io).pos@ + n)
                && (n == 0 ==> (old(io).pos@ == old(io).data@.len() || from == old(buf)@.len())),
            _ => final(io).pos@ == old(io).pos@,
        },
        final(io).failed@ == (old(io).failed@ || r matches Ok(Err(_))),
{ unimplemented!() }
#[derive(Clone, Copy)]
pub struct Duration { pub d: u64 }
impl Duration {
    // std::cmp::Ord::max / min on Duration (A-std)
    #[verifier::external_body]
    pub fn max(self, o: Duration) -> (r: Duration) ensures r.d == (if self.d >= o.d { self.d } else { o.d }) { unimplemented!() }
    #[verifier::external_body]
    pub fn min(self, o: Duration) -> (r: Duration) ensures r.d == (if self.d <= o.d { self.d } else { o.d }) { unimplemented!() }
}
impl Duration {
    #[verifier::external_body]
    pub fn checked_sub(self, o: Duration) -> Option<Duration> { unimplemented!() }
}
pub struct Instant {}
impl Instant {
    #[verifier::external_body]
    pub fn now() -> Instant { unimplemented!() }
    #[verifier::external_body]
    pub fn elapsed(&self) -> Duration { unimplemented!() }
}
#[verifier::external_body]
pub fn vx_zeroed(n: usize) -> (v: Vec<u8>) ensures v@.len() == n { unimplemented!() }

//@fn - :: read_up_to
//@props C30
async fn read_up_to(io: &mut Stream, size_limit: usize, time_limit: Duration) -> (r: Result<Vec<u8>, IoError>)
    requires 0 <= old(io).pos@ <= old(io).data@.len()
    ensures
        final(io).data@ == old(io).data@,
        // whatever the chunking, what is returned is exactly the next bytes of the stream, at most size_limit of them
        final(io).pos@ <= old(io).data@.len(),
        r.is_ok() ==> r.unwrap()@.len() <= size_limit && final(io).pos@ == old(io).pos@ + r.unwrap()@.len()
            && r.unwrap()@ == old(io).data@.subrange(old(io).pos@, old(io).pos@ + r.unwrap()@.len()),
        // only an I/O error of the stream makes it fail (a timeout just ends the reading)
        r.is_ok() ==> final(io).failed == old(io).failed, r.is_err() ==> final(io).failed@,
//@sub E9 "let mut buf = vec![0u8; size_limit];" => "let mut buf = vx_zeroed(size_limit);"
//@ascribe "let mut read_len = 0;" => "let mut read_len: usize = 0;"
//@sub E9 "timeout(time_limit, io.read(&mut buf[read_len..])).await" => "vx_timed_read(io, &mut buf, read_len, time_limit).await"
//@loop 1
        invariant
            read_len <= buf@.len(), buf@.len() == size_limit, io.data@ == old(io).data@, io.failed == old(io).failed,
            0 <= old(io).pos@, io.pos@ == old(io).pos@ + read_len, io.pos@ <= io.data@.len(),
            buf@.subrange(0, read_len as int) == old(io).data@.subrange(old(io).pos@, old(io).pos@ + read_len),
        decreases size_limit - read_len
//@hint before "read_len += len;"
        proof {
            let a = old(io).pos@;
            assert(buf@.subrange(0, read_len as int + len) =~= buf@.subrange(0, read_len as int) + buf@.subrange(read_len as int, read_len + len));
            assert(old(io).data@.subrange(a, a + read_len + len) =~= old(io).data@.subrange(a, a + read_len) + old(io).data@.subrange(a + read_len, a + read_len + len));
        }
//@end

//@const REQUEST_SIZE_LIMIT
//@const RESPONSE_SIZE_LIMIT
pub const REQUEST_TIME_LIMIT: Duration = Duration { d: 1 };
pub const RESPONSE_TIME_LIMIT: Duration = Duration { d: 5 };
pub struct StreamProtocol {}
pub struct HeaderCodec {}
#[verifier::external_body]
pub fn vx_io_error_other(s: &str) -> IoError { unimplemented!() }

pub proof fn lemma_resp_frames_unfold(b: Seq<u8>)
    ensures match resp_frame(b) {
        Some((m, rest)) => rest.len() < b.len() ==> resp_frames(b) == seq![m] + resp_frames(rest),
        None => resp_frames(b) == Seq::<HeaderResponse>::empty(),
    }
{}

// ---- the writing side ----
pub uninterp spec fn enc_resp_frame(m: HeaderResponse) -> Seq<u8>;   // length delimiter + message
pub uninterp spec fn enc_req_frame(m: HeaderRequest) -> Seq<u8>;
// A-prost: what prost writes for a message is a complete frame that decodes back to it, whatever follows
#[verifier::external_body]
pub proof fn axiom_prost_resp(m: HeaderResponse, rest: Seq<u8>)
    ensures enc_resp_frame(m).len() >= 1, resp_frame(enc_resp_frame(m) + rest) == Some((m, rest))
{}
#[verifier::external_body]
pub proof fn axiom_prost_req(m: HeaderRequest, rest: Seq<u8>)
    ensures enc_req_frame(m).len() >= 1, req_frame(enc_req_frame(m) + rest) == Some(m)
{}
pub struct EncodeError {}
impl HeaderResponse {
    // prost::Message::encode_length_delimited into a Vec (a BufMut that can always grow)
    #[verifier::external_body]
    pub fn encode_length_delimited(&self, buf: &mut Vec<u8>) -> (r: Result<(), EncodeError>)
        ensures r.is_ok() ==> final(buf)@ == old(buf)@ + enc_resp_frame(*self), r.is_err() ==> final(buf)@ == old(buf)@
    { unimplemented!() }
}
impl HeaderRequest {
    #[verifier::external_body]
    pub fn encode_length_delimited(&self, buf: &mut Vec<u8>) -> (r: Result<(), EncodeError>)
        ensures r.is_ok() ==> final(buf)@ == old(buf)@ + enc_req_frame(*self), r.is_err() ==> final(buf)@ == old(buf)@
    { unimplemented!() }
}
pub struct Sink { pub written: Ghost<Seq<u8>> }
// timeout(t, io.write_all(&buf)).await.map_err(..)??: all of buf is appended to the stream, or an error
#[verifier::external_body]
pub async fn vx_timed_write_all(io: &mut Sink, buf: &Vec<u8>, t: Duration) -> (r: Result<(), IoError>)
    ensures r.is_ok() ==> final(io).written@ == old(io).written@ + buf@
{ unimplemented!() }
pub open spec fn enc_all(ms: Seq<HeaderResponse>) -> Seq<u8>
    decreases ms.len()
{
    if ms.len() == 0 { Seq::empty() } else { enc_all(ms.drop_last()) + enc_resp_frame(ms.last()) }
}
// C30: what the writer produces for a list of responses is read back as exactly that list
pub proof fn lemma_roundtrip(ms: Seq<HeaderResponse>, tail: Seq<u8>)
    requires resp_frame(tail).is_none()
    ensures resp_frames(enc_all(ms) + tail) == ms
    decreases ms.len()
{
    if ms.len() == 0 {
        assert(enc_all(ms) + tail =~= tail);
        lemma_resp_frames_unfold(tail);
    } else {
        // peel the FIRST message: enc_all(ms) == enc(ms[0]) + enc_all(ms[1..])
        lemma_enc_all_front(ms);
        let rest_ms = ms.subrange(1, ms.len() as int);
        let rest = enc_all(rest_ms) + tail;
        assert(enc_all(ms) + tail =~= enc_resp_frame(ms[0]) + rest);
        axiom_prost_resp(ms[0], rest);
        lemma_resp_frames_unfold(enc_resp_frame(ms[0]) + rest);
        lemma_roundtrip(rest_ms, tail);
        assert(seq![ms[0]] + rest_ms =~= ms);
    }
}
pub proof fn lemma_enc_all_front(ms: Seq<HeaderResponse>)
    requires ms.len() > 0
    ensures enc_all(ms) == enc_resp_frame(ms[0]) + enc_all(ms.subrange(1, ms.len() as int))
    decreases ms.len()
{
    if ms.len() == 1 {
        assert(ms.drop_last() =~= Seq::<HeaderResponse>::empty());
        assert(ms.subrange(1, 1) =~= Seq::<HeaderResponse>::empty());
        assert(enc_all(ms) =~= enc_resp_frame(ms[0]));
        assert(enc_resp_frame(ms[0]) + enc_all(ms.subrange(1, 1)) =~= enc_resp_frame(ms[0]));
    } else {
        let t = ms.drop_last();
        lemma_enc_all_front(t);
        assert(t[0] == ms[0]);
        assert(t.subrange(1, t.len() as int) =~= ms.subrange(1, ms.len() as int).drop_last());
        assert(ms.subrange(1, ms.len() as int).last() == ms.last());
        assert(enc_all(ms) =~= enc_resp_frame(ms[0]) + enc_all(ms.subrange(1, ms.len() as int)));
    }
}

impl HeaderCodec {
//@fn impl Codec for HeaderCodec :: read_request
//@props C30 C16
    async fn read_request(&mut self, _protocol: &StreamProtocol, io: &mut Stream) -> (r: Result<HeaderRequest, IoError>)
        requires 0 <= old(io).pos@ <= old(io).data@.len()
        ensures
            // the request is the first frame of the bytes received (at most REQUEST_SIZE_LIMIT of them), however they were chunked
            r.is_ok() ==> exists|n: int| 0 <= n <= REQUEST_SIZE_LIMIT && old(io).pos@ + n <= old(io).data@.len()
                && #[trigger] req_frame(old(io).data@.subrange(old(io).pos@, old(io).pos@ + n)) == Some(r.unwrap()),
            // ... and a complete valid request among the bytes received (which are at most REQUEST_SIZE_LIMIT) IS read back:
            // only an I/O error of the stream or an invalid / incomplete frame make it fail
            r.is_err() ==> final(io).failed@ || req_frame(old(io).data@.subrange(old(io).pos@, final(io).pos@)).is_none(),
//@hint after "let data = read_up_to(io, REQUEST_SIZE_LIMIT, REQUEST_TIME_LIMIT).await?;"
        let ghost n0 = data@.len() as int;
        proof { assert(data@ == old(io).data@.subrange(old(io).pos@, old(io).pos@ + n0)); assert(req_frame(old(io).data@.subrange(old(io).pos@, old(io).pos@ + n0)) == req_frame(data@)); }
//@sub E9 "parse_header_request(&data).ok_or_else(|| {" => "parse_header_request(data.as_slice()).ok_or_else(|| -> (e: IoError) {"
//@sub E9 "io::Error::other" all => "vx_io_error_other"
//@end

//@fn impl Codec for HeaderCodec :: read_response
//@props C30 C16
    async fn read_response(&mut self, _protocol: &StreamProtocol, io: &mut Stream) -> (r: Result<Vec<HeaderResponse>, IoError>)
        requires 0 <= old(io).pos@ <= old(io).data@.len()
        ensures
            // the responses are exactly the complete valid frames at the front of the bytes received (at most
            // RESPONSE_SIZE_LIMIT of them), however they were chunked; no frame at all is an error
            r.is_ok() ==> r.unwrap()@.len() > 0 && exists|n: int| 0 <= n <= RESPONSE_SIZE_LIMIT && old(io).pos@ + n <= old(io).data@.len()
                && #[trigger] resp_frames(old(io).data@.subrange(old(io).pos@, old(io).pos@ + n)) == r.unwrap()@,
            // completeness: responses among the bytes received are read back unless the stream reported an I/O error
            r.is_err() ==> final(io).failed@ || resp_frames(old(io).data@.subrange(old(io).pos@, final(io).pos@)).len() == 0,
//@sub E9 "io::Error::other" all => "vx_io_error_other"
//@hint before "let mut data = &data[..];"
        let ghost full = data@; let ghost n0 = data@.len() as int;
        proof {
            assert(data@.subrange(0, data@.len() as int) =~= data@);
            assert(full == old(io).data@.subrange(old(io).pos@, old(io).pos@ + n0));
            assert(resp_frames(old(io).data@.subrange(old(io).pos@, old(io).pos@ + n0)) == resp_frames(full));
        }
//@hint before "while let Some((header, rest)) = parse_header_response(data) {"
        proof { assert(msgs@ + resp_frames(data@) =~= resp_frames(full)); }
//@loop 1
            invariant msgs@ + resp_frames(data@) == resp_frames(full),
            ensures resp_frame(data@).is_none()
            decreases data@.len()
//@loopstart 1
            proof { lemma_resp_frames_unfold(data@); }
            let ghost m0 = msgs@;
//@loopend 1
            proof { assert(msgs@ + resp_frames(data@) =~= m0 + (seq![header] + resp_frames(rest@))); }
//@afterloop 1
        proof { lemma_resp_frames_unfold(data@); assert(msgs@ + Seq::<HeaderResponse>::empty() =~= msgs@); assert(msgs@ =~= resp_frames(full)); }
//@end

//@fn impl Codec for HeaderCodec :: write_response
//@props C30
    async fn write_response(&mut self, _protocol: &StreamProtocol, io: &mut Sink, resps: Vec<HeaderResponse>) -> (r: Result<(), IoError>)
        ensures
            // what goes onto the wire is the concatenation of the frames of a prefix of the responses (all of them unless
            // the encoder reports a full buffer)
            r.is_ok() ==> exists|n: int| 0 <= n <= resps@.len() && final(io).written@ == old(io).written@ + #[trigger] enc_all(resps@.subrange(0, n)),
//@sub E9 "Vec::with_capacity(RESPONSE_SIZE_LIMIT)" => "Vec::<u8>::new()"
//@sub E9 "timeout(RESPONSE_TIME_LIMIT, io.write_all(&buf)) .await .map_err(|_| io::Error::other(\"writing response timed out\"))??;" => "vx_timed_write_all(io, &buf, RESPONSE_TIME_LIMIT).await?;"
//@for 1 copy
//@loop 1
            invariant_except_break buf@ == enc_all(resps@.subrange(0, __i1 as int)),
            invariant __i1 <= resps@.len(),
            ensures exists|n: int| 0 <= n <= resps@.len() && buf@ == #[trigger] enc_all(resps@.subrange(0, n))
            decreases resps@.len() - __i1
//@loopstart 1
            let ghost b0 = buf@;
            proof {
                assert(resps@.subrange(0, __i1 as int).drop_last() =~= resps@.subrange(0, __i1 as int - 1));
                assert(resps@.subrange(0, __i1 as int).last() == resp);
            }
//@hint before "for resp in resps {"
        proof { assert(resps@.subrange(0, 0) =~= Seq::<HeaderResponse>::empty()); }
//@hint before "break;"
                proof { assert(buf@ == enc_all(resps@.subrange(0, __i1 as int - 1))); }
//@loopend 1
            proof { assert(buf@ == enc_all(resps@.subrange(0, __i1 as int))); }
//@end
}

} // verus!
fn main() {}
