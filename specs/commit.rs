//@unit commit
//@serves C03
//@src types/src/validator_set.rs
use vstd::prelude::*;
use std::collections::HashMap;
verus! {
//@begin-export
// std specifications not in vstd (A-std)
pub assume_specification<T, F: FnOnce(T) -> bool> [Option::<T>::is_some_and] (o: Option<T>, f: F) -> (r: bool)
    requires o.is_some() ==> f.requires((o.unwrap(),))
    ensures o.is_none() ==> !r, o.is_some() ==> f.ensures((o.unwrap(),), r);
pub assume_specification<T, F: FnOnce(T) -> bool> [Option::<T>::is_none_or] (o: Option<T>, f: F) -> (r: bool)
    requires o.is_some() ==> f.requires((o.unwrap(),))
    ensures o.is_none() ==> r, o.is_some() ==> f.ensures((o.unwrap(),), r);
broadcast use vstd::std_specs::hash::group_hash_axioms;

// ---------------------------------------------------------------------------
// generic stubs
// ---------------------------------------------------------------------------
#[verifier::external_body]
fn vx_assert(c: bool) requires c { }
#[verifier::external_body]
fn vx_unreachable() -> ! requires false { unimplemented!() }


// ---------------------------------------------------------------------------
// crate error types (types/src/error.rs): only the variants the extracted code names
// ---------------------------------------------------------------------------
#[derive(Debug)]
pub enum ValidationError { NotEnoughVotingPower(u64, u64), Other }
#[derive(Debug)]
pub enum VerificationError { NotEnoughVotingPower(u64, u64), Other }
#[derive(Debug)]
pub struct TmError {}
#[derive(Debug)]
pub enum Error {
    Validation(ValidationError), Verification(VerificationError), Tendermint(TmError),
    InvalidSignatureIndex(usize, u64), UnexpectedAbsentSignature, UnsupportedAppVersion(u64), Other,
}
impl vstd::std_specs::convert::FromSpecImpl<ValidationError> for Error {
    open spec fn obeys_from_spec() -> bool { true }
    open spec fn from_spec(e: ValidationError) -> Error { Error::Validation(e) }
}
impl From<ValidationError> for Error { fn from(e: ValidationError) -> Error { Error::Validation(e) } }
impl vstd::std_specs::convert::FromSpecImpl<VerificationError> for Error {
    open spec fn obeys_from_spec() -> bool { true }
    open spec fn from_spec(e: VerificationError) -> Error { Error::Verification(e) }
}
impl From<VerificationError> for Error { fn from(e: VerificationError) -> Error { Error::Verification(e) } }
impl vstd::std_specs::convert::FromSpecImpl<TmError> for Error {
    open spec fn obeys_from_spec() -> bool { true }
    open spec fn from_spec(e: TmError) -> Error { Error::Tendermint(e) }
}
impl From<TmError> for Error { fn from(e: TmError) -> Error { Error::Tendermint(e) } }
type Result<T, E = Error> = std::result::Result<T, E>;

// ---------------------------------------------------------------------------
// tendermint types (E9 stubs): opaque values with equality; cryptography is uninterpreted (A-crypto)
// ---------------------------------------------------------------------------
#[derive(PartialEq, Eq, Clone, Copy, Structural)]
pub struct ChainId { pub v: u64 }
#[derive(PartialEq, Eq, Clone, Copy, Structural)]
pub struct Height { pub v: u64 }
#[derive(PartialEq, Eq, Clone, Copy, Structural)]
pub struct Signature { pub v: u64 }
#[derive(PartialEq, Eq, Clone, Copy, Structural)]
pub struct AccountId { pub v: u64 }
#[derive(PartialEq, Eq, Clone, Copy, Structural)]
pub struct Time { pub v: u64 }
#[derive(PartialEq, Eq, Clone, Copy, Structural)]
pub struct TmHash { pub v: u64 }
#[derive(PartialEq, Eq, Clone, Copy, Structural)]
pub struct PartSetHeader { pub total: u32, pub hash: TmHash }
#[derive(PartialEq, Eq, Clone, Copy, Structural)]
pub struct BlockId { pub hash: TmHash, pub part_set_header: PartSetHeader }
#[derive(PartialEq, Eq, Clone, Copy, Structural)]
pub struct PublicKey { pub v: u64 }

impl Height {
    #[verifier::external_body]
    pub fn value(&self) -> (r: u64) ensures r == self.v { self.v }
}

#[derive(Clone, Copy)]
pub enum CommitSig {
    BlockIdFlagAbsent,
    BlockIdFlagCommit { validator_address: AccountId, timestamp: Time, signature: Option<Signature> },
    BlockIdFlagNil { validator_address: AccountId, timestamp: Time, signature: Option<Signature> },
}
pub struct Commit { pub height: Height, pub round: u32, pub block_id: BlockId, pub signatures: Vec<CommitSig> }
pub struct Info { pub address: AccountId, pub pub_key: PublicKey, pub power_: u64 }
pub struct Set { pub validators_: Vec<Info>, pub proposer_: Option<Info>, pub total: u64 }
pub struct Verifier {}

// signature validity and the canonical-vote sign bytes are uninterpreted (EUF-CMA is assumed, not proved)
pub uninterp spec fn sig_valid(pk: PublicKey, msg: Seq<u8>, sig: Signature) -> bool;
// CanonicalVote{Precommit, height, round, block_id, timestamp, chain_id} length-delimited protobuf bytes
pub uninterp spec fn signable(chain: ChainId, height: Height, round: u32, block_id: Option<BlockId>, ts: Option<Time>) -> Seq<u8>;

impl Info {
    #[verifier::external_body]
    pub fn power(&self) -> (p: u64) ensures p == self.power_ { unimplemented!() }
    #[verifier::external_body]
    pub fn verify_signature<V>(&self, msg: &Vec<u8>, sig: &Signature) -> (r: std::result::Result<(), TmError>)
        ensures r.is_ok() == sig_valid(self.pub_key, msg@, *sig) { unimplemented!() }
}
impl Set {
    #[verifier::external_body]
    pub fn validators(&self) -> (v: &Vec<Info>) ensures *v == self.validators_ { unimplemented!() }
    #[verifier::external_body]
    pub fn proposer(&self) -> (v: &Option<Info>) ensures *v == self.proposer_ { unimplemented!() }
    #[verifier::external_body]
    pub fn total_voting_power(&self) -> (p: u64) ensures p == self.total { unimplemented!() }
}

// A-tendermint: invariant established by tendermint's validator::Set constructors
pub open spec fn power_sum(vs: Seq<Info>, n: int) -> int
    decreases n
{
    if n <= 0 { 0 } else { power_sum(vs, n - 1) + vs[n - 1].power_ as int }
}
pub open spec fn set_valid(s: Set) -> bool {
    &&& s.total == power_sum(s.validators_@, s.validators_@.len() as int)
    &&& s.total <= 0x0FFF_FFFF_FFFF_FFFF   // MaxTotalVotingPower = i64::MAX / 8
}
pub proof fn lemma_power_sum_mono(vs: Seq<Info>, a: int, b: int)
    requires 0 <= a <= b <= vs.len()
    ensures 0 <= power_sum(vs, a) <= power_sum(vs, b)
    decreases b
{
    lemma_power_sum_nonneg(vs, a);
    if a < b { lemma_power_sum_mono(vs, a, b - 1); }
}
pub proof fn lemma_power_sum_nonneg(vs: Seq<Info>, n: int)
    ensures 0 <= power_sum(vs, n)
    decreases n
{
    if n > 0 { lemma_power_sum_nonneg(vs, n - 1); }
}

// ---------------------------------------------------------------------------
// TrustLevelRatio (types/src/trust_level.rs)
// ---------------------------------------------------------------------------
pub struct TrustLevelRatio { pub numerator: u64, pub denominator: u64 }

pub proof fn lemma_threshold(t: int, num: int, total: int, den: int)
    requires den > 0, num >= 0, total >= 0, t >= 0
    ensures (t > (num * total) / den) <==> (t * den > num * total)
{
    let p = num * total;
    vstd::arithmetic::div_mod::lemma_fundamental_div_mod(p, den);
    vstd::arithmetic::div_mod::lemma_mod_bound(p, den);
    let q = p / den;
    assert(p == den * q + p % den);
    if t > q {
        assert(t >= q + 1);
        assert(t * den >= (q + 1) * den) by(nonlinear_arith) requires t >= q + 1, den > 0;
        assert((q + 1) * den == den * q + den) by(nonlinear_arith);
    } else {
        assert(t * den <= q * den) by(nonlinear_arith) requires t <= q, den > 0;
        assert(q * den == den * q) by(nonlinear_arith);
    }
}

impl TrustLevelRatio {
//@fn impl TrustLevelRatio :: new @ types/src/trust_level.rs
    pub const fn new(numerator: u64, denominator: u64) -> (r: Self)
        ensures r.numerator == numerator, r.denominator == denominator
//@end

//@fn impl TrustLevelRatio :: voting_power_needed @ types/src/trust_level.rs
//@macro verification_error => VerificationError::Other
    pub fn voting_power_needed(
        &self,
        total_voting_power: u64,
    ) -> (res: std::result::Result<u64, VerificationError>)
        ensures
            res.is_ok() <==> (self.denominator != 0 && self.numerator * total_voting_power <= u64::MAX),
            res.is_ok() ==> res.unwrap() == (self.numerator * total_voting_power) / (self.denominator as int),
//@sub E1 "total_voting_power.into()" => "total_voting_power"
//@end
}

// ---------------------------------------------------------------------------
// Commit sign bytes (types/src/block/commit.rs)
// ---------------------------------------------------------------------------
#[derive(PartialEq, Eq, Clone, Copy, Structural)]
pub enum VoteType { Prevote, Precommit }
pub struct ValidatorIndex { pub v: u32 }
pub struct Vote {
    pub vote_type: VoteType, pub height: Height, pub round: u32, pub block_id: Option<BlockId>, pub timestamp: Option<Time>,
    pub validator_address: AccountId, pub validator_index: ValidatorIndex, pub signature: Option<Signature>,
    pub extension: Vec<u8>, pub extension_signature: Option<Signature>,
}
impl Vote {
    // tendermint: CanonicalVote::new(self, chain_id) encoded length-delimited; validator address/index and signature are NOT part of it
    #[verifier::external_body]
    pub fn into_signable_vec(self, chain_id: ChainId) -> (r: Vec<u8>)
        ensures self.vote_type == VoteType::Precommit ==> r@ == signable(chain_id, self.height, self.round, self.block_id, self.timestamp)
    { unimplemented!() }
}
#[verifier::external_body]
fn vx_validator_index(i: usize) -> (r: std::result::Result<ValidatorIndex, TmError>)
    ensures i <= 0x7fff_ffff ==> r.is_ok()
{ unimplemented!() }
#[verifier::external_body]
fn vx_get_cloned(v: &Vec<CommitSig>, i: usize) -> (r: Option<CommitSig>)
    ensures i < v@.len() ==> r == Some(v@[i as int]), i >= v@.len() ==> r.is_none()
{ unimplemented!() }

pub open spec fn sig_entry(c: Commit, i: int) -> Option<(AccountId, Time, Option<Signature>)> {
    match c.signatures@[i] {
        CommitSig::BlockIdFlagCommit { validator_address, timestamp, signature } => Some((validator_address, timestamp, signature)),
        CommitSig::BlockIdFlagNil { validator_address, timestamp, signature } => Some((validator_address, timestamp, signature)),
        CommitSig::BlockIdFlagAbsent => None,
    }
}
pub open spec fn vote_bytes(c: Commit, chain: ChainId, i: int) -> Seq<u8> {
    signable(chain, c.height, c.round, Some(c.block_id), Some(sig_entry(c, i).unwrap().1))
}

pub trait CommitExt {
    spec fn cm(&self) -> Commit;
    fn vote_sign_bytes(&self, chain_id: &ChainId, signature_idx: usize) -> (r: Result<Vec<u8>>)
        ensures
            r.is_ok() ==> signature_idx < self.cm().signatures@.len() && sig_entry(self.cm(), signature_idx as int).is_some()
                && r.unwrap()@ == vote_bytes(self.cm(), *chain_id, signature_idx as int),
            (signature_idx < self.cm().signatures@.len() && sig_entry(self.cm(), signature_idx as int).is_some() && signature_idx <= 0x7fff_ffff) ==> r.is_ok();
}
impl CommitExt for Commit {
    open spec fn cm(&self) -> Commit { *self }
//@fn impl CommitExt for Commit :: vote_sign_bytes @ types/src/block/commit.rs
    fn vote_sign_bytes(&self, chain_id: &ChainId, signature_idx: usize) -> (r: Result<Vec<u8>>)
//@sub E9 "self.signatures .get(signature_idx) .cloned()" => "vx_get_cloned(&self.signatures, signature_idx)"
//@sub E9 "signature_idx.try_into()?" => "vx_validator_index(signature_idx)?"
//@sub E9 "vote::Type::Precommit" => "VoteType::Precommit"
//@end
}

// ---------------------------------------------------------------------------
// the C03 tallies
// ---------------------------------------------------------------------------
// light: the i-th validator signed the commit's block with a valid signature
pub open spec fn signed_ok(set: Set, commit: Commit, chain: ChainId, i: int) -> bool {
    match commit.signatures@[i] {
        CommitSig::BlockIdFlagCommit { signature: Some(sig), .. } =>
            sig_valid(set.validators_@[i].pub_key, vote_bytes(commit, chain, i), sig),
        _ => false,
    }
}
pub open spec fn tally(set: Set, commit: Commit, chain: ChainId, n: int) -> int
    decreases n
{
    if n <= 0 { 0 } else {
        tally(set, commit, chain, n - 1) + if signed_ok(set, commit, chain, n - 1) { set.validators_@[n - 1].power_ as int } else { 0 }
    }
}
pub proof fn lemma_tally_le(set: Set, commit: Commit, chain: ChainId, n: int)
    requires 0 <= n <= set.validators_@.len()
    ensures 0 <= tally(set, commit, chain, n) <= power_sum(set.validators_@, n)
    decreases n
{
    if n > 0 { lemma_tally_le(set, commit, chain, n - 1); }
}
pub proof fn lemma_tally_mono(set: Set, commit: Commit, chain: ChainId, a: int, b: int)
    requires 0 <= a <= b
    ensures tally(set, commit, chain, a) <= tally(set, commit, chain, b)
    decreases b
{
    if a < b { lemma_tally_mono(set, commit, chain, a, b - 1); }
}
// every block-commit entry of the first n carries a signature, valid sign bytes and a valid signature
pub open spec fn all_commit_sigs_valid(set: Set, commit: Commit, chain: ChainId, n: int) -> bool {
    forall|i: int| 0 <= i < n ==> (#[trigger] commit.signatures@[i] is BlockIdFlagCommit ==> signed_ok(set, commit, chain, i))
}

// trusting: first-occurrence validator index for an address
pub open spec fn val_index(set: Set, a: AccountId) -> Option<int> {
    if exists|k: int| 0 <= k < set.validators_@.len() && #[trigger] set.validators_@[k].address == a {
        Some(choose|k: int| 0 <= k < set.validators_@.len() && #[trigger] set.validators_@[k].address == a
            && forall|j: int| 0 <= j < k ==> (#[trigger] set.validators_@[j]).address != a)
    } else { None }
}
// power counted for commit entry i by trusting verification: a block-commit entry with a signature by a trusted validator (by address)
pub open spec fn trusted_signer(set: Set, commit: Commit, chain: ChainId, i: int, k: int) -> bool {
    &&& 0 <= k < set.validators_@.len()
    &&& match commit.signatures@[i] {
        CommitSig::BlockIdFlagCommit { validator_address, signature: Some(sig), .. } =>
            set.validators_@[k].address == validator_address
            && sig_valid(set.validators_@[k].pub_key, vote_bytes(commit, chain, i), sig),
        _ => false,
    }
}
// sum of the powers of the validators marked in `mask`
pub open spec fn msum(vs: Seq<Info>, mask: Seq<bool>, n: int) -> int
    decreases n
{
    if n <= 0 { 0 } else { msum(vs, mask, n - 1) + if mask[n - 1] { vs[n - 1].power_ as int } else { 0 } }
}
pub proof fn lemma_msum_le(vs: Seq<Info>, mask: Seq<bool>, n: int)
    requires 0 <= n <= vs.len(), mask.len() == vs.len()
    ensures 0 <= msum(vs, mask, n) <= power_sum(vs, n)
    decreases n
{
    if n > 0 { lemma_msum_le(vs, mask, n - 1); }
}
pub proof fn lemma_msum_zero(vs: Seq<Info>, mask: Seq<bool>, n: int)
    requires 0 <= n <= mask.len(), forall|k: int| 0 <= k < mask.len() ==> !#[trigger] mask[k]
    ensures msum(vs, mask, n) == 0
    decreases n
{
    if n > 0 { lemma_msum_zero(vs, mask, n - 1); }
}
pub proof fn lemma_msum_set(vs: Seq<Info>, mask: Seq<bool>, k: int, n: int)
    requires 0 <= k < vs.len(), mask.len() == vs.len(), !mask[k], 0 <= n <= vs.len()
    ensures msum(vs, mask.update(k, true), n) == msum(vs, mask, n) + if k < n { vs[k].power_ as int } else { 0 }
    decreases n
{
    if n > 0 { lemma_msum_set(vs, mask, k, n - 1); }
}

//@fn - :: find_validator
//@props C03
fn find_validator<'a>(vals: &'a Set, val_id: &AccountId) -> (r: Option<(usize, &'a Info)>)
    ensures
        r.is_some() ==> r.unwrap().0 < vals.validators_@.len() && *r.unwrap().1 == vals.validators_@[r.unwrap().0 as int]
            && vals.validators_@[r.unwrap().0 as int].address == *val_id
            && forall|k: int| 0 <= k < r.unwrap().0 ==> (#[trigger] vals.validators_@[k]).address != *val_id,
        r.is_none() ==> forall|k: int| 0 <= k < vals.validators_@.len() ==> (#[trigger] vals.validators_@[k]).address != *val_id,
//@sub E8 "vals.validators() .iter() .enumerate() .find(|(_idx, val)| val.address == *val_id)"
    {
        let mut __i: usize = 0;
        while __i < vals.validators().len()
            invariant __i <= vals.validators_@.len(), forall|k: int| 0 <= k < __i ==> (#[trigger] vals.validators_@[k]).address != *val_id,
            decreases vals.validators_@.len() - __i
        {
            let _idx = __i;
            let val = &vals.validators()[__i];
            __i += 1;
            if val.address == *val_id { return Some((_idx, val)); }
        }
        None
    }
//@end

pub trait ValidatorSetExt {
    spec fn vs(&self) -> Set;

    fn verify_commit_light(&self, chain_id: &ChainId, height: &Height, commit: &Commit) -> (res: Result<()>)
        requires set_valid(self.vs())
        ensures
            // soundness: accepted only with > 2/3 of the total power behind valid signatures for this block
            res.is_ok() ==> {
                &&& self.vs().validators_@.len() == commit.signatures@.len()
                &&& *height == commit.height
                &&& exists|n: int| 0 <= n <= self.vs().validators_@.len() && 3 * tally(self.vs(), *commit, *chain_id, n) > 2 * self.vs().total
                &&& 3 * tally(self.vs(), *commit, *chain_id, self.vs().validators_@.len() as int) > 2 * self.vs().total
            },
            // [props: C01] every commit signature is bound: an accepted commit has no block-commit entry with an invalid signature
            res.is_ok() ==> all_commit_sigs_valid(self.vs(), *commit, *chain_id, commit.signatures@.len() as int),
            // [props: C01] every validator address is bound: entry i names the validator at index i
            res.is_ok() ==> forall|i: int| 0 <= i < commit.signatures@.len() ==>
                (#[trigger] sig_entry(*commit, i)).is_some() ==> sig_entry(*commit, i).unwrap().0 == self.vs().validators_@[i].address,
            // exactness: right height, one entry per validator, all block-commit signatures valid => accepted iff power exceeds 2/3
            (self.vs().validators_@.len() == commit.signatures@.len() && *height == commit.height
                && self.vs().validators_@.len() <= 0x7fff_ffff
                && all_commit_sigs_valid(self.vs(), *commit, *chain_id, commit.signatures@.len() as int))
              ==> (res.is_ok() <==> 3 * tally(self.vs(), *commit, *chain_id, self.vs().validators_@.len() as int) > 2 * self.vs().total);

    fn verify_commit_light_trusting(&self, chain_id: &ChainId, commit: &Commit, trust_level: TrustLevelRatio) -> (res: Result<()>)
        requires set_valid(self.vs())
        ensures
            // soundness: a set of DISTINCT trusted validators (mask), each with a valid signature on some entry, exceeds the trust level
            res.is_ok() ==> exists|mask: Seq<bool>| #![trigger msum(self.vs().validators_@, mask, self.vs().validators_@.len() as int)] {
                &&& mask.len() == self.vs().validators_@.len()
                &&& trust_level.denominator != 0
                &&& msum(self.vs().validators_@, mask, self.vs().validators_@.len() as int) * trust_level.denominator > trust_level.numerator * self.vs().total
                &&& forall|k: int| 0 <= k < mask.len() && #[trigger] mask[k] ==> exists|i: int| 0 <= i < commit.signatures@.len() && trusted_signer(self.vs(), *commit, *chain_id, i, k)
            };
}

impl ValidatorSetExt for Set {
    open spec fn vs(&self) -> Set { *self }

//@fn impl ValidatorSetExt for Set :: verify_commit_light
//@props C03
//@macro bail_verification => return Err(Error::Verification(VerificationError::Other))
    fn verify_commit_light(&self, chain_id: &ChainId, height: &Height, commit: &Commit) -> (res: Result<()>)
//@ascribe "let mut tallied_voting_power = 0;" => "let mut tallied_voting_power: u64 = 0;"
//@sub E9 "verify_signature::<Verifier>" => "verify_signature::<Verifier>"
//@for 1
//@loop 1
            invariant
                __i1 <= self.validators_@.len(),
                self.validators_@.len() == commit.signatures@.len(),
                *height == commit.height,
                set_valid(*self),
                tallied_voting_power == tally(*self, *commit, *chain_id, __i1 as int),
                voting_power_needed == (2 * self.total) / 3,
                3 * tally(*self, *commit, *chain_id, __i1 as int) <= 2 * self.total,
                // nothing rejected so far: every block-commit entry seen was signed_ok
                forall|i: int| 0 <= i < __i1 ==> (#[trigger] commit.signatures@[i] is BlockIdFlagCommit ==> signed_ok(*self, *commit, *chain_id, i)),
            decreases self.validators_@.len() - __i1
//@hint before "let signature = match commit_sig {"
            proof {
                lemma_tally_le(*self, *commit, *chain_id, __i1 as int);
                lemma_power_sum_mono(self.validators_@, __i1 as int, self.validators_@.len() as int);
            }
//@hint after "tallied_voting_power += validator.power();"
            proof {
                lemma_threshold(tallied_voting_power as int, 2, self.total as int, 3);
                lemma_tally_mono(*self, *commit, *chain_id, __i1 as int, self.validators_@.len() as int);
            }
//@end

//@fn impl ValidatorSetExt for Set :: verify_commit_light_trusting
//@props C03
//@macro bail_verification => return Err(Error::Verification(VerificationError::Other))
    fn verify_commit_light_trusting(&self, chain_id: &ChainId, commit: &Commit, trust_level: TrustLevelRatio) -> (res: Result<()>)
//@ascribe "let mut tallied_voting_power = 0;" => "let mut tallied_voting_power: u64 = 0; let ghost mut mask: Seq<bool> = Seq::new(self.validators_@.len(), |k: int| false);"
//@hint before "for (idx, commit_sig) in commit.signatures.iter().enumerate() {"
        proof { lemma_msum_zero(self.validators_@, mask, self.validators_@.len() as int); }
//@for 1
//@loop 1
            invariant
                __i1 <= commit.signatures@.len(),
                set_valid(*self),
                mask.len() == self.validators_@.len(),
                trust_level.denominator != 0,
                voting_power_needed == (trust_level.numerator * self.total) / (trust_level.denominator as int),
                tallied_voting_power == msum(self.validators_@, mask, self.validators_@.len() as int),
                forall|k: usize| k < mask.len() ==> (mask[k as int] <==> #[trigger] seen_vals@.contains_key(k)),
                forall|k: int| 0 <= k < mask.len() && #[trigger] mask[k] ==> exists|i: int| 0 <= i < commit.signatures@.len() && trusted_signer(*self, *commit, *chain_id, i, k),
            decreases commit.signatures@.len() - __i1
//@hint before "tallied_voting_power += validator.power();"
            proof {
                let n = self.validators_@.len() as int;
                assert(!mask[val_idx as int]);
                lemma_msum_set(self.validators_@, mask, val_idx as int, n);
                let nm = mask.update(val_idx as int, true);
                lemma_msum_le(self.validators_@, nm, n);
                assert(trusted_signer(*self, *commit, *chain_id, idx as int, val_idx as int));
                assert forall|k: int| 0 <= k < nm.len() && #[trigger] nm[k] implies exists|i: int| 0 <= i < commit.signatures@.len() && trusted_signer(*self, *commit, *chain_id, i, k) by {
                    if k != val_idx { assert(mask[k]); }
                }
                mask = nm;
            }
//@hint after "tallied_voting_power += validator.power();"
            proof {
                lemma_threshold(tallied_voting_power as int, trust_level.numerator as int, self.total as int, trust_level.denominator as int);
            }
//@end
}
//@end-export
} // verus!
fn main() {}
