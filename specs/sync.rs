//@unit sync
//@serves C24 C25
use vstd::prelude::*;
use std::ops::RangeInclusive;
verus! {
//@include range
//@src node/src/syncer.rs

// ---------------------------------------------------------------------------
// std specifications not in vstd (A-std)
// ---------------------------------------------------------------------------
// (Option::is_some_and is specified in the range unit)

// ---------------------------------------------------------------------------
// stubs of the surrounding system (E9): store, p2p, events, clock
// ---------------------------------------------------------------------------
#[derive(Debug)]
pub enum StoreError { NotFound, Other }
#[derive(Debug)]
pub enum SyncerError { Store(StoreError), Other }
impl vstd::std_specs::convert::FromSpecImpl<StoreError> for SyncerError {
    open spec fn obeys_from_spec() -> bool { true }
    open spec fn from_spec(e: StoreError) -> SyncerError { SyncerError::Store(e) }
}
impl From<StoreError> for SyncerError { fn from(e: StoreError) -> SyncerError { SyncerError::Store(e) } }
type SResult<T, E = SyncerError> = std::result::Result<T, E>;

// local clock, read once per call (A-clock)
pub uninterp spec fn clock() -> u64;
// header time of the (unique, C21) synced header at a height; also defined for pruned heights
pub uninterp spec fn time_of(h: int) -> u64;

pub struct Duration { pub d: u64 }
impl Duration {
    // std::cmp::Ord::max / min on Duration (A-std)
    #[verifier::external_body]
    pub fn max(self, o: Duration) -> (r: Duration) ensures r.d == (if self.d >= o.d { self.d } else { o.d }) { unimplemented!() }
    #[verifier::external_body]
    pub fn min(self, o: Duration) -> (r: Duration) ensures r.d == (if self.d <= o.d { self.d } else { o.d }) { unimplemented!() }
}
#[derive(Clone, Copy)]
pub struct Time { pub t: u64 }
impl Time {
    #[verifier::external_body]
    pub fn now() -> (r: Time) ensures r.t == clock() { unimplemented!() }
    #[verifier::external_body]
    pub fn saturating_sub(self, d: Duration) -> (r: Time)
        ensures r.t == (if self.t >= d.d { (self.t - d.d) as u64 } else { 0u64 })
    { unimplemented!() }
    #[verifier::external_body]
    pub fn after(&self, other: Time) -> (b: bool) ensures b == (self.t > other.t) { unimplemented!() }
}
impl Clone for Duration { #[verifier::external_body] fn clone(&self) -> (r: Duration) ensures r == *self { Duration { d: self.d } } }
impl Copy for Duration {}

pub struct ExtendedHeader { pub h: u64, pub t: Time }
impl ExtendedHeader {
    #[verifier::external_body]
    pub fn time(&self) -> (r: Time) ensures r == self.t { unimplemented!() }
}

impl BlockRanges {
    #[verifier::external_body]
    pub fn as_ref(&self) -> (r: &[BlockRange]) ensures r@ == self.0@ { unimplemented!() }
}

// the BroadcastingStore as seen by the syncer: three height sets + header times (contracts assumed; C19-C21 are about the store itself)
pub struct Store { pub stored: Ghost<ISet<int>>, pub pruned: Ghost<ISet<int>>, pub sampled: Ghost<ISet<int>> }
impl Store {
    #[verifier::external_body]
    pub async fn get_stored_header_ranges(&self) -> (r: Result<BlockRanges, StoreError>)
        ensures r.is_ok() ==> r.unwrap()@ == self.stored@ && r.unwrap().wf() { unimplemented!() }
    #[verifier::external_body]
    pub async fn get_pruned_ranges(&self) -> (r: Result<BlockRanges, StoreError>)
        ensures r.is_ok() ==> r.unwrap()@ == self.pruned@ && r.unwrap().wf() { unimplemented!() }
    #[verifier::external_body]
    pub async fn get_sampled_ranges(&self) -> (r: Result<BlockRanges, StoreError>)
        ensures r.is_ok() ==> r.unwrap()@ == self.sampled@ && r.unwrap().wf() { unimplemented!() }
    #[verifier::external_body]
    pub async fn get_by_height(&self, h: u64) -> (r: Result<ExtendedHeader, StoreError>)
        ensures
            r.is_ok() ==> self.stored@.contains(h as int) && r.unwrap().h == h && r.unwrap().t.t == time_of(h as int),
            (r is Err && r->Err_0 is NotFound) ==> !self.stored@.contains(h as int),
    { unimplemented!() }
}
pub struct PeerTrackerInfo { pub num_connected_peers: u64 }
pub struct P2p {}
impl P2p {
    #[verifier::external_body]
    pub fn peer_tracker_info(&self) -> PeerTrackerInfo { unimplemented!() }
    #[verifier::external_body]
    pub fn clone(&self) -> P2p { unimplemented!() }
}
pub enum NodeEvent { FetchingHeadersStarted { from_height: u64, to_height: u64 } }
pub struct EventPublisher {}
impl EventPublisher {
    #[verifier::external_body]
    pub fn send(&self, ev: NodeEvent) { unimplemented!() }
}
// FusedReusableFuture: only "is a task running" is modelled; the future itself is opaque (E11)
pub struct Task { pub terminated: bool }
pub struct OpaqueFuture {}
#[verifier::external_body]
pub fn vx_opaque_future(p2p: P2p, next_batch: BlockRange) -> OpaqueFuture { unimplemented!() }
impl Task {
    #[verifier::external_body]
    pub fn is_terminated(&self) -> (b: bool) ensures b == self.terminated { unimplemented!() }
    #[verifier::external_body]
    pub fn set(&mut self, f: OpaqueFuture) ensures !final(self).terminated { unimplemented!() }
}
pub struct Ongoing { pub range: Option<BlockRange>, pub task: Task }
pub struct Worker {
    pub event_pub: EventPublisher,
    pub p2p: P2p,
    pub store: Store,
    pub subjective_head_height: Option<u64>,
    pub highest_slow_sync_height: Option<u64>,
    pub batch_size: u64,
    pub ongoing_batch: Ongoing,
    pub sampling_window: Duration,
    pub pruning_window: Duration,
}

//@const SLOW_SYNC_MIN_THRESHOLD

// the C24 decision: which range is fetched next, as a function of the synced set, the head and the limit
pub open spec fn fetch_ok(head: u64, synced: Seq<BlockRange>, limit: u64, res: BlockRange) -> bool {
    let nonempty = res@.start <= res@.end;
    &&& !res@.exhausted
    &&& nonempty ==> {
        &&& res@.start >= 1
        &&& (head < u64::MAX ==> res@.end < u64::MAX)
        &&& r_len(res) <= limit
        // nothing synced (stored or pruned) is requested
        &&& forall|h: int| r_has(res, h) ==> !seq_has(synced, h)
        // not above the network head unless it is the gap below an already synced top range
        &&& (res@.end <= head || (synced.len() > 0 && res@.end < synced.last()@.start))
        // anchored: nothing synced -> from height 1; behind the head -> directly above the highest synced height;
        // otherwise directly below the highest synced range
        &&& (synced.len() == 0 ==> res@.start == 1)
        &&& (synced.len() > 0 && synced.last()@.end < head ==> res@.start == synced.last()@.end + 1)
        &&& (synced.len() > 0 && synced.last()@.end >= head ==> res@.end + 1 == synced.last()@.start)
    }
    // an empty answer only when there is nothing to fetch
    &&& !nonempty ==> (limit == 0 || (synced.len() == 0 && head == 0) || (synced.len() > 0 && synced.last()@.end >= head && synced.last()@.start == 1))
}

//@fn - :: calculate_range_to_fetch
//@props C24 C25
fn calculate_range_to_fetch(
    subjective_head_height: u64,
    synced_headers: &[BlockRange],
    limit: u64,
) -> (res: BlockRange)
    requires wf_seq(synced_headers@)
    ensures fetch_ok(subjective_head_height, synced_headers@, limit, res)
//@sub E15 "|r| *r.end()" => "|r: &BlockRange| -> (o: u64) ensures o == r@.end { *r.end() }"
//@end

impl Worker {
//@fn impl<S> Worker<S> :: set_subjective_head_height
//@props C24
    fn set_subjective_head_height(&mut self, height: u64)
        ensures
            final(self).subjective_head_height == Some(match old(self).subjective_head_height { Some(o) => if height <= o { o } else { height }, None => height }),
            final(self).ongoing_batch == old(self).ongoing_batch, final(self).batch_size == old(self).batch_size,
//@sub E15 "|old_height| height <= old_height" => "|old_height: u64| -> (b: bool) ensures b == (height <= old_height) { height <= old_height }"
//@end

//@fn impl<S> Worker<S> :: in_sampling_window
//@props C25
    fn in_sampling_window(&self, header: &ExtendedHeader) -> (b: bool)
        ensures b == (header.t.t > (if clock() >= self.sampling_window.d { (clock() - self.sampling_window.d) as u64 } else { 0u64 }))
//@end

//@fn impl<S> Worker<S> :: fetch_next_batch
//@props C24 C25
    async fn fetch_next_batch(&mut self) -> (res: SResult<()>)
        requires
            old(self).ongoing_batch.range.is_none() == old(self).ongoing_batch.task.terminated,
            // A-tendermint: heights are bounded by i64::MAX
            old(self).subjective_head_height.is_some() ==> old(self).subjective_head_height.unwrap() < u64::MAX,
        ensures
            // frame: a running batch is never replaced
            !old(self).ongoing_batch.task.terminated ==> final(self).ongoing_batch == old(self).ongoing_batch,
            final(self).ongoing_batch.range.is_none() == final(self).ongoing_batch.task.terminated,
            // C24: whatever is scheduled is the C24 decision over stored + pruned
            (old(self).ongoing_batch.task.terminated && final(self).ongoing_batch.range.is_some()) ==> {
                let r = final(self).ongoing_batch.range.unwrap();
                &&& old(self).subjective_head_height.is_some()
                &&& r@.start <= r@.end
                &&& exists|synced: Seq<BlockRange>| #![trigger wf_seq(synced)] wf_seq(synced)
                        && seq_view(synced) == old(self).store.pruned@.union(old(self).store.stored@)
                        && fetch_ok(old(self).subjective_head_height.unwrap(), synced, old(self).batch_size, r)
                &&& forall|h: int| r_has(r, h) ==> !old(self).store.stored@.contains(h) && !old(self).store.pruned@.contains(h)
                &&& r_len(r) <= old(self).batch_size
            },
            // [props: C25] (stored edge): never schedule a batch directly below a stored header that is outside the sampling window
            (old(self).ongoing_batch.task.terminated && final(self).ongoing_batch.range.is_some()
                && old(self).store.stored@.contains(final(self).ongoing_batch.range.unwrap()@.end + 1))
              ==> time_of(final(self).ongoing_batch.range.unwrap()@.end + 1) > (if clock() >= old(self).sampling_window.d { (clock() - old(self).sampling_window.d) as u64 } else { 0u64 }),
            // [props: C25] (pruned edge): ... nor directly below a pruned header that is outside the sampling window
            (old(self).ongoing_batch.task.terminated && final(self).ongoing_batch.range.is_some()
                && old(self).store.pruned@.contains(final(self).ongoing_batch.range.unwrap()@.end + 1))
              ==> time_of(final(self).ongoing_batch.range.unwrap()@.end + 1) > (if clock() >= old(self).sampling_window.d { (clock() - old(self).sampling_window.d) as u64 } else { 0u64 }),
//@binops
//@sub E9-op "(store_ranges - sampled_ranges).len()" => "store_ranges.sub__val(sampled_ranges).len()"
//@sub E15 "|height| *next_batch.end() <= height" => "|height: u64| -> (b: bool) ensures b == (next_batch@.end <= height) { *next_batch.end() <= height }"
//@sub E9 "next_batch.clone()" => "vx_clone(&next_batch)"
//@opaque "self.ongoing_batch.task.set(async move {" => "self.ongoing_batch.task.set(vx_opaque_future(p2p, next_batch)"
//@hint before "if next_batch.is_empty() {"
        proof {
            assert(seq_view(synced_ranges.0@) =~= synced_ranges@);
            assert(wf_seq(synced_ranges.0@));
            assert(synced_ranges@ == old(self).store.pruned@.union(old(self).store.stored@));
            assert forall|h: int| r_has(next_batch, h) implies !old(self).store.stored@.contains(h) && !old(self).store.pruned@.contains(h) by {
                if r_has(next_batch, h) && next_batch@.start <= next_batch@.end { assert(!seq_has(synced_ranges.0@, h)); assert(!synced_ranges@.contains(h)); }
            }
        }
//@end
}

} // verus!
fn main() {}
