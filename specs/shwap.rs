//@unit shwap
//@serves C04 C05 C06 C16 C10
//@src types/src/sample.rs
use vstd::prelude::*;
verus! {
// std specifications not in vstd (A-std)
pub assume_specification<T, F: FnOnce(T) -> bool> [Option::<T>::is_some_and] (o: Option<T>, f: F) -> (r: bool)
    requires o.is_some() ==> f.requires((o.unwrap(),))
    ensures o.is_none() ==> !r, o.is_some() ==> f.ensures((o.unwrap(),), r);
pub assume_specification<T, F: FnOnce(T) -> bool> [Option::<T>::is_none_or] (o: Option<T>, f: F) -> (r: bool)
    requires o.is_some() ==> f.requires((o.unwrap(),))
    ensures o.is_none() ==> r, o.is_some() ==> f.ensures((o.unwrap(),), r);
//@begin-export
#[verifier::external_body]
fn vx_assert(c: bool) requires c { }
#[verifier::external_body]
fn vx_unreachable() -> ! requires false { unimplemented!() }

#[derive(Debug)]
pub enum ValidationError { Other }
#[derive(Debug)]
pub enum VerificationError { Other }
#[derive(Debug)]
pub struct RangeProofError {}
#[derive(Debug)]
pub enum Error {
    EdsIndexOutOfRange(u16, u16), RangeProofError(RangeProofError), MissingProof, WrongProofType,
    Validation(ValidationError), Verification(VerificationError), InvalidShareSize(usize), InvalidAxis(i32), RootMismatch, IndexOutOfRange(usize, usize), NamespaceDataTooLarge, ZeroBlockHeight, Other,
}
impl vstd::std_specs::convert::FromSpecImpl<RangeProofError> for Error {
    open spec fn obeys_from_spec() -> bool { true }
    open spec fn from_spec(e: RangeProofError) -> Error { Error::RangeProofError(e) }
}
impl From<RangeProofError> for Error { fn from(e: RangeProofError) -> Error { Error::RangeProofError(e) } }
type Result<T, E = Error> = std::result::Result<T, E>;

// ---- NMT (nmt-rs) and hashes: opaque values; proof verification is an uninterpreted predicate (A-nmt) ----
#[derive(Clone, Copy)]
pub struct NamespacedHash { pub v: u64 }
#[derive(Clone, Copy)]
pub struct NamespaceId { pub v: u64 }
#[derive(Clone, Copy)]
pub struct Namespace { pub id: NamespaceId }
impl Namespace {
    #[verifier::external_body]
    pub fn nmt_id(&self) -> (r: NamespaceId) ensures r == self.id { unimplemented!() }   // `*ns` (Deref to nmt_rs::NamespaceId)
}
pub struct Share { pub bytes: Ghost<Seq<u8>>, pub parity: bool }
pub uninterp spec fn share_ns(s: Share) -> Namespace;
impl Share {
    #[verifier::external_body]
    pub fn namespace(&self) -> (r: Namespace) ensures r == share_ns(*self) { unimplemented!() }
}
// A-nmt: `leaves` are exactly the leaves at positions start..end of the tree with root `root`, all in namespace ns
pub uninterp spec fn nmt_range_ok(p: NamespaceProof, root: NamespacedHash, leaves: Seq<Seq<u8>>, ns: NamespaceId) -> bool;
pub struct NamespaceProof { pub start: u32, pub end: u32, pub absence: bool, pub nsiblings: usize }
impl NamespaceProof {
    #[verifier::external_body]
    pub fn is_of_absence(&self) -> (b: bool) ensures b == self.absence { unimplemented!() }
    #[verifier::external_body]
    pub fn start_idx(&self) -> (r: u32) ensures r == self.start { unimplemented!() }
    #[verifier::external_body]
    pub fn end_idx(&self) -> (r: u32) ensures r == self.end { unimplemented!() }
    #[verifier::external_body]
    pub fn siblings_len(&self) -> (r: usize) ensures r == self.nsiblings { unimplemented!() }
    // proof.verify_range(&root, &[&share], ns): single-leaf form used by Sample::verify
    #[verifier::external_body]
    pub fn verify_range1(&self, root: &NamespacedHash, leaf: &Share, ns: NamespaceId) -> (r: std::result::Result<(), RangeProofError>)
        ensures r.is_ok() == nmt_range_ok(*self, *root, seq![leaf.bytes@], ns) { unimplemented!() }

//@fn impl NamespaceProof :: total_leaves @ types/src/nmt/namespace_proof.rs
//@props C04 C16
    pub fn total_leaves(&self) -> (r: Option<usize>)
        ensures
            r.is_some() ==> self.end - self.start == 1 && self.nsiblings < usize::BITS && r.unwrap() == vstd::arithmetic::power2::pow2(self.nsiblings as nat),
            (self.end - self.start == 1 && self.nsiblings < usize::BITS) ==> r.is_some(),
//@sub E9 "self.siblings().len()" all => "self.siblings_len()"
//@sub E8 "u32::try_from(self.siblings().len()) .ok() .and_then(|levels| 1usize.checked_shl(levels))" => "(if self.siblings_len() <= u32::MAX as usize { vx_checked_shl1(self.siblings_len() as u32) } else { None })"
//@end
}
// 1usize.checked_shl(levels): Some(1 << levels) iff levels < usize::BITS (std documentation; A-std)
#[verifier::external_body]
pub fn vx_checked_shl1(levels: u32) -> (r: Option<usize>)
    ensures levels < usize::BITS ==> r == Some(vstd::arithmetic::power2::pow2(levels as nat) as usize) && vstd::arithmetic::power2::pow2(levels as nat) <= usize::MAX,
            levels >= usize::BITS ==> r.is_none()
{ 1usize.checked_shl(levels) }

#[derive(PartialEq, Eq, Clone, Copy, Structural)]
pub enum AxisType { Row, Col }

pub struct DataAvailabilityHeader { pub row_roots: Vec<NamespacedHash>, pub column_roots: Vec<NamespacedHash> }
#[verifier::external_body]
pub fn vx_get_cloned(v: &Vec<NamespacedHash>, i: usize) -> (r: Option<NamespacedHash>)
    ensures i < v@.len() ==> r == Some(v@[i as int]), i >= v@.len() ==> r.is_none()
{ unimplemented!() }
impl DataAvailabilityHeader {
//@fn impl DataAvailabilityHeader :: row_root @ types/src/data_availability_header.rs
//@props C04 C05 C06
    pub fn row_root(&self, row: u16) -> (r: Option<NamespacedHash>)
        ensures r == (if row < self.row_roots@.len() { Some(self.row_roots@[row as int]) } else { None })
//@sub E9 "usize::from(row)" => "(row as usize)"
//@sub E9 "self.row_roots.get(row).cloned()" => "vx_get_cloned(&self.row_roots, row)"
//@end
//@fn impl DataAvailabilityHeader :: column_root @ types/src/data_availability_header.rs
//@props C04
    pub fn column_root(&self, column: u16) -> (r: Option<NamespacedHash>)
        ensures r == (if column < self.column_roots@.len() { Some(self.column_roots@[column as int]) } else { None })
//@sub E9 "usize::from(column)" => "(column as usize)"
//@sub E9 "self.column_roots.get(column).cloned()" => "vx_get_cloned(&self.column_roots, column)"
//@end
}

#[derive(Clone, Copy)]
pub struct RowId { pub index_: u16, pub height: u64 }
impl RowId {
    #[verifier::external_body]
    pub fn index(&self) -> (r: u16) ensures r == self.index_ { unimplemented!() }
}
#[derive(Clone, Copy)]
pub struct SampleId { pub row_id: RowId, pub column_index: u16 }
impl SampleId {
//@fn impl SampleId :: row_index
//@props C04
    pub fn row_index(&self) -> (r: u16) ensures r == self.row_id.index_
//@end
//@fn impl SampleId :: column_index
//@props C04
    pub fn column_index(&self) -> (r: u16) ensures r == self.column_index
//@end
}

pub struct Sample { pub proof_type: AxisType, pub share: Share, pub proof: NamespaceProof }

// C04: the share is proven to be THE leaf at the requested coordinates: at position `col` of the tree committed by the
// row root of `row` (row proof), or at position `row` of the tree committed by the column root of `col` (column proof)
pub open spec fn sample_ok(s: Sample, id: SampleId, dah: DataAvailabilityHeader) -> bool {
    let row = id.row_id.index_; let col = id.column_index;
    match s.proof_type {
        AxisType::Row => row < dah.row_roots@.len() && s.proof.start == col && s.proof.end == col + 1
            && nmt_range_ok(s.proof, dah.row_roots@[row as int], seq![s.share.bytes@], share_ns(s.share).id),
        AxisType::Col => col < dah.column_roots@.len() && s.proof.start == row && s.proof.end == row + 1
            && nmt_range_ok(s.proof, dah.column_roots@[col as int], seq![s.share.bytes@], share_ns(s.share).id),
    }
}

impl Sample {
//@fn impl Sample :: verify
//@props C04 C16 C10
//@macro bail_verification => return Err(Error::Verification(VerificationError::Other))
    pub fn verify(&self, id: SampleId, dah: &DataAvailabilityHeader) -> (res: Result<()>)
        ensures res.is_ok() <==> sample_ok(*self, id, *dah)
//@sub E9 "dah.row_root(id.row_index()) .ok_or(Error::EdsIndexOutOfRange(id.row_index(), 0))?" => "(match dah.row_root(id.row_index()) { Some(r) => r, None => return Err(Error::EdsIndexOutOfRange(id.row_index(), 0)) })"
//@sub E9 "dah.column_root(id.column_index()) .ok_or(Error::EdsIndexOutOfRange(0, id.column_index()))?" => "(match dah.column_root(id.column_index()) { Some(r) => r, None => return Err(Error::EdsIndexOutOfRange(0, id.column_index())) })"
//@sub E9 "u32::from(index)" all => "(index as u32)"
//@sub E9 "self.proof .verify_range(&root, &[&self.share], *self.share.namespace()) .map_err(Error::RangeProofError)" => "(match self.proof.verify_range1(&root, &self.share, self.share.namespace().nmt_id()) { Ok(()) => Ok(()), Err(e) => Err(Error::RangeProofError(e)) })"
//@end
}

// ---- decoding a sample received from a peer (C04 second half, C16) ----
pub struct RawShare { pub data: Vec<u8> }
pub struct RawProof { pub v: u64 }
pub struct RawSample { pub share: Option<RawShare>, pub proof: Option<RawProof>, pub proof_type: i32 }
pub uninterp spec fn proof_of_raw(p: RawProof) -> Option<NamespaceProof>;
pub uninterp spec fn axis_of_raw(v: i32) -> Option<AxisType>;
impl RawProof {
    // TryFrom<RawProof> for NamespaceProof (nmt-rs conversion, A-prost)
    #[verifier::external_body]
    pub fn try_into(self) -> (r: Result<NamespaceProof>) ensures r.is_ok() == proof_of_raw(self).is_some(), r.is_ok() ==> r.unwrap() == proof_of_raw(self).unwrap() { unimplemented!() }
}
impl AxisType {
    #[verifier::external_body]
    pub fn try_from(v: i32) -> (r: Result<AxisType>) ensures r.is_ok() == axis_of_raw(v).is_some(), r.is_ok() ==> r.unwrap() == axis_of_raw(v).unwrap() { unimplemented!() }
}
pub uninterp spec fn share_valid(bytes: Seq<u8>) -> bool;   // namespace + info byte checks of Share::from_raw
impl Share {
    #[verifier::external_body]
    pub fn from_raw(data: &Vec<u8>) -> (r: Result<Share>)
        ensures r.is_ok() == (data@.len() == 512 && share_valid(data@)), r.is_ok() ==> r.unwrap().bytes@ == data@ && !r.unwrap().parity { unimplemented!() }
    #[verifier::external_body]
    pub fn parity(data: &Vec<u8>) -> (r: Result<Share>)
        ensures r.is_ok() == (data@.len() == 512), r.is_ok() ==> r.unwrap().bytes@ == data@ && r.unwrap().parity { unimplemented!() }
}
impl Sample {
//@fn impl Sample :: from_raw
//@props C04 C16 C10
//@macro bail_validation => return Err(Error::Validation(ValidationError::Other))
    pub fn from_raw(id: SampleId, sample: RawSample) -> (res: Result<Self>)
        ensures
            res.is_ok() ==> {
                let s = res.unwrap();
                &&& sample.proof.is_some() && Some(s.proof) == proof_of_raw(sample.proof.unwrap()) && !s.proof.absence
                &&& Some(s.proof_type) == axis_of_raw(sample.proof_type)
                &&& sample.share.is_some() && s.share.bytes@ == sample.share.unwrap().data@
                // a single-leaf proof; the share is an original-data share exactly in the first quadrant of the square it implies
                &&& s.proof.end - s.proof.start == 1 && s.proof.nsiblings < usize::BITS
                &&& (s.share.parity <==> !(id.row_id.index_ < vstd::arithmetic::power2::pow2(s.proof.nsiblings as nat) / 2
                                          && id.column_index < vstd::arithmetic::power2::pow2(s.proof.nsiblings as nat) / 2))
            },
//@sub E9 "let proof: NamespaceProof = proof.try_into()?;" => "let proof: NamespaceProof = proof.try_into()?;"
//@end
}

// ---------------------------------------------------------------------------
// C05: Row::verify (types/src/row.rs)
// ---------------------------------------------------------------------------
#[derive(PartialEq, Eq, Clone, Copy, Structural)]
pub struct NmtDigest { pub v: u64 }
pub uninterp spec fn nh_digest(h: NamespacedHash) -> NmtDigest;
impl NamespacedHash {
    #[verifier::external_body]
    pub fn hash(&self) -> (r: NmtDigest) ensures r == nh_digest(*self) { unimplemented!() }
}
// A-nmt: root of the NMT holding exactly the pushed (leaf bytes, namespace) sequence, in order (default hasher)
pub uninterp spec fn nmt_root_of(leaves: Seq<(Seq<u8>, NamespaceId)>) -> NamespacedHash;
#[derive(Debug)]
pub struct NmtError {}
impl vstd::std_specs::convert::FromSpecImpl<NmtError> for Error {
    open spec fn obeys_from_spec() -> bool { true }
    open spec fn from_spec(e: NmtError) -> Error { Error::Other }
}
impl From<NmtError> for Error { fn from(e: NmtError) -> Error { Error::Other } }
pub struct Nmt { pub leaves: Ghost<Seq<(Seq<u8>, NamespaceId)>> }
impl Nmt {
    #[verifier::external_body]
    pub fn default() -> (t: Nmt) ensures t.leaves@.len() == 0 { unimplemented!() }
    #[verifier::external_body]
    pub fn push_leaf(&mut self, bytes: &Share, ns: NamespaceId) -> (r: std::result::Result<(), NmtError>)
        ensures r.is_ok() ==> final(self).leaves@ == old(self).leaves@.push((bytes.bytes@, ns)), r.is_err() ==> final(self).leaves@ == old(self).leaves@
    { unimplemented!() }
    #[verifier::external_body]
    pub fn root(&mut self) -> (r: NamespacedHash) ensures r == nmt_root_of(old(self).leaves@), final(self).leaves == old(self).leaves { unimplemented!() }
}
pub struct Row { pub shares: Vec<Share> }
pub open spec fn row_leaves(shares: Seq<Share>) -> Seq<(Seq<u8>, NamespaceId)> {
    Seq::new(shares.len(), |i: int| (shares[i].bytes@, share_ns(shares[i]).id))
}
impl Row {
//@fn impl Row :: verify @ types/src/row.rs
//@props C05 C16 C10
    pub fn verify(&self, id: RowId, dah: &DataAvailabilityHeader) -> (res: Result<()>)
        ensures
            // accepted only if the NMT over ALL shares of the row, in order, has the digest of the DAH's root for row `id.index`
            res.is_ok() ==> id.index_ < dah.row_roots@.len()
                && nh_digest(nmt_root_of(row_leaves(self.shares@))) == nh_digest(dah.row_roots@[id.index_ as int]),
//@sub E9 "let row = id.index;" => "let row = id.index();"
//@sub E9 "tree.push_leaf(share.as_ref(), *share.namespace()) .map_err(Error::Nmt)?;" => "tree.push_leaf(share, share.namespace().nmt_id())?;"
//@for 1 ref
//@loop 1
            invariant
                __i1 <= self.shares@.len(),
                tree.leaves@ == row_leaves(self.shares@.subrange(0, __i1 as int)),
            decreases self.shares@.len() - __i1
//@hint after ".map_err(Error::Nmt)?;"
            proof {
                assert(row_leaves(self.shares@.subrange(0, __i1 as int)) =~= row_leaves(self.shares@.subrange(0, __i1 as int - 1)).push((self.shares@[__i1 as int - 1].bytes@, share_ns(self.shares@[__i1 as int - 1]).id)));
            }
//@hint before "let Some(root) = dah.row_root(row) else {"
        proof { assert(self.shares@.subrange(0, self.shares@.len() as int) =~= self.shares@); }
//@hint after "let mut tree = Nmt::default();"
        proof { assert(tree.leaves@ =~= row_leaves(self.shares@.subrange(0, 0))); }
//@end
}

// ---------------------------------------------------------------------------
// C06: namespace data (types/src/row_namespace_data.rs, namespace_data.rs)
// ---------------------------------------------------------------------------
// A-nmt: `shares` are ALL leaves of namespace ns of the tree committed by root (or, for an absence proof, there are none)
pub uninterp spec fn nmt_complete_ns_ok(p: NamespaceProof, root: NamespacedHash, leaves: Seq<Seq<u8>>, ns: NamespaceId) -> bool;
// NamespacedHash::contains: ns lies within the [min_ns, max_ns] range recorded in the root
pub uninterp spec fn root_contains(root: NamespacedHash, ns: NamespaceId) -> bool;
pub open spec fn share_bytes_seq(shares: Seq<Share>) -> Seq<Seq<u8>> { Seq::new(shares.len(), |i: int| shares[i].bytes@) }
impl NamespaceProof {
    #[verifier::external_body]
    pub fn is_of_presence(&self) -> (b: bool) ensures b == !self.absence { unimplemented!() }
    #[verifier::external_body]
    pub fn verify_complete_namespace(&self, root: &NamespacedHash, leaves: &Vec<Share>, ns: NamespaceId) -> (r: std::result::Result<(), RangeProofError>)
        ensures r.is_ok() == nmt_complete_ns_ok(*self, *root, share_bytes_seq(leaves@), ns) { unimplemented!() }
}
impl NamespacedHash {
    #[verifier::external_body]
    pub fn contains_ns(&self, ns: NamespaceId) -> (b: bool) ensures b == root_contains(*self, ns) { unimplemented!() }   // contains::<NamespacedSha2Hasher>(ns)
}
#[derive(Clone, Copy)]
pub struct RowNamespaceDataId { pub namespace: Namespace, pub row: u16, pub height: u64 }
impl RowNamespaceDataId {
    #[verifier::external_body]
    pub fn new(namespace: Namespace, row_index: u16, block_height: u64) -> (r: Result<RowNamespaceDataId>)
        ensures r.is_ok() == (block_height != 0), r.is_ok() ==> r.unwrap().namespace == namespace && r.unwrap().row == row_index && r.unwrap().height == block_height
    { unimplemented!() }
    #[verifier::external_body]
    pub fn namespace(&self) -> (r: Namespace) ensures r == self.namespace { unimplemented!() }
    #[verifier::external_body]
    pub fn row_index(&self) -> (r: u16) ensures r == self.row { unimplemented!() }
}
#[derive(Clone, Copy)]
pub struct NamespaceDataId { pub namespace: Namespace, pub height: u64 }
impl NamespaceDataId {
    #[verifier::external_body]
    pub fn block_height(&self) -> (r: u64) ensures r == self.height { unimplemented!() }
}

impl DataAvailabilityHeader {
//@fn impl DataAvailabilityHeader :: square_width @ types/src/data_availability_header.rs
//@props C06
    pub fn square_width(&self) -> (r: u16)
        requires self.row_roots@.len() <= u16::MAX      // validated DAH (dah_basic, C01)
        ensures r == self.row_roots@.len()
//@sub E9 "self.row_roots .len() .try_into() .expect(\"len is bigger than u16::MAX\")" => "{ vx_assert(self.row_roots.len() <= u16::MAX as usize); self.row_roots.len() as u16 }"
//@end
//@fn impl DataAvailabilityHeader :: row_contains @ types/src/data_availability_header.rs
//@props C06
    pub fn row_contains(&self, row: u16, namespace: Namespace) -> (r: Result<bool>)
        ensures r.is_ok() == (row < self.row_roots@.len()), r.is_ok() ==> r.unwrap() == root_contains(self.row_roots@[row as int], namespace.id)
//@sub E9 "self .row_root(row) .ok_or(Error::IndexOutOfRange(row as usize, self.row_roots.len()))?" => "(match self.row_root(row) { Some(r) => r, None => return Err(Error::IndexOutOfRange(row as usize, self.row_roots.len())) })"
//@sub E9 "row_root.contains::<NamespacedSha2Hasher>(*namespace)" => "row_root.contains_ns(namespace.nmt_id())"
//@end
}

pub struct RowNamespaceData { pub shares: Vec<Share>, pub proof: NamespaceProof }
pub open spec fn row_ns_ok(d: RowNamespaceData, ns: Namespace, row: u16, dah: DataAvailabilityHeader) -> bool {
    &&& (d.shares@.len() == 0 <==> d.proof.absence)
    &&& row < dah.row_roots@.len()
    &&& nmt_complete_ns_ok(d.proof, dah.row_roots@[row as int], share_bytes_seq(d.shares@), ns.id)
}
impl RowNamespaceData {
//@fn impl RowNamespaceData :: verify @ types/src/row_namespace_data.rs
//@props C06 C16 C10
    pub fn verify(&self, id: RowNamespaceDataId, dah: &DataAvailabilityHeader) -> (res: Result<()>)
        ensures res.is_ok() <==> row_ns_ok(*self, id.namespace, id.row, *dah)
//@sub E9 "dah.row_root(row).ok_or(Error::EdsIndexOutOfRange(row, 0))?" => "(match dah.row_root(row) { Some(r) => r, None => return Err(Error::EdsIndexOutOfRange(row, 0)) })"
//@sub E9 "self.proof .verify_complete_namespace(&root, &self.shares, *namespace) .map_err(Error::RangeProofError)" => "(match self.proof.verify_complete_namespace(&root, &self.shares, namespace.nmt_id()) { Ok(()) => Ok(()), Err(e) => Err(Error::RangeProofError(e)) })"
//@end
}

// the rows of the square whose root range covers ns, ascending (first n rows)
pub open spec fn containing_rows(dah: DataAvailabilityHeader, ns: NamespaceId, n: int) -> Seq<u16>
    decreases n
{
    if n <= 0 { Seq::empty() }
    else {
        let prev = containing_rows(dah, ns, n - 1);
        if n - 1 < dah.row_roots@.len() && root_contains(dah.row_roots@[n - 1], ns) { prev.push((n - 1) as u16) } else { prev }
    }
}
pub struct NamespaceData { pub rows: Vec<RowNamespaceData> }
impl NamespaceData {
//@fn impl NamespaceData :: verify @ types/src/namespace_data.rs
//@props C06 C16
//@macro bail_verification => return Err(Error::Verification(VerificationError::Other))
    pub fn verify(&self, id: NamespaceDataId, dah: &DataAvailabilityHeader) -> (res: Result<()>)
        requires dah.row_roots@.len() <= u16::MAX
        ensures
            res.is_ok() ==> {
                let idx = containing_rows(*dah, id.namespace.id, dah.row_roots@.len() as int);
                // exactly one entry per row whose root range covers the namespace, in row order, each sound and complete for its row
                &&& self.rows@.len() == idx.len()
                &&& forall|i: int| 0 <= i < idx.len() ==> row_ns_ok(#[trigger] self.rows@[i], id.namespace, idx[i], *dah)
            },
//@sub E8 "let row_idxs = (0..dah.square_width()) .filter(|&row| dah.row_contains(row, id.namespace).unwrap_or(false)) .collect::<Vec<_>>();"
        let mut row_idxs: Vec<u16> = Vec::new();
        {
            let __w = dah.square_width();
            let mut row: u16 = 0;
            while row < __w
                invariant
                    row <= __w, __w == dah.row_roots@.len(),
                    row_idxs@ == containing_rows(*dah, id.namespace.id, row as int),
                decreases __w - row
            {
                let keep = match dah.row_contains(row, id.namespace) { Ok(b) => b, Err(_) => false };
                if keep { row_idxs.push(row); }
                row += 1;
            }
        }
//@sub E7 "for (row, row_index) in self.rows.iter().zip(row_idxs.into_iter()) {"
        let mut __k: usize = 0;
        while __k < self.rows.len() && __k < row_idxs.len()
            invariant
                __k <= self.rows@.len(), self.rows@.len() == row_idxs@.len(),
                row_idxs@ == containing_rows(*dah, id.namespace.id, dah.row_roots@.len() as int),
                forall|i: int| 0 <= i < __k ==> row_ns_ok(#[trigger] self.rows@[i], id.namespace, row_idxs@[i], *dah),
            decreases self.rows@.len() - __k
        {
            let row = &self.rows[__k]; let row_index = row_idxs[__k]; __k += 1;
//@end
}

// ---------------------------------------------------------------------------
// C06 (producer side): ExtendedDataSquare::get_namespace_data equals a brute-force scan of each covered row (types/src/eds.rs)
// ---------------------------------------------------------------------------
// the lexicographic byte order of namespaces as an order-embedding into int (A: Ord for Namespace is a total order)
pub uninterp spec fn ns_key(n: Namespace) -> int;
#[verifier::external_body]
pub proof fn axiom_ns_key_injective(a: Namespace, b: Namespace) ensures ns_key(a) == ns_key(b) ==> a == b { }
#[derive(PartialEq, Eq, Clone, Copy, Structural)]
pub enum Ordering { Less, Equal, Greater }
impl Namespace {
    #[verifier::external_body]
    pub fn cmp(&self, other: &Namespace) -> (r: Ordering)
        ensures r == (if ns_key(*self) < ns_key(*other) { Ordering::Less } else if ns_key(*self) == ns_key(*other) { Ordering::Equal } else { Ordering::Greater })
    { unimplemented!() }
}
impl Share {
    #[verifier::external_body]
    pub fn clone(&self) -> (r: Share) ensures r == *self { unimplemented!() }
}
pub struct NmtProofRaw {}
impl NmtProofRaw {
    #[verifier::external_body]
    pub fn into(self) -> NamespaceProof { unimplemented!() }
}
impl Nmt {
    #[verifier::external_body]
    pub fn get_namespace_proof(&mut self, ns: NamespaceId) -> NmtProofRaw { unimplemented!() }
}
pub struct ExtendedDataSquare { pub data_square: Vec<Share>, pub square_width: u16 }
#[verifier::external_body]
pub fn vx_get_share<'a>(v: &'a Vec<Share>, i: usize) -> (r: Option<&'a Share>)
    ensures i < v@.len() ==> r.is_some() && *r.unwrap() == v@[i as int], i >= v@.len() ==> r.is_none()
{ v.get(i) }
pub open spec fn eds_inv(e: ExtendedDataSquare) -> bool { e.data_square@.len() == e.square_width * e.square_width }
pub open spec fn eds_row(e: ExtendedDataSquare, row: int) -> Seq<Share> {
    Seq::new(e.square_width as nat, |c: int| e.data_square@[row * e.square_width + c])
}
pub open spec fn row_sorted(r: Seq<Share>) -> bool {
    forall|a: int, b: int| 0 <= a < b < r.len() ==> ns_key(share_ns(r[a])) <= ns_key(share_ns(r[b]))
}
// brute-force scan: the shares of namespace ns in a row, in order
pub open spec fn ns_filter(r: Seq<Share>, ns: Namespace) -> Seq<Share>
    decreases r.len()
{
    if r.len() == 0 { Seq::empty() }
    else {
        let p = ns_filter(r.drop_last(), ns);
        if share_ns(r.last()) == ns { p.push(r.last()) } else { p }
    }
}
pub proof fn lemma_filter_rest_empty(r: Seq<Share>, k: int, ns: Namespace)
    requires 0 <= k <= r.len(), row_sorted(r), k < r.len() ==> ns_key(share_ns(r[k])) > ns_key(ns)
    ensures ns_filter(r, ns) == ns_filter(r.subrange(0, k), ns)
    decreases r.len() - k
{
    if k < r.len() {
        let n = r.len() - 1;
        assert(ns_key(share_ns(r[n])) >= ns_key(share_ns(r[k])));
        assert(share_ns(r.last()) != ns);
        let d = r.drop_last();
        assert forall|a: int, b: int| 0 <= a < b < d.len() implies ns_key(share_ns(d[a])) <= ns_key(share_ns(d[b])) by { }
        lemma_filter_rest_empty(d, k, ns);
        assert(d.subrange(0, k) =~= r.subrange(0, k));
    } else {
        assert(r.subrange(0, k) =~= r);
    }
}
impl ExtendedDataSquare {
    #[verifier::external_body]
    pub fn row_nmt(&self, index: u16) -> (r: Result<Nmt>) { unimplemented!() }

//@fn impl ExtendedDataSquare :: share @ types/src/eds.rs
//@props C06
    pub fn share(&self, row: u16, column: u16) -> (r: Result<&Share>)
        ensures
            r.is_ok() == (row * self.square_width + column < self.data_square@.len()),
            r.is_ok() ==> *r.unwrap() == self.data_square@[row * self.square_width + column],
//@sub E9 "usize::from(row) * usize::from(self.square_width) + usize::from(column)" => "{ proof { assert(row * self.square_width <= 65535 * 65535) by(nonlinear_arith) requires row <= 65535, self.square_width <= 65535; } (row as usize) * (self.square_width as usize) + (column as usize) }"
//@sub E9 "self.data_square .get(index) .ok_or(Error::EdsIndexOutOfRange(row, column))" => "(match vx_get_share(&self.data_square, index) { Some(s) => Ok(s), None => Err(Error::EdsIndexOutOfRange(row, column)) })"
//@end

//@fn impl ExtendedDataSquare :: get_namespace_data @ types/src/eds.rs
//@props C06
    pub fn get_namespace_data(
        &self,
        namespace: Namespace,
        dah: &DataAvailabilityHeader,
        height: u64,
    ) -> (res: Result<Vec<(RowNamespaceDataId, RowNamespaceData)>>)
        requires
            eds_inv(*self),
            // rows of a valid square are sorted by namespace (invariant established by ExtendedDataSquare::new)
            forall|r: int| 0 <= r < self.square_width ==> row_sorted(#[trigger] eds_row(*self, r)),
        ensures
            res.is_ok() ==> {
                let idx = containing_rows(*dah, namespace.id, self.square_width as int);
                let out = res.unwrap()@;
                // one entry per covered row, in row order, holding exactly the brute-force scan of that row
                &&& out.len() == idx.len()
                &&& forall|i: int| 0 <= i < out.len() ==> (#[trigger] out[i]).0.row == idx[i] && out[i].0.namespace == namespace
                        && out[i].1.shares@ == ns_filter(eds_row(*self, idx[i] as int), namespace)
            },
//@ascribe "let mut rows = Vec::new();" => "let mut rows: Vec<(RowNamespaceDataId, RowNamespaceData)> = Vec::new();"
//@sub E9 "Vec::with_capacity(self.square_width.into())" => "Vec::<Share>::with_capacity(self.square_width as usize)"
//@sub E9 "self.row_nmt(row)?.get_namespace_proof(*namespace)" => "self.row_nmt(row)?.get_namespace_proof(namespace.nmt_id())"
//@for 1
//@loop 1
            invariant
                __i1 <= __i1_end, __i1_end == self.square_width, eds_inv(*self),
                forall|r: int| 0 <= r < self.square_width ==> row_sorted(#[trigger] eds_row(*self, r)),
                rows@.len() == containing_rows(*dah, namespace.id, __i1 as int).len(),
                forall|i: int| 0 <= i < rows@.len() ==> (#[trigger] rows@[i]).0.row == containing_rows(*dah, namespace.id, __i1 as int)[i] && rows@[i].0.namespace == namespace
                    && rows@[i].1.shares@ == ns_filter(eds_row(*self, containing_rows(*dah, namespace.id, __i1 as int)[i] as int), namespace),
            decreases __i1_end - __i1
//@for 2
//@loop 2
                invariant_except_break
                    shares@ == ns_filter(eds_row(*self, row as int).subrange(0, __i2 as int), namespace),
                invariant
                    __i2 <= __i2_end, __i2_end == self.square_width, row < self.square_width, eds_inv(*self),
                    row_sorted(eds_row(*self, row as int)),
                ensures
                    shares@ == ns_filter(eds_row(*self, row as int), namespace)
                        || (__i2 == self.square_width && shares@ == ns_filter(eds_row(*self, row as int).subrange(0, __i2 as int), namespace)),
                decreases __i2_end - __i2
//@hint after "let share = self.share(row, col)?;"
                proof {
                    let w = self.square_width as int;
                    assert(row * w + col < w * w) by(nonlinear_arith) requires 0 <= row < w, 0 <= col < w;
                    let rs = eds_row(*self, row as int);
                    assert(*share == rs[col as int]);
                    let pre = rs.subrange(0, __i2 as int);
                    assert(pre.drop_last() =~= rs.subrange(0, __i2 as int - 1));
                    assert(pre.last() == rs[col as int]);
                    if ns_key(share_ns(*share)) == ns_key(namespace) { axiom_ns_key_injective(share_ns(*share), namespace); }
                    if ns_key(share_ns(*share)) > ns_key(namespace) {
                        lemma_filter_rest_empty(rs, col as int, namespace);
                    }
                }
//@hint before "let proof = self.row_nmt(row)?.get_namespace_proof(*namespace);"
            proof {
                let rs = eds_row(*self, row as int);
                assert(rs.subrange(0, rs.len() as int) =~= rs);
            }
//@end
}
//@end-export
} // verus!
fn main() {}
