//@unit befp
//@serves C07 C16
//@src types/src/byzantine.rs
use vstd::prelude::*;
verus! {
// std specifications not in vstd (A-std)
pub assume_specification<T, F: FnOnce(T) -> bool> [Option::<T>::is_some_and] (o: Option<T>, f: F) -> (r: bool)
    requires o.is_some() ==> f.requires((o.unwrap(),))
    ensures o.is_none() ==> !r, o.is_some() ==> f.ensures((o.unwrap(),), r);
pub assume_specification<T, F: FnOnce(T) -> bool> [Option::<T>::is_none_or] (o: Option<T>, f: F) -> (r: bool)
    requires o.is_some() ==> f.requires((o.unwrap(),))
    ensures o.is_none() ==> r, o.is_some() ==> f.ensures((o.unwrap(),), r);
//@begin-export
#[verifier::external_body]
fn vx_assert(c: bool) requires c { }
#[verifier::external_body]
fn vx_unreachable() -> ! requires false { unimplemented!() }

#[derive(Debug)]
pub enum ValidationError { Other }
#[derive(Debug)]
pub struct RangeProofError {}
#[derive(Debug)]
pub enum Error { Validation(ValidationError), RangeProofError(RangeProofError), Nmt, Other }
impl vstd::std_specs::convert::FromSpecImpl<RangeProofError> for Error {
    open spec fn obeys_from_spec() -> bool { true }
    open spec fn from_spec(e: RangeProofError) -> Error { Error::RangeProofError(e) }
}
impl From<RangeProofError> for Error { fn from(e: RangeProofError) -> Error { Error::RangeProofError(e) } }
type Result<T, E = Error> = std::result::Result<T, E>;

#[derive(PartialEq, Eq, Clone, Copy, Structural)]
pub enum AxisType { Row, Col }
#[derive(Clone, Copy)]
pub struct NamespaceId { pub v: u64 }
#[derive(Clone, Copy)]
pub struct Namespace { pub id: NamespaceId }
#[derive(PartialEq, Eq, Clone, Copy, Structural)]
pub struct NamespacedHash { pub v: u64 }
//@const NS_VER_SIZE @ types/src/nmt.rs
//@const NS_ID_SIZE @ types/src/nmt.rs
//@const NS_SIZE @ types/src/nmt.rs
// the namespace read from the first NS_SIZE raw bytes of a share, unchecked (Namespace::new_unchecked)
pub uninterp spec fn ns_of_bytes(b: Seq<u8>) -> Namespace;
pub uninterp spec fn parity_ns() -> Namespace;
impl Namespace {
    #[verifier::external_body]
    pub fn nmt_id(&self) -> (r: NamespaceId) ensures r == self.id { unimplemented!() }
    #[verifier::external_body]
    pub fn parity_share() -> (r: Namespace) ensures r == parity_ns() { unimplemented!() }     // Namespace::PARITY_SHARE
}
// share.get(..NS_SIZE).and_then(|raw| <[u8; NS_SIZE]>::try_from(raw).ok()) followed by Namespace::new_unchecked
#[verifier::external_body]
pub fn vx_raw_namespace(share: &Vec<u8>) -> (r: Option<Namespace>)
    ensures share@.len() >= NS_SIZE ==> r == Some(ns_of_bytes(share@.subrange(0, NS_SIZE as int))), share@.len() < NS_SIZE ==> r.is_none()
{ unimplemented!() }

// A-nmt: the leaf is exactly the leaf at positions start..end of the tree committed by root
pub uninterp spec fn nmt_range_ok(p: NamespaceProof, root: NamespacedHash, leaves: Seq<Seq<u8>>, ns: NamespaceId) -> bool;
#[derive(Clone, Copy)]
pub struct NamespaceProof { pub start: u32, pub end: u32, pub g: u64 }
impl NamespaceProof {
    #[verifier::external_body]
    pub fn start_idx(&self) -> (r: u32) ensures r == self.start { unimplemented!() }
    #[verifier::external_body]
    pub fn end_idx(&self) -> (r: u32) ensures r == self.end { unimplemented!() }
    #[verifier::external_body]
    pub fn verify_range1(&self, root: &NamespacedHash, leaf: &Vec<u8>, ns: NamespaceId) -> (r: std::result::Result<(), RangeProofError>)
        ensures r.is_ok() == nmt_range_ok(*self, *root, seq![leaf@], ns) { unimplemented!() }
}
pub uninterp spec fn nmt_root_of(leaves: Seq<(Seq<u8>, NamespaceId)>) -> NamespacedHash;
// push_leaf refuses a leaf (namespace lower than the previous one / malformed): uninterpreted (A-nmt)
pub uninterp spec fn nmt_rejects(leaves: Seq<(Seq<u8>, NamespaceId)>, bytes: Seq<u8>, ns: NamespaceId) -> bool;
pub struct Nmt { pub leaves: Ghost<Seq<(Seq<u8>, NamespaceId)>> }
#[derive(Debug)]
pub struct NmtError {}
impl Nmt {
    #[verifier::external_body]
    pub fn default() -> (t: Nmt) ensures t.leaves@.len() == 0 { unimplemented!() }
    #[verifier::external_body]
    pub fn push_leaf(&mut self, bytes: &Vec<u8>, ns: NamespaceId) -> (r: std::result::Result<(), NmtError>)
        ensures r.is_ok() ==> final(self).leaves@ == old(self).leaves@.push((bytes@, ns)),
            r.is_err() ==> final(self).leaves@ == old(self).leaves@ && nmt_rejects(old(self).leaves@, bytes@, ns)
    { unimplemented!() }
    #[verifier::external_body]
    pub fn root(&mut self) -> (r: NamespacedHash) ensures r == nmt_root_of(old(self).leaves@), final(self).leaves == old(self).leaves { unimplemented!() }
}

// A-leopard: leopard_codec::reconstruct / encode as uninterpreted partial functions of the shard vector (None = error)
pub uninterp spec fn leo_reconstruct(shards: Seq<Seq<u8>>, k: int) -> Option<Seq<Seq<u8>>>;
pub uninterp spec fn leo_encode(shards: Seq<Seq<u8>>, k: int) -> Option<Seq<Seq<u8>>>;
pub open spec fn vviews(s: Seq<Vec<u8>>) -> Seq<Seq<u8>> { Seq::new(s.len(), |i: int| s[i]@) }
#[derive(Debug)]
pub struct LeoError {}
#[verifier::external_body]
pub fn leopard_reconstruct(shards: &mut Vec<Vec<u8>>, k: usize) -> (r: std::result::Result<(), LeoError>)
    ensures r.is_ok() == leo_reconstruct(vviews(old(shards)@), k as int).is_some(),
        r.is_ok() ==> vviews(final(shards)@) == leo_reconstruct(vviews(old(shards)@), k as int).unwrap() && final(shards)@.len() == old(shards)@.len(),
{ unimplemented!() }
#[verifier::external_body]
pub fn leopard_encode(shards: &mut Vec<Vec<u8>>, k: usize) -> (r: std::result::Result<(), LeoError>)
    ensures r.is_ok() == leo_encode(vviews(old(shards)@), k as int).is_some(),
        r.is_ok() ==> vviews(final(shards)@) == leo_encode(vviews(old(shards)@), k as int).unwrap() && final(shards)@.len() == old(shards)@.len(),
{ unimplemented!() }

#[verifier::external_body]
pub fn vx_clone_bytes(v: &Vec<u8>) -> (r: Vec<u8>) ensures r@ == v@ { v.clone() }
pub struct DataAvailabilityHeader { pub row_roots: Vec<NamespacedHash>, pub column_roots: Vec<NamespacedHash> }
#[verifier::external_body]
pub fn vx_get_cloned(v: &Vec<NamespacedHash>, i: usize) -> (r: Option<NamespacedHash>)
    ensures i < v@.len() ==> r == Some(v@[i as int]), i >= v@.len() ==> r.is_none()
{ unimplemented!() }
impl DataAvailabilityHeader {
//@fn impl DataAvailabilityHeader :: row_roots @ types/src/data_availability_header.rs
//@props C07
    pub fn row_roots(&self) -> (r: &[NamespacedHash]) ensures r@ == self.row_roots@
//@end
//@fn impl DataAvailabilityHeader :: column_roots @ types/src/data_availability_header.rs
//@props C07
    pub fn column_roots(&self) -> (r: &[NamespacedHash]) ensures r@ == self.column_roots@
//@end
//@fn impl DataAvailabilityHeader :: row_root @ types/src/data_availability_header.rs
//@props C07
    pub fn row_root(&self, row: u16) -> (r: Option<NamespacedHash>)
        ensures r == (if row < self.row_roots@.len() { Some(self.row_roots@[row as int]) } else { None })
//@sub E9 "usize::from(row)" => "(row as usize)"
//@sub E9 "self.row_roots.get(row).cloned()" => "vx_get_cloned(&self.row_roots, row)"
//@end
//@fn impl DataAvailabilityHeader :: column_root @ types/src/data_availability_header.rs
//@props C07
    pub fn column_root(&self, column: u16) -> (r: Option<NamespacedHash>)
        ensures r == (if column < self.column_roots@.len() { Some(self.column_roots@[column as int]) } else { None })
//@sub E9 "usize::from(column)" => "(column as usize)"
//@sub E9 "self.column_roots.get(column).cloned()" => "vx_get_cloned(&self.column_roots, column)"
//@end
//@fn impl DataAvailabilityHeader :: square_width @ types/src/data_availability_header.rs
//@props C07
    pub fn square_width(&self) -> (r: u16)
        requires self.row_roots@.len() <= u16::MAX      // validated header (dah_basic, C01)
        ensures r == self.row_roots@.len()
//@sub E9 "self.row_roots .len() .try_into() .expect(\"len is bigger than u16::MAX\")" => "{ vx_assert(self.row_roots.len() <= u16::MAX as usize); self.row_roots.len() as u16 }"
//@end
}
pub struct ExtendedHeader { pub h: u64, pub dah: DataAvailabilityHeader }
impl ExtendedHeader {
    #[verifier::external_body]
    pub fn height(&self) -> (r: u64) ensures r == self.h { unimplemented!() }
}

#[derive(Clone)]
pub struct NmtLeaf { pub namespace: Namespace, pub share: Vec<u8> }
#[derive(Clone)]
pub struct ShareWithProof { pub leaf: NmtLeaf, pub proof: NamespaceProof, pub proof_axis: AxisType }
pub struct BadEncodingFraudProof {
    pub block_height: u64,
    pub shares: Vec<Option<ShareWithProof>>,
    pub index: u16,
    pub axis: AxisType,
}

// root and position a present share must be proven against (from the property statement: "each proven at its own position")
pub open spec fn exp_root(dah: DataAvailabilityHeader, axis: AxisType, index: u16, i: int, pa: AxisType) -> NamespacedHash {
    match (axis, pa) {
        (AxisType::Row, AxisType::Row) => dah.row_roots@[index as int],
        (AxisType::Row, AxisType::Col) => dah.column_roots@[i],
        (AxisType::Col, AxisType::Row) => dah.row_roots@[i],
        (AxisType::Col, AxisType::Col) => dah.column_roots@[index as int],
    }
}
pub open spec fn exp_pos(axis: AxisType, index: u16, i: int, pa: AxisType) -> int {
    if axis == pa { i } else { index as int }
}
pub open spec fn share_proven(p: BadEncodingFraudProof, dah: DataAvailabilityHeader, i: int) -> bool {
    let sp = p.shares@[i].unwrap();
    &&& sp.proof.start == exp_pos(p.axis, p.index, i, sp.proof_axis) && sp.proof.end == sp.proof.start + 1
    &&& nmt_range_ok(sp.proof, exp_root(dah, p.axis, p.index, i, sp.proof_axis), seq![sp.leaf.share@], sp.leaf.namespace.id)
}
pub open spec fn present_count(s: Seq<Option<ShareWithProof>>, n: int) -> int
    decreases n
{ if n <= 0 { 0 } else { present_count(s, n - 1) + if s[n - 1].is_some() { 1int } else { 0 } } }
// the shard vector handed to reconstruction: proven share bytes, empty for missing ones
pub open spec fn proven_shards(s: Seq<Option<ShareWithProof>>) -> Seq<Seq<u8>> {
    Seq::new(s.len(), |i: int| match s[i] { Some(sp) => sp.leaf.share@, None => Seq::<u8>::empty() })
}
// leaves of the rebuilt axis tree: raw namespace of the share in the original half, parity namespace in the other half
// the namespace under which leaf i of row/column `idx` is committed in the block's NMTs (the erasured namespaced
// merkle tree of the protocol): only the first quadrant (idx < k and i < k) carries the share's own namespace, every leaf
// of a parity row/column and every leaf in the second half carries the parity namespace.  [taken from the protocol, not
// from validate(): an earlier version of this spec mirrored the code and thereby encoded defect D19]
pub open spec fn leaf_ns_id(shards: Seq<Seq<u8>>, k: int, idx: int, i: int) -> NamespaceId {
    if i < k && idx < k { ns_of_bytes(shards[i].subrange(0, NS_SIZE as int)).id } else { parity_ns().id }
}
pub open spec fn rebuilt_leaves(shards: Seq<Seq<u8>>, k: int, idx: int, n: int) -> Seq<(Seq<u8>, NamespaceId)> {
    Seq::new(n as nat, |i: int| (shards[i], leaf_ns_id(shards, k, idx, i)))
}

// the NMT refuses leaf n of the rebuilt axis: the axis cannot be committed to at all
pub open spec fn nmt_stuck(enc: Seq<Seq<u8>>, k: int, idx: int, n: int) -> bool {
    0 <= n < enc.len() && nmt_rejects(rebuilt_leaves(enc, k, idx, n), enc[n], leaf_ns_id(enc, k, idx, n))
}
pub open spec fn befp_checks(p: BadEncodingFraudProof, header: ExtendedHeader) -> bool {
    let w = header.dah.row_roots@.len() as int;
    &&& header.h == p.block_height
    &&& header.dah.row_roots@.len() == header.dah.column_roots@.len()
    &&& p.index < w && p.shares@.len() == w
    &&& present_count(p.shares@, w) >= w / 2
    &&& forall|i: int| 0 <= i < w && (#[trigger] p.shares@[i]).is_some() ==> share_proven(p, header.dah, i)
}

impl BadEncodingFraudProof {
//@fn impl FraudProof for BadEncodingFraudProof :: height
//@props C07
    fn height(&self) -> (r: u64) ensures r == self.block_height
//@end

//@fn impl FraudProof for BadEncodingFraudProof :: validate
//@props C07 C16
//@macro bail_validation => return Err(Error::Validation(ValidationError::Other))
    fn validate(&self, header: &ExtendedHeader) -> (res: Result<()>)
        requires header.dah.row_roots@.len() <= u16::MAX
        ensures
            // soundness, part 1: accepted only if at least half of the axis is present and EVERY present share is proven at its own position
            res.is_ok() ==> befp_checks(*self, *header),
            // soundness, part 2: ... and the axis reconstructed from the proven shares is not a codeword consistent with the committed root
            res.is_ok() ==> {
                let w = header.dah.row_roots@.len() as int; let k = w / 2;
                let expected = if self.axis == AxisType::Row { header.dah.row_roots@[self.index as int] } else { header.dah.column_roots@[self.index as int] };
                match leo_reconstruct(proven_shards(self.shares@), k) {
                    None => true,
                    Some(rec) => match leo_encode(rec, k) {
                        None => true,
                        Some(enc) => enc.len() == w ==> (
                            // a share too short to carry a namespace, a tree that cannot be built (namespace order), or a different root
                            (self.index < k && exists|i: int| 0 <= i < k && (#[trigger] enc[i]).len() < NS_SIZE)
                            || (exists|n: int| 0 <= n <= w && #[trigger] nmt_stuck(enc, k, self.index as int, n))
                            || nmt_root_of(rebuilt_leaves(enc, k, self.index as int, w)) != expected),
                    },
                }
            },
//@sub E9 "usize::from(header.dah.square_width())" => "(header.dah.square_width() as usize)"
//@sub E9 "usize::from(self.index)" all => "(self.index as usize)"
//@sub E8 "let shares_count = self.shares.iter().filter(|s| s.is_some()).count();"
        let mut shares_count: usize = 0;
        {
            let mut __c: usize = 0;
            while __c < self.shares.len()
                invariant __c <= self.shares@.len(), shares_count == present_count(self.shares@, __c as int), shares_count <= __c,
                decreases self.shares@.len() - __c
            {
                let s = &self.shares[__c]; __c += 1;
                if s.is_some() { shares_count += 1; }
            }
        }
//@for 1
//@loop 1
            invariant
                __i1 <= self.shares@.len(),
                self.shares@.len() == square_width, square_width == header.dah.row_roots@.len(), header.dah.row_roots@.len() == header.dah.column_roots@.len(),
                square_width <= u16::MAX, (self.index as int) < square_width,
                forall|i: int| 0 <= i < __i1 && (#[trigger] self.shares@[i]).is_some() ==> share_proven(*self, header.dah, i),
            decreases self.shares@.len() - __i1
//@sub E9 "proof .verify_range(&root, &[&share], **namespace) .map_err(Error::RangeProofError)?;" => "proof.verify_range1(&root, share, namespace.nmt_id())?;"
//@hint before "// rebuild the whole axis"
        proof { assert(befp_checks(*self, *header)); }
//@sub E8 "let mut rebuilt_shares: Vec<_> = self .shares .iter() .map(|maybe_share| { maybe_share .clone() .map(|share_with_proof| share_with_proof.leaf.share) .unwrap_or_default() }) .collect();"
        let mut rebuilt_shares: Vec<Vec<u8>> = Vec::new();
        {
            let mut __m: usize = 0;
            while __m < self.shares.len()
                invariant __m <= self.shares@.len(), rebuilt_shares@.len() == __m, befp_checks(*self, *header),
                    square_width == header.dah.row_roots@.len(), ods_width == square_width / 2,
                    forall|i: int| 0 <= i < __m ==> (#[trigger] rebuilt_shares@[i])@ == proven_shards(self.shares@)[i],
                decreases self.shares@.len() - __m
            {
                let maybe_share = &self.shares[__m]; __m += 1;
                let v: Vec<u8> = match maybe_share { Some(share_with_proof) => vx_clone_bytes(&share_with_proof.leaf.share), None => Vec::new() };
                rebuilt_shares.push(v);
            }
        }
        proof { assert(vviews(rebuilt_shares@) =~= proven_shards(self.shares@)); }
        let ghost shards0 = vviews(rebuilt_shares@);
//@sub E9 "leopard_codec::reconstruct(&mut rebuilt_shares, ods_width)" => "leopard_reconstruct(&mut rebuilt_shares, ods_width)"
//@hint before "// re-encode the parity data"
        let ghost rec = vviews(rebuilt_shares@);
//@sub E9 "leopard_codec::encode(&mut rebuilt_shares, ods_width)" => "leopard_encode(&mut rebuilt_shares, ods_width)"
//@hint before "let mut nmt = Nmt::default();"
        let ghost enc = vviews(rebuilt_shares@);
//@hint after "let mut nmt = Nmt::default();"
        proof { assert(nmt.leaves@ =~= rebuilt_leaves(enc, ods_width as int, self.index as int, 0)); }
//@sub E9 "match share .get(..NS_SIZE) .and_then(|raw| <[u8; NS_SIZE]>::try_from(raw).ok()) { Some(raw) => Namespace::new_unchecked(raw), None => return Ok(()), }" => "match vx_raw_namespace(share) { Some(ns) => ns, None => return Ok(()), }"
//@sub E9 "Namespace::PARITY_SHARE" => "Namespace::parity_share()"
//@sub E9 "if nmt.push_leaf(share, *ns).map_err(Error::Nmt).is_err() {" => "if nmt.push_leaf(share, ns.nmt_id()).is_err() {"
//@for 2
//@loop 2
            invariant
                __i2 <= rebuilt_shares@.len(), enc == vviews(rebuilt_shares@), rebuilt_shares@.len() == square_width, ods_width == square_width / 2,
                befp_checks(*self, *header), square_width == header.dah.row_roots@.len(), (self.index as int) < square_width,
                leo_reconstruct(proven_shards(self.shares@), ods_width as int) == Some(rec), leo_encode(rec, ods_width as int) == Some(enc),
                nmt.leaves@ == rebuilt_leaves(enc, ods_width as int, self.index as int, __i2 as int),
                self.index < ods_width ==> forall|i: int| 0 <= i < __i2 && i < ods_width ==> (#[trigger] enc[i]).len() >= NS_SIZE,
            decreases rebuilt_shares@.len() - __i2
//@loopstart 2
            proof { if __i2 - 1 < ods_width && enc[__i2 as int - 1].len() < NS_SIZE { assert(enc[__i2 as int - 1].len() < NS_SIZE); } }
//@loopend 2
            proof { assert(nmt.leaves@ =~= rebuilt_leaves(enc, ods_width as int, self.index as int, __i2 as int)); }
//@hint before "// we couldn't rebuild the nmt from reconstructed data"
                proof { assert(nmt_stuck(enc, ods_width as int, self.index as int, __i2 as int - 1)); }
//@end
}

//@end-export
} // verus!
fn main() {}
