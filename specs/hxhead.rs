//@unit hxhead
//@serves C31
use vstd::prelude::*;
verus! {
// std specifications not in vstd (A-std)
pub assume_specification<T, F: FnOnce(T) -> bool> [Option::<T>::is_some_and] (o: Option<T>, f: F) -> (r: bool)
    requires o.is_some() ==> f.requires((o.unwrap(),))
    ensures o.is_none() ==> !r, o.is_some() ==> f.ensures((o.unwrap(),), r);
pub assume_specification<T, F: FnOnce(T) -> bool> [Option::<T>::is_none_or] (o: Option<T>, f: F) -> (r: bool)
    requires o.is_some() ==> f.requires((o.unwrap(),))
    ensures o.is_none() ==> r, o.is_some() ==> f.ensures((o.unwrap(),), r);
//@src node/src/p2p/header_ex/client.rs

#[verifier::external_body]
fn vx_assert(c: bool) requires c { }
#[verifier::external_body]
fn vx_unreachable() -> ! requires false { unimplemented!() }

// ---------------------------------------------------------------------------
// stubs (E9)
// ---------------------------------------------------------------------------
//@const MAX_PEERS
//@const MIN_HEAD_RESPONSES
#[derive(Clone, Copy, PartialEq, Eq, Structural)]
pub struct Hash { pub v: u64 }
// an extended header as the head selection sees it: its height and its hash
pub struct ExtendedHeader { pub h: u64, pub hash: Hash }
impl ExtendedHeader {
    #[verifier::external_body]
    pub fn height(&self) -> (r: u64) ensures r == self.h { unimplemented!() }
    #[verifier::external_body]
    pub fn hash(&self) -> (r: Hash) ensures r == self.hash { unimplemented!() }
    #[verifier::external_body]
    pub fn to_owned(&self) -> (r: ExtendedHeader) ensures r == *self { unimplemented!() }
}
pub struct HeaderExError {}
pub struct RecvError {}
pub enum TaskResult { Head(Option<Box<ExtendedHeader>>), Req }
pub struct Rx {}
// the answer of one trusted peer as it arrives at the task: the channel may be dropped, the request may have failed
pub type PeerAnswer = Result<Result<Vec<ExtendedHeader>, HeaderExError>, RecvError>;
// `join_all(rxs).await`: one answer per request, any content; iterated by value (E7: next)
pub struct Answers { pub items: Ghost<Seq<PeerAnswer>>, pub pos: Ghost<int> }
// what the peers answer to these requests (the network's choice)
pub uninterp spec fn answers_of(rxs: Seq<Rx>) -> Seq<PeerAnswer>;
#[verifier::external_body]
pub async fn join_all(rxs: Vec<Rx>) -> (a: Answers)
    ensures a.pos@ == 0, a.items@ == answers_of(rxs@), a.items@.len() == rxs@.len()
{ unimplemented!() }
impl Answers {
    #[verifier::external_body]
    pub fn next(&mut self) -> (r: Option<PeerAnswer>)
        requires 0 <= old(self).pos@ <= old(self).items@.len()
        ensures
            final(self).items == old(self).items,
            old(self).pos@ < old(self).items@.len() ==> r == Some(old(self).items@[old(self).pos@]) && final(self).pos@ == old(self).pos@ + 1,
            old(self).pos@ >= old(self).items@.len() ==> r.is_none() && final(self).pos@ == old(self).pos@,
    { unimplemented!() }
}
// HashMap<Hash, usize>
pub struct Counter { pub g: Ghost<Map<Hash, usize>> }
impl Counter {
    pub open spec fn view(&self) -> Map<Hash, usize> { self.g@ }
    #[verifier::external_body]
    pub fn with_capacity(n: usize) -> (r: Counter) ensures r@ == Map::<Hash, usize>::empty() { unimplemented!() }
    // `.entry(k).or_default()`
    #[verifier::external_body]
    pub fn vx_entry_or_default(&mut self, k: Hash) -> (r: &mut usize)
        ensures *r == (if old(self)@.contains_key(k) { old(self)@[k] } else { 0usize }), final(self)@ == old(self)@.insert(k, *final(r))
    { unimplemented!() }
    #[verifier::external_body]
    pub fn get(&self, k: &Hash) -> (r: Option<&usize>)
        ensures r.is_some() == self@.contains_key(*k), r.is_some() ==> *r.unwrap() == self@[*k]
    { unimplemented!() }
    #[verifier::external_body]
    pub fn contains_key(&self, k: &Hash) -> (b: bool) ensures b == self@.contains_key(*k) { unimplemented!() }
    // `counter[&k]` (panics if absent)
    #[verifier::external_body]
    pub fn vx_index(&self, k: &Hash) -> (r: usize)
        requires self@.contains_key(*k)
        ensures r == self@[*k]
    { unimplemented!() }
}

// ---------------------------------------------------------------------------
// C31: the best-head rule
// ---------------------------------------------------------------------------
// the usable answers, in arrival order: HEAD responses must have exactly one header
pub open spec fn usable(a: PeerAnswer) -> Seq<ExtendedHeader> {
    if a is Ok && a->Ok_0 is Ok && a->Ok_0->Ok_0@.len() == 1 { a->Ok_0->Ok_0@ } else { Seq::empty() }
}
pub open spec fn usable_upto(items: Seq<PeerAnswer>, n: int) -> Seq<ExtendedHeader>
    decreases n
{
    if n <= 0 { Seq::empty() } else { usable_upto(items, n - 1) + usable(items[n - 1]) }
}
// how many of the reported headers carry this hash (= how many peers reported that header)
pub open spec fn votes(r: Seq<ExtendedHeader>, hash: Hash) -> nat
    decreases r.len()
{
    if r.len() == 0 { 0 } else { votes(r.drop_last(), hash) + (if r.last().hash == hash { 1nat } else { 0nat }) }
}
pub open spec fn agreed(r: Seq<ExtendedHeader>, x: ExtendedHeader) -> bool { votes(r, x.hash) >= 2 }
// the rule: the highest header reported by at least two peers if any header has such agreement, otherwise the highest reported
pub open spec fn best_head(r: Seq<ExtendedHeader>, x: ExtendedHeader) -> bool {
    &&& r.contains(x)
    &&& if exists|y: ExtendedHeader| r.contains(y) && agreed(r, y) {
            agreed(r, x) && forall|y: ExtendedHeader| r.contains(y) && agreed(r, y) ==> y.h <= x.h
        } else {
            forall|y: ExtendedHeader| r.contains(y) ==> y.h <= x.h
        }
}
pub proof fn lemma_votes_push(r: Seq<ExtendedHeader>, x: ExtendedHeader, hash: Hash)
    ensures votes(r.push(x), hash) == votes(r, hash) + (if x.hash == hash { 1nat } else { 0nat })
{
    assert(r.push(x).drop_last() =~= r);
}
pub proof fn lemma_votes_le(r: Seq<ExtendedHeader>, hash: Hash)
    ensures votes(r, hash) <= r.len()
    decreases r.len()
{
    if r.len() > 0 { lemma_votes_le(r.drop_last(), hash); }
}
pub proof fn lemma_votes_pos(r: Seq<ExtendedHeader>, i: int)
    requires 0 <= i < r.len()
    ensures votes(r, r[i].hash) >= 1
    decreases r.len()
{
    if i < r.len() - 1 { lemma_votes_pos(r.drop_last(), i); }
}
// sorted as `sort_unstable_by_key(|resp| Reverse((resp.height(), counter[&resp.hash()])))` leaves it: height descending,
// then number of peers descending
pub open spec fn sorted_desc(s: Seq<ExtendedHeader>, c: Map<Hash, usize>) -> bool {
    forall|i: int, j: int| 0 <= i < j < s.len() ==> s[i].h > s[j].h || (s[i].h == s[j].h && c[s[i].hash] >= c[s[j].hash])
}
// E8 + A-std: the sort permutes (same elements, same multiplicities) and orders by the key; the key is the one proved
// for the closure body (block `head_task__sort_key`)
#[verifier::external_body]
pub fn vx_sort_heads(resps: &mut Vec<ExtendedHeader>, counter: &Counter)
    requires forall|i: int| 0 <= i < old(resps)@.len() ==> counter@.contains_key(#[trigger] old(resps)@[i].hash)
    ensures
        final(resps)@.len() == old(resps)@.len(),
        forall|x: ExtendedHeader| final(resps)@.contains(x) <==> old(resps)@.contains(x),
        forall|hash: Hash| votes(final(resps)@, hash) == votes(old(resps)@, hash),
        sorted_desc(final(resps)@, counter@),
{ unimplemented!() }
// `resps.into_iter().next().expect("no responses")`
#[verifier::external_body]
pub fn vx_first(resps: Vec<ExtendedHeader>) -> (r: ExtendedHeader)
    requires resps@.len() > 0
    ensures r == resps@[0]
{ unimplemented!() }
pub struct Reverse<T>(pub T);

// everything usable that the trusted peers reported
pub open spec fn reported(rxs: Seq<Rx>) -> Seq<ExtendedHeader> { usable_upto(answers_of(rxs), answers_of(rxs).len() as int) }
// the first header with agreement in the sorted list is the highest one with agreement
pub proof fn lemma_best_agreed(r0: Seq<ExtendedHeader>, s: Seq<ExtendedHeader>, c: Map<Hash, usize>, k: int)
    requires
        0 <= k < s.len(), sorted_desc(s, c),
        forall|x: ExtendedHeader| s.contains(x) <==> r0.contains(x),
        forall|i: int| 0 <= i < k ==> votes(r0, (#[trigger] s[i]).hash) < 2,
        votes(r0, s[k].hash) >= 2,
    ensures best_head(r0, s[k])
{
    assert(s.contains(s[k]));
    assert(r0.contains(s[k]) && agreed(r0, s[k]));
    assert forall|y: ExtendedHeader| r0.contains(y) && agreed(r0, y) implies y.h <= s[k].h by {
        assert(s.contains(y));
        let j = choose|j: int| 0 <= j < s.len() && s[j] == y;
        if j < k { assert(votes(r0, s[j].hash) < 2); } else if j > k { assert(s[k].h >= s[j].h); }
    }
}
// without any agreement the first header of the sorted list is the highest reported one
pub proof fn lemma_best_highest(r0: Seq<ExtendedHeader>, s: Seq<ExtendedHeader>, c: Map<Hash, usize>)
    requires
        s.len() > 0, sorted_desc(s, c),
        forall|x: ExtendedHeader| s.contains(x) <==> r0.contains(x),
        forall|i: int| 0 <= i < s.len() ==> votes(r0, (#[trigger] s[i]).hash) < 2,
    ensures best_head(r0, s[0])
{
    assert(s.contains(s[0]));
    assert forall|y: ExtendedHeader| r0.contains(y) implies !agreed(r0, y) && y.h <= s[0].h by {
        assert(s.contains(y));
        let j = choose|j: int| 0 <= j < s.len() && s[j] == y;
        assert(votes(r0, s[j].hash) < 2);
        if j > 0 { assert(s[0].h >= s[j].h); }
    }
}


// ---- the sending side (C31: only connected trusted peers) and the waiting callers ----
pub struct PeerInfo { pub id_: u64, pub connected: bool, pub trusted: bool }
impl PeerInfo {
    #[verifier::external_body]
    pub fn id(&self) -> (r: &u64) ensures *r == self.id_ { unimplemented!() }
    #[verifier::external_body]
    pub fn is_connected(&self) -> (r: bool) ensures r == self.connected { unimplemented!() }
    #[verifier::external_body]
    pub fn is_trusted(&self) -> (r: bool) ensures r == self.trusted { unimplemented!() }
}
pub struct PeerTracker {}
// the iterator over the tracked peers and its adapters (A-std: `filter` keeps exactly the elements the closure accepts,
// `take(n).collect()` at most n of them); the closure itself is the real one, verified in place against its annotation
pub struct PeersIter<'a> { pub t: &'a PeerTracker }
pub struct Filtered<'a, F> { pub t: &'a PeerTracker, pub f: F }
impl PeerTracker {
    #[verifier::external_body]
    pub fn peers(&self) -> PeersIter<'_> { unimplemented!() }
}
impl<'a> PeersIter<'a> {
    #[verifier::external_body]
    pub fn filter<F: Fn(&&'a PeerInfo) -> bool>(self, f: F) -> (r: Filtered<'a, F>) ensures r.f == f { unimplemented!() }
}
impl<'a, F: Fn(&&'a PeerInfo) -> bool> Filtered<'a, F> {
    // E8: `.take(n).collect::<SmallVec<[_; n]>>()`
    #[verifier::external_body]
    pub fn vx_take_collect(self, n: usize) -> (r: Vec<&'a PeerInfo>)
        ensures r@.len() <= n, forall|k: int| 0 <= k < r@.len() ==> self.f.ensures((&#[trigger] r@[k],), true)
    { unimplemented!() }
}
pub struct HeaderRequest { pub head: bool }
impl HeaderRequest {
    #[verifier::external_body]
    pub fn head_request() -> (r: HeaderRequest) ensures r.head { unimplemented!() }
    #[verifier::external_body]
    pub fn clone(&self) -> (r: HeaderRequest) ensures r == *self { unimplemented!() }
}
pub struct ReqId { pub v: u64 }
// the request-response behaviour; the ghost log records (peer, is-head-request) of everything sent (E13)
pub struct Sender { pub sent: Ghost<Seq<(u64, bool)>> }
impl Sender {
    #[verifier::external_body]
    pub fn send_request(&mut self, peer: &u64, request: HeaderRequest) -> (r: ReqId)
        ensures final(self).sent@ == old(self).sent@.push((*peer, request.head))
    { unimplemented!() }
}
pub struct Tx {}
#[verifier::external_body]
pub fn vx_oneshot_channel() -> (Tx, Rx) { unimplemented!() }
pub enum CancelReason { RequestCancelled }
#[derive(Clone, Copy, PartialEq, Eq, Structural)]
pub enum PeerKind { Any, Archival, Trusted, TrustedArchival }
// a waiting caller: `got` is what was sent into its channel so far (ghost, E13)
pub struct OneshotSender<T> { pub closed: bool, pub got: Ghost<Seq<T>> }
impl<T> OneshotSender<T> {
    #[verifier::external_body]
    pub fn new(tx: Tx, e: CancelReason) -> (r: OneshotSender<T>) ensures r.got@.len() == 0 { unimplemented!() }
    #[verifier::external_body]
    pub fn is_closed(&self) -> (b: bool) ensures b == self.closed { unimplemented!() }
    // sends at most once (the inner sender is taken)
    #[verifier::external_body]
    pub fn maybe_send_ok(&mut self, v: T)
        ensures final(self).closed == old(self).closed, final(self).got@ == (if old(self).got@.len() == 0 { seq![v] } else { old(self).got@ })
    { unimplemented!() }
}
pub struct State {
    pub peer_kind: PeerKind,
    pub request: HeaderRequest,
    pub respond_to: OneshotSender<Vec<ExtendedHeader>>,
    pub tries_left: usize,
}
// the in-flight table: head requests are registered with no tries left (they are never retried individually)
pub struct Reqs {}
impl Reqs {
    #[verifier::external_body]
    pub fn insert(&mut self, id: ReqId, state: State)
        requires state.request.head ==> state.tries_left == 0 && state.peer_kind is Trusted
    { unimplemented!() }
}
// VecDeque<OneshotSender<Vec<ExtendedHeader>>>: the callers waiting for the network head
pub struct HeadReqs { pub q: Ghost<Seq<OneshotSender<Vec<ExtendedHeader>>>> }
pub struct Drain { pub items: Ghost<Seq<OneshotSender<Vec<ExtendedHeader>>>>, pub pos: Ghost<int> }
impl HeadReqs {
    pub open spec fn view(&self) -> Seq<OneshotSender<Vec<ExtendedHeader>>> { self.q@ }
    // E8: `retain(|tx| !tx.is_closed())`
    #[verifier::external_body]
    pub fn vx_retain_open(&mut self)
        ensures final(self)@ == old(self)@.filter(|tx: OneshotSender<Vec<ExtendedHeader>>| !tx.closed)
    { unimplemented!() }
    #[verifier::external_body]
    pub fn is_empty(&self) -> (b: bool) ensures b == (self@.len() == 0) { unimplemented!() }
    #[verifier::external_body]
    pub fn len(&self) -> (n: usize) ensures n == self@.len() { unimplemented!() }
    // `drain(..)`: hands out every waiting caller, front to back, and leaves the queue empty
    #[verifier::external_body]
    pub fn drain(&mut self, all: std::ops::RangeFull) -> (d: Drain)
        ensures d.items@ == old(self)@, d.pos@ == 0, final(self)@.len() == 0
    { unimplemented!() }
}
impl Drain {
    #[verifier::external_body]
    pub fn next(&mut self) -> (r: Option<OneshotSender<Vec<ExtendedHeader>>>)
        requires 0 <= old(self).pos@ <= old(self).items@.len()
        ensures
            final(self).items == old(self).items,
            old(self).pos@ < old(self).items@.len() ==> r == Some(old(self).items@[old(self).pos@]) && final(self).pos@ == old(self).pos@ + 1,
            old(self).pos@ >= old(self).items@.len() ==> r.is_none() && final(self).pos@ == old(self).pos@,
    { unimplemented!() }
}
pub struct HeadTaskRaw {}
pub struct HeadTask {}
impl HeadTaskRaw { #[verifier::external_body] pub fn boxed(self) -> HeadTask { unimplemented!() } }
// E11: the task that picks the best head (its body is verified as the block `schedule_head_request__task`)
#[verifier::external_body]
pub fn vx_head_task(rxs: Vec<Rx>) -> HeadTaskRaw { unimplemented!() }
pub struct Tasks {}
impl Tasks { #[verifier::external_body] pub fn push(&mut self, t: HeadTask) { unimplemented!() } }
#[verifier::external_body]
pub fn vx_clone_heads(v: &Vec<ExtendedHeader>) -> (r: Vec<ExtendedHeader>) ensures r@ == v@ { unimplemented!() }
// what each caller has been answered, in the order the callers were served (E13)
pub struct Served { pub answers: Ghost<Seq<Seq<Vec<ExtendedHeader>>>> }

pub struct HeaderExClientHandler {
    pub reqs: Reqs,
    pub head_reqs: HeadReqs,
    pub head_req_scheduled: bool,
    pub tasks: Tasks,
}
impl HeaderExClientHandler {
//@fn impl<S> HeaderExClientHandler<S> :: schedule_head_request
//@props C31
//@block "self.tasks.push( async move {"
    async fn schedule_head_request__task(rxs: Vec<Rx>) -> (r: TaskResult)
        ensures
            r is Head,
            // no usable answer: nothing is resolved (the request is rescheduled); otherwise the best-head rule
            r->Head_0.is_none() <==> reported(rxs@).len() == 0,
            r->Head_0.is_some() ==> best_head(reported(rxs@), *r->Head_0.unwrap()),
//@sub E9 "let mut counter: HashMap<_, usize> = HashMap::with_capacity(rxs.len());" => "let mut counter = Counter::with_capacity(rxs.len());"
//@sub E8 "if let Ok(Ok(mut v)) = res &&" => "if let Ok(Ok(mut v)) = res { if"
//@hint after "resps.append(&mut v);"
                        }
//@sub E9 "counter.entry(resp.hash()).or_default()" => "counter.vx_entry_or_default(resp.hash())"
//@sub E9 "counter[&resp.hash()]" all => "counter.vx_index(&resp.hash())"
//@opaque "resps.sort_unstable_by_key(|resp| {" => "vx_sort_heads(&mut resps, &counter"
//@sub E9 "resps.into_iter().next().expect(\"no responses\")" => "vx_first(resps)"
//@hint before "for res in join_all(rxs).await {"
                let ghost rxs0 = rxs@;
//@for 1 iter next
//@loop 1
                    invariant
                        __i1_it.items@ == answers_of(rxs0), 0 <= __i1_it.pos@ <= __i1_it.items@.len(),
                        resps@ == usable_upto(__i1_it.items@, __i1_it.pos@),
                    ensures
                        __i1_it.pos@ == __i1_it.items@.len(),
                    decreases __i1_it.items@.len() - __i1_it.pos@
//@hint before "for resp in &resps {" 1
                let ghost r0 = resps@;
//@for 2 ref
//@loop 2
                    invariant
                        __i2 <= resps@.len(), resps@ == r0,
                        forall|hash: Hash| #![trigger counter@.contains_key(hash)] (counter@.contains_key(hash) <==> votes(r0.take(__i2 as int), hash) > 0)
                            && (counter@.contains_key(hash) ==> counter@[hash] == votes(r0.take(__i2 as int), hash)),
                    decreases resps@.len() - __i2
//@loopstart 2
                    proof {
                        assert(r0.take(__i2 as int) =~= r0.take(__i2 as int - 1).push(r0[__i2 as int - 1]));
                        assert forall|hash: Hash| votes(r0.take(__i2 as int), hash) == votes(r0.take(__i2 as int - 1), hash) + (if r0[__i2 as int - 1].hash == hash { 1nat } else { 0nat }) by {
                            lemma_votes_push(r0.take(__i2 as int - 1), r0[__i2 as int - 1], hash);
                        }
                        lemma_votes_le(r0.take(__i2 as int - 1), resp.hash);
                    }
//@afterloop 2
                proof {
                    assert(r0.take(r0.len() as int) =~= r0);
                    assert forall|i: int| 0 <= i < r0.len() implies counter@.contains_key(#[trigger] r0[i].hash) by { lemma_votes_pos(r0, i); }
                }
//@hint before "for resp in &resps {" 2
                proof {
                    assert(r0 == reported(rxs0));
                    assert forall|i: int| 0 <= i < resps@.len() implies counter@.contains_key(#[trigger] resps@[i].hash) && counter@[resps@[i].hash] == votes(r0, resps@[i].hash) by {
                        assert(resps@.contains(resps@[i]));
                        assert(r0.contains(resps@[i]));
                        let j = choose|j: int| 0 <= j < r0.len() && r0[j] == resps@[i];
                        lemma_votes_pos(r0, j);
                    }
                }
//@for 3 ref
//@loop 3
                    invariant
                        __i3 <= resps@.len(), resps@.len() == r0.len(), sorted_desc(resps@, counter@),
                        forall|i: int| 0 <= i < resps@.len() ==> counter@.contains_key(#[trigger] resps@[i].hash) && counter@[resps@[i].hash] == votes(r0, resps@[i].hash),
                        forall|i: int| 0 <= i < __i3 ==> votes(r0, (#[trigger] resps@[i]).hash) < 2,
                        forall|x: ExtendedHeader| resps@.contains(x) <==> r0.contains(x),
                        r0 == reported(rxs0), r0.len() > 0, rxs0 == rxs@,
                    decreases resps@.len() - __i3
//@hint before "return TaskResult::Head(Some(Box::new(resp.to_owned())));"
                        proof { lemma_best_agreed(r0, resps@, counter@, __i3 as int - 1); }
//@hint before "let resp = resps.into_iter().next().expect(\"no responses\");"
                proof { lemma_best_highest(r0, resps@, counter@); }
//@end

//@fn impl<S> HeaderExClientHandler<S> :: schedule_head_request
//@props C31
//@block "resps.sort_unstable_by_key(|resp| {"
    // the sort key: Reverse((height, number of peers that reported this header)) - i.e. descending by height, then by peers
    fn schedule_head_request__sort_key(resp: &ExtendedHeader, counter: &Counter) -> (k: Reverse<(u64, usize)>)
        requires counter@.contains_key(resp.hash)
        ensures k.0 == (resp.h, counter@[resp.hash])
//@sub E9 "counter[&resp.hash()]" all => "counter.vx_index(&resp.hash())"
//@end


//@fn impl<S> HeaderExClientHandler<S> :: schedule_head_request
//@props C31
    fn schedule_head_request(&mut self, sender: &mut Sender, peer_tracker: &PeerTracker)
        ensures
            // everything sent by this call is a head request to a connected trusted peer (one per selected peer, at most MAX_PEERS)
            final(sender).sent@.len() <= old(sender).sent@.len() + MAX_PEERS,
            final(sender).sent@.subrange(0, old(sender).sent@.len() as int) =~= old(sender).sent@,
            forall|k: int| old(sender).sent@.len() <= k < final(sender).sent@.len() ==> (#[trigger] final(sender).sent@[k]).1 && connected_trusted(final(sender).sent@[k].0),
            // callers whose channel is closed are dropped, nothing is sent when nobody waits
            final(self).head_reqs@ == old(self).head_reqs@.filter(|tx: OneshotSender<Vec<ExtendedHeader>>| !tx.closed),
            final(self).head_reqs@.len() == 0 ==> final(sender).sent == old(sender).sent,
            // scheduled iff something was sent
            final(sender).sent@.len() > old(sender).sent@.len() ==> final(self).head_req_scheduled,
            final(sender).sent@.len() == old(sender).sent@.len() ==> final(self).head_req_scheduled == old(self).head_req_scheduled,
//@sub E8 "self.head_reqs.retain(|tx| !tx.is_closed());" => "self.head_reqs.vx_retain_open();"
//@closure "|peer|" => "|peer: &&PeerInfo| -> (b: bool) ensures b == (peer.connected && peer.trusted)"
//@sub E8 ".take(MAX_PEERS) .collect::<SmallVec<[_; MAX_PEERS]>>()" => ".vx_take_collect(MAX_PEERS)"
//@sub E9 "oneshot::channel()" => "vx_oneshot_channel()"
//@sub E9 "HeaderExError::RequestCancelled" => "CancelReason::RequestCancelled"
//@opaque "self.tasks.push( async move {" => "self.tasks.push( vx_head_task(rxs)"
//@for 1 copy
//@loop 1
            invariant
                __i1 <= peers@.len(), peers@.len() <= MAX_PEERS, request.head,
                forall|k: int| 0 <= k < peers@.len() ==> (#[trigger] peers@[k]).connected && peers@[k].trusted,
                sender.sent@.len() == old(sender).sent@.len() + __i1,
                sender.sent@.subrange(0, old(sender).sent@.len() as int) =~= old(sender).sent@,
                forall|k: int| old(sender).sent@.len() <= k < sender.sent@.len() ==> (#[trigger] sender.sent@[k]).1 && connected_trusted(sender.sent@[k].0),
                self.head_reqs@ == old(self).head_reqs@.filter(|tx: OneshotSender<Vec<ExtendedHeader>>| !tx.closed),
                self.head_req_scheduled == old(self).head_req_scheduled,
            decreases peers@.len() - __i1
//@hint before "let req_id = sender.send_request(peer.id(), request.clone());"
            proof { lemma_is_connected_trusted(*peer); }
            let ghost before = sender.sent@;
//@hint after "rxs.push(rx);"
            proof {
                assert(sender.sent@.subrange(0, old(sender).sent@.len() as int) =~= before.subrange(0, old(sender).sent@.len() as int));
            }
//@end

//@fn impl<S> HeaderExClientHandler<S> :: poll
//@props C31
//@block "TaskResult::Head(Some(head)) => {"
    // the best head arrives: every waiting caller receives the same answer
    fn poll__on_head(&mut self, head: Box<ExtendedHeader>)
        ensures
            !final(self).head_req_scheduled, final(self).head_reqs@.len() == 0,
//@sub E9 "head.clone()" => "vx_clone_heads(&head)"
//@for 1 iter next
//@loop 1
                        invariant
                            0 <= __i1_it.pos@ <= __i1_it.items@.len(), __i1_it.items@ == old(self).head_reqs@,
                            head@ == seq![h0], self.head_reqs@.len() == 0, !self.head_req_scheduled,
                        decreases __i1_it.items@.len() - __i1_it.pos@
//@hint before "let head = vec![*head];"
                    let ghost h0 = *head;
//@hint after "respond_to.maybe_send_ok(head.clone());"
                            // a caller that had not been answered yet now holds exactly [head]
                            assert(__i1_it.items@[__i1_it.pos@ - 1].got@.len() == 0 ==> respond_to.got@.len() == 1 && respond_to.got@[0]@ == seq![h0]);
//@end
}
// "a connected trusted peer": what the peer tracker says about the peer with this id at the time of the call
pub uninterp spec fn connected_trusted(id: u64) -> bool;
// a tracked peer with both flags is a connected trusted peer (the link between the tracker's entry and the id)
#[verifier::external_body]
pub proof fn lemma_is_connected_trusted(p: PeerInfo)
    requires p.connected && p.trusted
    ensures connected_trusted(p.id_)
{}
} // verus!
fn main() {}
