//@unit merkle
//@serves C13
//@src types/src/merkle_proof.rs
use vstd::prelude::*;
verus! {
// std specifications not in vstd (A-std)
pub assume_specification<T, F: FnOnce(T) -> bool> [Option::<T>::is_some_and] (o: Option<T>, f: F) -> (r: bool)
    requires o.is_some() ==> f.requires((o.unwrap(),))
    ensures o.is_none() ==> !r, o.is_some() ==> f.ensures((o.unwrap(),), r);
pub assume_specification<T, F: FnOnce(T) -> bool> [Option::<T>::is_none_or] (o: Option<T>, f: F) -> (r: bool)
    requires o.is_some() ==> f.requires((o.unwrap(),))
    ensures o.is_none() ==> r, o.is_some() ==> f.ensures((o.unwrap(),), r);
//@begin-export
#[verifier::external_body]
fn vx_assert(c: bool) requires c { }
#[verifier::external_body]
fn vx_unreachable() -> ! requires false { unimplemented!() }

#[derive(Debug)]
pub enum VerificationError { Other }
#[derive(Debug)]
pub struct RangeProofError {}
#[derive(Debug)]
pub enum Error { Verification(VerificationError), RootMismatch, RangeProofError(RangeProofError), Other }
impl vstd::std_specs::convert::FromSpecImpl<RangeProofError> for Error {
    open spec fn obeys_from_spec() -> bool { true }
    open spec fn from_spec(e: RangeProofError) -> Error { Error::RangeProofError(e) }
}
impl From<RangeProofError> for Error { fn from(e: RangeProofError) -> Error { Error::RangeProofError(e) } }
type Result<T, E = Error> = std::result::Result<T, E>;

// tendermint::merkle::Hash = [u8; 32]: abstract value with equality (E9); SHA-256 is uninterpreted and collision free (A-crypto)
#[derive(PartialEq, Eq, Clone, Copy, Structural)]
pub struct Hash { pub v: u64 }
// tendermint::Hash
#[derive(PartialEq, Eq, Clone, Copy, Structural)]
pub enum TmHash { Sha256(Hash), None }

pub uninterp spec fn leaf_hash_spec(bytes: Seq<u8>) -> Hash;
pub uninterp spec fn inner_hash_spec(l: Hash, r: Hash) -> Hash;
pub uninterp spec fn empty_hash_spec() -> Hash;
#[verifier::external_body]
pub proof fn axiom_inner_injective(a: Hash, b: Hash, c: Hash, d: Hash)
    requires inner_hash_spec(a, b) == inner_hash_spec(c, d)
    ensures a == c, b == d
{}
#[verifier::external_body]
pub proof fn axiom_leaf_injective(a: Seq<u8>, b: Seq<u8>)
    requires leaf_hash_spec(a) == leaf_hash_spec(b)
    ensures a == b
{}
// domain separation (0x00 / 0x01 prefixes): a leaf hash is never an inner hash
#[verifier::external_body]
pub proof fn axiom_leaf_not_inner(a: Seq<u8>, l: Hash, r: Hash)
    ensures leaf_hash_spec(a) != inner_hash_spec(l, r)
{}

pub struct Sha256 {}
impl Sha256 {
    #[verifier::external_body]
    pub fn default() -> Sha256 { unimplemented!() }
    #[verifier::external_body]
    pub fn leaf_hash(&mut self, bytes: &[u8]) -> (h: Hash) ensures h == leaf_hash_spec(bytes@) { unimplemented!() }
    #[verifier::external_body]
    pub fn inner_hash(&mut self, l: Hash, r: Hash) -> (h: Hash) ensures h == inner_hash_spec(l, r) { unimplemented!() }
}

// `usize::next_power_of_two() / 2` for total >= 2: the largest power of two strictly below total (RFC 6962 split point).
// Only the two facts below are used; they are cross-checked by the Kani harness `check_split_point` over all usize (complete).
pub uninterp spec fn split_point(total: int) -> int;
#[verifier::external_body]
fn vx_split(total: usize) -> (s: usize)
    requires total >= 2
    ensures s == split_point(total as int), 1 <= s < total, 2 * s >= total
{ total.next_power_of_two() / 2 }

#[verifier::external_body]
fn vx_split_last(aunts: &[Hash]) -> (r: Option<(&Hash, &[Hash])>)
    ensures
        aunts@.len() == 0 ==> r.is_none(),
        aunts@.len() > 0 ==> r.is_some() && *r.unwrap().0 == aunts@[aunts@.len() - 1] && r.unwrap().1@ == aunts@.subrange(0, aunts@.len() - 1),
{ aunts.split_last() }

// oracle: merkle root of a sequence of leaf hashes (RFC 6962 / CometBFT simple merkle tree)
pub open spec fn mroot(l: Seq<Hash>) -> Hash
    decreases l.len()
{
    if l.len() == 0 { empty_hash_spec() }
    else if l.len() == 1 { l[0] }
    else {
        let k = split_point(l.len() as int);
        if 1 <= k < l.len() {
            inner_hash_spec(mroot(l.subrange(0, k)), mroot(l.subrange(k, l.len() as int)))
        } else { empty_hash_spec() }
    }
}

pub struct MerkleProof { pub index: usize, pub total: usize, pub leaf_hash: Hash, pub aunts: Vec<Hash> }

//@fn - :: subtree_root_from_aunts
//@props C13
//@macro bail_verification => return Err(Error::Verification(VerificationError::Other))
fn subtree_root_from_aunts(index: usize, total: usize, leaf: Hash, aunts: &[Hash]) -> (res: Result<Hash>)
    requires total >= 1
    ensures
        // position binding: accepted only for an index below the leaf count ...
        res.is_ok() ==> index < total,
        // ... and then the leaf sits at that index of EVERY tree with that count and that root
        res.is_ok() ==> forall|l: Seq<Hash>| l.len() == total && mroot(l) == res.unwrap() ==> #[trigger] l[index as int] == leaf,
    decreases total
//@sub E9 "total.next_power_of_two() / 2" => "vx_split(total)"
//@sub E9 "aunts .split_last() .ok_or_else(|| verification_error!(\"aunts missing in proof\"))?" => "(match vx_split_last(aunts) { Some(x) => x, None => return Err(Error::Verification(VerificationError::Other)) })"
//@sub E13 "hasher.inner_hash(left_hash, *sibling)"
            { let h = hasher.inner_hash(left_hash, *sibling);
            proof {
                assert forall|l: Seq<Hash>| l.len() == total && mroot(l) == h implies #[trigger] l[index as int] == leaf by {
                    let k = split_point(l.len() as int);
                    axiom_inner_injective(mroot(l.subrange(0, k)), mroot(l.subrange(k, l.len() as int)), left_hash, *sibling);
                    assert(l.subrange(0, k)[index as int] == l[index as int]);
                }
            }
            h }
//@sub E13 "hasher.inner_hash(*sibling, right_hash)"
            { let h = hasher.inner_hash(*sibling, right_hash);
            proof {
                assert forall|l: Seq<Hash>| l.len() == total && mroot(l) == h implies #[trigger] l[index as int] == leaf by {
                    let k = split_point(l.len() as int);
                    axiom_inner_injective(mroot(l.subrange(0, k)), mroot(l.subrange(k, l.len() as int)), *sibling, right_hash);
                    assert(l.subrange(k, l.len() as int)[index - k] == l[index as int]);
                }
            }
            h }
//@end

impl MerkleProof {
//@fn impl MerkleProof :: verify
//@props C13
//@macro verification_error => VerificationError::Other
    pub fn verify(&self, leaf: &[u8], root: Hash) -> (res: Result<()>)
        requires self.total >= 1
        ensures
            res.is_ok() ==> self.index < self.total,
            res.is_ok() ==> self.leaf_hash == leaf_hash_spec(leaf@),
            res.is_ok() ==> forall|l: Seq<Hash>| l.len() == self.total && mroot(l) == root ==> #[trigger] l[self.index as int] == leaf_hash_spec(leaf@),
//@sub E1 "leaf.as_ref()" => "leaf"
//@sub E9 "return Err(verification_error!(\"proof created for a different leaf\").into());" => "return Err(Error::Verification(VerificationError::Other));"
//@end
}

// ---------------------------------------------------------------------------
// RowProof (types/src/data_availability_header.rs)
// ---------------------------------------------------------------------------
pub struct NamespacedHash { pub v: u64 }
pub uninterp spec fn nh_bytes(h: NamespacedHash) -> Seq<u8>;
impl NamespacedHash {
    #[verifier::external_body]
    pub fn to_array(&self) -> (r: [u8; 90]) ensures r@ == nh_bytes(*self) { unimplemented!() }
}
pub struct RowProof { pub row_roots: Vec<NamespacedHash>, pub proofs: Vec<MerkleProof>, pub start_row: u16, pub end_row: u16 }

pub open spec fn row_proof_inv(p: RowProof) -> bool {
    forall|i: int| 0 <= i < p.proofs@.len() ==> (#[trigger] p.proofs@[i]).total >= 1
}

pub open spec fn row_proof_ok(rp: RowProof, root: TmHash) -> bool {
    // the number of roots matches the number of proofs and the claimed row span
    &&& rp.row_roots@.len() == rp.proofs@.len() && rp.start_row <= rp.end_row
    &&& rp.proofs@.len() == rp.end_row - rp.start_row + 1
    // every proven root is a leaf of the tree with the given root, at its proof's index
    &&& root is Sha256
    &&& forall|i: int| 0 <= i < rp.row_roots@.len() ==> {
            let p = #[trigger] rp.proofs@[i];
            &&& p.index < p.total
            &&& forall|l: Seq<Hash>| l.len() == p.total && mroot(l) == root->Sha256_0 ==> #[trigger] l[p.index as int] == leaf_hash_spec(nh_bytes(rp.row_roots@[i]))
        }
}
impl RowProof {
//@fn impl RowProof :: row_roots @ types/src/data_availability_header.rs
//@props C13
    pub fn row_roots(&self) -> (r: &[NamespacedHash]) ensures r@ == self.row_roots@
//@end

//@fn impl RowProof :: verify @ types/src/data_availability_header.rs
//@props C13
//@macro bail_verification => return Err(Error::Verification(VerificationError::Other))
    pub fn verify(&self, root: TmHash) -> (res: Result<()>)
        requires row_proof_inv(*self)
        ensures
            res.is_ok() ==> row_proof_ok(*self, root),
//@sub E9 "let Hash::Sha256(root) = root else {" => "let TmHash::Sha256(root) = root else {"
//@sub E1 "proof.verify(row_root.to_array(), root)?;" => "{ let __arr = row_root.to_array(); proof.verify(__arr.as_slice(), root)?; }"
//@for 1
//@loop 1
            invariant
                self.row_roots@.len() == self.proofs@.len(),
                __i1 <= self.row_roots@.len(),
                row_proof_inv(*self),
                forall|i: int| 0 <= i < __i1 ==> {
                    let p = #[trigger] self.proofs@[i];
                    &&& p.index < p.total
                    &&& forall|l: Seq<Hash>| l.len() == p.total && mroot(l) == root ==> #[trigger] l[p.index as int] == leaf_hash_spec(nh_bytes(self.row_roots@[i]))
                },
            decreases self.row_roots@.len() - __i1
//@end
}

// ---------------------------------------------------------------------------
// ShareProof (types/src/share/proof.rs); nmt-rs range proofs are assumed sound (A-nmt)
// ---------------------------------------------------------------------------
pub const SHARE_SIZE: usize = 512;
pub struct NamespaceId { pub v: u64 }
pub struct Namespace { pub id: NamespaceId }
impl Namespace {
    #[verifier::external_body]
    pub fn nmt_id(&self) -> (r: NamespaceId) ensures r == self.id { unimplemented!() }   // `*self.namespace_id` (Deref to nmt_rs::NamespaceId, Copy)
}
pub struct NamespaceProof { pub start: u32, pub end: u32, pub absence: bool, pub nodes: u64 }
// A-nmt: "leaves are exactly the leaves at positions start..end of the tree with root `root`, all of namespace ns"
pub uninterp spec fn nmt_range_ok(p: NamespaceProof, root: NamespacedHash, leaves: Seq<[u8; 512]>, ns: NamespaceId) -> bool;
impl NamespaceProof {
    #[verifier::external_body]
    pub fn is_of_absence(&self) -> (b: bool) ensures b == self.absence { unimplemented!() }
    #[verifier::external_body]
    pub fn start_idx(&self) -> (r: u32) ensures r == self.start { unimplemented!() }
    #[verifier::external_body]
    pub fn end_idx(&self) -> (r: u32) ensures r == self.end { unimplemented!() }
    #[verifier::external_body]
    pub fn verify_range(&self, root: &NamespacedHash, leaves: &[[u8; 512]], ns: NamespaceId) -> (r: std::result::Result<(), RangeProofError>)
        ensures r.is_ok() == nmt_range_ok(*self, *root, leaves@, ns) { unimplemented!() }
}
#[verifier::external_body]
fn vx_slice_to<'a>(s: &'a [[u8; 512]], n: usize) -> (r: &'a [[u8; 512]])
    requires n <= s@.len()
    ensures r@ == s@.subrange(0, n as int)
{ &s[..n] }
#[verifier::external_body]
fn vx_slice_from<'a>(s: &'a [[u8; 512]], n: usize) -> (r: &'a [[u8; 512]])
    requires n <= s@.len()
    ensures r@ == s@.subrange(n as int, s@.len() as int)
{ &s[n..] }

pub struct ShareProof { pub data: Vec<[u8; 512]>, pub namespace_id: Namespace, pub share_proofs: Vec<NamespaceProof>, pub row_proof: RowProof }

#[verifier::opaque]
pub open spec fn amount_sum(ps: Seq<NamespaceProof>, n: int) -> int
    decreases n
{
    if n <= 0 { 0 } else { amount_sum(ps, n - 1) + (ps[n - 1].end - ps[n - 1].start) }
}
pub proof fn lemma_amount_sum_step(ps: Seq<NamespaceProof>, n: int)
    requires n >= 0
    ensures amount_sum(ps, n + 1) == amount_sum(ps, n) + (ps[n].end - ps[n].start), amount_sum(ps, 0) == 0
{ reveal_with_fuel(amount_sum, 2); }
pub proof fn lemma_subrange_step<T>(full: Seq<T>, a: int, b: int)
    requires 0 <= a <= b <= full.len()
    ensures
        full.subrange(a, full.len() as int).subrange(0, b - a) == full.subrange(a, b),
        full.subrange(a, full.len() as int).subrange(b - a, full.len() - a) == full.subrange(b, full.len() as int),
{
    assert(full.subrange(a, full.len() as int).subrange(0, b - a) =~= full.subrange(a, b));
    assert(full.subrange(a, full.len() as int).subrange(b - a, full.len() - a) =~= full.subrange(b, full.len() as int));
}
pub open spec fn ranges_small(ps: Seq<NamespaceProof>) -> bool {
    ps.len() <= 65535 && forall|i: int| 0 <= i < ps.len() ==> (#[trigger] ps[i]).end - ps[i].start <= 65535
}
pub proof fn lemma_amount_sum_mono(ps: Seq<NamespaceProof>, a: int, b: int)
    requires 0 <= a <= b <= ps.len(), forall|i: int| 0 <= i < b ==> (#[trigger] ps[i]).start < ps[i].end
    ensures 0 <= amount_sum(ps, a) <= amount_sum(ps, b), a < b ==> amount_sum(ps, a) + (ps[a].end - ps[a].start) <= amount_sum(ps, b)
    decreases b
{
    if a < b {
        lemma_amount_sum_mono(ps, a, b - 1);
        lemma_amount_sum_step(ps, b - 1);
        if a == b - 1 { lemma_amount_sum_nonneg(ps, a); }
    } else { lemma_amount_sum_nonneg(ps, a); }
}
pub proof fn lemma_amount_sum_nonneg(ps: Seq<NamespaceProof>, n: int)
    requires 0 <= n <= ps.len(), forall|i: int| 0 <= i < n ==> (#[trigger] ps[i]).start < ps[i].end
    ensures 0 <= amount_sum(ps, n)
    decreases n
{ if n > 0 { lemma_amount_sum_nonneg(ps, n - 1); lemma_amount_sum_step(ps, n - 1); } else { lemma_amount_sum_step(ps, 0); } }

impl ShareProof {
//@fn impl ShareProof :: verify @ types/src/share/proof.rs
//@props C13
//@macro bail_verification => return Err(Error::Verification(VerificationError::Other))
    pub fn verify(&self, root: TmHash) -> (res: Result<()>)
        requires
            row_proof_inv(self.row_proof),
            // input assumption (they index shares of one square): at most 65535 row proofs of at most 65535 shares each, so the u32 sum cannot overflow
            ranges_small(self.share_proofs@),
        ensures
            res.is_ok() ==> {
                let n = self.share_proofs@.len() as int;
                &&& n == self.row_proof.row_roots@.len()
                &&& row_proof_ok(self.row_proof, root)
                &&& forall|i: int| 0 <= i < n ==> !(#[trigger] self.share_proofs@[i]).absence && self.share_proofs@[i].start < self.share_proofs@[i].end
                &&& amount_sum(self.share_proofs@, n) == self.data@.len()
                // each chunk of the data, in order, is proven against its row root
                &&& forall|i: int| 0 <= i < n ==> nmt_range_ok(#[trigger] self.share_proofs@[i], self.row_proof.row_roots@[i],
                        self.data@.subrange(amount_sum(self.share_proofs@, i), amount_sum(self.share_proofs@, i + 1)), self.namespace_id.id)
            },
//@ascribe "let mut shares_needed = 0;" => "let mut shares_needed: u32 = 0;"
//@sub E9 "*self.namespace_id" => "self.namespace_id.nmt_id()"
//@sub E9 "&data[..amount as usize]" => "vx_slice_to(data, amount as usize)"
//@sub E9 "&data[amount as usize..]" => "vx_slice_from(data, amount as usize)"
//@sub E9 ".map_err(Error::RangeProofError)?" => "?"
//@for 1
//@loop 1
            invariant
                __i1 <= self.share_proofs@.len(),
                forall|i: int| 0 <= i < __i1 ==> !(#[trigger] self.share_proofs@[i]).absence && self.share_proofs@[i].start < self.share_proofs@[i].end,
                shares_needed == amount_sum(self.share_proofs@, __i1 as int),
                ranges_small(self.share_proofs@),
                0 <= amount_sum(self.share_proofs@, __i1 as int) <= 65535 * __i1,
            decreases self.share_proofs@.len() - __i1
//@hint before "shares_needed += proof.end_idx() - proof.start_idx();"
            proof { lemma_amount_sum_step(self.share_proofs@, __i1 as int - 1); }
//@hint before "let mut shares_needed = 0;"
        proof { lemma_amount_sum_step(self.share_proofs@, 0); }
//@hint before "let mut data = self.data.as_slice();"
        let ghost full = self.data@;
//@for 2
//@loop 2
            invariant
                __i2 <= self.share_proofs@.len(),
                self.share_proofs@.len() == row_roots@.len(), row_roots@ == self.row_proof.row_roots@,
                full == self.data@,
                forall|i: int| 0 <= i < self.share_proofs@.len() ==> !(#[trigger] self.share_proofs@[i]).absence && self.share_proofs@[i].start < self.share_proofs@[i].end,
                amount_sum(self.share_proofs@, self.share_proofs@.len() as int) == full.len(),
                data@ == full.subrange(amount_sum(self.share_proofs@, __i2 as int), full.len() as int),
                0 <= amount_sum(self.share_proofs@, __i2 as int) <= full.len(),
                forall|i: int| 0 <= i < __i2 ==> nmt_range_ok(#[trigger] self.share_proofs@[i], self.row_proof.row_roots@[i],
                        full.subrange(amount_sum(self.share_proofs@, i), amount_sum(self.share_proofs@, i + 1)), self.namespace_id.id),
            decreases self.share_proofs@.len() - __i2
//@hint after "let amount = proof.end_idx() - proof.start_idx();"
            proof {
                lemma_amount_sum_mono(self.share_proofs@, __i2 as int - 1, self.share_proofs@.len() as int);
                lemma_amount_sum_step(self.share_proofs@, __i2 as int - 1);
                lemma_subrange_step(full, amount_sum(self.share_proofs@, __i2 as int - 1), amount_sum(self.share_proofs@, __i2 as int));
            }
//@end
}
//@end-export
} // verus!
fn main() {}
