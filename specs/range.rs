//@unit range
//@serves C17 C18
//@src node/src/block_ranges.rs
//@sub-all E1 "SmallVec::new()" => "Vec::new()"
use vstd::prelude::*;
use std::ops::RangeInclusive;
verus! {
//@begin-export

pub type BlockRange = RangeInclusive<u64>;

// ---- assumed specifications of std functions (A-std; cross-checked by Kani harnesses) ----
pub assume_specification<T> [bool::then_some] (b: bool, t: T) -> (r: Option<T>)
    ensures r == (if b { Some(t) } else { None::<T> });
pub assume_specification<T, F: FnOnce(T) -> bool> [Option::<T>::is_some_and] (o: Option<T>, f: F) -> (r: bool)
    requires o.is_some() ==> f.requires((o.unwrap(),))
    ensures o.is_none() ==> !r, o.is_some() ==> f.ensures((o.unwrap(),), r);
pub assume_specification<T, F: FnOnce(T) -> bool> [Option::<T>::is_none_or] (o: Option<T>, f: F) -> (r: bool)
    requires o.is_some() ==> f.requires((o.unwrap(),))
    ensures o.is_none() ==> r, o.is_some() ==> f.ensures((o.unwrap(),), r);
pub assume_specification<Idx> [std::ops::RangeInclusive::<Idx>::start] (r: &RangeInclusive<Idx>) -> (s: &Idx)
    ensures *s == r@.start;
pub assume_specification<Idx> [std::ops::RangeInclusive::<Idx>::end] (r: &RangeInclusive<Idx>) -> (s: &Idx)
    ensures *s == r@.end;

#[verifier::external_body]
fn vx_assert(c: bool) requires c { }
#[verifier::external_body]
fn vx_unreachable() -> ! requires false { unimplemented!() }

// E9 stubs
#[verifier::external_body]
fn vx_drain(v: &mut Vec<BlockRange>, a: usize, b: usize) -> (removed: Vec<BlockRange>)
    requires a <= b < old(v).len()
    ensures
        final(v)@ == old(v)@.subrange(0, a as int) + old(v)@.subrange(b + 1, old(v).len() as int),
        removed@ == old(v)@.subrange(a as int, b + 1),
{ v.drain(a..=b).collect() }

#[verifier::external_body]
fn vx_clone(r: &BlockRange) -> (o: BlockRange)
    ensures o == *r
{ r.clone() }

pub open spec fn r_valid(r: BlockRange) -> bool {
    r@.start > 0 && r@.start <= r@.end && !r@.exhausted
}
pub open spec fn r_has(r: BlockRange, h: int) -> bool {
    r@.start <= h <= r@.end
}
pub open spec fn r_set(r: BlockRange) -> ISet<int> { ISet::new(|h: int| r_has(r, h)) }
pub open spec fn touches(a: BlockRange, b: BlockRange) -> bool {
    // overlapping or adjacent
    a@.start <= b@.end + 1 && b@.start <= a@.end + 1
}
pub open spec fn overlaps(a: BlockRange, b: BlockRange) -> bool { a@.start <= b@.end && b@.start <= a@.end }

#[derive(Debug)]
pub enum BlockRangesError {
    UnsortedBlockRanges,
    InvalidBlockRange(BlockRange),
    BlockRangeOverlap(BlockRange, BlockRange),
    NoAdjacentNeighbors(BlockRange),
}
type Result<T, E = BlockRangesError> = std::result::Result<T, E>;

pub open spec fn r_len(r: BlockRange) -> int {
    if r@.start <= r@.end { r@.end - r@.start + 1 } else { 0 }
}
pub open spec fn seq_len(s: Seq<BlockRange>) -> int
    decreases s.len()
{
    if s.len() == 0 { 0 } else { seq_len(s.drop_last()) + r_len(s.last()) }
}
// prefix sums of a wf sequence stay below the end of its last range
pub proof fn lemma_seq_len_bound(s: Seq<BlockRange>)
    requires wf_seq(s)
    ensures 0 <= seq_len(s), s.len() > 0 ==> seq_len(s) <= s.last()@.end, s.len() > 0 ==> seq_len(s) >= 1
    decreases s.len()
{
    if s.len() > 0 {
        let p = s.drop_last();
        assert forall|i: int| 0 <= i < p.len() implies r_valid(#[trigger] p[i]) by { assert(p[i] == s[i]); }
        assert forall|i: int, j: int| 0 <= i < j < p.len() implies (#[trigger] p[i])@.end + 1 < (#[trigger] p[j])@.start by { assert(p[i] == s[i]); assert(p[j] == s[j]); }
        lemma_seq_len_bound(p);
        assert(r_valid(s[s.len() - 1]));
        if p.len() > 0 {
            assert(p.last() == s[s.len() - 2]);
            assert(s[s.len() - 2]@.end + 1 < s[s.len() - 1]@.start);
        }
    }
}
pub proof fn lemma_seq_len_prefix(s: Seq<BlockRange>, k: int)
    requires 0 <= k < s.len()
    ensures seq_len(s.subrange(0, k + 1)) == seq_len(s.subrange(0, k)) + r_len(s[k])
{
    let t = s.subrange(0, k + 1);
    assert(t.drop_last() =~= s.subrange(0, k));
    assert(t.last() == s[k]);
}
pub open spec fn wf_seq(s: Seq<BlockRange>) -> bool {
    &&& forall|i: int| 0 <= i < s.len() ==> r_valid(#[trigger] s[i])
    &&& forall|i: int, j: int| 0 <= i < j < s.len() ==> (#[trigger] s[i])@.end + 1 < (#[trigger] s[j])@.start
}
// what `from_vec` checks: valid, sorted, disjoint - but adjacent ranges are let through
pub open spec fn wf_weak_seq(s: Seq<BlockRange>) -> bool {
    &&& forall|i: int| 0 <= i < s.len() ==> r_valid(#[trigger] s[i])
    &&& forall|i: int, j: int| 0 <= i < j < s.len() ==> (#[trigger] s[i])@.end < (#[trigger] s[j])@.start
}
pub open spec fn edge_has(s: Seq<BlockRange>, h: int) -> bool {
    exists|k: int| 0 <= k < s.len() && ((#[trigger] s[k])@.start == h || s[k]@.end == h)
}
pub open spec fn seq_has(s: Seq<BlockRange>, h: int) -> bool {
    exists|i: int| 0 <= i < s.len() && r_has(#[trigger] s[i], h)
}


pub open spec fn merged_seq(s: Seq<BlockRange>, a: int, b: int, m: BlockRange) -> Seq<BlockRange> {
    cut(s, a, b).insert(a, m)
}

pub proof fn lemma_has_insert(s: Seq<BlockRange>, i: int, r: BlockRange, h: int)
    requires 0 <= i <= s.len()
    ensures seq_has(s.insert(i, r), h) == (seq_has(s, h) || r_has(r, h))
{
    let t = s.insert(i, r);
    if seq_has(s, h) {
        let k = choose|k: int| 0 <= k < s.len() && r_has(#[trigger] s[k], h);
        if k < i { assert(t[k] == s[k]); } else { assert(t[k + 1] == s[k]); }
    }
    if r_has(r, h) { assert(t[i] == r); }
    if seq_has(t, h) {
        let k = choose|k: int| 0 <= k < t.len() && r_has(#[trigger] t[k], h);
        if k < i { assert(s[k] == t[k]); } else if k == i { } else { assert(s[k - 1] == t[k]); }
    }
}

pub proof fn lemma_has_push(s: Seq<BlockRange>, r: BlockRange, h: int)
    ensures seq_has(s.push(r), h) == (seq_has(s, h) || r_has(r, h))
{
    let t = s.push(r);
    if seq_has(s, h) {
        let k = choose|k: int| 0 <= k < s.len() && r_has(#[trigger] s[k], h);
        assert(t[k] == s[k]);
    }
    if r_has(r, h) { assert(t[s.len() as int] == r); }
    if seq_has(t, h) {
        let k = choose|k: int| 0 <= k < t.len() && r_has(#[trigger] t[k], h);
        if k < s.len() { assert(s[k] == t[k]); }
    }
}

pub proof fn lemma_wf_insert(s: Seq<BlockRange>, i: int, r: BlockRange)
    requires
        wf_seq(s), r_valid(r), 0 <= i <= s.len(),
        forall|k: int| 0 <= k < i ==> (#[trigger] s[k])@.end + 1 < r@.start,
        forall|k: int| i <= k < s.len() ==> r@.end + 1 < (#[trigger] s[k])@.start,
    ensures wf_seq(s.insert(i, r))
{
    let t = s.insert(i, r);
    assert forall|k: int| 0 <= k < t.len() implies r_valid(#[trigger] t[k]) by {
        if k < i { assert(t[k] == s[k]); } else if k == i {} else { assert(t[k] == s[k - 1]); }
    }
    assert forall|x: int, y: int| 0 <= x < y < t.len() implies (#[trigger] t[x])@.end + 1 < (#[trigger] t[y])@.start by {
        let sx = if x < i { x } else { x - 1 };
        let sy = if y < i { y } else { y - 1 };
        if x != i { assert(t[x] == s[sx]); }
        if y != i { assert(t[y] == s[sy]); }
    }
}

pub open spec fn merge_pre(s: Seq<BlockRange>, a: int, b: int, r: BlockRange, m: BlockRange) -> bool {
    &&& wf_seq(s) && r_valid(r) && 0 <= a <= b < s.len()
    &&& forall|k: int| 0 <= k < s.len() ==> (touches(#[trigger] s[k], r) <==> a <= k <= b)
    &&& m@.start == (if s[a]@.start < r@.start { s[a]@.start } else { r@.start })
    &&& m@.end == (if s[b]@.end > r@.end { s[b]@.end } else { r@.end })
    &&& !m@.exhausted
}

pub open spec fn cut(s: Seq<BlockRange>, a: int, b: int) -> Seq<BlockRange> {
    s.subrange(0, a) + s.subrange(b + 1, s.len() as int)
}

pub proof fn lemma_cut_index(s: Seq<BlockRange>, a: int, b: int, k: int)
    requires 0 <= a <= b < s.len(), 0 <= k < cut(s, a, b).len()
    ensures
        cut(s, a, b).len() == s.len() - (b + 1 - a),
        k < a ==> cut(s, a, b)[k] == s[k],
        k >= a ==> cut(s, a, b)[k] == s[k + (b + 1 - a)],
{}

pub proof fn lemma_cut_wf(s: Seq<BlockRange>, a: int, b: int)
    requires wf_seq(s), 0 <= a <= b < s.len()
    ensures wf_seq(cut(s, a, b))
{
    let base = cut(s, a, b);
    assert forall|k: int| 0 <= k < base.len() implies r_valid(#[trigger] base[k]) by {
        lemma_cut_index(s, a, b, k);
    }
    assert forall|x: int, y: int| 0 <= x < y < base.len() implies (#[trigger] base[x])@.end + 1 < (#[trigger] base[y])@.start by {
        lemma_cut_index(s, a, b, x);
        lemma_cut_index(s, a, b, y);
        let sx = if x < a { x } else { x + (b + 1 - a) };
        let sy = if y < a { y } else { y + (b + 1 - a) };
        assert(s[sx]@.end + 1 < s[sy]@.start);
    }
}

pub proof fn lemma_merge_wf(s: Seq<BlockRange>, a: int, b: int, r: BlockRange, m: BlockRange)
    requires merge_pre(s, a, b, r, m)
    ensures wf_seq(merged_seq(s, a, b, m))
{
    let base = cut(s, a, b);
    lemma_cut_wf(s, a, b);
    assert(touches(s[a], r));
    assert(touches(s[b], r));
    assert(r_valid(m));
    assert forall|k: int| 0 <= k < a implies (#[trigger] base[k])@.end + 1 < m@.start by {
        lemma_cut_index(s, a, b, k);
        assert(!touches(s[k], r));
        assert(s[k]@.end + 1 < s[a]@.start);
    }
    assert forall|k: int| a <= k < base.len() implies m@.end + 1 < (#[trigger] base[k])@.start by {
        lemma_cut_index(s, a, b, k);
        let sk = k + (b + 1 - a);
        assert(!touches(s[sk], r));
        assert(s[b]@.end + 1 < s[sk]@.start);
    }
    lemma_wf_insert(base, a, m);
}

pub proof fn lemma_merge_has(s: Seq<BlockRange>, a: int, b: int, r: BlockRange, m: BlockRange, h: int)
    requires merge_pre(s, a, b, r, m)
    ensures seq_has(merged_seq(s, a, b, m), h) == (seq_has(s, h) || r_has(r, h))
{
    let base = cut(s, a, b);
    assert(touches(s[a], r));
    assert(touches(s[b], r));
    lemma_has_insert(base, a, m, h);
    if seq_has(base, h) {
        let k = choose|k: int| 0 <= k < base.len() && r_has(#[trigger] base[k], h);
        lemma_cut_index(s, a, b, k);
        assert(seq_has(s, h));
    }
    if r_has(m, h) {
        if r_has(r, h) {} else if h < r@.start {
            assert(r_has(s[a], h));
        } else {
            assert(r_has(s[b], h));
        }
    }
    if seq_has(s, h) {
        let k = choose|k: int| 0 <= k < s.len() && r_has(#[trigger] s[k], h);
        if k < a { lemma_cut_index(s, a, b, k); assert(r_has(base[k], h)); }
        else if k > b { lemma_cut_index(s, a, b, k - (b + 1 - a)); assert(r_has(base[k - (b + 1 - a)], h)); }
        else {
            if k > a { assert(s[a]@.end + 1 < s[k]@.start); }
            if k < b { assert(s[k]@.end + 1 < s[b]@.start); }
            assert(r_has(m, h));
        }
    }
}


pub open spec fn rm_pre(s: Seq<BlockRange>, a: int, b: int, r: BlockRange) -> bool {
    &&& wf_seq(s) && r_valid(r) && 0 <= a <= b < s.len()
    &&& forall|k: int| 0 <= k < s.len() ==> (touches(#[trigger] s[k], r) <==> a <= k <= b)
}
pub open spec fn is_right_piece(s: Seq<BlockRange>, b: int, r: BlockRange, x: BlockRange) -> bool {
    x@.start == r@.end + 1 && x@.end == s[b]@.end && !x@.exhausted
}
pub open spec fn is_left_piece(s: Seq<BlockRange>, a: int, r: BlockRange, x: BlockRange) -> bool {
    x@.start == s[a]@.start && x@.end == r@.start - 1 && !x@.exhausted
}

// t1 = base with optional right piece, t2 = t1 with optional left piece
pub open spec fn rm_shape(s: Seq<BlockRange>, a: int, b: int, r: BlockRange, t1: Seq<BlockRange>, t2: Seq<BlockRange>) -> bool {
    &&& rm_pre(s, a, b, r)
    &&& (r@.end < s[b]@.end ==> t1.len() == cut(s, a, b).len() + 1 && is_right_piece(s, b, r, t1[a]) && t1 == cut(s, a, b).insert(a, t1[a]))
    &&& (!(r@.end < s[b]@.end) ==> t1 == cut(s, a, b))
    &&& (s[a]@.start < r@.start ==> t2.len() == t1.len() + 1 && is_left_piece(s, a, r, t2[a]) && t2 == t1.insert(a, t2[a]))
    &&& (!(s[a]@.start < r@.start) ==> t2 == t1)
}

pub proof fn lemma_cut_has(s: Seq<BlockRange>, a: int, b: int, h: int)
    requires 0 <= a <= b < s.len()
    ensures seq_has(cut(s, a, b), h) == (exists|k: int| 0 <= k < s.len() && !(a <= k <= b) && r_has(#[trigger] s[k], h))
{
    let base = cut(s, a, b);
    if seq_has(base, h) {
        let k = choose|k: int| 0 <= k < base.len() && r_has(#[trigger] base[k], h);
        lemma_cut_index(s, a, b, k);
        let sk = if k < a { k } else { k + (b + 1 - a) };
        assert(r_has(s[sk], h));
    }
    if exists|k: int| 0 <= k < s.len() && !(a <= k <= b) && r_has(#[trigger] s[k], h) {
        let k = choose|k: int| 0 <= k < s.len() && !(a <= k <= b) && r_has(#[trigger] s[k], h);
        if k < a { lemma_cut_index(s, a, b, k); assert(r_has(base[k], h)); }
        else { lemma_cut_index(s, a, b, k - (b + 1 - a)); assert(r_has(base[k - (b + 1 - a)], h)); }
    }
}

pub proof fn lemma_remove_wf(s: Seq<BlockRange>, a: int, b: int, r: BlockRange, t1: Seq<BlockRange>, t2: Seq<BlockRange>)
    requires rm_shape(s, a, b, r, t1, t2)
    ensures wf_seq(t1), wf_seq(t2)
{
    let base = cut(s, a, b);
    lemma_cut_wf(s, a, b);
    assert(touches(s[a], r));
    assert(touches(s[b], r));
    let has_r = r@.end < s[b]@.end;
    let has_l = s[a]@.start < r@.start;
    assert forall|k: int| 0 <= k < a implies (#[trigger] base[k])@.end + 1 < s[a]@.start by {
        lemma_cut_index(s, a, b, k);
    }
    assert forall|k: int| a <= k < base.len() implies s[b]@.end + 1 < (#[trigger] base[k])@.start by {
        lemma_cut_index(s, a, b, k);
    }
    if has_r {
        lemma_wf_insert(base, a, t1[a]);
    }
    assert(wf_seq(t1));
    if has_l {
        assert forall|k: int| a <= k < t1.len() implies t2[a]@.end + 1 < (#[trigger] t1[k])@.start by {
            if has_r {
                if k == a {} else { assert(t1[k] == base[k - 1]); }
            } else {
                assert(t1[k] == base[k]);
            }
        }
        assert forall|k: int| 0 <= k < a implies (#[trigger] t1[k])@.end + 1 < t2[a]@.start by {
            assert(t1[k] == base[k]);
        }
        lemma_wf_insert(t1, a, t2[a]);
    }
}

pub proof fn lemma_remove_has(s: Seq<BlockRange>, a: int, b: int, r: BlockRange, t1: Seq<BlockRange>, t2: Seq<BlockRange>, h: int)
    requires rm_shape(s, a, b, r, t1, t2)
    ensures seq_has(t2, h) == (seq_has(s, h) && !r_has(r, h))
{
    let base = cut(s, a, b);
    assert(touches(s[a], r));
    assert(touches(s[b], r));
    let has_r = r@.end < s[b]@.end;
    let has_l = s[a]@.start < r@.start;
    if has_r { lemma_has_insert(base, a, t1[a], h); }
    if has_l { lemma_has_insert(t1, a, t2[a], h); }
    lemma_cut_has(s, a, b, h);
    // (1) membership in base: outside a..=b, and then never in r
    if seq_has(base, h) {
        let k = choose|k: int| 0 <= k < s.len() && !(a <= k <= b) && r_has(#[trigger] s[k], h);
        assert(!touches(s[k], r));
    }
    // (2) the two pieces are parts of s[b] / s[a] outside r
    if has_r && r_has(t1[a], h) { assert(r_has(s[b], h)); }
    if has_l && r_has(t2[a], h) { assert(r_has(s[a], h)); }
    // (3) anything of s outside r is in base or in a piece
    if seq_has(s, h) && !r_has(r, h) {
        let k = choose|k: int| 0 <= k < s.len() && r_has(#[trigger] s[k], h);
        if a <= k <= b {
            if k > a { assert(s[a]@.end + 1 < s[k]@.start); }
            if k < b { assert(s[k]@.end + 1 < s[b]@.start); }
            assert(touches(s[k], r));
        }
    }
}

pub proof fn lemma_head_max(s: Seq<BlockRange>)
    requires wf_seq(s)
    ensures
        s.len() > 0 ==> seq_has(s, s.last()@.end as int),
        s.len() > 0 ==> forall|x: int| seq_has(s, x) ==> x <= s.last()@.end,
        s.len() == 0 ==> forall|x: int| !seq_has(s, x),
{
    if s.len() > 0 {
        let n = s.len() - 1;
        assert(r_has(s[n], s[n]@.end as int));
        assert forall|x: int| seq_has(s, x) implies x <= s[n]@.end by {
            let k = choose|k: int| 0 <= k < s.len() && r_has(#[trigger] s[k], x);
            if k < n { assert(s[k]@.end + 1 < s[n]@.start); }
        }
    }
}
pub proof fn lemma_tail_min(s: Seq<BlockRange>)
    requires wf_seq(s)
    ensures
        s.len() > 0 ==> seq_has(s, s[0]@.start as int),
        s.len() > 0 ==> forall|x: int| seq_has(s, x) ==> x >= s[0]@.start,
        s.len() == 0 ==> forall|x: int| !seq_has(s, x),
{
    if s.len() > 0 {
        assert(r_has(s[0], s[0]@.start as int));
        assert forall|x: int| seq_has(s, x) implies x >= s[0]@.start by {
            let k = choose|k: int| 0 <= k < s.len() && r_has(#[trigger] s[k], x);
            if k > 0 { assert(s[0]@.end + 1 < s[k]@.start); }
        }
    }
}


pub proof fn lemma_pop_head(s: Seq<BlockRange>, t: Seq<BlockRange>)
    requires
        wf_seq(s), s.len() > 0,
        s.last()@.start == s.last()@.end ==> t =~= s.drop_last(),
        s.last()@.start < s.last()@.end ==> t.len() == s.len() && t.drop_last() =~= s.drop_last()
            && t.last()@.start == s.last()@.start && t.last()@.end == s.last()@.end - 1 && !t.last()@.exhausted,
    ensures
        wf_seq(t),
        forall|h: int| #![trigger seq_has(t, h)] seq_has(t, h) == (seq_has(s, h) && h != s.last()@.end),
{
    let n = s.len() - 1;
    lemma_head_max(s);
    assert forall|i: int| 0 <= i < t.len() implies r_valid(#[trigger] t[i]) by {
        if i < n { assert(t[i] == s.drop_last()[i]); assert(r_valid(s[i])); }
    }
    assert forall|i: int, j: int| 0 <= i < j < t.len() implies (#[trigger] t[i])@.end + 1 < (#[trigger] t[j])@.start by {
        assert(t[i] == s.drop_last()[i]);
        if j < n { assert(t[j] == s.drop_last()[j]); }
        assert(s[i]@.end + 1 < s[j]@.start);
    }
    assert forall|h: int| #![trigger seq_has(t, h)] seq_has(t, h) == (seq_has(s, h) && h != s[n]@.end) by {
        if seq_has(t, h) {
            let k = choose|k: int| 0 <= k < t.len() && r_has(#[trigger] t[k], h);
            if k < n { assert(t[k] == s.drop_last()[k]); assert(r_has(s[k], h)); assert(s[k]@.end + 1 < s[n]@.start); }
            else { assert(r_has(s[n], h)); }
        }
        if seq_has(s, h) && h != s[n]@.end {
            let k = choose|k: int| 0 <= k < s.len() && r_has(#[trigger] s[k], h);
            if k < n { assert(t[k] == s.drop_last()[k]); assert(r_has(t[k], h)); }
            else { assert(r_has(t[n], h)); }
        }
    }
}
pub proof fn lemma_pop_tail(s: Seq<BlockRange>, t: Seq<BlockRange>)
    requires
        wf_seq(s), s.len() > 0,
        s[0]@.start == s[0]@.end ==> t =~= s.subrange(1, s.len() as int),
        s[0]@.start < s[0]@.end ==> t.len() == s.len() && t.subrange(1, t.len() as int) =~= s.subrange(1, s.len() as int)
            && t[0]@.start == s[0]@.start + 1 && t[0]@.end == s[0]@.end && !t[0]@.exhausted,
    ensures
        wf_seq(t),
        forall|h: int| #![trigger seq_has(t, h)] seq_has(t, h) == (seq_has(s, h) && h != s[0]@.start),
{
    lemma_tail_min(s);
    let single = s[0]@.start == s[0]@.end;
    let off: int = if single { 1 } else { 0 };
    assert forall|i: int| 0 <= i < t.len() implies (i + off > 0 ==> #[trigger] t[i] == s[i + off]) by {
        if i + off > 0 {
            if single { assert(t[i] == s.subrange(1, s.len() as int)[i]); }
            else { assert(t[i] == t.subrange(1, t.len() as int)[i - 1]); assert(s[i] == s.subrange(1, s.len() as int)[i - 1]); }
        }
    }
    assert forall|i: int| 0 <= i < t.len() implies r_valid(#[trigger] t[i]) by {
        if i + off > 0 { assert(r_valid(s[i + off])); }
    }
    assert forall|i: int, j: int| 0 <= i < j < t.len() implies (#[trigger] t[i])@.end + 1 < (#[trigger] t[j])@.start by {
        assert(s[i + off]@.end + 1 < s[j + off]@.start);
    }
    assert forall|h: int| #![trigger seq_has(t, h)] seq_has(t, h) == (seq_has(s, h) && h != s[0]@.start) by {
        if seq_has(t, h) {
            let k = choose|k: int| 0 <= k < t.len() && r_has(#[trigger] t[k], h);
            if k + off > 0 { assert(r_has(s[k + off], h)); assert(s[0]@.end + 1 < s[k + off]@.start); }
            else { assert(r_has(s[0], h)); }
        }
        if seq_has(s, h) && h != s[0]@.start {
            let k = choose|k: int| 0 <= k < s.len() && r_has(#[trigger] s[k], h);
            if k > 0 { assert(t[k - off] == s[k]); assert(r_has(t[k - off], h)); }
            else { assert(r_has(t[0], h)); }
        }
    }
}


pub proof fn lemma_view_bounds(s: Seq<BlockRange>)
    requires wf_seq(s)
    ensures forall|h: int| seq_has(s, h) ==> 1 <= h <= u64::MAX
{
    assert forall|h: int| seq_has(s, h) implies 1 <= h <= u64::MAX by {
        let k = choose|k: int| 0 <= k < s.len() && r_has(#[trigger] s[k], h);
        assert(r_valid(s[k]));
    }
}


// ---- cardinality: the sum of the range lengths of a wf sequence is the cardinality of its view ----
pub open spec fn iv(a: int, b: int) -> ISet<int> { ISet::new(|h: int| a <= h <= b) }
pub open spec fn seq_view(s: Seq<BlockRange>) -> ISet<int> { ISet::new(|h: int| seq_has(s, h)) }

pub proof fn lemma_iv_len(a: int, b: int)
    ensures iv(a, b).finite(), iv(a, b).len() == (if a <= b { b - a + 1 } else { 0 })
    decreases (if b >= a { b - a + 1 } else { 0 })
{
    broadcast use vstd::iset::group_iset_lemmas;
    if a > b {
        assert(iv(a, b) =~= ISet::<int>::empty());
    } else {
        lemma_iv_len(a, b - 1);
        assert(iv(a, b) =~= iv(a, b - 1).insert(b));
    }
}
pub proof fn lemma_disj_union_len(x: ISet<int>, y: ISet<int>)
    requires x.finite(), y.finite(), x.disjoint(y)
    ensures x.union(y).finite(), x.union(y).len() == x.len() + y.len()
{
    broadcast use vstd::iset::group_iset_lemmas;
    vstd::iset_lib::lemma_iset_disjoint_lens(x, y);
}
pub proof fn lemma_seq_len_card(s: Seq<BlockRange>)
    requires wf_seq(s)
    ensures seq_view(s).finite(), seq_view(s).len() == seq_len(s)
    decreases s.len()
{
    broadcast use vstd::iset::group_iset_lemmas;
    if s.len() == 0 {
        assert(seq_view(s) =~= ISet::<int>::empty());
    } else {
        let p = s.drop_last();
        let r = s.last();
        assert forall|i: int| 0 <= i < p.len() implies r_valid(#[trigger] p[i]) by { assert(p[i] == s[i]); }
        assert forall|i: int, j: int| 0 <= i < j < p.len() implies (#[trigger] p[i])@.end + 1 < (#[trigger] p[j])@.start by { assert(p[i] == s[i]); assert(p[j] == s[j]); }
        lemma_seq_len_card(p);
        lemma_iv_len(r@.start as int, r@.end as int);
        assert(r_set(r) =~= iv(r@.start as int, r@.end as int));
        assert(r_valid(s[s.len() - 1]));
        assert forall|h: int| seq_has(s, h) == (seq_has(p, h) || r_has(r, h)) by {
            assert(s =~= p.push(r));
            lemma_has_push(p, r, h);
        }
        assert(seq_view(s) =~= seq_view(p).union(r_set(r)));
        assert(seq_view(p).disjoint(r_set(r))) by {
            assert forall|h: int| !(seq_view(p).contains(h) && r_set(r).contains(h)) by {
                if seq_has(p, h) && r_has(r, h) {
                    let k = choose|k: int| 0 <= k < p.len() && r_has(#[trigger] p[k], h);
                    assert(p[k] == s[k]);
                    assert(s[k]@.end + 1 < s[s.len() - 1]@.start);
                }
            }
        }
        lemma_disj_union_len(seq_view(p), r_set(r));
    }
}


pub proof fn lemma_sub_has(s: Seq<BlockRange>, a: int, b: int, h: int)
    requires 0 <= a <= b <= s.len()
    ensures seq_has(s.subrange(a, b), h) == (exists|k: int| a <= k < b && r_has(#[trigger] s[k], h))
{
    let t = s.subrange(a, b);
    if seq_has(t, h) {
        let k = choose|k: int| 0 <= k < t.len() && r_has(#[trigger] t[k], h);
        assert(t[k] == s[a + k]);
    }
    if exists|k: int| a <= k < b && r_has(#[trigger] s[k], h) {
        let k = choose|k: int| a <= k < b && r_has(#[trigger] s[k], h);
        assert(t[k - a] == s[k]);
    }
}
pub proof fn lemma_suffix_step(s: Seq<BlockRange>, i: int)
    requires 0 <= i < s.len()
    ensures forall|h: int| #![trigger seq_has(s.subrange(i, s.len() as int), h)]
        seq_has(s.subrange(i, s.len() as int), h) == (r_has(s[i], h) || seq_has(s.subrange(i + 1, s.len() as int), h))
{
    assert forall|h: int| #![trigger seq_has(s.subrange(i, s.len() as int), h)]
        seq_has(s.subrange(i, s.len() as int), h) == (r_has(s[i], h) || seq_has(s.subrange(i + 1, s.len() as int), h)) by {
        lemma_sub_has(s, i, s.len() as int, h);
        lemma_sub_has(s, i + 1, s.len() as int, h);
    }
}
pub proof fn lemma_sorted_sep(s: Seq<BlockRange>, i: int, j: int, x: int, y: int)
    requires wf_seq(s), 0 <= i < j < s.len(), r_has(s[i], x), r_has(s[j], y)
    ensures x < y
{
    assert(s[i]@.end + 1 < s[j]@.start);
}


pub proof fn lemma_suffix_above(s: Seq<BlockRange>, i: int)
    requires wf_seq(s), 0 <= i < s.len()
    ensures forall|h: int| #![trigger seq_has(s.subrange(i + 1, s.len() as int), h)] seq_has(s.subrange(i + 1, s.len() as int), h) ==> h > s[i]@.end + 1
{
    assert forall|h: int| #![trigger seq_has(s.subrange(i + 1, s.len() as int), h)] seq_has(s.subrange(i + 1, s.len() as int), h) implies h > s[i]@.end + 1 by {
        lemma_sub_has(s, i + 1, s.len() as int, h);
        let k = choose|k: int| i + 1 <= k < s.len() && r_has(#[trigger] s[k], h);
        assert(s[i]@.end + 1 < s[k]@.start);
    }
}
pub proof fn lemma_prefix_below(s: Seq<BlockRange>, i: int)
    requires wf_seq(s), 0 <= i < s.len()
    ensures forall|h: int| #![trigger seq_has(s.subrange(0, i), h)] seq_has(s.subrange(0, i), h) ==> h + 1 < s[i]@.start
{
    assert forall|h: int| #![trigger seq_has(s.subrange(0, i), h)] seq_has(s.subrange(0, i), h) implies h + 1 < s[i]@.start by {
        lemma_sub_has(s, 0, i, h);
        let k = choose|k: int| 0 <= k < i && r_has(#[trigger] s[k], h);
        assert(s[k]@.end + 1 < s[i]@.start);
    }
}
// one iteration of headn: T0 (taken so far, from the ranges above i) plus the top `rl` heights of s[i]
pub proof fn lemma_headn_step(s: Seq<BlockRange>, i: int, t0: ISet<int>, t1: ISet<int>, r: BlockRange, len0: int, limit: int)
    requires
        wf_seq(s), 0 <= i < s.len(), 0 <= len0 < limit,
        t0.finite(), t0.len() == len0,
        t0 == seq_view(s.subrange(i + 1, s.len() as int)),
        forall|h: int| r_has(r, h) <==> (r_has(s[i], h) && h + (limit - len0) > s[i]@.end),
        r_len(r) == (if r_len(s[i]) <= limit - len0 { r_len(s[i]) } else { limit - len0 }),
        t1 == t0.union(r_set(r)),
    ensures
        t1.finite(), t1.len() == len0 + r_len(r),
        t1.subset_of(seq_view(s.subrange(i, s.len() as int))),
        len0 + r_len(r) < limit ==> t1 == seq_view(s.subrange(i, s.len() as int)),
        forall|x: int, y: int| t1.contains(x) && seq_has(s.subrange(i, s.len() as int), y) && !t1.contains(y) ==> y < x,
{
    broadcast use vstd::iset::group_iset_lemmas;
    lemma_suffix_step(s, i);
    lemma_suffix_above(s, i);
    lemma_iv_len(r@.start as int, r@.end as int);
    assert(r_set(r) =~= iv(r@.start as int, r@.end as int));
    assert(r_valid(s[i]));
    assert(t0.disjoint(r_set(r)));
    lemma_disj_union_len(t0, r_set(r));
    if len0 + r_len(r) < limit {
        assert(r_set(r) =~= r_set(s[i])) by {
            assert forall|h: int| r_has(s[i], h) implies r_has(r, h) by { }
        }
        assert(t1 =~= seq_view(s.subrange(i, s.len() as int)));
    }
    assert forall|x: int, y: int| t1.contains(x) && seq_has(s.subrange(i, s.len() as int), y) && !t1.contains(y) implies y < x by {
        assert(r_has(s[i], y));
    }
}
pub proof fn lemma_headn_final(s: Seq<BlockRange>, i: int, t: ISet<int>, len: int, limit: int)
    requires
        wf_seq(s), 0 <= i <= s.len(), 0 <= len <= limit,
        i == 0 || len == limit,
        t.finite(), t.len() == len,
        t.subset_of(seq_view(s.subrange(i, s.len() as int))),
        len < limit ==> t == seq_view(s.subrange(i, s.len() as int)),
        forall|x: int, y: int| t.contains(x) && seq_has(s.subrange(i, s.len() as int), y) && !t.contains(y) ==> y < x,
        seq_view(s).finite(),
    ensures
        t.subset_of(seq_view(s)),
        forall|x: int, y: int| t.contains(x) && seq_view(s).contains(y) && !t.contains(y) ==> y < x,
        t.len() == (if seq_view(s).len() <= limit { seq_view(s).len() } else { limit as nat }),
{
    broadcast use vstd::iset::group_iset_lemmas;
    let n = s.len() as int;
    assert forall|h: int| t.contains(h) implies seq_view(s).contains(h) by {
        assert(seq_view(s.subrange(i, n)).contains(h));
        lemma_sub_has(s, i, n, h);
    }
    assert forall|x: int, y: int| t.contains(x) && seq_view(s).contains(y) && !t.contains(y) implies y < x by {
        assert(seq_view(s.subrange(i, n)).contains(x));
        lemma_sub_has(s, i, n, x);
        lemma_sub_has(s, i, n, y);
        if !seq_has(s.subrange(i, n), y) {
            let kx = choose|k: int| i <= k < n && r_has(#[trigger] s[k], x);
            let ky = choose|k: int| 0 <= k < s.len() && r_has(#[trigger] s[k], y);
            lemma_sorted_sep(s, ky, kx, y, x);
        }
    }
    vstd::iset_lib::lemma_len_subset(t, seq_view(s));
    if len < limit {
        assert(s.subrange(0, n) =~= s);
    }
}


pub proof fn lemma_prefix_step(s: Seq<BlockRange>, i: int)
    requires 0 <= i < s.len()
    ensures forall|h: int| #![trigger seq_has(s.subrange(0, i + 1), h)]
        seq_has(s.subrange(0, i + 1), h) == (r_has(s[i], h) || seq_has(s.subrange(0, i), h))
{
    assert forall|h: int| #![trigger seq_has(s.subrange(0, i + 1), h)]
        seq_has(s.subrange(0, i + 1), h) == (r_has(s[i], h) || seq_has(s.subrange(0, i), h)) by {
        lemma_sub_has(s, 0, i + 1, h);
        lemma_sub_has(s, 0, i, h);
    }
}
pub proof fn lemma_tailn_step(s: Seq<BlockRange>, i: int, t0: ISet<int>, t1: ISet<int>, r: BlockRange, len0: int, limit: int)
    requires
        wf_seq(s), 0 <= i < s.len(), 0 <= len0 < limit,
        t0.finite(), t0.len() == len0,
        t0 == seq_view(s.subrange(0, i)),
        forall|h: int| r_has(r, h) <==> (r_has(s[i], h) && h < s[i]@.start + (limit - len0)),
        r_len(r) == (if r_len(s[i]) <= limit - len0 { r_len(s[i]) } else { limit - len0 }),
        t1 == t0.union(r_set(r)),
    ensures
        t1.finite(), t1.len() == len0 + r_len(r),
        t1.subset_of(seq_view(s.subrange(0, i + 1))),
        len0 + r_len(r) < limit ==> t1 == seq_view(s.subrange(0, i + 1)),
        forall|x: int, y: int| t1.contains(x) && seq_has(s.subrange(0, i + 1), y) && !t1.contains(y) ==> y > x,
{
    broadcast use vstd::iset::group_iset_lemmas;
    lemma_prefix_step(s, i);
    lemma_prefix_lt(s, i);
    lemma_iv_len(r@.start as int, r@.end as int);
    assert(r_set(r) =~= iv(r@.start as int, r@.end as int));
    assert(r_valid(s[i]));
    assert(t0.disjoint(r_set(r)));
    lemma_disj_union_len(t0, r_set(r));
    if len0 + r_len(r) < limit {
        assert(r_set(r) =~= r_set(s[i])) by {
            assert forall|h: int| r_has(s[i], h) implies r_has(r, h) by { }
        }
        assert(t1 =~= seq_view(s.subrange(0, i + 1)));
    }
    assert forall|x: int, y: int| t1.contains(x) && seq_has(s.subrange(0, i + 1), y) && !t1.contains(y) implies y > x by {
        assert(r_has(s[i], y));
    }
}
pub proof fn lemma_tailn_final(s: Seq<BlockRange>, i: int, t: ISet<int>, len: int, limit: int)
    requires
        wf_seq(s), 0 <= i <= s.len(), 0 <= len <= limit,
        i == s.len() || len == limit,
        t.finite(), t.len() == len,
        t.subset_of(seq_view(s.subrange(0, i))),
        len < limit ==> t == seq_view(s.subrange(0, i)),
        forall|x: int, y: int| t.contains(x) && seq_has(s.subrange(0, i), y) && !t.contains(y) ==> y > x,
        seq_view(s).finite(),
    ensures
        t.subset_of(seq_view(s)),
        forall|x: int, y: int| t.contains(x) && seq_view(s).contains(y) && !t.contains(y) ==> y > x,
        t.len() == (if seq_view(s).len() <= limit { seq_view(s).len() } else { limit as nat }),
{
    broadcast use vstd::iset::group_iset_lemmas;
    let n = s.len() as int;
    assert forall|h: int| t.contains(h) implies seq_view(s).contains(h) by {
        assert(seq_view(s.subrange(0, i)).contains(h));
        lemma_sub_has(s, 0, i, h);
    }
    assert forall|x: int, y: int| t.contains(x) && seq_view(s).contains(y) && !t.contains(y) implies y > x by {
        assert(seq_view(s.subrange(0, i)).contains(x));
        lemma_sub_has(s, 0, i, x);
        lemma_sub_has(s, 0, i, y);
        if !seq_has(s.subrange(0, i), y) {
            let kx = choose|k: int| 0 <= k < i && r_has(#[trigger] s[k], x);
            let ky = choose|k: int| 0 <= k < s.len() && r_has(#[trigger] s[k], y);
            lemma_sorted_sep(s, kx, ky, x, y);
        }
    }
    vstd::iset_lib::lemma_len_subset(t, seq_view(s));
    if len < limit {
        assert(s.subrange(0, n) =~= s);
    }
}

// facts connecting the set view with per-range predicates
pub proof fn lemma_disjoint_iff(s: Seq<BlockRange>, r: BlockRange)
    requires r_valid(r), wf_seq(s)
    ensures ISet::new(|h: int| seq_has(s, h)).disjoint(r_set(r)) <==> (forall|k: int| 0 <= k < s.len() ==> !overlaps(#[trigger] s[k], r))
{
    let v = ISet::new(|h: int| seq_has(s, h));
    if forall|k: int| 0 <= k < s.len() ==> !overlaps(#[trigger] s[k], r) {
        assert forall|h: int| !(v.contains(h) && r_set(r).contains(h)) by {
            if seq_has(s, h) && r_has(r, h) {
                let k = choose|k: int| 0 <= k < s.len() && r_has(#[trigger] s[k], h);
                assert(overlaps(s[k], r));
            }
        }
    }
    if v.disjoint(r_set(r)) {
        assert forall|k: int| 0 <= k < s.len() implies !overlaps(#[trigger] s[k], r) by {
            if overlaps(s[k], r) {
                let h = if s[k]@.start >= r@.start { s[k]@.start as int } else { r@.start as int };
                assert(r_has(s[k], h));
                assert(seq_has(s, h));
                assert(v.contains(h) && r_set(r).contains(h));
            }
        }
    }
}

pub proof fn lemma_contains_iff(s: Seq<BlockRange>, h: int)
    ensures ISet::new(|x: int| seq_has(s, x)).contains(h) <==> exists|k: int| 0 <= k < s.len() && r_has(#[trigger] s[k], h)
{}

pub proof fn lemma_cic_head(s: Seq<BlockRange>, r: BlockRange)
    requires wf_seq(s), r_valid(r), s.len() > 0, s[s.len() - 1]@.end < r@.start
    ensures
        ISet::new(|h: int| seq_has(s, h)).disjoint(r_set(r)),
        ISet::new(|h: int| seq_has(s, h)).contains(r@.start - 1) <==> s[s.len() - 1]@.end + 1 == r@.start,
        !ISet::new(|h: int| seq_has(s, h)).contains(r@.end + 1),
{
    let n = s.len() - 1;
    lemma_disjoint_iff(s, r);
    assert forall|k: int| 0 <= k < s.len() implies !overlaps(#[trigger] s[k], r) && (#[trigger] s[k])@.end <= s[n]@.end by {
        if k < n { assert(s[k]@.end + 1 < s[n]@.start); }
    }
    if s[n]@.end + 1 == r@.start { assert(r_has(s[n], r@.start - 1)); }
    if seq_has(s, r@.start - 1) {
        let k = choose|k: int| 0 <= k < s.len() && r_has(#[trigger] s[k], r@.start - 1);
        if k < n { assert(s[k]@.end + 1 < s[n]@.start); }
    }
    if seq_has(s, r@.end + 1) {
        let k = choose|k: int| 0 <= k < s.len() && r_has(#[trigger] s[k], r@.end + 1);
        assert(s[k]@.end <= s[n]@.end);
    }
}

pub proof fn lemma_cic_none(s: Seq<BlockRange>, r: BlockRange)
    requires wf_seq(s), r_valid(r), forall|k: int| 0 <= k < s.len() ==> !touches(#[trigger] s[k], r)
    ensures
        ISet::new(|h: int| seq_has(s, h)).disjoint(r_set(r)),
        !ISet::new(|h: int| seq_has(s, h)).contains(r@.start - 1),
        !ISet::new(|h: int| seq_has(s, h)).contains(r@.end + 1),
{
    lemma_disjoint_iff(s, r);
    if seq_has(s, r@.start - 1) {
        let k = choose|k: int| 0 <= k < s.len() && r_has(#[trigger] s[k], r@.start - 1);
        assert(touches(s[k], r));
    }
    if seq_has(s, r@.end + 1) {
        let k = choose|k: int| 0 <= k < s.len() && r_has(#[trigger] s[k], r@.end + 1);
        assert(touches(s[k], r));
    }
}

pub proof fn lemma_cic_disjoint(s: Seq<BlockRange>, r: BlockRange, a: int, b: int)
    requires
        wf_seq(s), r_valid(r), 0 <= a <= b < s.len(),
        forall|k: int| 0 <= k < s.len() ==> (touches(#[trigger] s[k], r) <==> a <= k <= b),
    ensures
        ISet::new(|h: int| seq_has(s, h)).disjoint(r_set(r)) <==> (forall|k: int| a <= k <= b ==> !overlaps(#[trigger] s[k], r)),
{
    lemma_disjoint_iff(s, r);
    if forall|k: int| a <= k <= b ==> !overlaps(#[trigger] s[k], r) {
        assert forall|k: int| 0 <= k < s.len() implies !overlaps(#[trigger] s[k], r) by {
            if !(a <= k <= b) { assert(!touches(s[k], r)); }
        }
    }
}
pub proof fn lemma_cic_neighbour(s: Seq<BlockRange>, r: BlockRange, a: int, b: int, x: int)
    requires
        wf_seq(s), r_valid(r), 0 <= a <= b < s.len(),
        forall|k: int| 0 <= k < s.len() ==> (touches(#[trigger] s[k], r) <==> a <= k <= b),
        x == r@.start - 1 || x == r@.end + 1,
    ensures
        ISet::new(|h: int| seq_has(s, h)).contains(x) <==> (exists|k: int| a <= k <= b && (#[trigger] s[k])@.start <= x <= s[k]@.end),
{
    let v = ISet::new(|h: int| seq_has(s, h));
    if v.contains(x) {
        let k = choose|k: int| 0 <= k < s.len() && r_has(#[trigger] s[k], x);
        assert(touches(s[k], r));
    }
    if exists|k: int| a <= k <= b && (#[trigger] s[k])@.start <= x <= s[k]@.end {
        let k = choose|k: int| a <= k <= b && (#[trigger] s[k])@.start <= x <= s[k]@.end;
        assert(r_has(s[k], x));
    }
}
pub proof fn lemma_cic_shape(s: Seq<BlockRange>, r: BlockRange, a: int, b: int)
    requires
        wf_seq(s), r_valid(r), 0 <= a <= b < s.len(),
        forall|k: int| 0 <= k < s.len() ==> (touches(#[trigger] s[k], r) <==> a <= k <= b),
    ensures
        b - a >= 2 ==> overlaps(s[a + 1], r),
        b - a == 1 && !overlaps(s[a], r) && !overlaps(s[b], r) ==> s[a]@.end + 1 == r@.start && r@.end + 1 == s[b]@.start,
{
    assert(touches(s[a], r));
    assert(touches(s[b], r));
    if b - a >= 2 {
        assert(touches(s[a + 1], r));
        assert(s[a]@.end + 1 < s[a + 1]@.start);
        assert(s[a + 1]@.end + 1 < s[b]@.start);
    }
    if b - a == 1 {
        assert(s[a]@.end + 1 < s[b]@.start);
    }
}
pub proof fn lemma_cic_some(s: Seq<BlockRange>, r: BlockRange, a: int, b: int)
    requires
        wf_seq(s), r_valid(r), 0 <= a <= b < s.len(),
        forall|k: int| 0 <= k < s.len() ==> (touches(#[trigger] s[k], r) <==> a <= k <= b),
    ensures
        ISet::new(|h: int| seq_has(s, h)).disjoint(r_set(r)) <==> (forall|k: int| a <= k <= b ==> !overlaps(#[trigger] s[k], r)),
        ISet::new(|h: int| seq_has(s, h)).contains(r@.start - 1) <==> (exists|k: int| a <= k <= b && (#[trigger] s[k])@.start <= r@.start - 1 <= s[k]@.end),
        ISet::new(|h: int| seq_has(s, h)).contains(r@.end + 1) <==> (exists|k: int| a <= k <= b && (#[trigger] s[k])@.start <= r@.end + 1 <= s[k]@.end),
        // three or more touching ranges: the middle one overlaps
        b - a >= 2 ==> overlaps(s[a + 1], r),
        // two touching, non-overlapping ranges are adjacent on both sides
        b - a == 1 && !overlaps(s[a], r) && !overlaps(s[b], r) ==> s[a]@.end + 1 == r@.start && r@.end + 1 == s[b]@.start,
{
    lemma_cic_disjoint(s, r, a, b);
    lemma_cic_neighbour(s, r, a, b, r@.start - 1);
    lemma_cic_neighbour(s, r, a, b, r@.end + 1);
    lemma_cic_shape(s, r, a, b);
}
// ---------------------------------------------------------------------------
// BlockRangeExt: contracts live on the trait declaration (Verus forbids
// `requires` on impl methods); the impl bodies below are the /repo text.
// ---------------------------------------------------------------------------
// ---- partitions ----
pub open spec fn part_ok(s: ISet<int>, l: ISet<int>, m: int, r: ISet<int>) -> bool {
    &&& s.contains(m) && !l.contains(m) && !r.contains(m)
    &&& s == l.union(r).insert(m)
    &&& forall|x: int| l.contains(x) ==> x < m
    &&& forall|x: int| r.contains(x) ==> m < x
    &&& s.finite() && l.finite() && r.finite() && l.len() + r.len() + 1 == s.len()
}
// loop invariant of `partitions` after `i` ranges: `l`/`r` split the first `i` ranges, everything in `l` is below
// everything in `r`, and `r` only starts to fill once `l` holds at least `mid` heights
pub open spec fn part_inv(s: Seq<BlockRange>, i: int, l: ISet<int>, r: ISet<int>, ll: int, mid: int) -> bool {
    &&& l.finite() && r.finite() && l.len() == ll
    &&& l.union(r) == seq_view(s.subrange(0, i))
    &&& ll + r.len() == seq_len(s.subrange(0, i))
    &&& forall|x: int, y: int| l.contains(x) && r.contains(y) ==> x < y
    &&& (r.len() > 0 ==> ll >= mid)
}
// heights of range k lie above every height of the ranges before it
pub proof fn lemma_prefix_lt(s: Seq<BlockRange>, k: int)
    requires wf_seq(s), 0 <= k < s.len()
    ensures forall|x: int, y: int| seq_has(s.subrange(0, k), x) && r_has(s[k], y) ==> x < y
{
    assert forall|x: int, y: int| seq_has(s.subrange(0, k), x) && r_has(s[k], y) implies x < y by {
        lemma_sub_has(s, 0, k, x);
        let j = choose|j: int| 0 <= j < k && r_has(#[trigger] s[j], x);
        assert(s[j]@.end + 1 < s[k]@.start);
    }
}
pub proof fn lemma_wf_prefix(s: Seq<BlockRange>, k: int)
    requires wf_seq(s), 0 <= k <= s.len()
    ensures wf_seq(s.subrange(0, k))
{
    let p = s.subrange(0, k);
    assert forall|i: int| 0 <= i < p.len() implies r_valid(#[trigger] p[i]) by { assert(p[i] == s[i]); }
    assert forall|i: int, j: int| 0 <= i < j < p.len() implies (#[trigger] p[i])@.end + 1 < (#[trigger] p[j])@.start by { assert(p[i] == s[i]); assert(p[j] == s[j]); }
}
// the heights after range k fit between its end and the end of the last range
pub proof fn lemma_seq_len_rest(s: Seq<BlockRange>, k: int)
    requires wf_seq(s), 0 <= k < s.len()
    ensures seq_len(s) - seq_len(s.subrange(0, k + 1)) <= s.last()@.end - s[k]@.end
    decreases s.len()
{
    if k == s.len() - 1 {
        assert(s.subrange(0, k + 1) =~= s);
    } else {
        let p = s.drop_last();
        lemma_wf_prefix(s, s.len() - 1);
        assert(p =~= s.subrange(0, s.len() - 1));
        lemma_seq_len_rest(p, k);
        assert(p.subrange(0, k + 1) =~= s.subrange(0, k + 1));
        assert(p[k] == s[k]);
        assert(p.last() == s[s.len() - 2]);
        assert(s[s.len() - 2]@.end + 1 < s[s.len() - 1]@.start);
        assert(r_valid(s[s.len() - 1]));
    }
}
// one whole range goes to one side
pub proof fn lemma_part_step(s: Seq<BlockRange>, i: int, l: ISet<int>, r: ISet<int>, ll: int, mid: int, to_left: bool)
    requires wf_seq(s), 0 <= i < s.len(), part_inv(s, i, l, r, ll, mid),
        to_left ==> ll < mid, !to_left ==> ll >= mid,
    ensures
        to_left ==> part_inv(s, i + 1, l.union(r_set(s[i])), r, ll + r_len(s[i]), mid),
        !to_left ==> part_inv(s, i + 1, l, r.union(r_set(s[i])), ll, mid),
{
    broadcast use vstd::iset::group_iset_lemmas;
    let x = s[i];
    let pre = s.subrange(0, i);
    let cur = s.subrange(0, i + 1);
    assert(cur =~= pre.push(x));
    assert(cur.drop_last() =~= pre);
    assert(r_valid(x));
    lemma_prefix_lt(s, i);
    lemma_iv_len(x@.start as int, x@.end as int);
    assert(r_set(x) =~= iv(x@.start as int, x@.end as int));
    assert forall|h: int| seq_has(cur, h) == (seq_has(pre, h) || r_has(x, h)) by { lemma_has_push(pre, x, h); }
    assert forall|h: int| l.union(r).contains(h) == seq_has(pre, h) by {}
    if to_left {
        assert(r =~= ISet::<int>::empty()) by { if r.len() > 0 { } else { } }
        assert(l.disjoint(r_set(x))) by { assert forall|h: int| !(l.contains(h) && r_set(x).contains(h)) by { if l.contains(h) { assert(l.union(r).contains(h)); } } }
        lemma_disj_union_len(l, r_set(x));
        assert(l.union(r_set(x)).union(r) =~= seq_view(cur));
    } else {
        assert(r.disjoint(r_set(x))) by { assert forall|h: int| !(r.contains(h) && r_set(x).contains(h)) by { if r.contains(h) { assert(l.union(r).contains(h)); } } }
        lemma_disj_union_len(r, r_set(x));
        assert(l.union(r.union(r_set(x))) =~= seq_view(cur));
        assert forall|a: int, b: int| l.contains(a) && r.union(r_set(x)).contains(b) implies a < b by { if !r.contains(b) { assert(l.union(r).contains(a)); } }
    }
}
// the range that straddles the middle is split at `cut`
pub proof fn lemma_part_split(s: Seq<BlockRange>, i: int, l: ISet<int>, r: ISet<int>, ll: int, mid: int, cut: int, l2: ISet<int>, r2: ISet<int>)
    requires wf_seq(s), 0 <= i < s.len(), part_inv(s, i, l, r, ll, mid), ll < mid,
        s[i]@.start <= cut <= s[i]@.end, cut == s[i]@.start + mid - ll,
        l2 == l.union(iv(s[i]@.start as int, cut)),
        r2 == (if cut < s[i]@.end { r.union(iv(cut + 1, s[i]@.end as int)) } else { r }),
    ensures
        part_inv(s, i + 1, l2, r2, mid + 1, mid),
{
    broadcast use vstd::iset::group_iset_lemmas;
    let x = s[i];
    let pre = s.subrange(0, i);
    let cur = s.subrange(0, i + 1);
    assert(cur =~= pre.push(x));
    assert(cur.drop_last() =~= pre);
    assert(r_valid(x));
    lemma_prefix_lt(s, i);
    let a = iv(x@.start as int, cut);
    let b = iv(cut + 1, x@.end as int);
    lemma_iv_len(x@.start as int, cut);
    lemma_iv_len(cut + 1, x@.end as int);
    assert forall|h: int| seq_has(cur, h) == (seq_has(pre, h) || r_has(x, h)) by { lemma_has_push(pre, x, h); }
    assert forall|h: int| l.union(r).contains(h) == seq_has(pre, h) by {}
    assert(r =~= ISet::<int>::empty());
    assert(l.disjoint(a)) by { assert forall|h: int| !(l.contains(h) && a.contains(h)) by { if l.contains(h) { assert(l.union(r).contains(h)); } } }
    lemma_disj_union_len(l, a);
    assert(r2 =~= b);
    assert(l.union(a).union(r2) =~= seq_view(cur));
    assert forall|p: int, q: int| l.union(a).contains(p) && r2.contains(q) implies p < q by { if l.contains(p) { assert(l.union(r).contains(p)); } }
}
pub proof fn lemma_part_final(s: Seq<BlockRange>, l: ISet<int>, r: ISet<int>, ll: int, mid: int, l2: ISet<int>, r2: ISet<int>, m: int, from_right: bool)
    requires wf_seq(s), part_inv(s, s.len() as int, l, r, ll, mid),
        from_right ==> r.contains(m) && (forall|x: int| r.contains(x) ==> x >= m) && r2 == r.remove(m) && l2 == l,
        !from_right ==> l.contains(m) && (forall|x: int| l.contains(x) ==> x <= m) && l2 == l.remove(m) && r2 == r,
    ensures part_ok(seq_view(s), l2, m, r2)
{
    broadcast use vstd::iset::group_iset_lemmas;
    assert(s.subrange(0, s.len() as int) =~= s);
    lemma_seq_len_card(s);
    assert(l.disjoint(r)) by { assert forall|h: int| !(l.contains(h) && r.contains(h)) by {} }
    lemma_disj_union_len(l, r);
    assert(l.union(r).contains(m));
    assert(seq_view(s) =~= l2.union(r2).insert(m));
}

pub trait BlockRangeExt: Sized {
    spec fn rng(&self) -> BlockRange;

    fn validate(&self) -> (res: Result<()>)
        requires !self.rng()@.exhausted
        ensures
            res.is_ok() == r_valid(self.rng()),
            res.is_err() ==> res->Err_0 == BlockRangesError::InvalidBlockRange(self.rng());

    fn len(&self) -> (n: u64)
        requires self.rng()@.start <= self.rng()@.end ==> self.rng()@.end - self.rng()@.start < u64::MAX
        ensures n == r_len(self.rng());

    fn is_adjacent(&self, other: &BlockRange) -> (b: bool)
        requires r_valid(self.rng()), r_valid(*other)
        ensures b == (self.rng()@.end + 1 == other@.start || other@.end + 1 == self.rng()@.start);

    fn is_overlapping(&self, other: &BlockRange) -> (b: bool)
        requires r_valid(self.rng()), r_valid(*other)
        ensures b == overlaps(self.rng(), *other);

    fn is_left_of(&self, other: &BlockRange) -> (b: bool)
        requires r_valid(self.rng()), r_valid(*other)
        ensures b == (self.rng()@.end < other@.start);

    fn is_right_of(&self, other: &BlockRange) -> (b: bool)
        requires r_valid(self.rng()), r_valid(*other)
        ensures b == (other@.end < self.rng()@.start);

    // the `limit` largest heights of the range (empty canonical range 1..=0 when there are none)
    fn headn(&self, limit: u64) -> (r: Self)
        requires !self.rng()@.exhausted, self.rng()@.start <= self.rng()@.end ==> self.rng()@.start > 0
        ensures
            !r.rng()@.exhausted,
            forall|h: int| r_has(r.rng(), h) <==> (r_has(self.rng(), h) && h + limit > self.rng()@.end),
            r_len(r.rng()) <= limit,
            r_len(r.rng()) == (if r_len(self.rng()) <= limit { r_len(self.rng()) } else { limit as int }),
            r_len(r.rng()) > 0 ==> (r_valid(r.rng()) <==> r_valid(self.rng())) && r.rng()@.end == self.rng()@.end;

    fn tailn(&self, limit: u64) -> (r: Self)
        requires !self.rng()@.exhausted
        ensures
            !r.rng()@.exhausted,
            forall|h: int| r_has(r.rng(), h) <==> (r_has(self.rng(), h) && h < self.rng()@.start + limit),
            r_len(r.rng()) <= limit,
            r_len(r.rng()) == (if r_len(self.rng()) <= limit { r_len(self.rng()) } else { limit as int }),
            r_len(r.rng()) > 0 ==> r.rng()@.start == self.rng()@.start;
}

impl BlockRangeExt for BlockRange {
    open spec fn rng(&self) -> BlockRange { *self }

//@fn impl BlockRangeExt for BlockRange :: validate
//@props C17 C18
    fn validate(&self) -> (res: Result<()>)
//@sub E9 "self.to_owned()" => "vx_clone(self)"
//@end

//@fn impl BlockRangeExt for BlockRange :: len
//@props C17
    fn len(&self) -> (n: u64)
//@end

//@fn impl BlockRangeExt for BlockRange :: is_adjacent
//@props C17 C18
    fn is_adjacent(&self, other: &BlockRange) -> (b: bool)
//@end

//@fn impl BlockRangeExt for BlockRange :: is_overlapping
//@props C17 C18
    fn is_overlapping(&self, other: &BlockRange) -> (b: bool)
//@end

//@fn impl BlockRangeExt for BlockRange :: is_left_of
//@props C17 C18
    fn is_left_of(&self, other: &BlockRange) -> (b: bool)
//@end

//@fn impl BlockRangeExt for BlockRange :: is_right_of
//@props C17
    fn is_right_of(&self, other: &BlockRange) -> (b: bool)
//@end

//@fn impl BlockRangeExt for BlockRange :: headn
//@props C17
    fn headn(&self, limit: u64) -> (r: Self)
//@end

//@fn impl BlockRangeExt for BlockRange :: tailn
//@props C17
    fn tailn(&self, limit: u64) -> (r: Self)
//@end
}

pub struct BlockRanges(pub Vec<BlockRange>);

//@fn - :: calc_overlap
//@props C17 C18
fn calc_overlap(
    to_insert: &BlockRange,
    first_range: &BlockRange,
    last_range: &BlockRange,
) -> (o: BlockRange)
    ensures
        o@.start == (if first_range@.start >= to_insert@.start { first_range@.start } else { to_insert@.start }),
        o@.end == (if last_range@.end <= to_insert@.end { last_range@.end } else { to_insert@.end }),
        !o@.exhausted,
//@end

impl BlockRanges {
    pub open spec fn wf(&self) -> bool { wf_seq(self.0@) }
    pub open spec fn has(&self, h: int) -> bool { seq_has(self.0@, h) }
    pub open spec fn wf_weak(&self) -> bool { wf_weak_seq(self.0@) }
    pub open spec fn view(&self) -> ISet<int> { ISet::new(|h: int| seq_has(self.0@, h)) }

//@fn impl BlockRanges :: new
//@props C17
    pub fn new() -> (r: BlockRanges)
        ensures r.0@.len() == 0, r.wf(), r@ == ISet::<int>::empty()
//@end

//@fn impl BlockRanges :: find_affected_ranges
//@props C17 C18
    fn find_affected_ranges(&self, range: &BlockRange) -> (res: Option<(usize, usize)>)
        requires self.wf(), r_valid(*range)
        ensures
            match res {
                Some((a, b)) => a <= b < self.0.len()
                    && (forall|k: int| 0 <= k < self.0.len() ==> (touches(#[trigger] self.0@[k], *range) <==> a <= k <= b)),
                None => forall|k: int| 0 <= k < self.0.len() ==> !touches(#[trigger] self.0@[k], *range),
            }
//@drop "let range = range.borrow();"
//@ascribe "let mut start_idx = None;" => "let mut start_idx: Option<usize> = None;"
//@ascribe "let mut end_idx = None;" => "let mut end_idx: Option<usize> = None;"
//@for 1
//@loop 1
            invariant_except_break
                match (start_idx, end_idx) {
                    (Some(a), Some(b)) => a <= b && b + 1 == __i1
                        && (forall|k: int| 0 <= k < __i1 ==> (touches(#[trigger] self.0@[k], *range) <==> a <= k <= b)),
                    _ => forall|k: int| 0 <= k < __i1 ==> !touches(#[trigger] self.0@[k], *range),
                },
            invariant
                __i1 <= self.0.len(),
                self.wf(), r_valid(*range),
                start_idx.is_some() == end_idx.is_some(),
            ensures
                start_idx.is_some() == end_idx.is_some(),
                match (start_idx, end_idx) {
                    (Some(a), Some(b)) => a <= b < self.0.len()
                        && (forall|k: int| 0 <= k < self.0.len() ==> (touches(#[trigger] self.0@[k], *range) <==> a <= k <= b)),
                    _ => forall|k: int| 0 <= k < self.0.len() ==> !touches(#[trigger] self.0@[k], *range),
                },
            decreases self.0.len() - __i1
//@hint before "// Ranges are sorted, we can skip checking the rest."
                proof { let b = end_idx.unwrap(); assert(touches(self.0@[b as int], *range)); }
//@end

//@fn impl BlockRanges :: insert_relaxed
//@props C17
    pub fn insert_relaxed(&mut self, range: &BlockRange) -> (res: Result<()>)
        requires old(self).wf(), !range@.exhausted
        ensures
            res.is_ok() == r_valid(*range),
            final(self).wf(),
            res.is_ok() ==> final(self)@ == old(self)@.union(r_set(*range)),
            res.is_err() ==> final(self).0@ == old(self).0@,
            res.is_err() ==> res->Err_0 == BlockRangesError::InvalidBlockRange(*range),
//@drop "let range = range.borrow();"
//@sub E9 "self.0.drain(start_idx..=end_idx);" => "vx_drain(&mut self.0, start_idx, end_idx);"
//@sub E9 "range.to_owned()" all => "vx_clone(range)"
//@hint after "self.0.insert(start_idx, start..=end);"
                proof {
                    let m = self.0@[start_idx as int];
                    assert(self.0@ =~= merged_seq(old(self).0@, start_idx as int, end_idx as int, m));
                    lemma_merge_wf(old(self).0@, start_idx as int, end_idx as int, *range, m);
                    assert forall|h: int| #![trigger seq_has(self.0@, h)] seq_has(self.0@, h) == (seq_has(old(self).0@, h) || r_has(*range, h)) by {
                        lemma_merge_has(old(self).0@, start_idx as int, end_idx as int, *range, m, h);
                    }
                    assert(self@ =~= old(self)@.union(r_set(*range)));
                }
//@for 1
//@loop 1
                    invariant
                        __i1 <= self.0.len(),
                        self.wf(), r_valid(*range),
                        self.0@ == old(self).0@,
                        forall|k: int| 0 <= k < self.0.len() ==> !touches(#[trigger] self.0@[k], *range),
                        forall|k: int| 0 <= k < __i1 ==> (#[trigger] self.0@[k])@.end < range@.start,
                    decreases self.0.len() - __i1
//@hint after "self.0.insert(i, range.to_owned());"
                        proof {
                            lemma_wf_insert(old(self).0@, i as int, *range);
                            assert forall|h: int| #![trigger seq_has(self.0@, h)] seq_has(self.0@, h) == (seq_has(old(self).0@, h) || r_has(*range, h)) by { lemma_has_insert(old(self).0@, i as int, *range, h); }
                            assert(self@ =~= old(self)@.union(r_set(*range)));
                        }
//@hint after "self.0.push(range.to_owned());"
                proof {
                    assert(old(self).0@.push(*range) =~= old(self).0@.insert(old(self).0@.len() as int, *range));
                    lemma_wf_insert(old(self).0@, old(self).0@.len() as int, *range);
                    assert forall|h: int| #![trigger seq_has(self.0@, h)] seq_has(self.0@, h) == (seq_has(old(self).0@, h) || r_has(*range, h)) by { lemma_has_push(old(self).0@, *range, h); }
                    assert(self@ =~= old(self)@.union(r_set(*range)));
                }
//@end

//@fn impl BlockRanges :: remove_relaxed
//@props C17
    pub fn remove_relaxed(&mut self, range: &BlockRange) -> (res: Result<()>)
        requires old(self).wf(), !range@.exhausted
        ensures
            res.is_ok() == r_valid(*range),
            final(self).wf(),
            res.is_ok() ==> final(self)@ == old(self)@.difference(r_set(*range)),
            res.is_err() ==> final(self).0@ == old(self).0@,
//@drop "let range = range.borrow();"
//@hint before "// Nothing to remove"
            proof { assert(self@ =~= old(self)@.difference(r_set(*range))); }
//@sub E9 "self .0 .drain(start_idx..=end_idx) .collect::<SmallVec<[_; 2]>>();" => "vx_drain(&mut self.0, start_idx, end_idx);"
//@hint before "if range.end() < last_range.end()"
        proof {
            assert(touches(old(self).0@[start_idx as int], *range));
            assert(touches(old(self).0@[end_idx as int], *range));
        }
//@hint before "if first_range.start()"
        let ghost t1 = self.0@;
//@hint before "Ok(())" 2
        proof {
            lemma_remove_wf(old(self).0@, start_idx as int, end_idx as int, *range, t1, self.0@);
            assert forall|h: int| #![trigger seq_has(self.0@, h)] seq_has(self.0@, h) == (seq_has(old(self).0@, h) && !r_has(*range, h)) by {
                lemma_remove_has(old(self).0@, start_idx as int, end_idx as int, *range, t1, self.0@, h);
            }
            assert(self@ =~= old(self)@.difference(r_set(*range)));
        }
//@end

//@fn impl BlockRanges :: check_insertion_constraints
//@props C18
    pub fn check_insertion_constraints(&self, to_insert: &BlockRange) -> (res: Result<(bool, bool)>)
        requires self.wf(), !to_insert@.exhausted
        ensures
            res.is_ok() <==> {
                &&& r_valid(*to_insert)
                &&& self@.disjoint(r_set(*to_insert))
                &&& (self.0@.len() == 0
                     || self.0@[self.0@.len() - 1]@.end < to_insert@.start
                     || self@.contains(to_insert@.start - 1)
                     || self@.contains(to_insert@.end + 1))
            },
            res.is_ok() ==> (res.unwrap().0 <==> self@.contains(to_insert@.start - 1)),
            res.is_ok() ==> (res.unwrap().1 <==> self@.contains(to_insert@.end + 1)),
            res.is_err() && !r_valid(*to_insert) ==> res->Err_0 is InvalidBlockRange,
            res.is_err() && r_valid(*to_insert) && !self@.disjoint(r_set(*to_insert)) ==> res->Err_0 is BlockRangeOverlap,
            res.is_err() && r_valid(*to_insert) && self@.disjoint(r_set(*to_insert)) ==> res->Err_0 is NoAdjacentNeighbors,
//@drop "let to_insert = to_insert.borrow();"
//@sub E9 "to_insert.to_owned()" all => "vx_clone(to_insert)"
//@hint before "// Allow insersion on empty store."
            proof { assert(self@.disjoint(r_set(*to_insert))); }
//@hint before "return Ok((prev_exists, false));"
            proof { lemma_cic_head(self.0@, *to_insert); }
//@hint before "return Err(BlockRangesError::NoAdjacentNeighbors(to_insert.to_owned()));"
            proof { lemma_cic_none(self.0@, *to_insert); }
//@hint after "let num_of_ranges = last_idx - first_idx + 1;"
        proof { lemma_cic_some(self.0@, *to_insert, first_idx as int, last_idx as int); }
//@end

//@fn impl BlockRanges :: len
//@props C17
    pub fn len(&self) -> (n: u64)
        requires self.wf()
        ensures n == seq_len(self.0@), self@.finite(), n == self@.len()
//@sub E8 "self.0.iter().map(|r| r.len()).sum()"
        let mut __acc: u64 = 0;
        let mut __i: usize = 0;
        while __i < self.0.len()
            invariant
                __i <= self.0.len(), self.wf(),
                __acc == seq_len(self.0@.subrange(0, __i as int)),
            decreases self.0.len() - __i
        {
            let r = &self.0[__i];
            proof {
                lemma_seq_len_prefix(self.0@, __i as int);
                let pre = self.0@.subrange(0, __i as int + 1);
                assert forall|i: int| 0 <= i < pre.len() implies r_valid(#[trigger] pre[i]) by { assert(pre[i] == self.0@[i]); }
                assert forall|i: int, j: int| 0 <= i < j < pre.len() implies (#[trigger] pre[i])@.end + 1 < (#[trigger] pre[j])@.start by { assert(pre[i] == self.0@[i]); assert(pre[j] == self.0@[j]); }
                lemma_seq_len_bound(pre);
                assert(pre.last() == self.0@[__i as int]);
            }
            __i += 1;
            __acc += r.len();
        }
        proof { assert(self.0@.subrange(0, self.0@.len() as int) =~= self.0@); lemma_seq_len_card(self.0@); }
        __acc
//@end


//@fn impl BlockRanges :: from_vec
//@props C17
    pub fn from_vec(ranges: Vec<BlockRange>) -> (res: Result<Self>)
        requires forall|i: int| 0 <= i < ranges@.len() ==> !(#[trigger] ranges@[i])@.exhausted
        ensures
            res.is_ok() ==> res.unwrap().0@ == ranges@ && res.unwrap().wf_weak(),
            res.is_ok() <==> wf_weak_seq(ranges@),
//@for 1
//@loop 1
            invariant
                __i1 <= ranges.len(),
                forall|i: int| 0 <= i < ranges@.len() ==> !(#[trigger] ranges@[i])@.exhausted,
                wf_weak_seq(ranges@.subrange(0, __i1 as int)),
                match prev { Some(p) => __i1 > 0 && *p == ranges@[__i1 - 1], None => __i1 == 0 },
            decreases ranges.len() - __i1
//@closure "|prev|" => "|prev: &BlockRange| -> (b: bool) ensures b == (range@.start <= prev@.end)"
//@hint before "return Err(BlockRangesError::UnsortedBlockRanges);"
                proof {
                    assert(!wf_weak_seq(ranges@)) by {
                        if wf_weak_seq(ranges@) { assert(ranges@[__i1 - 2]@.end < ranges@[__i1 - 1]@.start); }
                    }
                }
//@hint after "prev = Some(range);"
            proof {
                let a = ranges@.subrange(0, __i1 as int);
                let b = ranges@.subrange(0, __i1 as int - 1);
                assert forall|i: int| 0 <= i < a.len() implies r_valid(#[trigger] a[i]) by {
                    if i < b.len() { assert(a[i] == b[i]); }
                }
                assert forall|i: int, j: int| 0 <= i < j < a.len() implies (#[trigger] a[i])@.end < (#[trigger] a[j])@.start by {
                    if j < b.len() { assert(a[i] == b[i]); assert(a[j] == b[j]); }
                    else if i == j - 1 { }
                    else { assert(a[i] == b[i]); assert(a[j - 1] == b[j - 1]); assert(b[i]@.end < b[j - 1]@.start); }
                }
            }
//@hint before "Ok(BlockRanges(ranges))"
        proof { assert(ranges@.subrange(0, ranges@.len() as int) =~= ranges@); }
//@end

//@fn impl BlockRanges :: contains
//@props C17
    pub fn contains(&self, height: u64) -> (b: bool)
        requires self.wf()
        ensures b == self@.contains(height as int)
//@sub E8 "self.0.iter().any(|r| r.contains(&height))"
        {
            let mut __i: usize = 0;
            let mut __found = false;
            while __i < self.0.len()
                invariant __i <= self.0.len(), !__found, self.wf(),
                    forall|k: int| 0 <= k < __i ==> !r_has(#[trigger] self.0@[k], height as int),
                decreases self.0.len() - __i
            {
                let r = &self.0[__i];
                __i += 1;
                if r.contains(&height) { proof { assert(r_has(self.0@[__i - 1], height as int)); } return true; }
            }
            false
        }
//@end


//@fn impl BlockRanges :: is_empty
//@props C17
    pub fn is_empty(&self) -> (b: bool)
        requires self.wf()
        ensures b == (self@ =~= ISet::<int>::empty()), b == (self.0@.len() == 0)
//@sub E8 "self.0.iter().all(|r| r.is_empty())"
        {
            let mut __i: usize = 0;
            while __i < self.0.len()
                invariant __i <= self.0.len(), self.wf(), __i == 0,
                decreases self.0.len() - __i
            {
                let r = &self.0[__i];
                __i += 1;
                if !(r.is_empty()) {
                    proof { assert(r_has(self.0@[0], self.0@[0]@.start as int)); assert(self@.contains(self.0@[0]@.start as int)); }
                    return false;
                }
                proof { assert(r_valid(self.0@[0])); }
            }
            true
        }
//@end

//@fn impl BlockRanges :: head
//@props C17
    pub fn head(&self) -> (res: Option<u64>)
        requires self.wf()
        ensures match res {
            Some(h) => self@.contains(h as int) && (forall|x: int| self@.contains(x) ==> x <= h) && self.0@.len() > 0 && h == self.0@.last()@.end,
            None => self.0@.len() == 0 && self@ =~= ISet::<int>::empty(),
        }
//@hint entry
        proof { lemma_head_max(self.0@); }
//@sub E15 "|r| *r.end()" => "|r: &BlockRange| -> (o: u64) ensures o == r@.end { *r.end() }"
//@end

//@fn impl BlockRanges :: tail
//@props C17
    pub fn tail(&self) -> (res: Option<u64>)
        requires self.wf()
        ensures match res {
            Some(h) => self@.contains(h as int) && (forall|x: int| self@.contains(x) ==> x >= h) && self.0@.len() > 0 && h == self.0@[0]@.start,
            None => self.0@.len() == 0 && self@ =~= ISet::<int>::empty(),
        }
//@hint entry
        proof { lemma_tail_min(self.0@); }
//@sub E15 "|r| *r.start()" => "|r: &BlockRange| -> (o: u64) ensures o == r@.start { *r.start() }"
//@end


//@fn impl BlockRanges :: pop_head
//@props C17
    pub fn pop_head(&mut self) -> (res: Option<u64>)
        requires old(self).wf()
        ensures
            final(self).wf(),
            match res {
                Some(h) => old(self)@.contains(h as int) && (forall|x: int| old(self)@.contains(x) ==> x <= h)
                    && final(self)@ == old(self)@.remove(h as int),
                None => old(self).0@.len() == 0 && final(self).0@ == old(self).0@,
            }
//@hint entry
        proof { lemma_head_max(self.0@); }
//@hint before "Some(head)"
        proof { lemma_pop_head(old(self).0@, self.0@); assert(self@ =~= old(self)@.remove(head as int)); }
//@end

//@fn impl BlockRanges :: pop_tail
//@props C17
    pub fn pop_tail(&mut self) -> (res: Option<u64>)
        requires old(self).wf()
        ensures
            final(self).wf(),
            match res {
                Some(h) => old(self)@.contains(h as int) && (forall|x: int| old(self)@.contains(x) ==> x >= h)
                    && final(self)@ == old(self)@.remove(h as int),
                None => old(self).0@.len() == 0 && final(self).0@ == old(self).0@,
            }
//@hint entry
        proof { lemma_tail_min(self.0@); }
//@hint before "Some(tail)"
        proof { lemma_pop_tail(old(self).0@, self.0@); assert(self@ =~= old(self)@.remove(tail as int)); }
//@end


//@fn impl BlockRanges :: left_of
//@props C17
    pub fn left_of(&self, height: u64) -> (res: Option<u64>)
        requires self.wf(), height > 0
        ensures match res {
            Some(p) => self@.contains(p as int) && p < height && (forall|x: int| self@.contains(x) && x < height ==> x <= p),
            None => forall|x: int| self@.contains(x) ==> x >= height,
        }
//@for 1
//@loop 1
            invariant
                __i1 <= self.0.len(), self.wf(), height > 0,
                forall|k: int| __i1 <= k < self.0.len() ==> (#[trigger] self.0@[k])@.start >= height,
            decreases __i1
//@hint before "return Some(*r.end());"
                proof {
                    assert(r_has(self.0@[__i1 as int], r@.end as int));
                    assert forall|x: int| self@.contains(x) && x < height implies x <= r@.end by {
                        let k = choose|k: int| 0 <= k < self.0@.len() && r_has(#[trigger] self.0@[k], x);
                        if k < __i1 { assert(self.0@[k]@.end + 1 < self.0@[__i1 as int]@.start); }
                    }
                }
//@hint before "return Some(height - 1);"
                proof {
                    assert(r_has(self.0@[__i1 as int], height - 1));
                }
//@hint before "None"
        proof {
            assert forall|x: int| self@.contains(x) implies x >= height by {
                let k = choose|k: int| 0 <= k < self.0@.len() && r_has(#[trigger] self.0@[k], x);
            }
        }
//@end

//@fn impl BlockRanges :: right_of
//@props C17
    pub fn right_of(&self, height: u64) -> (res: Option<u64>)
        requires self.wf(), height > 0
        ensures match res {
            Some(p) => self@.contains(p as int) && p > height && (forall|x: int| self@.contains(x) && x > height ==> x >= p),
            None => forall|x: int| self@.contains(x) ==> x <= height,
        }
//@for 1
//@loop 1
            invariant
                __i1 <= self.0.len(), self.wf(), height > 0,
                forall|k: int| 0 <= k < __i1 ==> (#[trigger] self.0@[k])@.end <= height,
            decreases self.0.len() - __i1
//@hint before "return Some(*r.start());"
                proof {
                    let i = __i1 - 1;
                    assert(r_has(self.0@[i], r@.start as int));
                    assert forall|x: int| self@.contains(x) && x > height implies x >= r@.start by {
                        let k = choose|k: int| 0 <= k < self.0@.len() && r_has(#[trigger] self.0@[k], x);
                        if k > i { assert(self.0@[i]@.end + 1 < self.0@[k]@.start); }
                    }
                }
//@hint before "return Some(height + 1);"
                proof {
                    assert(r_has(self.0@[__i1 - 1], height + 1));
                }
//@hint before "None"
        proof {
            assert forall|x: int| self@.contains(x) implies x <= height by {
                let k = choose|k: int| 0 <= k < self.0@.len() && r_has(#[trigger] self.0@[k], x);
            }
        }
//@end


    // derive(Clone)
    #[verifier::external_body]
    pub fn clone(&self) -> (r: BlockRanges)
        ensures r.0@ == self.0@
    { BlockRanges(self.0.clone()) }

    // ---- operator impls: emitted as inherent methods (same bodies); `a + &b` at call sites is desugared to `a.add(&b)` (rule E9-op) ----
//@fn impl AddAssign<&BlockRanges> for BlockRanges :: add_assign
//@props C17
    pub fn add_assign(&mut self, rhs: &BlockRanges)
        requires old(self).wf(), rhs.wf()
        ensures final(self).wf(), final(self)@ == old(self)@.union(rhs@)
//@for 1
//@loop 1
            invariant
                __i1 <= rhs.0.len(), self.wf(), rhs.wf(),
                self@ == old(self)@.union(ISet::new(|h: int| seq_has(rhs.0@.subrange(0, __i1 as int), h))),
            decreases rhs.0.len() - __i1
//@hint after ".expect(\"BlockRanges always holds valid ranges\");"
            proof {
                let pre = rhs.0@.subrange(0, __i1 as int - 1);
                let cur = rhs.0@.subrange(0, __i1 as int);
                assert(cur =~= pre.push(rhs.0@[__i1 - 1]));
                assert forall|h: int| seq_has(cur, h) == (seq_has(pre, h) || r_has(rhs.0@[__i1 - 1], h)) by { lemma_has_push(pre, rhs.0@[__i1 - 1], h); }
                assert(self@ =~= old(self)@.union(ISet::new(|h: int| seq_has(cur, h))));
            }
//@hint exit
        proof {
            assert(rhs.0@.subrange(0, rhs.0@.len() as int) =~= rhs.0@);
            assert(self@ =~= old(self)@.union(rhs@));
        }
//@hint entry
        proof { assert(self@ =~= old(self)@.union(ISet::new(|h: int| seq_has(rhs.0@.subrange(0, 0), h)))); }
//@end

//@fn impl Add<&BlockRanges> for BlockRanges :: add
//@props C17
//@mutself
    pub fn add(self, rhs: &BlockRanges) -> (r: BlockRanges)
        requires self.wf(), rhs.wf()
        ensures r.wf(), r@ == self@.union(rhs@)
//@end

//@fn impl SubAssign<&BlockRanges> for BlockRanges :: sub_assign
//@props C17
    pub fn sub_assign(&mut self, rhs: &BlockRanges)
        requires old(self).wf(), rhs.wf()
        ensures final(self).wf(), final(self)@ == old(self)@.difference(rhs@)
//@for 1
//@loop 1
            invariant
                __i1 <= rhs.0.len(), self.wf(), rhs.wf(),
                self@ == old(self)@.difference(ISet::new(|h: int| seq_has(rhs.0@.subrange(0, __i1 as int), h))),
            decreases rhs.0.len() - __i1
//@hint after ".expect(\"BlockRanges always holds valid ranges\");"
            proof {
                let pre = rhs.0@.subrange(0, __i1 as int - 1);
                let cur = rhs.0@.subrange(0, __i1 as int);
                assert(cur =~= pre.push(rhs.0@[__i1 - 1]));
                assert forall|h: int| seq_has(cur, h) == (seq_has(pre, h) || r_has(rhs.0@[__i1 - 1], h)) by { lemma_has_push(pre, rhs.0@[__i1 - 1], h); }
                assert(self@ =~= old(self)@.difference(ISet::new(|h: int| seq_has(cur, h))));
            }
//@hint exit
        proof {
            assert(rhs.0@.subrange(0, rhs.0@.len() as int) =~= rhs.0@);
            assert(self@ =~= old(self)@.difference(rhs@));
        }
//@hint entry
        proof { assert(self@ =~= old(self)@.difference(ISet::new(|h: int| seq_has(rhs.0@.subrange(0, 0), h)))); }
//@end

//@fn impl Sub<&BlockRanges> for BlockRanges :: sub
//@props C17
//@mutself
    pub fn sub(self, rhs: &BlockRanges) -> (r: BlockRanges)
        requires self.wf(), rhs.wf()
        ensures r.wf(), r@ == self@.difference(rhs@)
//@end

//@fn impl Sub for BlockRanges :: sub
//@props C17
//@mutself
    pub fn sub__val(self, rhs: BlockRanges) -> (r: BlockRanges)
        requires self.wf(), rhs.wf()
        ensures r.wf(), r@ == self@.difference(rhs@)
//@end

//@fn impl Not for BlockRanges :: not
//@props C17
    pub fn not(self) -> (r: BlockRanges)
        requires self.wf()
        ensures r.wf(), r@ == ISet::new(|h: int| 1 <= h <= u64::MAX).difference(self@)
//@ascribe "let mut inverse = BlockRanges::new();" => "let mut inverse = BlockRanges::new(); let ghost full = ISet::new(|h: int| 1 <= h <= u64::MAX);"
//@sub E1 "inverse.insert_relaxed(1..=u64::MAX)" => "inverse.insert_relaxed(&(1..=u64::MAX))"
//@hint before "// And remove whatever we have"
        proof { assert(inverse@ =~= full); assert(inverse@ =~= full.difference(ISet::new(|h: int| seq_has(self.0@.subrange(0, 0), h)))); }
//@for 1
//@loop 1
            invariant
                __i1 <= self.0.len(), self.wf(), inverse.wf(),
                full == ISet::new(|h: int| 1 <= h <= u64::MAX),
                inverse@ == full.difference(ISet::new(|h: int| seq_has(self.0@.subrange(0, __i1 as int), h))),
            decreases self.0.len() - __i1
//@hint after ".expect(\"BlockRanges always holds valid ranges\");"
            proof {
                let pre = self.0@.subrange(0, __i1 as int - 1);
                let cur = self.0@.subrange(0, __i1 as int);
                assert(cur =~= pre.push(self.0@[__i1 - 1]));
                assert forall|h: int| seq_has(cur, h) == (seq_has(pre, h) || r_has(self.0@[__i1 - 1], h)) by { lemma_has_push(pre, self.0@[__i1 - 1], h); }
                assert(inverse@ =~= full.difference(ISet::new(|h: int| seq_has(cur, h))));
            }
//@hint before "inverse" last
        proof {
            assert(self.0@.subrange(0, self.0@.len() as int) =~= self.0@);
            assert(inverse@ =~= full.difference(self@));
        }
//@end


//@fn impl BitOr for BlockRanges :: bitor
//@props C17
//@mutself
    pub fn bitor(self, rhs: BlockRanges) -> (r: BlockRanges)
        requires self.wf(), rhs.wf()
        ensures r.wf(), r@ == self@.union(rhs@)
//@end

//@fn impl BitAndAssign<&BlockRanges> for BlockRanges :: bitand_assign
//@props C17
    pub fn bitand_assign(&mut self, rhs: &BlockRanges)
        requires old(self).wf(), rhs.wf()
        ensures final(self).wf(), final(self)@ == old(self)@.intersect(rhs@)
//@sub E9-op "*self = !(!self.clone() | !rhs.clone());" => "*self = self.clone().not().bitor(rhs.clone().not()).not();"
//@hint exit
        proof {
            lemma_view_bounds(old(self).0@);
            lemma_view_bounds(rhs.0@);
            assert(self@ =~= old(self)@.intersect(rhs@));
        }
//@end

//@fn impl BitAnd<&BlockRanges> for BlockRanges :: bitand
//@props C17
//@mutself
    pub fn bitand(self, rhs: &BlockRanges) -> (r: BlockRanges)
        requires self.wf(), rhs.wf()
        ensures r.wf(), r@ == self@.intersect(rhs@)
//@end


//@fn impl BlockRanges :: edges
//@props C17
    pub fn edges(&self) -> (r: BlockRanges)
        requires self.wf()
        ensures r.wf(), r@ == ISet::new(|h: int| edge_has(self.0@, h))
//@sub E1 "edges .insert_relaxed(start..=start)" => "edges .insert_relaxed(&(start..=start))"
//@sub E1 "edges .insert_relaxed(end..=end)" => "edges .insert_relaxed(&(end..=end))"
//@hint before "for range in self.0.iter() {"
        proof { assert(edges@ =~= ISet::new(|h: int| edge_has(self.0@.subrange(0, 0), h))); }
//@for 1
//@loop 1
            invariant
                __i1 <= self.0.len(), self.wf(), edges.wf(),
                edges@ == ISet::new(|h: int| edge_has(self.0@.subrange(0, __i1 as int), h)),
            decreases self.0.len() - __i1
//@hint after ".expect(\"BlockRanges always holds valid ranges\");" 2
            proof {
                let pre = self.0@.subrange(0, __i1 as int - 1);
                let cur = self.0@.subrange(0, __i1 as int);
                let x = self.0@[__i1 - 1];
                assert(cur =~= pre.push(x));
                assert forall|h: int| edge_has(cur, h) == (edge_has(pre, h) || h == x@.start || h == x@.end) by {
                    if edge_has(pre, h) {
                        let k = choose|k: int| 0 <= k < pre.len() && ((#[trigger] pre[k])@.start == h || pre[k]@.end == h);
                        assert(cur[k] == pre[k]);
                    }
                    if h == x@.start || h == x@.end { assert(cur[pre.len() as int] == x); }
                    if edge_has(cur, h) {
                        let k = choose|k: int| 0 <= k < cur.len() && ((#[trigger] cur[k])@.start == h || cur[k]@.end == h);
                        if k < pre.len() { assert(cur[k] == pre[k]); }
                    }
                }
                assert(edges@ =~= ISet::new(|h: int| edge_has(cur, h)));
            }
//@hint before "edges" last
        proof { assert(self.0@.subrange(0, self.0@.len() as int) =~= self.0@); }
//@end


//@fn impl BlockRanges :: headn
//@props C17
    pub fn headn(&self, limit: u64) -> (r: BlockRanges)
        requires self.wf()
        ensures
            r.wf(), r@.subset_of(self@),
            forall|x: int, y: int| r@.contains(x) && self@.contains(y) && !r@.contains(y) ==> y < x,
            r@.finite(), self@.finite(),
            r@.len() == (if self@.len() <= limit { self@.len() } else { limit as nat }),
//@ascribe "let mut len = 0;" => "let mut len: u64 = 0; let ghost n = self.0@.len() as int; let ghost mut g: int = n;"
//@sub E1 ".insert_relaxed(r)" => ".insert_relaxed(&r)"
//@hint before "for range in self.0.iter().rev() {"
        proof {
            broadcast use vstd::iset::group_iset_lemmas;
            assert(truncated@ =~= seq_view(self.0@.subrange(n, n)));
            lemma_seq_len_card(truncated.0@);
        }
//@for 1
//@loop 1
            invariant_except_break
                g == __i1,
            invariant
                __i1 <= self.0.len(), self.wf(), truncated.wf(), n == self.0@.len(),
                0 <= g <= n,
                len <= limit,
                truncated@.finite(), truncated@.len() == len,
                truncated@.subset_of(seq_view(self.0@.subrange(g, n))),
                len < limit ==> truncated@ == seq_view(self.0@.subrange(g, n)),
                forall|x: int, y: int| truncated@.contains(x) && seq_has(self.0@.subrange(g, n), y) && !truncated@.contains(y) ==> y < x,
            ensures g == 0 || len == limit
            decreases __i1
//@hint before "let r = range.headn(limit - len);"
            let ghost t0 = truncated@; let ghost len0 = len;
//@hint after ".expect(\"BlockRanges always holds valid ranges\");"
            proof {
                lemma_headn_step(self.0@, __i1 as int, t0, truncated@, r, len0 as int, limit as int);
            }
//@hint after "debug_assert!(len <= limit);"
            proof { g = __i1 as int; }
//@hint before "truncated" last
        proof {
            broadcast use vstd::iset::group_iset_lemmas;
            lemma_seq_len_card(self.0@);
            lemma_headn_final(self.0@, g, truncated@, len as int, limit as int);
        }
//@end


//@fn impl BlockRanges :: tailn
//@props C17
    pub fn tailn(&self, limit: u64) -> (r: BlockRanges)
        requires self.wf()
        ensures
            r.wf(), r@.subset_of(self@),
            forall|x: int, y: int| r@.contains(x) && self@.contains(y) && !r@.contains(y) ==> y > x,
            r@.finite(), self@.finite(),
            r@.len() == (if self@.len() <= limit { self@.len() } else { limit as nat }),
//@ascribe "let mut len = 0;" => "let mut len: u64 = 0; let ghost n = self.0@.len() as int; let ghost mut g: int = 0;"
//@sub E1 ".insert_relaxed(r)" => ".insert_relaxed(&r)"
//@hint before "for range in self.0.iter() {"
        proof {
            broadcast use vstd::iset::group_iset_lemmas;
            assert(truncated@ =~= seq_view(self.0@.subrange(0, 0)));
            lemma_seq_len_card(truncated.0@);
        }
//@for 1
//@loop 1
            invariant_except_break
                g == __i1,
            invariant
                __i1 <= self.0.len(), self.wf(), truncated.wf(), n == self.0@.len(),
                0 <= g <= n,
                len <= limit,
                truncated@.finite(), truncated@.len() == len,
                truncated@.subset_of(seq_view(self.0@.subrange(0, g))),
                len < limit ==> truncated@ == seq_view(self.0@.subrange(0, g)),
                forall|x: int, y: int| truncated@.contains(x) && seq_has(self.0@.subrange(0, g), y) && !truncated@.contains(y) ==> y > x,
            ensures g == n || len == limit
            decreases self.0.len() - __i1
//@hint before "let r = range.tailn(limit - len);"
            let ghost t0 = truncated@; let ghost len0 = len;
//@hint after ".expect(\"BlockRanges always holds valid ranges\");"
            proof {
                lemma_tailn_step(self.0@, __i1 as int - 1, t0, truncated@, r, len0 as int, limit as int);
            }
//@hint after "debug_assert!(len <= limit);"
            proof { g = __i1 as int; }
//@hint before "truncated" last
        proof {
            broadcast use vstd::iset::group_iset_lemmas;
            lemma_seq_len_card(self.0@);
            lemma_tailn_final(self.0@, g, truncated@, len as int, limit as int);
        }
//@end

//@fn impl BlockRanges :: partitions
//@props C17 C36
    pub(crate) fn partitions(&self) -> (res: Option<(BlockRanges, u64, BlockRanges)>)
        requires self.wf()
        ensures match res {
            None => self.0@.len() == 0,
            Some((l, m, r)) => l.wf() && r.wf() && part_ok(self@, l@, m as int, r@),
        }
//@ascribe "let mut left_len = 0;" => "let mut left_len: u64 = 0;"
//@hint after "let len = self.len();"
        proof { lemma_seq_len_bound(self.0@); }
//@sub E9 "range.to_owned()" all => "vx_clone(range)"
//@refarg insert_relaxed
//@hint before "for range in self.0.iter() {"
        proof {
            broadcast use vstd::iset::group_iset_lemmas;
            assert(left@ =~= ISet::<int>::empty());
            assert(right@ =~= ISet::<int>::empty());
            assert(left@.union(right@) =~= seq_view(self.0@.subrange(0, 0)));
            lemma_seq_len_bound(self.0@);
        }
//@for 1
//@loop 1
            invariant
                __i1 <= self.0.len(), self.wf(), left.wf(), right.wf(),
                len == seq_len(self.0@), len > 0, middle == len / 2,
                part_inv(self.0@, __i1 as int, left@, right@, left_len as int, middle as int),
                left_len <= middle + 1,
            decreases self.0.len() - __i1
//@hint before "let range_len = range.len();"
            proof {
                lemma_wf_prefix(self.0@, __i1 as int);
                lemma_seq_len_bound(self.0@.subrange(0, __i1 as int));
                lemma_seq_len_prefix(self.0@, __i1 as int - 1);
                lemma_seq_len_rest(self.0@, __i1 as int - 1);
                lemma_seq_len_bound(self.0@);
                assert(r_valid(self.0@[__i1 as int - 1]));
                assert(self.0@.subrange(0, __i1 as int).last() == self.0@[__i1 as int - 1]);
            }
            let ghost l0 = left@; let ghost r0 = right@; let ghost ll0 = left_len as int;
//@hint after "left_len += range_len;"
                proof { lemma_part_step(self.0@, __i1 as int - 1, l0, r0, ll0, middle as int, true); }
//@hint before "left_len += left_range.len();"
                proof { assert(r_set(left_range) =~= iv(start as int, left_end as int)); }
//@hint before "} else {" 1
                proof {
                    broadcast use vstd::iset::group_iset_lemmas;
                    assert(left@ =~= l0.union(iv(start as int, left_end as int)));
                    if left_end < end { assert(right@ =~= r0.union(iv(left_end + 1, end as int))); }
                    lemma_part_split(self.0@, __i1 as int - 1, l0, r0, ll0, middle as int, left_end as int, left@, right@);
                }
//@hint after ".expect(\"BlockRanges always holds valid ranges\");" last
                proof { lemma_part_step(self.0@, __i1 as int - 1, l0, r0, ll0, middle as int, false); }
//@hint before "let middle_height = if left_len < right.len() {"
        let ghost lf = left@; let ghost rf = right@;
        proof {
            broadcast use vstd::iset::group_iset_lemmas;
            assert(self.0@.subrange(0, self.0@.len() as int) =~= self.0@);
            lemma_seq_len_card(right.0@);
            lemma_seq_len_card(left.0@);
        }
//@hint before "Some((left, middle_height, right))"
        proof {
            lemma_part_final(self.0@, lf, rf, left_len as int, middle as int, left@, right@, middle_height as int, left_len < rf.len());
        }
//@end

//@fn impl TryFrom<RangeInclusive<u64>> for BlockRanges :: try_from
//@props C17
    pub fn try_from__range(value: BlockRange) -> (res: Result<BlockRanges>)
        requires !value@.exhausted
        ensures
            res.is_ok() == r_valid(value),
            res.is_ok() ==> res.unwrap().wf() && res.unwrap()@ == r_set(value),
//@sub E1 "ranges.insert_relaxed(value)?" => "ranges.insert_relaxed(&value)?"
//@hint before "Ok(ranges)"
        proof { assert(ranges@ =~= r_set(value)); }
//@end

} // impl BlockRanges
//@end-export

} // verus!
fn main() {}
