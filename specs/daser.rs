//@unit daser
//@serves C33 C34 C35
use vstd::prelude::*;
use std::ops::RangeInclusive;
verus! {
//@include range
//@src node/src/daser.rs

// ---------------------------------------------------------------------------
// stubs of the surrounding system (E9): errors, time, store, p2p, events
// ---------------------------------------------------------------------------
#[derive(Debug)]
pub enum StoreError { NotFound, Other }
#[derive(Debug)]
pub enum P2pError { RequestTimedOut, Other }
#[derive(Debug)]
pub enum DaserError { P2p(P2pError), Store(StoreError), WorkerDied, ChannelClosedUnexpectedly }
impl vstd::std_specs::convert::FromSpecImpl<StoreError> for DaserError {
    open spec fn obeys_from_spec() -> bool { true }
    open spec fn from_spec(e: StoreError) -> DaserError { DaserError::Store(e) }
}
impl From<StoreError> for DaserError { fn from(e: StoreError) -> DaserError { DaserError::Store(e) } }
impl vstd::std_specs::convert::FromSpecImpl<P2pError> for DaserError {
    open spec fn obeys_from_spec() -> bool { true }
    open spec fn from_spec(e: P2pError) -> DaserError { DaserError::P2p(e) }
}
impl From<P2pError> for DaserError { fn from(e: P2pError) -> DaserError { DaserError::P2p(e) } }
type DResult<T, E = DaserError> = std::result::Result<T, E>;

// header time of the chain's header at a height; the wall clock read by one call (A-clock: read once per call)
pub uninterp spec fn time_of(h: int) -> int;
pub uninterp spec fn clock() -> int;

#[derive(Clone, Copy, Debug)]
pub struct Duration { pub d: u64 }
impl Duration {
    // std::cmp::Ord::max / min on Duration (A-std)
    #[verifier::external_body]
    pub fn max(self, o: Duration) -> (r: Duration) ensures r.d == (if self.d >= o.d { self.d } else { o.d }) { unimplemented!() }
    #[verifier::external_body]
    pub fn min(self, o: Duration) -> (r: Duration) ensures r.d == (if self.d <= o.d { self.d } else { o.d }) { unimplemented!() }
}
impl PartialEq for Duration { fn eq(&self, o: &Duration) -> (b: bool) ensures b == (self.d == o.d) { self.d == o.d } }
impl vstd::std_specs::cmp::PartialEqSpecImpl for Duration {
    open spec fn obeys_eq_spec() -> bool { true }
    open spec fn eq_spec(&self, o: &Duration) -> bool { self.d == o.d }
}
impl vstd::std_specs::cmp::PartialOrdSpecImpl for Duration {
    open spec fn obeys_partial_cmp_spec() -> bool { true }
    open spec fn partial_cmp_spec(&self, o: &Duration) -> Option<std::cmp::Ordering> {
        if self.d < o.d { Some(std::cmp::Ordering::Less) } else if self.d == o.d { Some(std::cmp::Ordering::Equal) } else { Some(std::cmp::Ordering::Greater) }
    }
}
impl PartialOrd for Duration {
    fn partial_cmp(&self, o: &Duration) -> (r: Option<std::cmp::Ordering>) {
        if self.d < o.d { Some(std::cmp::Ordering::Less) } else if self.d == o.d { Some(std::cmp::Ordering::Equal) } else { Some(std::cmp::Ordering::Greater) }
    }
}
// tendermint::Time: a totally ordered instant; `a < b` is PartialOrd::lt
#[derive(Clone, Copy, Debug)]
pub struct Time { pub t: u64 }
impl PartialEq for Time { fn eq(&self, o: &Time) -> (b: bool) ensures b == (self.t == o.t) { self.t == o.t } }
impl vstd::std_specs::cmp::PartialEqSpecImpl for Time {
    open spec fn obeys_eq_spec() -> bool { true }
    open spec fn eq_spec(&self, o: &Time) -> bool { self.t == o.t }
}
impl vstd::std_specs::cmp::PartialOrdSpecImpl for Time {
    open spec fn obeys_partial_cmp_spec() -> bool { true }
    open spec fn partial_cmp_spec(&self, o: &Time) -> Option<std::cmp::Ordering> {
        if self.t < o.t { Some(std::cmp::Ordering::Less) } else if self.t == o.t { Some(std::cmp::Ordering::Equal) } else { Some(std::cmp::Ordering::Greater) }
    }
}
impl PartialOrd for Time {
    fn partial_cmp(&self, o: &Time) -> (r: Option<std::cmp::Ordering>) {
        if self.t < o.t { Some(std::cmp::Ordering::Less) } else if self.t == o.t { Some(std::cmp::Ordering::Equal) } else { Some(std::cmp::Ordering::Greater) }
    }
}
#[derive(Debug)]
pub struct TimeError {}
impl Time {
    #[verifier::external_body]
    pub fn now() -> (r: Time) ensures r.t == clock() { unimplemented!() }
    // tendermint::Time::duration_since: the elapsed time, an error if `earlier` is later than self
    #[verifier::external_body]
    pub fn duration_since(self, earlier: Time) -> (r: Result<Duration, TimeError>)
        ensures r.is_ok() == (earlier.t <= self.t), r.is_ok() ==> r.unwrap().d == self.t - earlier.t
    { unimplemented!() }
}
pub struct ExtendedHeader { pub h: u64, pub t: Time, pub w: u16 }
impl ExtendedHeader {
    #[verifier::external_body]
    pub fn height(&self) -> (r: u64) ensures r == self.h { unimplemented!() }
    #[verifier::external_body]
    pub fn time(&self) -> (r: Time) ensures r == self.t { unimplemented!() }
    #[verifier::external_body]
    pub fn square_width(&self) -> (r: u16) ensures r == self.w { unimplemented!() }
}

// everything the daser does to the outside, in order (ghost, E13)
pub struct Log {
    // height -> the (row, column) pairs whose CIDs were written to the height's sampling metadata
    pub recorded: Map<int, Set<(u16, u16)>>,
    // heights marked as sampled by this worker
    pub marked: Set<int>,
}
pub struct Cid { pub row: u16, pub col: u16, pub height: u64 }
pub struct CidVec { pub v: Vec<Cid> }
pub struct SamplingMetadata { pub cids: CidVec }

// the header store as the daser sees it (A-store: contracts assumed at the trait boundary, proved for the in-memory
// back end in the store unit; A-await: no other task changes it between the awaits of ONE call)
pub struct Store { pub stored: Ghost<ISet<int>>, pub sampled: Ghost<ISet<int>> }
impl Store {
    #[verifier::external_body]
    pub async fn get_by_height(&self, h: u64) -> (r: Result<ExtendedHeader, StoreError>)
        ensures
            r.is_ok() ==> self.stored@.contains(h as int) && r.unwrap().h == h && r.unwrap().t.t == time_of(h as int),
            r is Err && r->Err_0 is NotFound ==> !self.stored@.contains(h as int),
    { unimplemented!() }
    #[verifier::external_body]
    pub async fn get_stored_header_ranges(&self) -> (r: Result<BlockRanges, StoreError>)
        ensures r.is_ok() ==> r.unwrap()@ == self.stored@ && r.unwrap().wf() { unimplemented!() }
    #[verifier::external_body]
    pub async fn get_sampled_ranges(&self) -> (r: Result<BlockRanges, StoreError>)
        ensures r.is_ok() ==> r.unwrap()@ == self.sampled@ && r.unwrap().wf() { unimplemented!() }
    // the CIDs written for `h` (ghost log appended, E13)
    #[verifier::external_body]
    pub async fn update_sampling_metadata(&self, h: u64, cids: CidVec, log: &mut Ghost<Log>) -> (r: Result<(), StoreError>)
        ensures
            r.is_ok() ==> final(log)@ == (Log { recorded: old(log)@.recorded.insert(h as int, cid_pairs(cids, h)), ..old(log)@ }),
            r.is_err() ==> final(log)@ == old(log)@,
    { unimplemented!() }
    // further Store queries (any answer consistent with the sets; not needed by the proofs, present so that a change that
    // starts using them is decided rather than left undecided)
    #[verifier::external_body]
    pub async fn get_sampling_metadata(&self, h: u64) -> (r: Result<Option<SamplingMetadata>, StoreError>)
        ensures r matches Ok(Some(_)) ==> self.stored@.contains(h as int)
    { unimplemented!() }
    #[verifier::external_body]
    pub async fn has_at(&self, h: u64) -> (r: bool) ensures r == self.stored@.contains(h as int) { unimplemented!() }
    #[verifier::external_body]
    pub async fn head_height(&self) -> (r: Result<u64, StoreError>)
        ensures r.is_ok() ==> self.stored@.contains(r.unwrap() as int) && forall|x: int| self.stored@.contains(x) ==> x <= r.unwrap()
    { unimplemented!() }
    #[verifier::external_body]
    pub async fn mark_as_sampled(&self, h: u64, log: &mut Ghost<Log>) -> (r: Result<(), StoreError>)
        ensures
            r.is_ok() ==> final(log)@ == (Log { marked: old(log)@.marked.insert(h as int), ..old(log)@ }),
            r.is_err() ==> final(log)@ == old(log)@,
    { unimplemented!() }
}
// the (row, column) pairs whose CID for height `h` is in the list
pub open spec fn cid_pairs(c: CidVec, h: u64) -> Set<(u16, u16)> {
    c.v@.filter(|x: Cid| x.height == h).map_values(|x: Cid| (x.row, x.col)).to_set()
}

pub struct CancellationToken {}
pub struct EventPublisher {}
pub struct P2p {}
pub struct CmdRx {}
impl EventPublisher { #[verifier::external_body] pub fn clone(&self) -> EventPublisher { unimplemented!() } }
impl P2p { #[verifier::external_body] pub fn clone(&self) -> P2p { unimplemented!() } }
// HashSet<(u16, u16)>: the chosen shares (distinct by construction)
pub struct ShareSet { pub g: Ghost<Set<(u16, u16)>> }
impl ShareSet {
    pub open spec fn view(&self) -> Set<(u16, u16)> { self.g@ }
    #[verifier::external_body]
    pub fn with_capacity(n: usize) -> (r: ShareSet) ensures r@ == Set::<(u16, u16)>::empty() { unimplemented!() }
    #[verifier::external_body]
    pub fn len(&self) -> (n: usize) ensures n == self@.len() { unimplemented!() }
    #[verifier::external_body]
    pub fn insert(&mut self, p: (u16, u16)) -> (b: bool) ensures final(self)@ == old(self)@.insert(p), b == !old(self)@.contains(p) { unimplemented!() }
    #[verifier::external_body]
    pub fn contains(&self, p: &(u16, u16)) -> (b: bool) ensures b == self@.contains(*p) { unimplemented!() }
    #[verifier::external_body]
    pub fn is_empty(&self) -> (b: bool) ensures b == (self@.len() == 0) { unimplemented!() }
}
// E8: `(0..square_width).flat_map(|row| (0..square_width).map(move |col| (row, col))).collect()`: every pair below the width
#[verifier::external_body]
pub fn vx_all_pairs(square_width: u16) -> (r: ShareSet)
    ensures forall|p: (u16, u16)| r@.contains(p) <==> p.0 < square_width && p.1 < square_width, r@.len() == (square_width as int) * (square_width as int)
{ unimplemented!() }
pub struct Rng {}
#[verifier::external_body]
pub fn vx_thread_rng() -> Rng { unimplemented!() }
impl Rng {
    // `rng.r#gen::<u16>()`: any value
    #[verifier::external_body]
    pub fn vx_gen_u16(&mut self) -> u16 { unimplemented!() }
}
pub assume_specification [usize::pow] (x: usize, exp: u32) -> (r: usize)
    requires vstd::arithmetic::power::pow(x as int, exp as nat) <= usize::MAX
    ensures r == vstd::arithmetic::power::pow(x as int, exp as nat);
// a sampling in progress: its block and the shares it will request
pub struct FutInfo { pub height: u64, pub width: u16, pub shares: Set<(u16, u16)> }
// FuturesUnordered<BoxFuture<Result<(u64, bool)>>>: the samplings in progress
pub struct SamplingFuts { pub g: Ghost<Seq<FutInfo>> }
pub struct SamplingFutRaw { pub info: Ghost<FutInfo> }
pub struct SamplingFut { pub info: Ghost<FutInfo> }
impl SamplingFutRaw {
    #[verifier::external_body]
    pub fn boxed(self) -> (r: SamplingFut) ensures r.info == self.info { unimplemented!() }
}
impl SamplingFuts {
    pub open spec fn view(&self) -> Seq<FutInfo> { self.g@ }
    #[verifier::external_body]
    pub fn new() -> (r: SamplingFuts) ensures r@ == Seq::<FutInfo>::empty() { unimplemented!() }
    #[verifier::external_body]
    pub fn len(&self) -> (n: usize) ensures n == self@.len() { unimplemented!() }
    #[verifier::external_body]
    pub fn is_empty(&self) -> (b: bool) ensures b == (self@.len() == 0) { unimplemented!() }
    #[verifier::external_body]
    pub fn push(&mut self, f: SamplingFut) ensures final(self)@ == old(self)@.push(f.info@) { unimplemented!() }
}
// E11: the future that requests the chosen shares (its body is verified as the block `schedule_next_sample_block__fut`);
// C33: creating it REQUIRES that the CIDs of all its shares are already in the height's sampling metadata
#[verifier::external_body]
pub fn vx_sampling_fut(height: u64, square_width: u16, share_indexes: ShareSet, header: ExtendedHeader, p2p: P2p, event_pub: EventPublisher, sampling_window: Duration, log: Ghost<Log>) -> (f: SamplingFutRaw)
    requires log@.recorded.contains_key(height as int), share_indexes@.subset_of(log@.recorded[height as int])
    ensures f.info@ == (FutInfo { height, width: square_width, shares: share_indexes@ })
{ unimplemented!() }
// E8: `share_indexes.iter().map(|(row, col)| sample_cid(*row, *col, height)).collect::<Result<Vec<_>, _>>()`:
// one CID per chosen share, for this height
#[verifier::external_body]
pub fn vx_sample_cids(share_indexes: &ShareSet, height: u64) -> (r: Result<CidVec, P2pError>)
    ensures r.is_ok() ==> cid_pairs(r.unwrap(), height) == share_indexes@
{ unimplemented!() }


// ---- the future that samples one block (C33) ----
// the network's truth: the share (row, col) of block h was retrieved and verified (bitswap delivers only data that passes
// the shwap multihasher, C10)
pub uninterp spec fn retrieved(h: u64, row: u16, col: u16) -> bool;
pub struct Sample {}
pub struct Instant {}
impl Instant {
    #[verifier::external_body]
    pub fn now() -> Instant { unimplemented!() }
    #[verifier::external_body]
    pub fn elapsed(&self) -> Duration { unimplemented!() }
}
pub enum NodeEvent {
    SamplingStarted { height: u64, square_width: u16, shares: Vec<(u16, u16)> },
    ShareSamplingResult { height: u64, square_width: u16, row: u16, column: u16, timed_out: bool },
    SamplingResult { height: u64, timed_out: bool, took: Duration },
}
impl EventPublisher { #[verifier::external_body] pub fn send(&self, ev: NodeEvent) { unimplemented!() } }
#[verifier::external_body]
pub fn calc_timeout(header_time: Time, now: Time, sampling_window: Duration) -> Duration { unimplemented!() }
// E8: `share_indexes.iter().copied().collect()`
#[verifier::external_body]
pub fn vx_shares_vec(s: &ShareSet) -> Vec<(u16, u16)> { unimplemented!() }
// FuturesUnordered of one `p2p.get_sample(row, col, height, timeout)` per chosen share: `pending` are the shares whose
// answer has not been taken yet
pub struct ShareFuts { pub height: Ghost<u64>, pub pending: Ghost<Set<(u16, u16)>> }
// E8: `share_indexes.into_iter().map(|(row, col)| { .. p2p.get_sample(row, col, height, Some(timeout)) .. }).collect::<FuturesUnordered<_>>()`
#[verifier::external_body]
pub fn vx_request_shares(share_indexes: ShareSet, p2p: &P2p, height: u64, timeout: Duration) -> (f: ShareFuts)
    ensures f.height@ == height, f.pending@ == share_indexes@
{ unimplemented!() }
impl ShareFuts {
    // the next answer: of a share still pending; Ok only if the share was retrieved and verified; None when all were taken
    #[verifier::external_body]
    pub async fn next(&mut self) -> (r: Option<(u16, u16, Result<Sample, P2pError>)>)
        ensures
            final(self).height == old(self).height,
            match r {
                Some((row, col, res)) => old(self).pending@.contains((row, col)) && final(self).pending@ == old(self).pending@.remove((row, col))
                    && (res.is_ok() ==> retrieved(old(self).height@, row, col)),
                None => old(self).pending@ == Set::<(u16, u16)>::empty() && final(self).pending == old(self).pending,
            },
    { unimplemented!() }
}

//@const PRUNER_THRESHOLD
//@const MAX_SAMPLES_NEEDED

pub struct DaserArgs {
    pub p2p: P2p,
    pub store: Store,
    pub event_pub: EventPublisher,
    pub sampling_window: Duration,
    pub concurrency_limit: usize,
    pub additional_headersub_concurrency: usize,
}
pub struct Worker {
    pub cmd_rx: CmdRx,
    pub cancellation_token: CancellationToken,
    pub event_pub: EventPublisher,
    pub p2p: P2p,
    pub store: Store,
    pub max_samples_needed: usize,
    pub sampling_futs: SamplingFuts,
    pub queue: BlockRanges,
    pub timed_out: BlockRanges,
    pub ongoing: BlockRanges,
    pub will_be_pruned: BlockRanges,
    pub sampling_window: Duration,
    pub concurrency_limit: usize,
    pub additional_headersub_concurency: usize,
    pub head_height: Option<u64>,
    pub highest_prunable_height: Option<u64>,
    pub num_of_prunable_blocks: u64,
    // ghost (E13): what the worker knew about the store when it last (re)built the queue, plus what it marked itself
    pub known_stored: Ghost<ISet<int>>,
    pub known_sampled: Ghost<ISet<int>>,
    pub log: Ghost<Log>,
}

// C34: the candidates for sampling as the worker knows them: stored, not sampled, not timed out since the last
// reconnection, not in progress, not promised to the pruner
pub open spec fn candidates(w: Worker) -> ISet<int> {
    w.known_stored@.difference(w.known_sampled@).difference(w.timed_out@).difference(w.ongoing@).difference(w.will_be_pruned@)
}
impl Worker {
    pub open spec fn wf(&self) -> bool { self.queue.wf() && self.timed_out.wf() && self.ongoing.wf() && self.will_be_pruned.wf() }
    // the queue is exactly the candidate set
    pub open spec fn inv(&self) -> bool {
        &&& self.wf()
        &&& self.queue@ == candidates(*self)
        &&& self.concurrency_limit + self.additional_headersub_concurency <= usize::MAX
    }
}
// C34: how many samplings may be in progress when block `h` is started
pub open spec fn limit_for(w: Worker, h: u64) -> int {
    if h <= (if w.highest_prunable_height.is_some() { w.highest_prunable_height.unwrap() } else { 0 }) && w.num_of_prunable_blocks >= PRUNER_THRESHOLD {
        // a prunable block while the pruner has a backlog: never
        0
    } else if h == (if w.head_height.is_some() { w.head_height.unwrap() } else { 0 }) {
        // the newest stored block: the header-sub allowance on top
        w.concurrency_limit + w.additional_headersub_concurency
    } else {
        w.concurrency_limit as int
    }
}
// C34: inside the sampling window (a header from the future counts as inside)
pub open spec fn in_window(header_time: int, now: int, window: int) -> bool { now < header_time || now - header_time <= window }

impl Worker {
//@fn impl<S> Worker<S> :: new
//@props C33 C34
    fn new(args: DaserArgs, cancellation_token: CancellationToken, cmd_rx: CmdRx) -> (r: DResult<Worker>)
        ensures
            r.is_ok(),
            // C33: at most 16 shares per block
            r.unwrap().max_samples_needed == 16,
            r.unwrap().wf(), r.unwrap().sampling_futs@.len() == 0,
            r.unwrap().queue@ =~= ISet::<int>::empty() && r.unwrap().ongoing@ =~= ISet::<int>::empty()
                && r.unwrap().timed_out@ =~= ISet::<int>::empty() && r.unwrap().will_be_pruned@ =~= ISet::<int>::empty(),
            r.unwrap().concurrency_limit == args.concurrency_limit && r.unwrap().additional_headersub_concurency == args.additional_headersub_concurrency,
            r.unwrap().sampling_window == args.sampling_window,
//@sub E9 "FuturesUnordered::new()" => "SamplingFuts::new()"
//@sub E9 "BlockRanges::default()" all => "BlockRanges::new()"
//@sub E13 "num_of_prunable_blocks: 0," => "num_of_prunable_blocks: 0, known_stored: Ghost(ISet::empty()), known_sampled: Ghost(ISet::empty()), log: Ghost(Log { recorded: Map::empty(), marked: Set::empty() }),"
//@end

//@fn impl<S> Worker<S> :: on_want_to_prune
//@props C34 C35
//@refarg remove_relaxed insert_relaxed
    async fn on_want_to_prune(&mut self, height: u64) -> (granted: bool)
        // (also called while disconnected, when the queue has been reset: the queue invariant is not assumed)
        requires old(self).wf(), height >= 1
        ensures
            final(self).wf(), old(self).inv() ==> final(self).inv(),
            // never while the block is being sampled
            granted == !old(self).ongoing@.contains(height as int),
            granted ==> final(self).will_be_pruned@ == old(self).will_be_pruned@.insert(height as int) && !final(self).queue@.contains(height as int),
            !granted ==> final(self).queue@ == old(self).queue@ && final(self).will_be_pruned@ == old(self).will_be_pruned@,
            final(self).ongoing == old(self).ongoing, final(self).timed_out == old(self).timed_out, final(self).sampling_futs == old(self).sampling_futs,
            final(self).known_stored == old(self).known_stored, final(self).known_sampled == old(self).known_sampled, final(self).log == old(self).log,
            final(self).concurrency_limit == old(self).concurrency_limit, final(self).additional_headersub_concurency == old(self).additional_headersub_concurency,
//@hint before "true" last
        proof { broadcast use vstd::iset::group_iset_lemmas; if old(self).inv() { assert(self.queue@ =~= candidates(*self)); } assert(self.will_be_pruned@ =~= old(self).will_be_pruned@.insert(height as int)); }
//@end

//@fn impl<S> Worker<S> :: update_queue
//@props C34
//@binops
    async fn update_queue(&mut self) -> (r: DResult<()>)
        requires old(self).wf(), old(self).concurrency_limit + old(self).additional_headersub_concurency <= usize::MAX
        ensures
            final(self).wf(),
            r.is_ok() ==> {
                &&& final(self).inv()
                &&& final(self).known_stored@ == final(self).store.stored@ && final(self).known_sampled@ == final(self).store.sampled@
                // the newest stored block
                &&& match final(self).head_height {
                    Some(h) => final(self).store.stored@.contains(h as int) && forall|x: int| final(self).store.stored@.contains(x) ==> x <= h,
                    None => final(self).store.stored@ =~= ISet::<int>::empty(),
                }
            },
            r.is_err() ==> final(self).queue == old(self).queue && final(self).head_height == old(self).head_height
                && final(self).known_stored == old(self).known_stored && final(self).known_sampled == old(self).known_sampled,
            final(self).store == old(self).store, final(self).timed_out == old(self).timed_out, final(self).ongoing == old(self).ongoing,
            final(self).will_be_pruned == old(self).will_be_pruned, final(self).sampling_futs == old(self).sampling_futs, final(self).log == old(self).log,
            final(self).concurrency_limit == old(self).concurrency_limit, final(self).additional_headersub_concurency == old(self).additional_headersub_concurency,
            final(self).highest_prunable_height == old(self).highest_prunable_height, final(self).num_of_prunable_blocks == old(self).num_of_prunable_blocks,
            final(self).sampling_window == old(self).sampling_window, final(self).max_samples_needed == old(self).max_samples_needed,
//@hint before "Ok(())"
        self.known_stored = Ghost(self.store.stored@);
        self.known_sampled = Ghost(self.store.sampled@);
//@end

//@fn impl<S> Worker<S> :: in_sampling_window
//@props C34
    fn in_sampling_window(&self, time: Time) -> (b: bool)
        ensures b == in_window(time.t as int, clock(), self.sampling_window.d as int)
//@end

//@fn impl<S> Worker<S> :: schedule_next_sample_block
//@props C33 C34 C35
//@refarg insert_relaxed remove_relaxed
//@addarg "self.store.update_sampling_metadata" "&mut self.log"
    async fn schedule_next_sample_block(&mut self) -> (r: DResult<bool>)
        requires old(self).inv()
        ensures
            r.is_ok() ==> final(self).inv(),
            // nothing is started on the other paths
            !(r matches Ok(true)) ==> final(self).sampling_futs == old(self).sampling_futs && final(self).ongoing@ == old(self).ongoing@,
            r matches Ok(true) ==> started(*old(self), *final(self)),
//@sub E8 "let header = loop" => "let mut __brk: Option<ExtendedHeader> = None; loop"
//@sub E8 "Ok(header) => break header," => "Ok(header) => { __brk = Some(header); break; }"
//@loop 1
            invariant_except_break
                self.inv(), __brk.is_none(),
            invariant
                frame_cfg(*old(self), *self),
                self.sampling_futs == old(self).sampling_futs, self.timed_out == old(self).timed_out, self.ongoing == old(self).ongoing,
                self.will_be_pruned == old(self).will_be_pruned, self.log == old(self).log,
            ensures
                __brk.is_some(), self.wf(), __brk.unwrap().h >= 1,
                candidates(*self).contains(__brk.unwrap().h as int), forall|x: int| candidates(*self).contains(x) ==> x <= __brk.unwrap().h,
                self.queue@ == candidates(*self).remove(__brk.unwrap().h as int),
                __brk.unwrap().t.t == time_of(__brk.unwrap().h as int),
                old(self).sampling_futs@.len() < limit_for(*self, __brk.unwrap().h),
            decreases (if self.known_stored@ == self.store.stored@ { 0int } else { 1int })
//@loopstart 1
            let ghost qr0 = self.queue;
//@hint before "let concurrency_limit = if"
            proof { lemma_has_ge1(qr0, height as int); }
//@hint before "return Ok(false);" 2
                proof { broadcast use vstd::iset::group_iset_lemmas; assert(self.queue@ =~= candidates(*self)); }
//@afterloop 1

        let header = __brk.unwrap()
//@hint before "return Ok(false);" 3
            proof { broadcast use vstd::iset::group_iset_lemmas; assert(self.queue@ =~= candidates(*self)); }
//@sub E8 "share_indexes .iter() .map(|(row, col)| sample_cid(*row, *col, height)) .collect::<Result<Vec<_>, _>>()?" => "vx_sample_cids(&share_indexes, height)?"
//@opaque "let fut = async move {" => "let fut = vx_sampling_fut(height, square_width, share_indexes, header, p2p, event_pub, sampling_window, Ghost(self.log@))"
//@hint before "Ok(true)"
        proof {
            broadcast use vstd::iset::group_iset_lemmas;
            assert(self.queue@ =~= candidates(*self));
            assert(self.ongoing@ =~= old(self).ongoing@.insert(height as int));
            let f = self.sampling_futs@.last();
            assert(f.height == height && f.width == square_width);
            assert(self.sampling_futs@ == old(self).sampling_futs@.push(f));
            let cands = self.known_stored@.difference(self.known_sampled@).difference(old(self).timed_out@).difference(old(self).ongoing@).difference(old(self).will_be_pruned@);
            assert(cands.contains(height as int));
            assert(forall|x: int| cands.contains(x) ==> x <= height);
            assert(old(self).sampling_futs@.len() < limit_for(*self, height));
            assert(in_window(time_of(height as int), clock(), old(self).sampling_window.d as int));
            assert(shares_ok(f.shares, f.width, old(self).max_samples_needed));
            assert(self.log@.recorded.contains_key(height as int) && f.shares.subset_of(self.log@.recorded[height as int]));
        }
//@end

//@fn impl<S> Worker<S> :: schedule_next_sample_block
//@props C33
//@block "let fut = async move {"
    async fn schedule_next_sample_block__fut(height: u64, square_width: u16, share_indexes: ShareSet, header: ExtendedHeader, p2p: P2p, event_pub: EventPublisher, sampling_window: Duration) -> (r: DResult<(u64, bool)>)
        ensures
            r.is_ok() ==> r.unwrap().0 == height,
            // C33: "not timed out" is reported only if every chosen share was retrieved and verified
            r.is_ok() && !r.unwrap().1 ==> forall|p: (u16, u16)| share_indexes@.contains(p) ==> retrieved(height, p.0, p.1),
//@sub E8 "share_indexes.iter().copied().collect()" => "vx_shares_vec(&share_indexes)"
//@sub E8 "share_indexes .into_iter() .map(|(row, col)| { let p2p = p2p.clone(); async move { let res = p2p.get_sample(row, col, height, Some(timeout)).await; (row, col, res) } }) .collect::<FuturesUnordered<_>>()" => "vx_request_shares(share_indexes, &p2p, height, timeout)"
//@loop 1
            invariant
                futs.height@ == height, futs.pending@.subset_of(share_indexes@),
                !sampling_timed_out ==> forall|p: (u16, u16)| share_indexes@.contains(p) && !futs.pending@.contains(p) ==> retrieved(height, p.0, p.1),
            ensures
                futs.pending@ == Set::<(u16, u16)>::empty(),
            decreases futs.pending@.len()
//@end

//@fn impl<S> Worker<S> :: connected_event_loop
//@props C33 C34 C35
//@block "Some(res) = self.sampling_futs.next() => {"
//@refarg insert_relaxed remove_relaxed
//@addarg "self.store.mark_as_sampled" "&mut self.log"
    async fn connected_event_loop__sampling_done(&mut self, res: DResult<(u64, bool)>) -> (r: DResult<()>)
        requires
            old(self).inv(),
            // the result of a sampling in progress (FuturesUnordered hands back what the future returned, and the future
            // returns its own height - proved for the block above)
            res.is_ok() ==> res.unwrap().0 >= 1 && old(self).ongoing@.contains(res.unwrap().0 as int),
        ensures
            r.is_ok() ==> final(self).inv() && res.is_ok(),
            // C33: a height is marked as sampled only if its sampling did not time out
            final(self).log@.recorded == old(self).log@.recorded,
            r.is_ok() && !res.unwrap().1 ==> final(self).log@.marked == old(self).log@.marked.insert(res.unwrap().0 as int),
            !(r.is_ok() && !res.unwrap().1) ==> final(self).log@.marked == old(self).log@.marked,
            r.is_ok() && res.unwrap().1 ==> final(self).timed_out@ == old(self).timed_out@.insert(res.unwrap().0 as int),
            r.is_ok() ==> final(self).ongoing@ == old(self).ongoing@.remove(res.unwrap().0 as int),
            final(self).sampling_futs == old(self).sampling_futs,
//@hint after "self.store.mark_as_sampled(height).await?;"
                self.known_sampled = Ghost(self.known_sampled@.insert(height as int));
//@hint exit
                    proof {
                        broadcast use vstd::iset::group_iset_lemmas;
                        assert(self.queue@ =~= candidates(*self));
                        assert(self.ongoing@ =~= old(self).ongoing@.remove(height as int));
                        if timed_out { assert(self.timed_out@ =~= old(self).timed_out@.insert(height as int)); }
                    }
                    Ok(())
//@end
}

// the configuration and the pruner's reports do not change
pub open spec fn frame_cfg(a: Worker, b: Worker) -> bool {
    &&& b.store == a.store && b.concurrency_limit == a.concurrency_limit && b.additional_headersub_concurency == a.additional_headersub_concurency
    &&& b.highest_prunable_height == a.highest_prunable_height && b.num_of_prunable_blocks == a.num_of_prunable_blocks
    &&& b.sampling_window == a.sampling_window && b.max_samples_needed == a.max_samples_needed
}
// C34 / C33: exactly one block was started
pub open spec fn started(a: Worker, b: Worker) -> bool {
    let f = b.sampling_futs@.last();
    let h = f.height;
    // the candidates as known when the block was chosen (after a refresh of the queue, if one was needed)
    let cands = b.known_stored@.difference(b.known_sampled@).difference(a.timed_out@).difference(a.ongoing@).difference(a.will_be_pruned@);
    &&& b.sampling_futs@ == a.sampling_futs@.push(f)
    &&& b.ongoing@ == a.ongoing@.insert(h as int) && b.timed_out@ == a.timed_out@ && b.will_be_pruned@ == a.will_be_pruned@
    // the highest candidate
    &&& cands.contains(h as int) && forall|x: int| cands.contains(x) ==> x <= h
    // only while fewer than the limit for this block are in progress (0 for prunable blocks while the pruner has a backlog)
    &&& a.sampling_futs@.len() < limit_for(b, h)
    // never a block outside the sampling window
    &&& in_window(time_of(h as int), clock(), a.sampling_window.d as int)
    // C33: the shares: inside the square, min(width^2, max) of them (distinct: a set), recorded before the requests
    &&& shares_ok(f.shares, f.width, a.max_samples_needed)
    &&& b.log@.recorded.contains_key(h as int) && f.shares.subset_of(b.log@.recorded[h as int])
}
pub open spec fn shares_ok(s: Set<(u16, u16)>, w: u16, max: usize) -> bool {
    &&& forall|p: (u16, u16)| s.contains(p) ==> p.0 < w && p.1 < w
    &&& s.len() == (if (w as int) * (w as int) <= max { (w as int) * (w as int) } else { max as int })
}
pub proof fn lemma_has_ge1(r: BlockRanges, h: int)
    requires r.wf(), r@.contains(h)
    ensures h >= 1
{
    let k = choose|k: int| 0 <= k < r.0@.len() && r_has(#[trigger] r.0@[k], h);
    assert(r_valid(r.0@[k]));
}

//@fn - :: random_indexes
//@props C33
#[verifier::exec_allows_no_decreases_clause]
fn random_indexes(square_width: u16, max_samples_needed: usize) -> (r: ShareSet)
    ensures shares_ok(r@, square_width, max_samples_needed)
//@sub E8 "(0..square_width) .flat_map(|row| (0..square_width).map(move |col| (row, col))) .collect()" => "vx_all_pairs(square_width)"
//@sub E9 "HashSet::with_capacity(max_samples_needed)" => "ShareSet::with_capacity(max_samples_needed)"
//@sub E9 "rand::thread_rng()" => "vx_thread_rng()"
//@sub E9 "rng.r#gen::<u16>()" all => "rng.vx_gen_u16()"
//@hint entry
    proof {
        reveal_with_fuel(vstd::arithmetic::power::pow, 3);
        let w = square_width as int;
        assert(vstd::arithmetic::power::pow(w, 2) == w * w);
        assert(w * w <= 65535 * 65535) by(nonlinear_arith) requires 0 <= w <= 65535;
    }
//@hint before "let mut indexes ="
    proof {
        let w = square_width as int;
        if w == 0 { assert(w * w == 0); assert(samples_in_block == 0); }
    }
//@loop 1
        invariant
            max_samples_needed > 0 ==> square_width > 0, indexes@.len() <= max_samples_needed,
            (square_width as int) * (square_width as int) >= max_samples_needed,
            forall|p: (u16, u16)| indexes@.contains(p) ==> p.0 < square_width && p.1 < square_width,
//@hint after "indexes.insert((row, col));"
        proof { broadcast use vstd::set::group_set_lemmas; }
//@end
} // verus!
fn main() {}
