//@unit store
//@serves C19 C20 C21
use vstd::prelude::*;
use std::ops::RangeInclusive;
use std::collections::HashMap;
use std::collections::HashSet;
use std::collections::hash_map::Entry;
verus! {
broadcast use vstd::std_specs::hash::group_hash_axioms;
//@include range
//@src node/src/store/in_memory_store.rs
//@begin-export

// ---------------------------------------------------------------------------
// stubs: header, hash, errors
// ---------------------------------------------------------------------------
#[derive(PartialEq, Eq, Hash, Clone, Copy, Debug)]
pub struct Hash { pub v: u64 }
// A-hash-key: `Hash`'s Hash/Eq impls obey vstd's key model (deterministic hashing, Eq is structural equality)
#[verifier::external_body]
pub proof fn axiom_hash_key_model() ensures vstd::std_specs::hash::obeys_key_model::<Hash>() {}

pub struct ExtendedHeader { pub h: u64, pub hash_: Hash, pub rest: u64 }
// C02: `trusted.verify(untrusted)` succeeded (its meaning is the contract of ExtendedHeader::verify in the header unit)
pub uninterp spec fn verify_ok_spec(t: ExtendedHeader, u: ExtendedHeader) -> bool;
#[derive(Debug)]
pub struct TypesError {}
impl ExtendedHeader {
    #[verifier::external_body]
    pub fn height(&self) -> (r: u64) ensures r == self.h { unimplemented!() }
    #[verifier::external_body]
    pub fn hash(&self) -> (r: Hash) ensures r == self.hash_ { unimplemented!() }
    #[verifier::external_body]
    pub fn verify(&self, untrusted: &ExtendedHeader) -> (r: std::result::Result<(), TypesError>)
        ensures r.is_ok() == verify_ok_spec(*self, *untrusted) { unimplemented!() }
    #[verifier::external_body]
    pub fn clone(&self) -> (r: ExtendedHeader) ensures r == *self { unimplemented!() }
}
#[derive(Debug)]
pub enum StoreInsertionError { HeadersVerificationFailed, NeighborsVerificationFailed, ConstraintsNotMet(BlockRangesError), HashExists(Hash) }
#[derive(Debug)]
pub enum StoreError { NotFound, InsertionFailed(StoreInsertionError), StoredDataError, Other }
impl vstd::std_specs::convert::FromSpecImpl<StoreInsertionError> for StoreError {
    open spec fn obeys_from_spec() -> bool { true }
    open spec fn from_spec(e: StoreInsertionError) -> StoreError { StoreError::InsertionFailed(e) }
}
impl From<StoreInsertionError> for StoreError { fn from(e: StoreInsertionError) -> StoreError { StoreError::InsertionFailed(e) } }
// `.map_err(StoreInsertionError::ConstraintsNotMet)?` : BlockRangesError -> StoreInsertionError::ConstraintsNotMet -> StoreError::InsertionFailed
impl vstd::std_specs::convert::FromSpecImpl<BlockRangesError> for StoreError {
    open spec fn obeys_from_spec() -> bool { true }
    open spec fn from_spec(e: BlockRangesError) -> StoreError { StoreError::InsertionFailed(StoreInsertionError::ConstraintsNotMet(e)) }
}
impl From<BlockRangesError> for StoreError { fn from(e: BlockRangesError) -> StoreError { StoreError::InsertionFailed(StoreInsertionError::ConstraintsNotMet(e)) } }
type SResult<T, E = StoreError> = std::result::Result<T, E>;

#[derive(PartialEq, Eq, Clone, Copy, Structural)]
pub struct Cid { pub v: u64 }
pub assume_specification<T: Copy> [Option::<&T>::copied] (o: Option<&T>) -> (r: Option<T>)
    ensures r == (match o { Some(x) => Some(*x), None => None });
// std: slice::contains for element types whose PartialEq is structural equality (used at Cid only) (A-std)
pub assume_specification<T: std::cmp::PartialEq> [<[T]>::contains] (s: &[T], x: &T) -> (r: bool)
    ensures r == exists|i: int| 0 <= i < s@.len() && #[trigger] s@[i] == *x;
pub open spec fn cid_in(s: Seq<Cid>, c: Cid) -> bool { exists|i: int| 0 <= i < s.len() && #[trigger] s[i] == c }
pub struct SamplingMetadata { pub cids: Vec<Cid> }

#[verifier::external_body]
pub fn vx_clone_meta(m: &SamplingMetadata) -> (r: SamplingMetadata) ensures r.cids@ == m.cids@ { unimplemented!() }
pub struct InMemoryStoreInner {
    pub headers: HashMap<Hash, ExtendedHeader>,
    pub height_to_hash: HashMap<u64, Hash>,
    pub header_ranges: BlockRanges,
    pub sampling_data: HashMap<u64, SamplingMetadata>,
    pub sampled_ranges: BlockRanges,
    pub pruned_ranges: BlockRanges,
}

// adjacency as required by C21
pub open spec fn adjacent_ok(t: ExtendedHeader, u: ExtendedHeader) -> bool { u.h == t.h + 1 && verify_ok_spec(t, u) }

pub struct VerifiedExtendedHeaders(pub Vec<ExtendedHeader>);
impl VerifiedExtendedHeaders {
    #[verifier::external_body]
    pub fn as_ref(&self) -> (r: &[ExtendedHeader]) ensures r@ == self.0@ { unimplemented!() }
}
// (the trigger is the named predicate, not hs[i]: instantiating it creates no new hs[..] term, so no matching loop)
pub open spec fn link_at(hs: Seq<ExtendedHeader>, i: int) -> bool { adjacent_ok(hs[i], hs[i + 1]) }
pub open spec fn chain_ok(hs: Seq<ExtendedHeader>) -> bool {
    forall|i: int| 0 <= i < hs.len() - 1 ==> #[trigger] link_at(hs, i)
}
pub open spec fn in_batch(hs: Seq<ExtendedHeader>, n: int, k: Hash) -> bool {
    exists|j: int| 0 <= j < n && (#[trigger] hs[j]).hash_ == k
}
pub proof fn lemma_chain_heights(hs: Seq<ExtendedHeader>, i: int)
    requires chain_ok(hs), 0 <= i < hs.len()
    ensures hs[i].h == hs[0].h + i
    decreases i
{
    if i > 0 { lemma_chain_heights(hs, i - 1); assert(link_at(hs, i - 1)); }
}


impl InMemoryStoreInner {
    // C19: representation invariant of the in-memory back end
    pub open spec fn inv(&self) -> bool {
        &&& self.header_ranges.wf() && self.sampled_ranges.wf() && self.pruned_ranges.wf()
        // the height index covers exactly the stored heights
        &&& forall|h: u64| #![trigger self.height_to_hash@.contains_key(h)] self.height_to_hash@.contains_key(h) <==> self.header_ranges@.contains(h as int)
        // every indexed height leads to its header, filed under its own hash
        &&& forall|h: u64| #![trigger self.height_to_hash@[h]] self.height_to_hash@.contains_key(h) ==> {
                let k = self.height_to_hash@[h];
                self.headers@.contains_key(k) && self.headers@[k].h == h && self.headers@[k].hash_ == k
            }
        // no orphan headers
        &&& forall|k: Hash| #![trigger self.headers@[k]] self.headers@.contains_key(k) ==>
                self.height_to_hash@.contains_key(self.headers@[k].h) && self.height_to_hash@[self.headers@[k].h] == k
        // sampled within stored, pruned disjoint from stored
        &&& self.sampled_ranges@.subset_of(self.header_ranges@)
        &&& self.pruned_ranges@.disjoint(self.header_ranges@)
    }
    // abstract model: the header stored at a height
    pub open spec fn hdr(&self, h: u64) -> ExtendedHeader { self.headers@[self.height_to_hash@[h]] }
    // C21: consecutive stored heights are verified adjacent successors
    pub open spec fn linked(&self) -> bool {
        forall|h: u64| #![trigger self.height_to_hash@.contains_key(h)] h < u64::MAX && self.height_to_hash@.contains_key(h) && self.height_to_hash@.contains_key((h + 1) as u64)
            ==> adjacent_ok(self.hdr(h), self.hdr((h + 1) as u64))
    }
    // C20: nothing observable changed
    pub open spec fn same(&self, o: &InMemoryStoreInner) -> bool {
        &&& self.headers@ == o.headers@ && self.height_to_hash@ == o.height_to_hash@ && self.sampling_data@ == o.sampling_data@
        &&& self.header_ranges.0@ == o.header_ranges.0@ && self.sampled_ranges.0@ == o.sampled_ranges.0@ && self.pruned_ranges.0@ == o.pruned_ranges.0@
    }

//@fn impl InMemoryStoreInner :: get_head_height
//@props C19
    fn get_head_height(&self) -> (r: SResult<u64>)
        requires self.inv()
        ensures match r {
            Ok(h) => self.header_ranges@.contains(h as int) && forall|x: int| self.header_ranges@.contains(x) ==> x <= h,
            Err(e) => e is NotFound && self.header_ranges@ =~= ISet::<int>::empty(),
        }
//@sub E9 "self.header_ranges.head().ok_or(StoreError::NotFound)" => "(match self.header_ranges.head() { Some(h) => Ok(h), None => Err(StoreError::NotFound) })"
//@end

//@fn impl InMemoryStoreInner :: contains_hash
//@props C19
    fn contains_hash(&self, hash: &Hash) -> (r: bool)
        ensures r == self.headers@.contains_key(*hash)
//@hint entry
        proof { axiom_hash_key_model(); }
//@end

//@fn impl InMemoryStoreInner :: get_by_hash
//@props C19 C21
    fn get_by_hash(&self, hash: &Hash) -> (r: SResult<ExtendedHeader>)
        requires self.inv()
        ensures match r {
            // looking up a stored header by its hash returns that same header at its height
            Ok(e) => self.headers@.contains_key(*hash) && e == self.headers@[*hash] && e.hash_ == *hash && self.header_ranges@.contains(e.h as int) && self.hdr(e.h) == e,
            Err(er) => er is NotFound && !self.headers@.contains_key(*hash),
        }
//@hint entry
        proof { axiom_hash_key_model(); }
//@sub E9 "self.headers.get(hash).cloned().ok_or(StoreError::NotFound)" => "(match self.headers.get(hash) { Some(e) => Ok(e.clone()), None => Err(StoreError::NotFound) })"
//@end

//@fn impl InMemoryStoreInner :: contains_height
//@props C19
    fn contains_height(&self, height: u64) -> (r: bool)
        requires self.inv()
        ensures r == self.header_ranges@.contains(height as int)
//@end

//@fn impl InMemoryStoreInner :: get_by_height
//@props C19
    fn get_by_height(&self, height: u64) -> (r: SResult<ExtendedHeader>)
        requires self.inv()
        ensures match r {
            Ok(e) => self.header_ranges@.contains(height as int) && e == self.hdr(height) && e.h == height,
            Err(er) => er is NotFound && !self.header_ranges@.contains(height as int),
        }
//@hint entry
        proof { axiom_hash_key_model(); }
//@sub E9 ".to_owned()" => ".clone()"
//@end

//@fn impl InMemoryStoreInner :: mark_as_sampled
//@props C19 C20
    async fn mark_as_sampled(&mut self, height: u64) -> (r: SResult<()>)
        requires old(self).inv()
        ensures
            final(self).inv(),
            r.is_ok() <==> old(self).header_ranges@.contains(height as int),
            r.is_ok() ==> final(self).sampled_ranges@ == old(self).sampled_ranges@.insert(height as int)
                && final(self).headers@ == old(self).headers@ && final(self).height_to_hash@ == old(self).height_to_hash@ && final(self).sampling_data@ == old(self).sampling_data@
                && final(self).header_ranges.0@ == old(self).header_ranges.0@ && final(self).pruned_ranges.0@ == old(self).pruned_ranges.0@,
            // C20
            r.is_err() ==> final(self).same(old(self)) && r->Err_0 is NotFound,
//@sub E1 ".insert_relaxed(height..=height)" => ".insert_relaxed(&(height..=height))"
//@hint before "Ok(())"
        proof {
            assert(self.sampled_ranges@ =~= old(self).sampled_ranges@.insert(height as int));
        }
//@end

//@fn impl InMemoryStoreInner :: remove_height
//@props C19 C20 C21
//@macro format => ()
    fn remove_height(&mut self, height: u64) -> (r: SResult<()>)
        requires old(self).inv()
        ensures
            final(self).inv(),
            r.is_ok() <==> old(self).header_ranges@.contains(height as int),
            r.is_ok() ==> {
                &&& final(self).header_ranges@ == old(self).header_ranges@.remove(height as int)
                &&& final(self).sampled_ranges@ == old(self).sampled_ranges@.remove(height as int)
                &&& final(self).pruned_ranges@ == old(self).pruned_ranges@.insert(height as int)
                &&& final(self).height_to_hash@ == old(self).height_to_hash@.remove(height)
                &&& final(self).headers@ == old(self).headers@.remove(old(self).height_to_hash@[height])
                &&& final(self).sampling_data@ == old(self).sampling_data@.remove(height)
            },
            // C21: removal cannot break links
            old(self).linked() ==> final(self).linked(),
            // C20
            r.is_err() ==> final(self).same(old(self)) && r->Err_0 is NotFound,
//@hint entry
        proof { axiom_hash_key_model(); }
//@sub E9 "StoreError::StoredDataError(format!( \"inconsistency between ranges and height_to_hash tables, height {height}\" ))" => "{ vx_unreachable(); StoreError::StoredDataError }"
//@sub E9 "StoreError::StoredDataError(format!( \"inconsistency between header and height_to_hash tables, hash {hash}\" ))" => "{ vx_unreachable(); StoreError::StoredDataError }"
//@sub E1 ".remove_relaxed(height..=height)" all => ".remove_relaxed(&(height..=height))"
//@sub E1 ".insert_relaxed(height..=height)" => ".insert_relaxed(&(height..=height))"
//@hint before "Ok(())" last
        proof {
            assert(self.header_ranges@ =~= old(self).header_ranges@.remove(height as int));
            assert(self.sampled_ranges@ =~= old(self).sampled_ranges@.remove(height as int));
            assert(self.pruned_ranges@ =~= old(self).pruned_ranges@.insert(height as int));
        }
//@end

//@fn impl InMemoryStoreInner :: verify_against_neighbours
//@props C19 C20 C21
    fn verify_against_neighbours(
        &self,
        lowest_header: Option<&ExtendedHeader>,
        highest_header: Option<&ExtendedHeader>,
    ) -> (r: SResult<()>)
        requires
            self.inv(),
            // the flags of check_insertion_constraints (C18) say these neighbours exist
            lowest_header.is_some() ==> lowest_header.unwrap().h >= 1 && self.header_ranges@.contains(lowest_header.unwrap().h - 1),
            highest_header.is_some() ==> highest_header.unwrap().h < u64::MAX && self.header_ranges@.contains(highest_header.unwrap().h + 1),
        ensures
            r.is_ok() <==> ((lowest_header.is_some() ==> verify_ok_spec(self.hdr((lowest_header.unwrap().h - 1) as u64), *lowest_header.unwrap()))
                         && (highest_header.is_some() ==> verify_ok_spec(*highest_header.unwrap(), self.hdr((highest_header.unwrap().h + 1) as u64)))),
            r.is_err() ==> r->Err_0 is InsertionFailed && r->Err_0->InsertionFailed_0 is NeighborsVerificationFailed,
//@sub E8 "self .get_by_height(lowest_header.height() - 1) .map_err(|e| match e { StoreError::NotFound => { panic!(\"inconsistency between headers and ranges table\") } e => e, })?" => "(match self.get_by_height(lowest_header.height() - 1) { Ok(p) => p, Err(StoreError::NotFound) => vx_unreachable(), Err(e) => return Err(e) })"
//@sub E8 "self .get_by_height(highest_header.height() + 1) .map_err(|e| match e { StoreError::NotFound => { panic!(\"inconsistency between headers and ranges table\") } e => e, })?" => "(match self.get_by_height(highest_header.height() + 1) { Ok(p) => p, Err(StoreError::NotFound) => vx_unreachable(), Err(e) => return Err(e) })"
//@sub E8 "prev.verify(lowest_header) .map_err(|e| StoreInsertionError::NeighborsVerificationFailed(e.to_string()))?;" => "if prev.verify(lowest_header).is_err() { return Err(StoreError::InsertionFailed(StoreInsertionError::NeighborsVerificationFailed)); }"
//@sub E8 "highest_header .verify(&next) .map_err(|e| StoreInsertionError::NeighborsVerificationFailed(e.to_string()))?;" => "if highest_header.verify(&next).is_err() { return Err(StoreError::InsertionFailed(StoreInsertionError::NeighborsVerificationFailed)); }"
//@end

//@fn impl InMemoryStoreInner :: get_sampling_metadata
//@props C19
    async fn get_sampling_metadata(&self, height: u64) -> (r: SResult<Option<SamplingMetadata>>)
        requires self.inv()
        ensures
            r.is_ok() <==> self.header_ranges@.contains(height as int),
            r.is_ok() ==> (r.unwrap().is_some() <==> self.sampling_data@.contains_key(height)),
            r.is_ok() && r.unwrap().is_some() ==> r.unwrap().unwrap().cids@ == self.sampling_data@[height].cids@,
            r.is_err() ==> r->Err_0 is NotFound,
//@sub E9 "metadata.clone()" => "vx_clone_meta(metadata)"
//@end

//@fn impl InMemoryStoreInner :: insert
//@props C19 C20 C21
    async fn insert(&mut self, headers: VerifiedExtendedHeaders) -> (r: SResult<()>)
        requires
            old(self).inv(),
            // type invariant of VerifiedExtendedHeaders (established by its safe constructors, C02): an adjacent-verified chain
            chain_ok(headers.0@),
        ensures
            final(self).inv(),
            // C20: a rejected batch leaves no trace
            r.is_err() ==> final(self).same(old(self)),
            r.is_err() ==> r->Err_0 is InsertionFailed,
            // C19: effect of an accepted batch
            r.is_ok() && headers.0@.len() == 0 ==> final(self).same(old(self)),
            r.is_ok() && headers.0@.len() > 0 ==> {
                let hs = headers.0@; let lo = hs[0].h as int; let hi = hs.last().h as int;
                &&& hi == lo + hs.len() - 1
                &&& final(self).header_ranges@ == old(self).header_ranges@.union(iv(lo, hi))
                &&& final(self).sampled_ranges@ == old(self).sampled_ranges@.difference(iv(lo, hi))
                &&& final(self).pruned_ranges@ == old(self).pruned_ranges@.difference(iv(lo, hi))
                &&& old(self).header_ranges@.disjoint(iv(lo, hi))
                &&& forall|j: int| 0 <= j < hs.len() ==> final(self).hdr((lo + j) as u64) == #[trigger] hs[j]
                &&& forall|h: u64| old(self).header_ranges@.contains(h as int) ==> final(self).hdr(h) == old(self).hdr(h)
                &&& final(self).sampling_data@ == old(self).sampling_data@
            },
            // C21: links are preserved (the batch is internally linked; both boundaries are verified when a neighbour exists)
            old(self).linked() ==> final(self).linked(),
//@hint entry
        proof { axiom_hash_key_model(); }
        let ghost hs = headers.0@;
//@sub E9 "let (prev_exists, next_exists) = self .header_ranges .check_insertion_constraints(&headers_range) .map_err(StoreInsertionError::ConstraintsNotMet)?;" => "let (prev_exists, next_exists) = match self.header_ranges.check_insertion_constraints(&headers_range) { Ok(x) => x, Err(e) => return Err(StoreError::InsertionFailed(StoreInsertionError::ConstraintsNotMet(e))) };"
//@hint after "let headers_range = head.height()..=tail.height();"
        proof { lemma_chain_heights(hs, hs.len() as int - 1); }
        let ghost lo = head.h as int; let ghost hi = tail.h as int;
//@hint before "// Make sure that no header of the batch is already stored"
        proof {
            assert(r_set(headers_range) =~= iv(lo, hi));
            assert(old(self).header_ranges@.disjoint(iv(lo, hi)));
            assert(old(self).hdr((lo - 1) as u64).h == lo - 1 || !(lo >= 2 && old(self).header_ranges@.contains(lo - 1)));
            assert(boundary_ok(*old(self), hs, lo, hi));
            assert(ins_pre(*old(self), hs, lo, hi)) by { reveal(ins_pre); }
        }
//@ascribe "let mut batch_hashes = HashSet::with_capacity(headers.as_ref().len());" => "let mut batch_hashes: HashSet<Hash> = HashSet::with_capacity(headers.as_ref().len());"
//@sub E7 "for header in headers.as_ref() {"
        let mut __p: usize = 0;
        while __p < headers.as_ref().len()
            invariant
                vstd::std_specs::hash::obeys_key_model::<Hash>(),
                __p <= hs.len(), hs == headers.0@, self.same(old(self)), ins_pre(*old(self), hs, lo, hi),
                forall|j: int| 0 <= j < __p ==> !old(self).headers@.contains_key(#[trigger] hs[j].hash_),
                forall|j: int| 0 <= j < __p ==> batch_hashes@.contains(#[trigger] hs[j].hash_),
                forall|k: Hash| batch_hashes@.contains(k) ==> in_batch(hs, __p as int, k),
                forall|a: int, b: int| 0 <= a < b < __p ==> (#[trigger] hs[a]).hash_ != (#[trigger] hs[b]).hash_,
            decreases hs.len() - __p
        {
            let header = &headers.as_ref()[__p]; __p += 1;
//@hint before "if self.headers.contains_key(&hash) || !batch_hashes.insert(hash) {"
            let ghost set_before = batch_hashes@;
//@hint before "return Err(StoreInsertionError::HashExists(hash).into());" 1
                proof { reveal(ins_pre); }
//@hint after "return Err(StoreInsertionError::HashExists(hash).into());" 1
            }
            proof {
                assert(hash == hs[__p - 1].hash_);
                assert(batch_hashes@ == set_before.insert(hash) && !set_before.contains(hash));
                assert forall|k: Hash| batch_hashes@.contains(k) implies in_batch(hs, __p as int, k) by {
                    if set_before.contains(k) {
                        assert(in_batch(hs, __p as int - 1, k));
                        let j = choose|j: int| 0 <= j < __p - 1 && (#[trigger] hs[j]).hash_ == k;
                        assert(hs[j].hash_ == k);
                    } else { assert(hs[__p - 1].hash_ == k); }
                }
                assert forall|a: int, b: int| 0 <= a < b < __p implies (#[trigger] hs[a]).hash_ != (#[trigger] hs[b]).hash_ by {
                    if b == __p - 1 { assert(set_before.contains(hs[a].hash_)); }
                }
                assert forall|j: int| 0 <= j < __p implies batch_hashes@.contains(#[trigger] hs[j].hash_) by {
                    if j < __p - 1 { assert(set_before.contains(hs[j].hash_)); }
                }
            }
            if false {
//@sub E7 "for header in headers.into_iter() {"
        proof {
            assert(hashes_fresh(*old(self), hs)) by { reveal(hashes_fresh); }
            reveal(tables_upto); assert(tables_upto(old(self).headers@, old(self).height_to_hash@, self.headers@, self.height_to_hash@, hs, lo, 0));
        }
        let mut __q: usize = 0;
        while __q < headers.0.len()
            invariant
                vstd::std_specs::hash::obeys_key_model::<Hash>(),
                __q <= hs.len(), hs == headers.0@,
                ins_pre(*old(self), hs, lo, hi), hashes_fresh(*old(self), hs),
                headers_range@.start == lo, headers_range@.end == hi, !headers_range@.exhausted,
                self.header_ranges.0@ == old(self).header_ranges.0@ && self.sampled_ranges.0@ == old(self).sampled_ranges.0@ && self.pruned_ranges.0@ == old(self).pruned_ranges.0@,
                self.sampling_data@ == old(self).sampling_data@,
                // the two tables hold the old content plus the first __q headers of the batch
                tables_upto(old(self).headers@, old(self).height_to_hash@, self.headers@, self.height_to_hash@, hs, lo, __q as int),
            decreases hs.len() - __q
        {
            let header = headers.0[__q].clone(); __q += 1;
//@hint before "debug_assert!("
            proof {
                lemma_tables_fresh2(*old(self), self.headers@, self.height_to_hash@, hs, lo, hi, __q as int - 1);
            }
            let ghost hdrs_before = self.headers@; let ghost h2h_before = self.height_to_hash@;
//@hint after "self.height_to_hash.insert(height, hash);"
            proof {
                lemma_tables_step(old(self).headers@, old(self).height_to_hash@, hdrs_before, h2h_before, self.headers@, self.height_to_hash@, hs, lo, __q as int);
            }
//@hint before "self.header_ranges .insert_relaxed(&headers_range) .expect(\"invalid range\");"
        proof { assert(old(self).header_ranges.wf() && old(self).sampled_ranges.wf() && old(self).pruned_ranges.wf() && lo >= 1 && lo <= hi) by { reveal(ins_pre); } }
//@hint before "Ok(())" last
        proof {
            assert(r_set(headers_range) =~= iv(lo, hi));
            lemma_insert_final2(*old(self), *self, hs, lo, hi);
        }
//@end

//@fn impl InMemoryStoreInner :: update_sampling_metadata
//@props C19 C20
    async fn update_sampling_metadata(&mut self, height: u64, cids: Vec<Cid>) -> (r: SResult<()>)
        requires old(self).inv()
        ensures
            final(self).inv(),
            r.is_ok() <==> old(self).header_ranges@.contains(height as int),
            // sampling metadata accumulates every added CID (and keeps what was there)
            r.is_ok() ==> final(self).sampling_data@.contains_key(height)
                && (forall|i: int| 0 <= i < cids@.len() ==> cid_in(final(self).sampling_data@[height].cids@, #[trigger] cids@[i]))
                && (old(self).sampling_data@.contains_key(height) ==> forall|i: int| 0 <= i < old(self).sampling_data@[height].cids@.len()
                        ==> cid_in(final(self).sampling_data@[height].cids@, #[trigger] old(self).sampling_data@[height].cids@[i])),
            r.is_ok() ==> final(self).headers@ == old(self).headers@ && final(self).height_to_hash@ == old(self).height_to_hash@
                && final(self).header_ranges.0@ == old(self).header_ranges.0@ && final(self).sampled_ranges.0@ == old(self).sampled_ranges.0@ && final(self).pruned_ranges.0@ == old(self).pruned_ranges.0@
                && (forall|h: u64| h != height ==> (final(self).sampling_data@.contains_key(h) <==> old(self).sampling_data@.contains_key(h))),
            // C20
            r.is_err() ==> final(self).same(old(self)) && r->Err_0 is NotFound,
//@hint before "for cid in cids {"
                let ghost before = metadata.cids@;
//@for 1 copy
//@loop 1
                    invariant
                        __i1 <= cids@.len(),
                        forall|i: int| 0 <= i < __i1 ==> cid_in(metadata.cids@, #[trigger] cids@[i]),
                        forall|i: int| 0 <= i < before.len() ==> cid_in(metadata.cids@, #[trigger] before[i]),
                    decreases cids@.len() - __i1
//@loopend 1
                    proof {
                        assert forall|i: int| 0 <= i < __i1 implies cid_in(metadata.cids@, #[trigger] cids@[i]) by {
                            if i == __i1 - 1 { if cid_in(pre_cids, cid) { let k = choose|k: int| 0 <= k < pre_cids.len() && #[trigger] pre_cids[k] == cid; assert(metadata.cids@[k] == cid); } else { assert(metadata.cids@[metadata.cids@.len() - 1] == cid); } }
                            else { let k = choose|k: int| 0 <= k < pre_cids.len() && #[trigger] pre_cids[k] == cids@[i]; assert(metadata.cids@[k] == cids@[i]); }
                        }
                        assert forall|i: int| 0 <= i < before.len() implies cid_in(metadata.cids@, #[trigger] before[i]) by {
                            let k = choose|k: int| 0 <= k < pre_cids.len() && #[trigger] pre_cids[k] == before[i]; assert(metadata.cids@[k] == before[i]);
                        }
                    }
//@hint before "if !metadata.cids.contains(&cid) {"
                    let ghost pre_cids = metadata.cids@;
//@end
}

// both ends of the batch verify against their stored neighbours (when those exist)
pub open spec fn boundary_ok(o: InMemoryStoreInner, hs: Seq<ExtendedHeader>, lo: int, hi: int) -> bool {
    &&& (lo >= 2 && o.header_ranges@.contains(lo - 1) ==> verify_ok_spec(o.hdr((lo - 1) as u64), hs[0]))
    &&& (hi < u64::MAX && o.header_ranges@.contains(hi + 1) ==> verify_ok_spec(hs.last(), o.hdr((hi + 1) as u64)))
}
pub open spec fn tables_after(o: InMemoryStoreInner, n: InMemoryStoreInner, hs: Seq<ExtendedHeader>, lo: int) -> bool {
    let q = hs.len() as int;
    &&& forall|k: Hash| #![trigger n.headers@.contains_key(k)] n.headers@.contains_key(k) <==> (o.headers@.contains_key(k) || in_batch(hs, q, k))
    &&& forall|k: Hash| #![trigger o.headers@[k]] o.headers@.contains_key(k) ==> n.headers@[k] == o.headers@[k]
    &&& forall|j: int| 0 <= j < q ==> n.headers@[(#[trigger] hs[j]).hash_] == hs[j]
    &&& forall|h: u64| #![trigger n.height_to_hash@.contains_key(h)] n.height_to_hash@.contains_key(h) <==> (o.height_to_hash@.contains_key(h) || lo <= h < lo + q)
    &&& forall|h: u64| #![trigger o.height_to_hash@[h]] o.height_to_hash@.contains_key(h) ==> n.height_to_hash@[h] == o.height_to_hash@[h]
    &&& forall|j: int| 0 <= j < q ==> n.height_to_hash@[(lo + j) as u64] == (#[trigger] hs[j]).hash_
}

#[verifier::opaque]
pub open spec fn tables_upto(oh: Map<Hash, ExtendedHeader>, o2: Map<u64, Hash>, nh: Map<Hash, ExtendedHeader>, n2: Map<u64, Hash>, hs: Seq<ExtendedHeader>, lo: int, q: int) -> bool {
    &&& forall|k: Hash| #![trigger nh.contains_key(k)] nh.contains_key(k) <==> (oh.contains_key(k) || in_batch(hs, q, k))
    &&& forall|k: Hash| #![trigger oh[k]] oh.contains_key(k) ==> nh[k] == oh[k]
    &&& forall|j: int| 0 <= j < q ==> nh[(#[trigger] hs[j]).hash_] == hs[j]
    &&& forall|h: u64| #![trigger n2.contains_key(h)] n2.contains_key(h) <==> (o2.contains_key(h) || lo <= h < lo + q)
    &&& forall|h: u64| #![trigger o2[h]] o2.contains_key(h) ==> n2[h] == o2[h]
    &&& forall|j: int| 0 <= j < q ==> n2[(lo + j) as u64] == (#[trigger] hs[j]).hash_
}
// the next header's hash and height are in neither table yet
pub proof fn lemma_tables_fresh(o: InMemoryStoreInner, nh: Map<Hash, ExtendedHeader>, n2: Map<u64, Hash>, hs: Seq<ExtendedHeader>, lo: int, hi: int, q: int)
    requires
        o.inv(), 0 <= q < hs.len(), chain_ok(hs), lo == hs[0].h, hi == lo + hs.len() - 1, hi <= u64::MAX, lo >= 1,
        o.header_ranges@.disjoint(iv(lo, hi)),
        forall|j: int| 0 <= j < hs.len() ==> !o.headers@.contains_key(#[trigger] hs[j].hash_),
        forall|a: int, b: int| 0 <= a < b < hs.len() ==> (#[trigger] hs[a]).hash_ != (#[trigger] hs[b]).hash_,
        tables_upto(o.headers@, o.height_to_hash@, nh, n2, hs, lo, q),
    ensures
        hs[q].h == lo + q,
        !nh.contains_key(hs[q].hash_),
        !n2.contains_key(hs[q].h),
{
    reveal(tables_upto);
    lemma_chain_heights(hs, q);
    if in_batch(hs, q, hs[q].hash_) {
        let j = choose|j: int| 0 <= j < q && (#[trigger] hs[j]).hash_ == hs[q].hash_;
        assert(hs[j].hash_ != hs[q].hash_);
    }
    assert(iv(lo, hi).contains(lo + q));
    assert(!o.header_ranges@.contains(lo + q));
    assert(!o.height_to_hash@.contains_key((lo + q) as u64));
}
pub proof fn lemma_tables_step(oh: Map<Hash, ExtendedHeader>, o2: Map<u64, Hash>, nh: Map<Hash, ExtendedHeader>, n2: Map<u64, Hash>,
                               nh1: Map<Hash, ExtendedHeader>, n21: Map<u64, Hash>, hs: Seq<ExtendedHeader>, lo: int, q: int)
    requires
        1 <= q <= hs.len(), lo >= 1, lo + hs.len() - 1 <= u64::MAX,
        tables_upto(oh, o2, nh, n2, hs, lo, q - 1),
        hs[q - 1].h == lo + q - 1,
        !nh.contains_key(hs[q - 1].hash_), !n2.contains_key(hs[q - 1].h),
        nh1 == nh.insert(hs[q - 1].hash_, hs[q - 1]),
        n21 == n2.insert(hs[q - 1].h, hs[q - 1].hash_),
    ensures tables_upto(oh, o2, nh1, n21, hs, lo, q)
{
    reveal(tables_upto);
    let x = hs[q - 1];
    assert forall|k: Hash| #![trigger nh1.contains_key(k)] nh1.contains_key(k) <==> (oh.contains_key(k) || in_batch(hs, q, k)) by {
        if in_batch(hs, q, k) { let j = choose|j: int| 0 <= j < q && (#[trigger] hs[j]).hash_ == k; if j < q - 1 { assert(in_batch(hs, q - 1, k)); } }
        if in_batch(hs, q - 1, k) { let j = choose|j: int| 0 <= j < q - 1 && (#[trigger] hs[j]).hash_ == k; assert(hs[j].hash_ == k); }
        if k == x.hash_ { assert(hs[q - 1].hash_ == k); }
    }
    assert forall|k: Hash| #![trigger oh[k]] oh.contains_key(k) implies nh1[k] == oh[k] by { assert(nh.contains_key(k)); }
    assert forall|j: int| 0 <= j < q implies nh1[(#[trigger] hs[j]).hash_] == hs[j] by {
        if j < q - 1 { assert(in_batch(hs, q - 1, hs[j].hash_)); assert(nh.contains_key(hs[j].hash_)); }
    }
    assert forall|h: u64| #![trigger o2[h]] o2.contains_key(h) implies n21[h] == o2[h] by { assert(n2.contains_key(h)); }
    assert forall|j: int| 0 <= j < q implies n21[(lo + j) as u64] == (#[trigger] hs[j]).hash_ by {
        if j < q - 1 { assert(n2.contains_key((lo + j) as u64)); }
    }
}
// everything `insert` established before its two loops (static during the loops; opaque so that the loop queries stay small)
#[verifier::opaque]
pub open spec fn ins_pre(o: InMemoryStoreInner, hs: Seq<ExtendedHeader>, lo: int, hi: int) -> bool {
    &&& o.inv() && hs.len() > 0 && chain_ok(hs) && lo == hs[0].h && hi == lo + hs.len() - 1 && hi <= u64::MAX && lo >= 1
    &&& o.header_ranges@.disjoint(iv(lo, hi)) && boundary_ok(o, hs, lo, hi)
}
// the outcome of the duplicate pre-check loop
#[verifier::opaque]
pub open spec fn hashes_fresh(o: InMemoryStoreInner, hs: Seq<ExtendedHeader>) -> bool {
    &&& forall|j: int| 0 <= j < hs.len() ==> !o.headers@.contains_key(#[trigger] hs[j].hash_)
    &&& forall|a: int, b: int| 0 <= a < b < hs.len() ==> (#[trigger] hs[a]).hash_ != (#[trigger] hs[b]).hash_
}
pub proof fn lemma_tables_fresh2(o: InMemoryStoreInner, nh: Map<Hash, ExtendedHeader>, n2: Map<u64, Hash>, hs: Seq<ExtendedHeader>, lo: int, hi: int, q: int)
    requires ins_pre(o, hs, lo, hi), hashes_fresh(o, hs), 0 <= q < hs.len(), tables_upto(o.headers@, o.height_to_hash@, nh, n2, hs, lo, q),
    ensures hs[q].h == lo + q, !nh.contains_key(hs[q].hash_), !n2.contains_key(hs[q].h), lo >= 1, lo + hs.len() - 1 <= u64::MAX,
{
    reveal(ins_pre); reveal(hashes_fresh);
    lemma_tables_fresh(o, nh, n2, hs, lo, hi, q);
}
pub proof fn lemma_insert_final2(o: InMemoryStoreInner, n: InMemoryStoreInner, hs: Seq<ExtendedHeader>, lo: int, hi: int)
    requires
        ins_pre(o, hs, lo, hi), hashes_fresh(o, hs),
        n.header_ranges.wf(), n.header_ranges@ == o.header_ranges@.union(iv(lo, hi)),
        n.sampled_ranges.wf(), n.sampled_ranges@ == o.sampled_ranges@.difference(iv(lo, hi)),
        n.pruned_ranges.wf(), n.pruned_ranges@ == o.pruned_ranges@.difference(iv(lo, hi)),
        tables_upto(o.headers@, o.height_to_hash@, n.headers@, n.height_to_hash@, hs, lo, hs.len() as int),
    ensures
        n.inv(),
        hi == lo + hs.len() - 1, lo == hs[0].h, hi == hs.last().h, o.header_ranges@.disjoint(iv(lo, hi)),
        forall|j: int| 0 <= j < hs.len() ==> n.hdr((lo + j) as u64) == #[trigger] hs[j],
        forall|h: u64| o.header_ranges@.contains(h as int) ==> n.hdr(h) == o.hdr(h),
        o.linked() ==> n.linked(),
{
    reveal(ins_pre); reveal(hashes_fresh);
    lemma_chain_heights(hs, hs.len() as int - 1);
    lemma_upto_after(o, n, hs, lo);
    lemma_insert_final(o, n, hs, lo, hi);
}
pub proof fn lemma_upto_after(o: InMemoryStoreInner, n: InMemoryStoreInner, hs: Seq<ExtendedHeader>, lo: int)
    requires tables_upto(o.headers@, o.height_to_hash@, n.headers@, n.height_to_hash@, hs, lo, hs.len() as int)
    ensures tables_after(o, n, hs, lo)
{
    reveal(tables_upto);
}
pub proof fn lemma_insert_inv(o: InMemoryStoreInner, n: InMemoryStoreInner, hs: Seq<ExtendedHeader>, lo: int, hi: int)
    requires
        o.inv(), hs.len() > 0, chain_ok(hs), lo == hs[0].h, hi == lo + hs.len() - 1, 1 <= lo, hi <= u64::MAX,
        o.header_ranges@.disjoint(iv(lo, hi)),
        n.header_ranges.wf(), n.header_ranges@ == o.header_ranges@.union(iv(lo, hi)),
        n.sampled_ranges.wf(), n.sampled_ranges@ == o.sampled_ranges@.difference(iv(lo, hi)),
        n.pruned_ranges.wf(), n.pruned_ranges@ == o.pruned_ranges@.difference(iv(lo, hi)),
        forall|j: int| 0 <= j < hs.len() ==> !o.headers@.contains_key(#[trigger] hs[j].hash_),
        forall|a: int, b: int| 0 <= a < b < hs.len() ==> (#[trigger] hs[a]).hash_ != (#[trigger] hs[b]).hash_,
        tables_after(o, n, hs, lo),
    ensures n.inv()
{
    let q = hs.len() as int;
    assert forall|j: int| 0 <= j < q implies hs[j].h == lo + j by { lemma_chain_heights(hs, j); }
    // new heights are not old heights
    assert forall|h: u64| lo <= h < lo + q implies !o.height_to_hash@.contains_key(h) by {
        assert(iv(lo, hi).contains(h as int));
        assert(!o.header_ranges@.contains(h as int));
    }
    // (1) height index covers exactly the new range set
    assert forall|h: u64| #![trigger n.height_to_hash@.contains_key(h)] n.height_to_hash@.contains_key(h) <==> n.header_ranges@.contains(h as int) by {
        assert(iv(lo, hi).contains(h as int) <==> lo <= h < lo + q);
    }
    // (2) every indexed height leads to its header
    assert forall|h: u64| #![trigger n.height_to_hash@[h]] n.height_to_hash@.contains_key(h) implies ({
            let k = n.height_to_hash@[h];
            n.headers@.contains_key(k) && n.headers@[k].h == h && n.headers@[k].hash_ == k
        }) by {
        if lo <= h < lo + q {
            let j = h - lo;
            assert(n.height_to_hash@[(lo + j) as u64] == hs[j].hash_);
            assert(in_batch(hs, q, hs[j].hash_));
            assert(n.headers@[hs[j].hash_] == hs[j]);
        } else {
            assert(o.height_to_hash@.contains_key(h));
            let k = o.height_to_hash@[h];
            assert(o.headers@.contains_key(k));
            assert(n.headers@[k] == o.headers@[k]);
        }
    }
    // (3) no orphans
    assert forall|k: Hash| #![trigger n.headers@[k]] n.headers@.contains_key(k) implies
        n.height_to_hash@.contains_key(n.headers@[k].h) && n.height_to_hash@[n.headers@[k].h] == k by {
        if o.headers@.contains_key(k) {
            assert(n.headers@[k] == o.headers@[k]);
            let hh = o.headers@[k].h;
            assert(o.height_to_hash@.contains_key(hh) && o.height_to_hash@[hh] == k);
            assert(n.height_to_hash@[hh] == o.height_to_hash@[hh]);
        } else {
            assert(in_batch(hs, q, k));
            let j = choose|j: int| 0 <= j < q && (#[trigger] hs[j]).hash_ == k;
            assert(n.headers@[hs[j].hash_] == hs[j]);
            assert(n.height_to_hash@[(lo + j) as u64] == hs[j].hash_);
        }
    }
    assert(n.sampled_ranges@.subset_of(n.header_ranges@));
    assert(n.pruned_ranges@.disjoint(n.header_ranges@));
}
pub proof fn lemma_insert_view(o: InMemoryStoreInner, n: InMemoryStoreInner, hs: Seq<ExtendedHeader>, lo: int, hi: int)
    requires
        o.inv(), hs.len() > 0, chain_ok(hs), lo == hs[0].h, hi == lo + hs.len() - 1, 1 <= lo, hi <= u64::MAX,
        o.header_ranges@.disjoint(iv(lo, hi)),
        n.header_ranges.wf(), n.header_ranges@ == o.header_ranges@.union(iv(lo, hi)),
        n.sampled_ranges.wf(), n.sampled_ranges@ == o.sampled_ranges@.difference(iv(lo, hi)),
        n.pruned_ranges.wf(), n.pruned_ranges@ == o.pruned_ranges@.difference(iv(lo, hi)),
        forall|j: int| 0 <= j < hs.len() ==> !o.headers@.contains_key(#[trigger] hs[j].hash_),
        forall|a: int, b: int| 0 <= a < b < hs.len() ==> (#[trigger] hs[a]).hash_ != (#[trigger] hs[b]).hash_,
        tables_after(o, n, hs, lo),
    ensures
        forall|j: int| 0 <= j < hs.len() ==> n.hdr((lo + j) as u64) == #[trigger] hs[j],
        forall|h: u64| o.header_ranges@.contains(h as int) ==> n.hdr(h) == o.hdr(h),
{
    let q = hs.len() as int;
    // functional view
    assert forall|j: int| 0 <= j < q implies n.hdr((lo + j) as u64) == #[trigger] hs[j] by {
        assert(n.height_to_hash@[(lo + j) as u64] == hs[j].hash_);
    }
    assert forall|h: u64| o.header_ranges@.contains(h as int) implies n.hdr(h) == o.hdr(h) by {
        assert(o.height_to_hash@.contains_key(h));
        let k = o.height_to_hash@[h];
        assert(o.headers@.contains_key(k));
        assert(n.height_to_hash@[h] == k);
        assert(n.headers@[k] == o.headers@[k]);
    }
}
pub proof fn lemma_insert_linked(o: InMemoryStoreInner, n: InMemoryStoreInner, hs: Seq<ExtendedHeader>, lo: int, hi: int)
    requires
        hs.len() > 0, chain_ok(hs), lo == hs[0].h, hi == lo + hs.len() - 1, 1 <= lo, hi <= u64::MAX,
        // key sets of the height index (old keys, new keys, disjoint)
        forall|h: u64| #![trigger n.height_to_hash@.contains_key(h)] n.height_to_hash@.contains_key(h) <==> (o.height_to_hash@.contains_key(h) || lo <= h < lo + hs.len()),
        forall|h: u64| #![trigger o.height_to_hash@.contains_key(h)] o.height_to_hash@.contains_key(h) <==> o.header_ranges@.contains(h as int),
        forall|h: u64| lo <= h < lo + hs.len() ==> !o.height_to_hash@.contains_key(h),
        !o.height_to_hash@.contains_key(0),
        // what the new store holds at each height
        forall|j: int| 0 <= j < hs.len() ==> n.hdr((lo + j) as u64) == #[trigger] hs[j],
        forall|h: u64| o.header_ranges@.contains(h as int) ==> n.hdr(h) == o.hdr(h),
        forall|h: u64| #![trigger o.hdr(h)] o.height_to_hash@.contains_key(h) ==> o.hdr(h).h == h,
        o.linked(), boundary_ok(o, hs, lo, hi),
    ensures n.linked()
{
    let q = hs.len() as int;
    assert forall|j: int| 0 <= j < q implies hs[j].h == lo + j by { lemma_chain_heights(hs, j); }
    // links
    if o.linked() && boundary_ok(o, hs, lo, hi) {
        assert forall|h: u64| #![trigger n.height_to_hash@.contains_key(h)] h < u64::MAX && n.height_to_hash@.contains_key(h) && n.height_to_hash@.contains_key((h + 1) as u64)
            implies adjacent_ok(n.hdr(h), n.hdr((h + 1) as u64)) by {
            let h1 = (h + 1) as u64;
            let in0 = lo <= h < lo + q; let in1 = lo <= h1 < lo + q;
            if in0 && in1 {
                let j = h - lo;
                assert(n.hdr((lo + j) as u64) == hs[j]); assert(n.hdr((lo + (j + 1)) as u64) == hs[j + 1]);
                assert(link_at(hs, j));
                assert(adjacent_ok(n.hdr(h), n.hdr(h1)));
            } else if in0 && !in1 {
                // h == hi, h+1 old
                assert(h == hi);
                assert(o.header_ranges@.contains(hi + 1));
                assert(n.hdr((lo + (q - 1)) as u64) == hs[q - 1]);
                assert(n.hdr(h1) == o.hdr(h1));
                assert(o.hdr(h1).h == h1);
                assert(verify_ok_spec(hs.last(), o.hdr(h1)));
                assert(adjacent_ok(n.hdr(h), n.hdr(h1)));
            } else if !in0 && in1 {
                assert(h1 == lo);
                assert(o.header_ranges@.contains(lo - 1));
                assert(n.hdr((lo + 0) as u64) == hs[0]);
                assert(n.hdr(h) == o.hdr(h));
                assert(o.hdr(h).h == h);
                assert(verify_ok_spec(o.hdr(h), hs[0]));
                assert(adjacent_ok(n.hdr(h), n.hdr(h1)));
            } else {
                assert(o.height_to_hash@.contains_key(h) && o.height_to_hash@.contains_key(h1));
                assert(n.hdr(h) == o.hdr(h) && n.hdr(h1) == o.hdr(h1));
                assert(adjacent_ok(o.hdr(h), o.hdr(h1)));
            }
        }
    }
}
pub proof fn lemma_insert_final(o: InMemoryStoreInner, n: InMemoryStoreInner, hs: Seq<ExtendedHeader>, lo: int, hi: int)
    requires
        o.inv(), hs.len() > 0, chain_ok(hs), lo == hs[0].h, hi == lo + hs.len() - 1, 1 <= lo, hi <= u64::MAX,
        o.header_ranges@.disjoint(iv(lo, hi)),
        n.header_ranges.wf(), n.header_ranges@ == o.header_ranges@.union(iv(lo, hi)),
        n.sampled_ranges.wf(), n.sampled_ranges@ == o.sampled_ranges@.difference(iv(lo, hi)),
        n.pruned_ranges.wf(), n.pruned_ranges@ == o.pruned_ranges@.difference(iv(lo, hi)),
        forall|j: int| 0 <= j < hs.len() ==> !o.headers@.contains_key(#[trigger] hs[j].hash_),
        forall|a: int, b: int| 0 <= a < b < hs.len() ==> (#[trigger] hs[a]).hash_ != (#[trigger] hs[b]).hash_,
        tables_after(o, n, hs, lo),
    ensures
        n.inv(),
        forall|j: int| 0 <= j < hs.len() ==> n.hdr((lo + j) as u64) == #[trigger] hs[j],
        forall|h: u64| o.header_ranges@.contains(h as int) ==> n.hdr(h) == o.hdr(h),
        o.linked() && boundary_ok(o, hs, lo, hi) ==> n.linked(),
{
    lemma_insert_inv(o, n, hs, lo, hi);
    lemma_insert_view(o, n, hs, lo, hi);
    if o.linked() && boundary_ok(o, hs, lo, hi) {
        assert forall|h: u64| lo <= h < lo + hs.len() implies !o.height_to_hash@.contains_key(h) by {
            assert(iv(lo, hi).contains(h as int));
            assert(!o.header_ranges@.contains(h as int));
        }
        assert forall|h: u64| #![trigger o.hdr(h)] o.height_to_hash@.contains_key(h) implies o.hdr(h).h == h by {
            let k = o.height_to_hash@[h];
            assert(o.headers@.contains_key(k));
        }
        assert(!o.height_to_hash@.contains_key(0)) by { lemma_view_bounds(o.header_ranges.0@); }
        lemma_insert_linked(o, n, hs, lo, hi);
    }
}
//@end-export
} // verus!
fn main() {}
