//@unit hxc
//@serves C32
use vstd::prelude::*;
verus! {
// std specifications not in vstd (A-std)
pub assume_specification<T, F: FnOnce(T) -> bool> [Option::<T>::is_some_and] (o: Option<T>, f: F) -> (r: bool)
    requires o.is_some() ==> f.requires((o.unwrap(),))
    ensures o.is_none() ==> !r, o.is_some() ==> f.ensures((o.unwrap(),), r);
pub assume_specification<T, F: FnOnce(T) -> bool> [Option::<T>::is_none_or] (o: Option<T>, f: F) -> (r: bool)
    requires o.is_some() ==> f.requires((o.unwrap(),))
    ensures o.is_none() ==> r, o.is_some() ==> f.ensures((o.unwrap(),), r);
//@src node/src/p2p/header_ex/client.rs

#[verifier::external_body]
fn vx_assert(c: bool) requires c { }
#[verifier::external_body]
fn vx_unreachable() -> ! requires false { unimplemented!() }

// ---------------------------------------------------------------------------
// stubs (E9)
// ---------------------------------------------------------------------------
//@const MAX_TRIES
//@const MAX_PEERS
pub struct HeaderRequest { pub head: bool, pub valid: bool, pub id: u64 }
impl HeaderRequest {
    // contracts proved for the real functions in the hx unit (C28)
    #[verifier::external_body]
    pub fn is_head_request(&self) -> (b: bool) ensures b == self.head { unimplemented!() }
    #[verifier::external_body]
    pub fn is_valid(&self) -> (b: bool) ensures b == self.valid { unimplemented!() }
}
// libp2p request_response::OutboundFailure (the variants, so that code distinguishing them is decided rather than undecided: seed C32-c)
pub enum OutboundFailure { DialFailure, Timeout, ConnectionClosed, UnsupportedProtocols, Io }
pub struct InboundFailure {}
pub enum HeaderExError {
    HeaderNotFound, InvalidResponse, InvalidRequest, RequestCancelled,
    InboundFailure(InboundFailure), OutboundFailure(OutboundFailure),
}
#[derive(Clone, Copy, PartialEq, Eq, Structural)]
pub enum PeerKind { Any, Archival, Trusted, TrustedArchival }
pub open spec fn is_archival_kind(k: PeerKind) -> bool { k is Archival || k is TrustedArchival }

// the caller's oneshot channel: `answered` counts what was sent into it (ghost, E13)
pub struct OneshotSender { pub closed: bool, pub answers: Ghost<nat> }
impl OneshotSender {
    #[verifier::external_body]
    pub fn is_closed(&self) -> (b: bool) ensures b == self.closed { unimplemented!() }
    // OneshotSender::maybe_send*: sends at most once (the inner sender is taken)
    #[verifier::external_body]
    pub fn maybe_send_err(&mut self, e: HeaderExError)
        requires old(self).answers@ == 0
        ensures final(self).answers@ == 1, final(self).closed == old(self).closed
    { unimplemented!() }
}
pub struct State {
    pub peer_kind: PeerKind,
    pub request: HeaderRequest,
    pub respond_to: OneshotSender,
    pub tries_left: usize,
}
// C32 invariant of every request waiting to be (re)sent: it has not used up its three tries, it is not a head request,
// nothing was answered yet, it waits in the queue of its own peer kind, and its LAST try goes to archival peers
pub open spec fn pending_ok(s: State, queue: PeerKind) -> bool {
    &&& 1 <= s.tries_left <= MAX_TRIES
    &&& !s.request.head
    &&& s.respond_to.answers@ == 0
    &&& s.peer_kind == queue
    &&& (s.tries_left == 1 ==> is_archival_kind(queue))
}
// a request that is in flight: it was sent tries_left+1 .. times; at most MAX_TRIES sends in total
pub open spec fn inflight_ok(s: State) -> bool {
    s.tries_left < MAX_TRIES && !s.request.head && s.respond_to.answers@ == 0 && (s.tries_left == 0 ==> is_archival_kind(s.peer_kind))
}
// ghost (E13): every state queued so far, in order
pub struct Pending { pub pushed: Ghost<Seq<State>> }
impl Pending {
    // self.pending_reqs.entry(kind).or_default().push_back(state): the queue for `kind` receives `state`
    #[verifier::external_body]
    pub fn push_back(&mut self, kind: PeerKind, state: State)
        requires pending_ok(state, kind)
        ensures final(self).pushed@ == old(self).pushed@.push(state)
    { unimplemented!() }
}
pub struct ReqId { pub v: u64 }
// ghost (E13): the in-flight state taken out last
pub struct Reqs { pub last_removed: Ghost<Option<State>> }
impl Reqs {
    #[verifier::external_body]
    pub fn remove(&mut self, id: &ReqId) -> (r: Option<State>)
        ensures r.is_some() ==> inflight_ok(r.unwrap()), final(self).last_removed@ == r
    { unimplemented!() }
    #[verifier::external_body]
    pub fn insert(&mut self, id: ReqId, state: State)
        requires inflight_ok(state)
    { unimplemented!() }
}
pub struct HeadReqs {}
impl HeadReqs {
    #[verifier::external_body]
    pub fn push_back(&mut self, r: OneshotSender) requires r.answers@ == 0 { unimplemented!() }
}
pub struct CancellationToken {}
impl CancellationToken {
    #[verifier::external_body]
    pub fn is_cancelled(&self) -> bool { unimplemented!() }
}

// a connected peer as the scheduler sees it
pub struct PeerInfo { pub id_: u64, pub connected: bool, pub trusted: bool, pub archival: bool }
impl PeerInfo {
    #[verifier::external_body]
    pub fn id(&self) -> (r: &u64) ensures *r == self.id_ { unimplemented!() }
    #[verifier::external_body]
    pub fn is_connected(&self) -> (r: bool) ensures r == self.connected { unimplemented!() }
    #[verifier::external_body]
    pub fn is_trusted(&self) -> (r: bool) ensures r == self.trusted { unimplemented!() }
    #[verifier::external_body]
    pub fn is_archival(&self) -> (r: bool) ensures r == self.archival { unimplemented!() }
}
pub open spec fn peer_matches(p: PeerInfo, k: PeerKind) -> bool {
    p.connected && ((k is Trusted || k is TrustedArchival) ==> p.trusted) && ((k is Archival || k is TrustedArchival) ==> p.archival)
}
impl HeaderRequest {
    #[verifier::external_body]
    pub fn clone(&self) -> (r: HeaderRequest) ensures r == *self { unimplemented!() }
}
// the request-response behaviour; the ghost log records (peer, request id) of everything sent (E13)
pub struct Sender { pub sent: Ghost<Seq<(u64, u64)>> }
impl Sender {
    #[verifier::external_body]
    pub fn send_request(&mut self, peer: &u64, request: HeaderRequest) -> (r: ReqId)
        ensures final(self).sent@ == old(self).sent@.push((*peer, request.id))
    { unimplemented!() }
}
pub struct P2pError {}
impl OneshotSender {
    #[verifier::external_body]
    pub fn maybe_send(&mut self, r: Result<Vec<u64>, P2pError>)
        requires old(self).answers@ == 0
        ensures final(self).answers@ == 1
    { unimplemented!() }
}
#[verifier::external_body]
pub fn vx_map_err_p2p(r: Result<Vec<u64>, HeaderExError>) -> (o: Result<Vec<u64>, P2pError>) ensures o.is_ok() == r.is_ok() { unimplemented!() }
pub struct HeaderExClientHandler {
    pub reqs: Reqs,
    pub head_reqs: HeadReqs,
    pub pending_reqs: Pending,
    pub cancellation_token: CancellationToken,
}

// "sent at most three times": a failed attempt re-queues the request with exactly the tries it had left while in flight (the
// send is what uses one up), whatever the kind of failure - at most one re-queue per failure
pub open spec fn requeued_same_budget(a: HeaderExClientHandler, b: HeaderExClientHandler) -> bool {
    ||| b.pending_reqs.pushed@ == a.pending_reqs.pushed@
    ||| b.pending_reqs.pushed@.len() == a.pending_reqs.pushed@.len() + 1 && b.reqs.last_removed@.is_some()
        && b.pending_reqs.pushed@.last().tries_left == b.reqs.last_removed@.unwrap().tries_left
        && b.pending_reqs.pushed@.last().request == b.reqs.last_removed@.unwrap().request
}

//@fn - :: can_retry
//@props C32
fn can_retry(state: &State, err: &HeaderExError) -> (b: bool)
    // the client side never sees an inbound failure (the `unreachable!`)
    requires !(err is InboundFailure) || state.request.head || state.tries_left == 0 || state.respond_to.closed
    ensures
        b ==> !state.request.head && state.tries_left >= 1 && !state.respond_to.closed,
        b ==> (err is HeaderNotFound || err is InvalidResponse || err is OutboundFailure),
        (!state.request.head && state.tries_left >= 1 && !state.respond_to.closed && (err is HeaderNotFound || err is InvalidResponse || err is OutboundFailure)) ==> b,
//@end

//@fn - :: next_peer_kind
//@props C32
fn next_peer_kind(state: &State) -> (k: PeerKind)
    requires !state.request.head
    ensures
        // the last try always reaches archival peers; otherwise the kind does not change
        state.tries_left == 1 ==> is_archival_kind(k),
        state.tries_left != 1 ==> k == state.peer_kind,
        (state.peer_kind is Trusted || state.peer_kind is TrustedArchival) ==> (k is Trusted || k is TrustedArchival),
//@end

impl HeaderExClientHandler {
//@fn impl<S> HeaderExClientHandler<S> :: on_send_request
//@props C32
    pub fn on_send_request(&mut self, request: HeaderRequest, respond_to: OneshotSender)
        requires respond_to.answers@ == 0
//@sub E9 "let mut respond_to = OneshotSender::new(respond_to, HeaderExError::RequestCancelled);" => "let mut respond_to = respond_to;"
//@sub E9 "self.pending_reqs .entry(PeerKind::Any) .or_default() .push_back(State {" => "self.pending_reqs.push_back(PeerKind::Any, State {"
//@end

//@fn impl<S> HeaderExClientHandler<S> :: on_failure
//@props C32
    pub fn on_failure(&mut self, peer: u64, request_id: ReqId, error: OutboundFailure)
        ensures requeued_same_budget(*old(self), *final(self)),
//@sub E9 "self.pending_reqs .entry(peer_kind) .or_default() .push_back(State { peer_kind, ..state });" => "self.pending_reqs.push_back(peer_kind, State { peer_kind, ..state });"
//@end

//@fn impl<S> HeaderExClientHandler<S> :: schedule_pending_requests_impl
//@props C32
//@block "for (i, mut state) in pending_reqs .drain(..) .filter(|state| !state.respond_to.is_closed()) .enumerate() {"
    // one iteration of the sending loop: request number `i` of the queue for `peer_kind`
    fn schedule__send_one(&mut self, sender: &mut Sender, peers: &Vec<&PeerInfo>, i: usize, state: State, peer_kind: PeerKind)
        requires
            peers@.len() > 0, pending_ok(state, peer_kind),
            // what the filter over the peer tracker kept
            forall|k: int| 0 <= k < peers@.len() ==> peer_matches(*(#[trigger] peers@[k]), peer_kind),
        ensures
            // exactly one send, to a connected peer of the required kind (archival for the last try)
            final(sender).sent@.len() == old(sender).sent@.len() + 1,
            exists|k: int| 0 <= k < peers@.len() && final(sender).sent@.last() == ((#[trigger] peers@[k]).id_, state.request.id) && peer_matches(*peers@[k], peer_kind),
            state.tries_left == 1 ==> is_archival_kind(peer_kind),
//@hint entry
        let mut state = state;
//@end

//@fn impl<S> HeaderExClientHandler<S> :: schedule_pending_requests_impl #1
//@props C32
//@exprblock "match peer_kind {"
    // the peer filter of the sending loop: requests of a queue only go to connected peers of the queue's kind
    fn schedule__peer_filter(peer: &PeerInfo, peer_kind: PeerKind) -> (b: bool)
        ensures b == peer_matches(*peer, peer_kind)
//@end

//@fn impl<S> HeaderExClientHandler<S> :: poll
//@props C32
//@block "TaskResult::Req(req_id, res) => {"
    // the outcome of one in-flight request arrives
    fn poll__on_result(&mut self, req_id: ReqId, res: Result<Vec<u64>, HeaderExError>)
        // decode_and_verify_responses never reports an inbound failure (C28)
        requires res is Err ==> !(res->Err_0 is InboundFailure)
        ensures requeued_same_budget(*old(self), *final(self)),
//@sub E9 "if let Err(ref e) = res && can_retry(&state, e) {" => "if (match &res { Err(e) => can_retry(&state, e), Ok(_) => false }) {"
//@sub E11 "continue;" all => "return;"
//@sub E9 "self.pending_reqs .entry(peer_kind) .or_default() .push_back(State { peer_kind, ..state });" => "self.pending_reqs.push_back(peer_kind, State { peer_kind, ..state });"
//@sub E9 "res.map_err(P2pError::from)" => "vx_map_err_p2p(res)"
//@end
}

} // verus!
fn main() {}
