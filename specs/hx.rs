//@unit hx
//@serves C28 C29 C16
//@src node/src/p2p/header_ex/utils.rs
#![feature(allocator_api)]
use vstd::prelude::*;
verus! {
// std specifications not in vstd (A-std)
pub assume_specification<T, F: FnOnce(T) -> bool> [Option::<T>::is_some_and] (o: Option<T>, f: F) -> (r: bool)
    requires o.is_some() ==> f.requires((o.unwrap(),))
    ensures o.is_none() ==> !r, o.is_some() ==> f.ensures((o.unwrap(),), r);
pub assume_specification<T, F: FnOnce(T) -> bool> [Option::<T>::is_none_or] (o: Option<T>, f: F) -> (r: bool)
    requires o.is_some() ==> f.requires((o.unwrap(),))
    ensures o.is_none() ==> r, o.is_some() ==> f.ensures((o.unwrap(),), r);
//@begin-export
// std: reserve_exact only changes the capacity (A-std)
pub assume_specification<T, A: std::alloc::Allocator> [std::vec::Vec::<T, A>::reserve_exact] (v: &mut Vec<T, A>, additional: usize)
    ensures final(v)@ == old(v)@;
#[verifier::external_body]
fn vx_assert(c: bool) requires c { }
#[verifier::external_body]
fn vx_unreachable() -> ! requires false { unimplemented!() }

// ---- protobuf messages (prost generated structs; fields as in celestia_proto::p2p::pb) -------------------
pub enum Data { Origin(u64), Hash(Vec<u8>) }
pub struct HeaderRequest { pub data: Option<Data>, pub amount: u64 }
pub struct HeaderResponse { pub body: Vec<u8>, pub status_code: i32 }
#[derive(PartialEq, Eq, Clone, Copy, Structural)]
pub enum StatusCode { Invalid, Ok, NotFound }
pub uninterp spec fn status_of(code: i32) -> StatusCode;
impl HeaderResponse {
    // prost: unknown enum values map to the default variant (Invalid)
    #[verifier::external_body]
    pub fn status_code(&self) -> (r: StatusCode) ensures r == status_of(self.status_code) { unimplemented!() }
}
#[derive(Debug)]
pub enum HeaderExError { HeaderNotFound, InvalidResponse, InvalidRequest, Other }

pub struct ExtendedHeader { pub h: u64, pub hash_: Seq<u8> }
pub struct Hash { pub b: Vec<u8> }
pub const HASH_SIZE: usize = 32;   // types/src/consts.rs: tendermint::hash::SHA256_HASH_SIZE
// `hdr` is the result of ExtendedHeader::decode_and_validate(bytes) (C01: decode + validate)
pub uninterp spec fn validated_from(bytes: Seq<u8>, hdr: ExtendedHeader) -> bool;
#[derive(Debug)]
pub struct TypesError {}
impl ExtendedHeader {
    #[verifier::external_body]
    pub fn height(&self) -> (r: u64) ensures r == self.h { unimplemented!() }
    #[verifier::external_body]
    pub fn hash(&self) -> (r: Hash) ensures r.b@ == self.hash_ { unimplemented!() }
    #[verifier::external_body]
    pub fn decode_and_validate(bytes: &[u8]) -> (r: Result<ExtendedHeader, TypesError>)
        ensures r.is_ok() ==> validated_from(bytes@, r.unwrap())
    { unimplemented!() }
}
impl Hash {
    #[verifier::external_body]
    pub fn as_bytes(&self) -> (r: &[u8]) ensures r@ == self.b@ { unimplemented!() }
}
#[verifier::external_body]
pub async fn yield_now() { unimplemented!() }
// `a != b` between byte slices / vectors: element-wise comparison (std PartialEq for slices)
#[verifier::external_body]
pub fn vx_bytes_ne(a: &[u8], b: &Vec<u8>) -> (r: bool) ensures r == (a@ != b@) { a != b.as_slice() }

// C28: request classes
pub open spec fn req_valid(r: HeaderRequest) -> bool {
    &&& r.amount >= 1 && r.amount <= usize::MAX && r.data.is_some()
    &&& match r.data {
        Some(Data::Origin(o)) => o == 0 ==> r.amount == 1,
        Some(Data::Hash(h)) => h@.len() == HASH_SIZE && r.amount == 1,
        None => false,
    }
}
pub open spec fn req_is_head(r: HeaderRequest) -> bool {
    r.amount == 1 && (match r.data { Some(Data::Origin(o)) => o == 0, _ => false })
}

pub trait HeaderRequestExt {
    spec fn rq(&self) -> HeaderRequest;
    fn is_valid(&self) -> (b: bool) ensures b == req_valid(self.rq());
    fn is_head_request(&self) -> (b: bool) ensures b == req_is_head(self.rq());
}
impl HeaderRequestExt for HeaderRequest {
    open spec fn rq(&self) -> HeaderRequest { *self }
//@fn impl HeaderRequestExt for HeaderRequest :: is_valid
//@props C28 C29
    fn is_valid(&self) -> (b: bool)
//@sub E9 "if usize::try_from(self.amount).is_err() {" => "if self.amount > usize::MAX as u64 {"
//@end
//@fn impl HeaderRequestExt for HeaderRequest :: is_head_request
//@props C28 C29
    fn is_head_request(&self) -> (b: bool)
//@sub E9 "matches!((&self.data, self.amount), (Some(Data::Origin(0)), 1))" => "(match (&self.data, self.amount) { (Some(Data::Origin(0)), 1) => true, _ => false })"
//@end
}

pub trait HeaderResponseExt {
    spec fn rs(&self) -> HeaderResponse;
    fn to_validated_extented_header(&self) -> (r: Result<ExtendedHeader, HeaderExError>)
        ensures
            r.is_ok() ==> status_of(self.rs().status_code) == StatusCode::Ok && validated_from(self.rs().body@, r.unwrap()),
            status_of(self.rs().status_code) == StatusCode::NotFound ==> r is Err && r->Err_0 is HeaderNotFound,
            status_of(self.rs().status_code) == StatusCode::Invalid ==> r is Err && r->Err_0 is InvalidResponse;
}
impl HeaderResponseExt for HeaderResponse {
    open spec fn rs(&self) -> HeaderResponse { *self }
//@fn impl HeaderResponseExt for HeaderResponse :: to_validated_extented_header
//@props C28 C16
    fn to_validated_extented_header(&self) -> (r: Result<ExtendedHeader, HeaderExError>)
//@sub E9 "StatusCode::Ok => ExtendedHeader::decode_and_validate(&self.body[..]) .map_err(|_| HeaderExError::InvalidResponse)," => "StatusCode::Ok => match ExtendedHeader::decode_and_validate(self.body.as_slice()) { Ok(h) => Ok(h), Err(_) => Err(HeaderExError::InvalidResponse) },"
//@end
}

pub open spec fn validated_by(rs: Seq<HeaderResponse>, h: ExtendedHeader) -> bool {
    exists|j: int| 0 <= j < rs.len() && status_of((#[trigger] rs[j]).status_code) == StatusCode::Ok && validated_from(rs[j].body@, h)
}
pub open spec fn all_validated(hs: Seq<ExtendedHeader>, responses: Seq<HeaderResponse>) -> bool {
    forall|i: int| 0 <= i < hs.len() ==> validated_by(responses, #[trigger] hs[i])
}
// a permutation of validated headers consists of validated headers
pub proof fn lemma_perm_validated(a: Seq<ExtendedHeader>, b: Seq<ExtendedHeader>, rs: Seq<HeaderResponse>)
    requires all_validated(a, rs), a.to_multiset() == b.to_multiset()
    ensures all_validated(b, rs)
{
    assert forall|i: int| 0 <= i < b.len() implies validated_by(rs, #[trigger] b[i]) by {
        a.to_multiset_ensures();
        b.to_multiset_ensures();
        let x = b[i];
        assert(b.contains(x));
        assert(b.to_multiset().count(x) > 0);
        assert(a.to_multiset().count(x) > 0);
        assert(a.contains(x));
        let k = choose|k: int| 0 <= k < a.len() && a[k] == x;
        assert(validated_by(rs, a[k]));
    }
}
pub open spec fn sorted_by_height(s: Seq<ExtendedHeader>) -> bool {
    forall|i: int, j: int| 0 <= i < j < s.len() ==> s[i].h <= s[j].h
}
// E14: `headers.sort_unstable_by_key(|header| header.height())` - contract of sort_unstable_by_key from the std documentation
#[verifier::external_body]
fn vx_sort_by_height(v: &mut Vec<ExtendedHeader>)
    ensures final(v)@.len() == old(v)@.len(), sorted_by_height(final(v)@), final(v)@.to_multiset() == old(v)@.to_multiset()
{ unimplemented!() }

//@fn - :: decode_and_verify_responses @ node/src/p2p/header_ex/client.rs
//@props C28 C16
async fn decode_and_verify_responses(
    request: &HeaderRequest,
    responses: &[HeaderResponse],
) -> (res: Result<Vec<ExtendedHeader>, HeaderExError>)
    requires
        req_valid(*request),
        // A-tendermint: requested heights are bounded by i64::MAX, so origin + amount cannot overflow
        match request.data { Some(Data::Origin(o)) => o + request.amount <= u64::MAX, _ => true },
    ensures
        res.is_ok() ==> {
            let hs = res.unwrap()@;
            // a non-empty run of at most the requested amount
            &&& 1 <= hs.len() <= responses@.len() <= request.amount
            // every element is the validated decoding of some response with status Ok
            &&& all_validated(hs, responses@)
            &&& match request.data {
                // height request: heights are exactly start, start+1, ...
                Some(Data::Origin(start)) => if start > 0 { forall|i: int| 0 <= i < hs.len() ==> (#[trigger] hs[i]).h == start + i } else { hs.len() == 1 },
                // hash request: a single header with that hash
                Some(Data::Hash(hash)) => hs.len() == 1 && hs[0].hash_ == hash@,
                None => false,
            }
        }
//@sub E5 "usize::try_from(request.amount).expect(\"validated in HeaderRequestExt::is_valid\")" => "{ vx_assert(request.amount <= usize::MAX as u64); request.amount as usize }"
//@ascribe "let mut headers = Vec::with_capacity(responses.len());" => "let mut headers: Vec<ExtendedHeader> = Vec::with_capacity(responses.len());"
//@for 1 ref
//@loop 1
        invariant
            __i1 <= responses@.len(), headers@.len() <= __i1,
            __i1 > 0 ==> headers@.len() > 0,
            all_validated(headers@, responses@),
        decreases responses@.len() - __i1
//@hint before "headers.sort_unstable_by_key(|header| header.height());"
    let ghost before_sort = headers@;
//@sub E14 "headers.sort_unstable_by_key(|header| header.height());" => "vx_sort_by_height(&mut headers);"
//@hint before "match (&request.data, headers.len()) {"
    proof { lemma_perm_validated(before_sort, headers@, responses@); }
//@sub E9 "if headers[0].hash().as_bytes() != hash {" => "if vx_bytes_ne(headers[0].hash().as_bytes(), hash) {"
//@sub E7 "for (header, height) in headers.iter().zip(*start..*start + amount as u64) {"
            let mut __k: usize = 0;
            while __k < headers.len()
                invariant
                    __k <= headers@.len(), amount == headers@.len(), *start + amount <= u64::MAX,
                    all_validated(headers@, responses@),
                    forall|i: int| 0 <= i < __k ==> (#[trigger] headers@[i]).h == *start + i,
                decreases headers@.len() - __k
            {
                let header = &headers[__k]; let height = *start + __k as u64; __k += 1;
//@end

// ---------------------------------------------------------------------------
// C29: the server side (node/src/p2p/header_ex/server.rs)
// ---------------------------------------------------------------------------
#[derive(Debug)]
pub struct StoreError {}
// the header store as seen by the server: which heights are stored and the stored header of each (C19-C21 are about the store itself)
pub uninterp spec fn hdr_at(h: u64) -> ExtendedHeader;
// protobuf encoding of a header (Protobuf::encode_vec, A-prost)
pub uninterp spec fn enc_spec(h: ExtendedHeader) -> Seq<u8>;
pub uninterp spec fn code_of(s: StatusCode) -> i32;
// prost: `StatusCode::X.into()` yields the discriminant and status_code() maps it back
#[verifier::external_body]
pub proof fn axiom_status_roundtrip(s: StatusCode) ensures status_of(code_of(s)) == s { }
pub open spec fn is_resp_of(r: HeaderResponse, h: ExtendedHeader) -> bool { status_of(r.status_code) == StatusCode::Ok && r.body@ == enc_spec(h) }
pub open spec fn is_not_found(r: HeaderResponse) -> bool { status_of(r.status_code) == StatusCode::NotFound && r.body@.len() == 0 }
pub open spec fn is_invalid(r: HeaderResponse) -> bool { status_of(r.status_code) == StatusCode::Invalid && r.body@.len() == 0 }
impl StatusCode {
    #[verifier::external_body]
    pub fn into(self) -> (r: i32) ensures r == code_of(self) { unimplemented!() }
}
#[verifier::external_body]
pub fn vx_encode_vec(h: &ExtendedHeader) -> (r: Vec<u8>) ensures r@ == enc_spec(*h) { unimplemented!() }
pub struct Store { pub stored: Ghost<ISet<int>>, pub head: Ghost<Option<u64>> }
impl Store {
    #[verifier::external_body]
    pub async fn get_by_height(&self, h: u64) -> (r: Result<ExtendedHeader, StoreError>)
        ensures r.is_ok() == self.stored@.contains(h as int), r.is_ok() ==> r.unwrap() == hdr_at(h)
    { unimplemented!() }
    #[verifier::external_body]
    pub async fn get_head(&self) -> (r: Result<ExtendedHeader, StoreError>)
        ensures r.is_ok() == self.head@.is_some(), r.is_ok() ==> r.unwrap() == hdr_at(self.head@.unwrap())
    { unimplemented!() }
}
pub trait ExtendedHeaderExt {
    spec fn eh(&self) -> ExtendedHeader;
    fn to_header_response(&self) -> (r: HeaderResponse) ensures is_resp_of(r, self.eh());
}
impl ExtendedHeaderExt for ExtendedHeader {
    open spec fn eh(&self) -> ExtendedHeader { *self }
//@fn impl ExtendedHeaderExt for ExtendedHeader :: to_header_response @ node/src/p2p/header_ex/utils.rs
//@props C29
    fn to_header_response(&self) -> (r: HeaderResponse)
//@sub E9 "self.clone().encode_vec()" => "vx_encode_vec(self)"
//@hint entry
        proof { axiom_status_roundtrip(StatusCode::Ok); }
//@end
}
impl HeaderResponse {
//@fn impl HeaderResponseExt for HeaderResponse :: not_found @ node/src/p2p/header_ex/utils.rs
//@props C29
//@macro vec => Vec::new()
    pub fn not_found() -> (r: HeaderResponse) ensures is_not_found(r)
//@hint entry
        proof { axiom_status_roundtrip(StatusCode::NotFound); }
//@end
//@fn impl HeaderResponseExt for HeaderResponse :: invalid @ node/src/p2p/header_ex/utils.rs
//@props C29
//@macro vec => Vec::new()
    pub fn invalid() -> (r: HeaderResponse) ensures is_invalid(r)
//@hint entry
        proof { axiom_status_roundtrip(StatusCode::Invalid); }
//@end
}
pub struct Channel {}
//@const MAX_HEADERS_AMOUNT_RESPONSE @ node/src/p2p/header_ex/server.rs

//@fn - :: parse_request @ node/src/p2p/header_ex/server.rs
//@props C29 C16
fn parse_request(request: HeaderRequest) -> (r: Option<(u64, Data)>)
    ensures
        r.is_some() == req_valid(request),
        r.is_some() ==> r.unwrap().0 == request.amount && Some(r.unwrap().1) == request.data,
//@sub E8 "request.data.map(|data| (request.amount, data))" => "(match request.data { Some(data) => Some((request.amount, data)), None => None })"
//@end

// the longest run of consecutive stored heights starting at origin, at most n long
pub open spec fn run_len(stored: ISet<int>, origin: int, n: int) -> int
    decreases n
{
    if n <= 0 || !stored.contains(origin) { 0 } else { 1 + run_len(stored, origin + 1, n - 1) }
}
pub proof fn lemma_run_len_prefix(stored: ISet<int>, origin: int, n: int, k: int)
    requires
        0 <= k <= n,
        (forall|i: int| origin <= i < origin + k ==> stored.contains(i)),
        (k == n || !stored.contains(origin + k)),
    ensures
        run_len(stored, origin, n) == k,
    decreases k
{
    if k > 0 { lemma_run_len_prefix(stored, origin + 1, n - 1, k - 1); }
}

// C29 by height: the longest run of consecutive stored headers starting at the origin, capped at min(amount, 512); or a single not-found
pub open spec fn by_height_ok(stored: ISet<int>, origin: u64, amount: u64, resp: Seq<HeaderResponse>) -> bool {
    let n = if amount <= MAX_HEADERS_AMOUNT_RESPONSE { amount as int } else { MAX_HEADERS_AMOUNT_RESPONSE as int };
    let k = run_len(stored, origin as int, if origin + n <= u64::MAX { n } else { u64::MAX - origin });
    &&& (k == 0 ==> resp.len() == 1 && is_not_found(resp[0]))
    &&& (k > 0 ==> resp.len() == k && forall|j: int| 0 <= j < k ==> is_resp_of(#[trigger] resp[j], hdr_at((origin + j) as u64)))
}

//@fn impl<S, R> HeaderExServerHandler<S, R> :: handle_request_by_height @ node/src/p2p/header_ex/server.rs
//@props C29 C16
//@block "async move {"
async fn handle_request_by_height_task(store: &Store, channel: Channel, origin: u64, amount: u64) -> (res: (Channel, Vec<HeaderResponse>))
    requires origin >= 1
    ensures by_height_ok(store.stored@, origin, amount, res.1@)
//@hint entry
                let ghost amount0 = amount;
//@ascribe "let mut responses = vec![];" => "let mut responses: Vec<HeaderResponse> = Vec::new();"
//@for 1
//@loop 1
                    invariant_except_break
                        responses@.len() == __i1 - origin,
                    invariant
                        origin <= __i1 <= __i1_end, __i1_end == (if origin + amount <= u64::MAX { (origin + amount) as u64 } else { u64::MAX }),
                        amount == (if amount0 <= MAX_HEADERS_AMOUNT_RESPONSE { amount0 } else { MAX_HEADERS_AMOUNT_RESPONSE }),
                        responses@.len() <= __i1 - origin,
                        forall|i: int| origin <= i < origin + responses@.len() ==> store.stored@.contains(i),
                        forall|j: int| 0 <= j < responses@.len() ==> is_resp_of(#[trigger] responses@[j], hdr_at((origin + j) as u64)),
                    ensures
                        responses@.len() == __i1_end - origin || !store.stored@.contains(origin + responses@.len()),
                    decreases __i1_end - __i1
//@hint before "if responses.is_empty() {" 2
                proof {
                    lemma_run_len_prefix(store.stored@, origin as int, __i1_end - origin, responses@.len() as int);
                }
//@hint before "(channel, responses)"
                proof {
                    if run_len(store.stored@, origin as int, __i1_end - origin) == 0 { assert(responses@.len() == 1 && is_not_found(responses@[0])); }
                }
//@end

pub struct TmHash { pub v: u64 }
pub uninterp spec fn stored_by_hash(s: Store, h: TmHash) -> Option<ExtendedHeader>;
impl Store {
    #[verifier::external_body]
    pub async fn get_by_hash(&self, h: &TmHash) -> (r: Result<ExtendedHeader, StoreError>)
        ensures r.is_ok() == stored_by_hash(*self, *h).is_some(), r.is_ok() ==> r.unwrap() == stored_by_hash(*self, *h).unwrap()
    { unimplemented!() }
}
#[verifier::external_body]
pub fn vx_vec1(x: HeaderResponse) -> (r: Vec<HeaderResponse>) ensures r@ == seq![x] { vec![x] }

//@fn impl<S, R> HeaderExServerHandler<S, R> :: handle_request_current_head @ node/src/p2p/header_ex/server.rs
//@props C29 C16
//@block "async move {"
//@macro vec => vx_vec1($args)
async fn handle_request_current_head_task(store: &Store, channel: Channel) -> (res: (Channel, Vec<HeaderResponse>))
    ensures res.1@.len() == 1 && (match store.head@ { Some(h) => is_resp_of(res.1@[0], hdr_at(h)), None => is_not_found(res.1@[0]) })
//@sub E8 "store .get_head() .await .map(|head| head.to_header_response()) .unwrap_or_else(|_| HeaderResponse::not_found())" => "(match store.get_head().await { Ok(head) => head.to_header_response(), Err(_) => HeaderResponse::not_found() })"
//@end

//@fn impl<S, R> HeaderExServerHandler<S, R> :: handle_request_by_hash @ node/src/p2p/header_ex/server.rs
//@props C29 C16
//@block "async move {"
//@macro vec => vx_vec1($args)
async fn handle_request_by_hash_task(store: &Store, channel: Channel, hash: TmHash) -> (res: (Channel, Vec<HeaderResponse>))
    ensures res.1@.len() == 1 && (match stored_by_hash(*store, hash) { Some(h) => is_resp_of(res.1@[0], h), None => is_not_found(res.1@[0]) })
//@sub E8 "store .get_by_hash(&hash) .await .map(|head| head.to_header_response()) .unwrap_or_else(|_| HeaderResponse::not_found())" => "(match store.get_by_hash(&hash).await { Ok(head) => head.to_header_response(), Err(_) => HeaderResponse::not_found() })"
//@end

// dispatch (on_request_received): which handler runs for which request; the handlers' effects are recorded in ghost fields
pub enum Action { Nothing, Invalid, Head, ByHeight(u64, u64), ByHash(Seq<u8>) }
pub struct PeerId {}
pub struct Sender { pub sent: Ghost<Action> }
pub struct HeaderExServerHandler { pub stopping: bool, pub last: Ghost<Action> }
impl HeaderExServerHandler {
    #[verifier::external_body]
    fn handle_invalid_request(&self, sender: &mut Sender, channel: Channel) ensures final(sender).sent@ == Action::Invalid { unimplemented!() }
    #[verifier::external_body]
    fn handle_request_current_head(&mut self, channel: Channel) ensures final(self).last@ == Action::Head, final(self).stopping == old(self).stopping { unimplemented!() }
    #[verifier::external_body]
    fn handle_request_by_height(&mut self, channel: Channel, origin: u64, amount: u64)
        ensures final(self).last@ == Action::ByHeight(origin, amount), final(self).stopping == old(self).stopping { unimplemented!() }
    #[verifier::external_body]
    fn handle_request_by_hash(&mut self, sender: &mut Sender, channel: Channel, hash: Vec<u8>)
        ensures final(self).last@ == Action::ByHash(hash@), final(self).stopping == old(self).stopping, final(sender).sent@ == old(sender).sent@ { unimplemented!() }

//@fn impl<S, R> HeaderExServerHandler<S, R> :: on_request_received @ node/src/p2p/header_ex/server.rs
//@props C29 C16
    fn on_request_received(
        &mut self,
        peer: PeerId,
        request_id: u64,
        request: HeaderRequest,
        response_sender: &mut Sender,
        response_channel: Channel,
    )
        requires old(self).last@ is Nothing, old(response_sender).sent@ is Nothing
        ensures
            old(self).stopping ==> final(self).last@ is Nothing && final(response_sender).sent@ is Nothing,
            !old(self).stopping && !req_valid(request) ==> final(response_sender).sent@ is Invalid && final(self).last@ is Nothing,
            !old(self).stopping && req_valid(request) ==> final(response_sender).sent@ is Nothing && match request.data {
                Some(Data::Origin(o)) => if o == 0 { final(self).last@ is Head } else { final(self).last@ == Action::ByHeight(o, request.amount) },
                Some(Data::Hash(h)) => final(self).last@ == Action::ByHash(h@),
                None => false,
            },
//@sub E9 "header_request::Data" all => "Data"
//@end
}
//@end-export
} // verus!
fn main() {}
