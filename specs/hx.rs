//@unit hx
//@serves C28 C29
//@src node/src/p2p/header_ex/utils.rs
use vstd::prelude::*;
verus! {
//@begin-export
#[verifier::external_body]
fn vx_assert(c: bool) requires c { }
#[verifier::external_body]
fn vx_unreachable() -> ! requires false { unimplemented!() }

// ---- protobuf messages (prost generated structs; fields as in celestia_proto::p2p::pb) -------------------
pub enum Data { Origin(u64), Hash(Vec<u8>) }
pub struct HeaderRequest { pub data: Option<Data>, pub amount: u64 }
pub struct HeaderResponse { pub body: Vec<u8>, pub status_code: i32 }
#[derive(PartialEq, Eq, Clone, Copy, Structural)]
pub enum StatusCode { Invalid, Ok, NotFound }
pub uninterp spec fn status_of(code: i32) -> StatusCode;
impl HeaderResponse {
    // prost: unknown enum values map to the default variant (Invalid)
    #[verifier::external_body]
    pub fn status_code(&self) -> (r: StatusCode) ensures r == status_of(self.status_code) { unimplemented!() }
}
#[derive(Debug)]
pub enum HeaderExError { HeaderNotFound, InvalidResponse, InvalidRequest, Other }

pub struct ExtendedHeader { pub h: u64, pub hash_: Seq<u8> }
pub struct Hash { pub b: Vec<u8> }
pub const HASH_SIZE: usize = 32;   // types/src/consts.rs: tendermint::hash::SHA256_HASH_SIZE
// `hdr` is the result of ExtendedHeader::decode_and_validate(bytes) (C01: decode + validate)
pub uninterp spec fn validated_from(bytes: Seq<u8>, hdr: ExtendedHeader) -> bool;
#[derive(Debug)]
pub struct TypesError {}
impl ExtendedHeader {
    #[verifier::external_body]
    pub fn height(&self) -> (r: u64) ensures r == self.h { unimplemented!() }
    #[verifier::external_body]
    pub fn hash(&self) -> (r: Hash) ensures r.b@ == self.hash_ { unimplemented!() }
    #[verifier::external_body]
    pub fn decode_and_validate(bytes: &[u8]) -> (r: Result<ExtendedHeader, TypesError>)
        ensures r.is_ok() ==> validated_from(bytes@, r.unwrap())
    { unimplemented!() }
}
impl Hash {
    #[verifier::external_body]
    pub fn as_bytes(&self) -> (r: &[u8]) ensures r@ == self.b@ { unimplemented!() }
}
#[verifier::external_body]
pub async fn yield_now() { unimplemented!() }
// `a != b` between byte slices / vectors: element-wise comparison (std PartialEq for slices)
#[verifier::external_body]
pub fn vx_bytes_ne(a: &[u8], b: &Vec<u8>) -> (r: bool) ensures r == (a@ != b@) { a != b.as_slice() }

// C28: request classes
pub open spec fn req_valid(r: HeaderRequest) -> bool {
    &&& r.amount >= 1 && r.amount <= usize::MAX && r.data.is_some()
    &&& match r.data {
        Some(Data::Origin(o)) => o == 0 ==> r.amount == 1,
        Some(Data::Hash(h)) => h@.len() == HASH_SIZE && r.amount == 1,
        None => false,
    }
}
pub open spec fn req_is_head(r: HeaderRequest) -> bool {
    r.amount == 1 && (match r.data { Some(Data::Origin(o)) => o == 0, _ => false })
}

pub trait HeaderRequestExt {
    spec fn rq(&self) -> HeaderRequest;
    fn is_valid(&self) -> (b: bool) ensures b == req_valid(self.rq());
    fn is_head_request(&self) -> (b: bool) ensures b == req_is_head(self.rq());
}
impl HeaderRequestExt for HeaderRequest {
    open spec fn rq(&self) -> HeaderRequest { *self }
//@fn impl HeaderRequestExt for HeaderRequest :: is_valid
//@props C28 C29
    fn is_valid(&self) -> (b: bool)
//@sub E9 "if usize::try_from(self.amount).is_err() {" => "if self.amount > usize::MAX as u64 {"
//@end
//@fn impl HeaderRequestExt for HeaderRequest :: is_head_request
//@props C28 C29
    fn is_head_request(&self) -> (b: bool)
//@sub E9 "matches!((&self.data, self.amount), (Some(Data::Origin(0)), 1))" => "(match (&self.data, self.amount) { (Some(Data::Origin(0)), 1) => true, _ => false })"
//@end
}

pub trait HeaderResponseExt {
    spec fn rs(&self) -> HeaderResponse;
    fn to_validated_extented_header(&self) -> (r: Result<ExtendedHeader, HeaderExError>)
        ensures
            r.is_ok() ==> status_of(self.rs().status_code) == StatusCode::Ok && validated_from(self.rs().body@, r.unwrap()),
            status_of(self.rs().status_code) == StatusCode::NotFound ==> r is Err && r->Err_0 is HeaderNotFound,
            status_of(self.rs().status_code) == StatusCode::Invalid ==> r is Err && r->Err_0 is InvalidResponse;
}
impl HeaderResponseExt for HeaderResponse {
    open spec fn rs(&self) -> HeaderResponse { *self }
//@fn impl HeaderResponseExt for HeaderResponse :: to_validated_extented_header
//@props C28
    fn to_validated_extented_header(&self) -> (r: Result<ExtendedHeader, HeaderExError>)
//@sub E9 "StatusCode::Ok => ExtendedHeader::decode_and_validate(&self.body[..]) .map_err(|_| HeaderExError::InvalidResponse)," => "StatusCode::Ok => match ExtendedHeader::decode_and_validate(self.body.as_slice()) { Ok(h) => Ok(h), Err(_) => Err(HeaderExError::InvalidResponse) },"
//@end
}

pub open spec fn all_validated(hs: Seq<ExtendedHeader>, responses: Seq<HeaderResponse>) -> bool {
    forall|i: int| 0 <= i < hs.len() ==> exists|j: int| 0 <= j < responses.len()
        && status_of(responses[j].status_code) == StatusCode::Ok && validated_from(responses[j].body@, #[trigger] hs[i])
}
pub open spec fn sorted_by_height(s: Seq<ExtendedHeader>) -> bool {
    forall|i: int, j: int| 0 <= i < j < s.len() ==> s[i].h <= s[j].h
}
// E14: `headers.sort_unstable_by_key(|header| header.height())` - contract of sort_unstable_by_key from the std documentation
#[verifier::external_body]
fn vx_sort_by_height(v: &mut Vec<ExtendedHeader>)
    ensures final(v)@.len() == old(v)@.len(), sorted_by_height(final(v)@), final(v)@.to_multiset() == old(v)@.to_multiset()
{ unimplemented!() }

//@fn - :: decode_and_verify_responses @ node/src/p2p/header_ex/client.rs
//@props C28
async fn decode_and_verify_responses(
    request: &HeaderRequest,
    responses: &[HeaderResponse],
) -> (res: Result<Vec<ExtendedHeader>, HeaderExError>)
    requires
        req_valid(*request),
        // A-tendermint: requested heights are bounded by i64::MAX, so origin + amount cannot overflow
        match request.data { Some(Data::Origin(o)) => o + request.amount <= u64::MAX, _ => true },
    ensures
        res.is_ok() ==> {
            let hs = res.unwrap()@;
            // a non-empty run of at most the requested amount
            &&& 1 <= hs.len() <= responses@.len() <= request.amount
            // every element is the validated decoding of some response with status Ok
            &&& all_validated(hs, responses@)
            &&& match request.data {
                // height request: heights are exactly start, start+1, ...
                Some(Data::Origin(start)) => if start > 0 { forall|i: int| 0 <= i < hs.len() ==> (#[trigger] hs[i]).h == start + i } else { hs.len() == 1 },
                // hash request: a single header with that hash
                Some(Data::Hash(hash)) => hs.len() == 1 && hs[0].hash_ == hash@,
                None => false,
            }
        }
//@sub E5 "usize::try_from(request.amount).expect(\"validated in HeaderRequestExt::is_valid\")" => "{ vx_assert(request.amount <= usize::MAX as u64); request.amount as usize }"
//@ascribe "let mut headers = Vec::with_capacity(responses.len());" => "let mut headers: Vec<ExtendedHeader> = Vec::with_capacity(responses.len());"
//@for 1 ref
//@loop 1
        invariant
            __i1 <= responses@.len(), headers@.len() <= __i1,
            __i1 > 0 ==> headers@.len() > 0,
            all_validated(headers@, responses@),
        decreases responses@.len() - __i1
//@hint before "headers.sort_unstable_by_key(|header| header.height());"
    let ghost before_sort = headers@;
//@sub E14 "headers.sort_unstable_by_key(|header| header.height());" => "vx_sort_by_height(&mut headers);"
//@hint before "match (&request.data, headers.len()) {"
    proof {
        assert(all_validated(before_sort, responses@));
        assert forall|i: int| 0 <= i < headers@.len() implies exists|j: int| 0 <= j < responses@.len()
            && status_of(responses@[j].status_code) == StatusCode::Ok && validated_from(responses@[j].body@, #[trigger] headers@[i]) by {
            // a sorted permutation contains only elements of the original sequence
            headers@.to_multiset_ensures();
            before_sort.to_multiset_ensures();
            let x = headers@[i];
            assert(headers@.contains(x));
            assert(headers@.to_multiset().count(x) > 0);
            assert(headers@.to_multiset() == before_sort.to_multiset());
            assert(before_sort.to_multiset().count(x) > 0);
            assert(before_sort.contains(x));
            let k = choose|k: int| 0 <= k < before_sort.len() && before_sort[k] == headers@[i];
            assert(before_sort[k] == headers@[i]);
        }
    }
//@sub E9 "if headers[0].hash().as_bytes() != hash {" => "if vx_bytes_ne(headers[0].hash().as_bytes(), hash) {"
//@sub E7 "for (header, height) in headers.iter().zip(*start..*start + amount as u64) {"
            let mut __k: usize = 0;
            while __k < headers.len()
                invariant
                    __k <= headers@.len(), amount == headers@.len(), *start + amount <= u64::MAX,
                    all_validated(headers@, responses@),
                    forall|i: int| 0 <= i < __k ==> (#[trigger] headers@[i]).h == *start + i,
                decreases headers@.len() - __k
            {
                let header = &headers[__k]; let height = *start + __k as u64; __k += 1;
//@end
//@end-export
} // verus!
fn main() {}
