//@unit mh
//@serves C10 C16 C04 C05 C06
use vstd::prelude::*;
verus! {
// std specifications not in vstd (A-std)
pub assume_specification<T, F: FnOnce(T) -> bool> [Option::<T>::is_some_and] (o: Option<T>, f: F) -> (r: bool)
    requires o.is_some() ==> f.requires((o.unwrap(),))
    ensures o.is_none() ==> !r, o.is_some() ==> f.ensures((o.unwrap(),), r);
pub assume_specification<T, F: FnOnce(T) -> bool> [Option::<T>::is_none_or] (o: Option<T>, f: F) -> (r: bool)
    requires o.is_some() ==> f.requires((o.unwrap(),))
    ensures o.is_none() ==> r, o.is_some() ==> f.ensures((o.unwrap(),), r);
//@src node/src/p2p/shwap.rs

// ---------------------------------------------------------------------------
// stubs (E9): protobuf Block, CIDs, the three shwap id/container pairs, the header store. Every decoder is an
// uninterpreted partial function of its input bytes; `verify` is the container's verification relation (C04, C05, C06).
// ---------------------------------------------------------------------------
pub struct Block { pub cid: Vec<u8>, pub container: Vec<u8> }
pub struct DecodeError {}
pub uninterp spec fn block_dec(input: Seq<u8>) -> Option<(Seq<u8>, Seq<u8>)>;
impl Block {
    #[verifier::external_body]
    pub fn decode(input: &[u8]) -> (r: Result<Block, DecodeError>)
        ensures match r { Ok(b) => block_dec(input@) == Some((b.cid@, b.container@)), Err(_) => block_dec(input@).is_none() }
    { unimplemented!() }
}
// CidGeneric<MAX_MH_SIZE>
#[derive(Clone, Copy)]
pub struct CidBig { pub v: u64 }
pub struct CidError {}
pub uninterp spec fn cid_dec(b: Seq<u8>) -> Option<CidBig>;
impl CidBig {
    #[verifier::external_body]
    pub fn read_bytes(b: &[u8]) -> (r: Result<CidBig, CidError>)
        ensures match r { Ok(c) => cid_dec(b@) == Some(c), Err(_) => cid_dec(b@).is_none() }
    { unimplemented!() }
}
// the 64-byte Cid bitswap works with, and its multihash
#[derive(Clone, Copy, PartialEq, Eq)]
pub struct Multihash { pub v: u64 }
pub struct Cid { pub mh: Multihash }
impl Cid {
    pub fn hash(&self) -> (r: &Multihash) ensures *r == self.mh { &self.mh }
}
impl Multihash {
    pub fn to_owned(&self) -> (r: Multihash) ensures r == *self { *self }
}
pub struct P2pError {}
pub uninterp spec fn cid_conv(c: CidBig) -> Option<Multihash>;
// beetswap::utils::convert_cid: re-sizes the multihash, None if it does not fit
#[verifier::external_body]
pub fn convert_cid(cid: &CidBig) -> (r: Result<Cid, P2pError>)
    ensures match r { Ok(c) => cid_conv(*cid) == Some(c.mh), Err(_) => cid_conv(*cid).is_none() }
{ unimplemented!() }

pub struct DataAvailabilityHeader { pub v: u64 }
pub struct ExtendedHeader { pub h: u64, pub dah: DataAvailabilityHeader }
pub struct StoreError {}
pub struct HeaderStore { pub at: Ghost<Map<u64, ExtendedHeader>> }
impl HeaderStore {
    // C19 contract of Store::get_by_height
    #[verifier::external_body]
    pub async fn get_by_height(&self, h: u64) -> (r: Result<ExtendedHeader, StoreError>)
        ensures match r { Ok(e) => self.at@.contains_key(h) && self.at@[h] == e, Err(_) => true }
    { unimplemented!() }
}
pub struct TypesError {}

// one shwap kind = its id (decoded from a CID, converted back into one), its container (decoded under an id) and the
// container's verification against a DAH; the three kinds are spelled out (macro_rules cannot produce Verus items)
#[derive(Clone, Copy)]
pub struct RowId { pub height: u64, pub rest: u64 }
pub struct Row { pub v: u64 }
pub uninterp spec fn row_id_of(c: CidBig) -> Option<RowId>;
pub uninterp spec fn row_cid_of(i: RowId) -> CidBig;
pub uninterp spec fn row_dec(i: RowId, b: Seq<u8>) -> Option<Row>;
pub uninterp spec fn row_ver(c: Row, i: RowId, d: DataAvailabilityHeader) -> bool;
impl RowId {
    #[verifier::external_body]
    pub fn try_from(c: CidBig) -> (r: Result<RowId, TypesError>)
        ensures match r { Ok(i) => row_id_of(c) == Some(i), Err(_) => row_id_of(c).is_none() }
    { unimplemented!() }
    #[verifier::external_body]
    pub fn into(self) -> (r: CidBig) ensures r == row_cid_of(self) { unimplemented!() }
    #[verifier::external_body]
    pub fn block_height(&self) -> (r: u64) ensures r == self.height { unimplemented!() }
}
impl Row {
    #[verifier::external_body]
    pub fn decode(i: RowId, b: &[u8]) -> (r: Result<Row, TypesError>)
        ensures match r { Ok(c) => row_dec(i, b@) == Some(c), Err(_) => row_dec(i, b@).is_none() }
    { unimplemented!() }
    #[verifier::external_body]
    pub fn verify(&self, i: RowId, d: &DataAvailabilityHeader) -> (r: Result<(), TypesError>)
        ensures r.is_ok() == row_ver(*self, i, *d)
    { unimplemented!() }
}
#[derive(Clone, Copy)]
pub struct RowNamespaceDataId { pub height: u64, pub rest: u64 }
pub struct RowNamespaceData { pub v: u64 }
pub uninterp spec fn rnd_id_of(c: CidBig) -> Option<RowNamespaceDataId>;
pub uninterp spec fn rnd_cid_of(i: RowNamespaceDataId) -> CidBig;
pub uninterp spec fn rnd_dec(i: RowNamespaceDataId, b: Seq<u8>) -> Option<RowNamespaceData>;
pub uninterp spec fn rnd_ver(c: RowNamespaceData, i: RowNamespaceDataId, d: DataAvailabilityHeader) -> bool;
impl RowNamespaceDataId {
    #[verifier::external_body]
    pub fn try_from(c: CidBig) -> (r: Result<RowNamespaceDataId, TypesError>)
        ensures match r { Ok(i) => rnd_id_of(c) == Some(i), Err(_) => rnd_id_of(c).is_none() }
    { unimplemented!() }
    #[verifier::external_body]
    pub fn into(self) -> (r: CidBig) ensures r == rnd_cid_of(self) { unimplemented!() }
    #[verifier::external_body]
    pub fn block_height(&self) -> (r: u64) ensures r == self.height { unimplemented!() }
}
impl RowNamespaceData {
    #[verifier::external_body]
    pub fn decode(i: RowNamespaceDataId, b: &[u8]) -> (r: Result<RowNamespaceData, TypesError>)
        ensures match r { Ok(c) => rnd_dec(i, b@) == Some(c), Err(_) => rnd_dec(i, b@).is_none() }
    { unimplemented!() }
    #[verifier::external_body]
    pub fn verify(&self, i: RowNamespaceDataId, d: &DataAvailabilityHeader) -> (r: Result<(), TypesError>)
        ensures r.is_ok() == rnd_ver(*self, i, *d)
    { unimplemented!() }
}
#[derive(Clone, Copy)]
pub struct SampleId { pub height: u64, pub rest: u64 }
pub struct Sample { pub v: u64 }
pub uninterp spec fn sample_id_of(c: CidBig) -> Option<SampleId>;
pub uninterp spec fn sample_cid_of(i: SampleId) -> CidBig;
pub uninterp spec fn sample_dec(i: SampleId, b: Seq<u8>) -> Option<Sample>;
pub uninterp spec fn sample_ver(c: Sample, i: SampleId, d: DataAvailabilityHeader) -> bool;
impl SampleId {
    #[verifier::external_body]
    pub fn try_from(c: CidBig) -> (r: Result<SampleId, TypesError>)
        ensures match r { Ok(i) => sample_id_of(c) == Some(i), Err(_) => sample_id_of(c).is_none() }
    { unimplemented!() }
    #[verifier::external_body]
    pub fn into(self) -> (r: CidBig) ensures r == sample_cid_of(self) { unimplemented!() }
    #[verifier::external_body]
    pub fn block_height(&self) -> (r: u64) ensures r == self.height { unimplemented!() }
}
impl Sample {
    #[verifier::external_body]
    pub fn decode(i: SampleId, b: &[u8]) -> (r: Result<Sample, TypesError>)
        ensures match r { Ok(c) => sample_dec(i, b@) == Some(c), Err(_) => sample_dec(i, b@).is_none() }
    { unimplemented!() }
    #[verifier::external_body]
    pub fn verify(&self, i: SampleId, d: &DataAvailabilityHeader) -> (r: Result<(), TypesError>)
        ensures r.is_ok() == sample_ver(*self, i, *d)
    { unimplemented!() }
}

#[derive(Debug)]
pub enum MultihasherError { UnknownMultihashCode, Fatal }
impl vstd::std_specs::convert::FromSpecImpl<DecodeError> for MultihasherError {
    open spec fn obeys_from_spec() -> bool { true }
    open spec fn from_spec(e: DecodeError) -> MultihasherError { MultihasherError::Fatal }
}
impl From<DecodeError> for MultihasherError { fn from(e: DecodeError) -> MultihasherError { MultihasherError::Fatal } }
impl vstd::std_specs::convert::FromSpecImpl<CidError> for MultihasherError {
    open spec fn obeys_from_spec() -> bool { true }
    open spec fn from_spec(e: CidError) -> MultihasherError { MultihasherError::Fatal }
}
impl From<CidError> for MultihasherError { fn from(e: CidError) -> MultihasherError { MultihasherError::Fatal } }
impl vstd::std_specs::convert::FromSpecImpl<TypesError> for MultihasherError {
    open spec fn obeys_from_spec() -> bool { true }
    open spec fn from_spec(e: TypesError) -> MultihasherError { MultihasherError::Fatal }
}
impl From<TypesError> for MultihasherError { fn from(e: TypesError) -> MultihasherError { MultihasherError::Fatal } }
impl vstd::std_specs::convert::FromSpecImpl<P2pError> for MultihasherError {
    open spec fn obeys_from_spec() -> bool { true }
    open spec fn from_spec(e: P2pError) -> MultihasherError { MultihasherError::Fatal }
}
impl From<P2pError> for MultihasherError { fn from(e: P2pError) -> MultihasherError { MultihasherError::Fatal } }
impl vstd::std_specs::convert::FromSpecImpl<StoreError> for MultihasherError {
    open spec fn obeys_from_spec() -> bool { true }
    open spec fn from_spec(e: StoreError) -> MultihasherError { MultihasherError::Fatal }
}
impl From<StoreError> for MultihasherError { fn from(e: StoreError) -> MultihasherError { MultihasherError::Fatal } }

//@const ROW_ID_MULTIHASH_CODE @types/src/row.rs
//@const ROW_NAMESPACE_DATA_ID_MULTIHASH_CODE @types/src/row_namespace_data.rs
//@const SAMPLE_ID_MULTIHASH_CODE @types/src/sample.rs

pub struct ShwapMultihasher { pub header_store: HeaderStore }

// C10: the hash of a block of one kind is produced only along this chain: the Block decodes, its cid decodes to an id of
// that kind, the container decodes under that id, the id's CID fits bitswap's multihash size, the header of the id's
// height is stored and the container verifies against that header's DAH
pub open spec fn accepts_row(st: Map<u64, ExtendedHeader>, input: Seq<u8>, out: Multihash) -> bool {
    match block_dec(input) {
        Some((cid, cont)) => match cid_dec(cid) {
            Some(c) => match row_id_of(c) {
                Some(i) => match row_dec(i, cont) {
                    Some(k) => cid_conv(row_cid_of(i)) == Some(out) && st.contains_key(i.height) && row_ver(k, i, st[i.height].dah),
                    None => false,
                },
                None => false,
            },
            None => false,
        },
        None => false,
    }
}
pub open spec fn accepts_rnd(st: Map<u64, ExtendedHeader>, input: Seq<u8>, out: Multihash) -> bool {
    match block_dec(input) {
        Some((cid, cont)) => match cid_dec(cid) {
            Some(c) => match rnd_id_of(c) {
                Some(i) => match rnd_dec(i, cont) {
                    Some(k) => cid_conv(rnd_cid_of(i)) == Some(out) && st.contains_key(i.height) && rnd_ver(k, i, st[i.height].dah),
                    None => false,
                },
                None => false,
            },
            None => false,
        },
        None => false,
    }
}
pub open spec fn accepts_sample(st: Map<u64, ExtendedHeader>, input: Seq<u8>, out: Multihash) -> bool {
    match block_dec(input) {
        Some((cid, cont)) => match cid_dec(cid) {
            Some(c) => match sample_id_of(c) {
                Some(i) => match sample_dec(i, cont) {
                    Some(k) => cid_conv(sample_cid_of(i)) == Some(out) && st.contains_key(i.height) && sample_ver(k, i, st[i.height].dah),
                    None => false,
                },
                None => false,
            },
            None => false,
        },
        None => false,
    }
}

impl ShwapMultihasher {
//@fn impl<S> Multihasher<MAX_MH_SIZE> for ShwapMultihasher<S> :: hash
//@props C10 C16 C04 C05 C06
    async fn hash(&self, multihash_code: u64, input: &[u8]) -> (r: Result<Multihash, MultihasherError>)
        ensures
            r.is_ok() ==> {
                ||| multihash_code == ROW_ID_MULTIHASH_CODE && accepts_row(self.header_store.at@, input@, r.unwrap())
                ||| multihash_code == ROW_NAMESPACE_DATA_ID_MULTIHASH_CODE && accepts_rnd(self.header_store.at@, input@, r.unwrap())
                ||| multihash_code == SAMPLE_ID_MULTIHASH_CODE && accepts_sample(self.header_store.at@, input@, r.unwrap())
            },
//@localmacro hash_shwap_block
".map_err(MultihasherError::custom_fatal)?" => "?"
"CidGeneric::<MAX_MH_SIZE>::read_bytes" => "CidBig::read_bytes"
//@end
}

} // verus!
fn main() {}
