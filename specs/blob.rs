//@unit blob
//@serves C11 C12
//@src types/src/blob/commitment.rs
use vstd::prelude::*;
verus! {
// std specifications not in vstd (A-std)
pub assume_specification<T, F: FnOnce(T) -> bool> [Option::<T>::is_some_and] (o: Option<T>, f: F) -> (r: bool)
    requires o.is_some() ==> f.requires((o.unwrap(),))
    ensures o.is_none() ==> !r, o.is_some() ==> f.ensures((o.unwrap(),), r);
pub assume_specification<T, F: FnOnce(T) -> bool> [Option::<T>::is_none_or] (o: Option<T>, f: F) -> (r: bool)
    requires o.is_some() ==> f.requires((o.unwrap(),))
    ensures o.is_none() ==> r, o.is_some() ==> f.ensures((o.unwrap(),), r);
//@begin-export
#[verifier::external_body]
fn vx_assert(c: bool) requires c { }
#[verifier::external_body]
fn vx_unreachable() -> ! requires false { unimplemented!() }

// ---------------------------------------------------------------------------
// std integer functions without a vstd specification (A-std; each one is cross-checked by a complete Kani harness)
// ---------------------------------------------------------------------------
pub assume_specification [u64::checked_shl] (x: u64, rhs: u32) -> (r: Option<u64>)
    ensures rhs < 64 ==> r == Some((x << rhs) as u64), rhs >= 64 ==> r.is_none();
pub assume_specification [usize::div_ceil] (x: usize, rhs: usize) -> (r: usize)
    requires rhs != 0
    ensures r == (if x % rhs == 0 { (x / rhs) as int } else { x / rhs + 1 });

//@const NS_VER_SIZE @ types/src/nmt.rs
//@const NS_ID_SIZE @ types/src/nmt.rs
//@const NS_SIZE @ types/src/nmt.rs
pub const NAMESPACE_SIZE: usize = NS_SIZE;   // types/src/consts.rs appconsts::NAMESPACE_SIZE
//@const SHARE_SIZE @ types/src/consts.rs
//@const SHARE_INFO_BYTES @ types/src/consts.rs
//@const SEQUENCE_LEN_BYTES @ types/src/consts.rs
//@const SHARE_VERSION_ZERO @ types/src/consts.rs
//@const SHARE_VERSION_ONE @ types/src/consts.rs
//@const MAX_SHARE_VERSION @ types/src/consts.rs
//@const FIRST_SPARSE_SHARE_CONTENT_SIZE @ types/src/consts.rs
//@const CONTINUATION_SPARSE_SHARE_CONTENT_SIZE @ types/src/consts.rs
//@const SIGNER_SIZE @ types/src/consts.rs

// ---------------------------------------------------------------------------
// powers of two
// ---------------------------------------------------------------------------
pub open spec fn is_pow2(x: int) -> bool
    decreases x
{
    if x <= 0 { false } else if x == 1 { true } else { x % 2 == 0 && is_pow2(x / 2) }
}
// p is the least power of two >= x  (for x == 0: 1)
pub open spec fn is_pow2_ceil(x: int, p: int) -> bool {
    is_pow2(p) && p >= x && (p == 1 || p / 2 < x)
}
// p is the greatest power of two <= x
pub open spec fn is_pow2_floor(x: int, p: int) -> bool {
    is_pow2(p) && p <= x && 2 * p > x
}
pub proof fn lemma_pow2_double(p: int)
    requires is_pow2(p)
    ensures is_pow2(2 * p)
{ assert((2 * p) / 2 == p); }
pub proof fn lemma_pow2_lt(p: int, q: int)
    requires is_pow2(p), is_pow2(q), p < q
    ensures 2 * p <= q
    decreases p
{
    if p > 1 { lemma_pow2_lt(p / 2, q / 2); }
}
pub proof fn lemma_pow2_63()
    ensures is_pow2(0x8000_0000_0000_0000)
{ assert(is_pow2(0x8000_0000_0000_0000)) by(compute); }
pub proof fn lemma_pow2_half(p: int)
    requires is_pow2(p), p > 1
    ensures is_pow2(p / 2), p % 2 == 0
{ }

//@fn - :: round_up_to_power_of_2
//@props C12
fn round_up_to_power_of_2(x: u64) -> (r: Option<u64>)
    requires x <= 0x8000_0000_0000_0000   // for larger x the loop does not terminate (checked_shl(1) of 2^63 is Some(0)); never called so
    ensures r.is_some() && is_pow2_ceil(x as int, r.unwrap() as int)
//@ascribe "let mut po2 = 1;" => "let mut po2: u64 = 1;"
//@loop 1
        invariant
            x <= 0x8000_0000_0000_0000,
            is_pow2(po2 as int), 1 <= po2 <= 0x8000_0000_0000_0000,
            po2 == 1 || po2 / 2 < x,
        decreases 0x8000_0000_0000_0000 - po2
//@hint before "if let Some(next_po2) = po2.checked_shl(1) {"
        proof {
            assert(po2 < x);
            assert(po2 < 0x8000_0000_0000_0000);
            assert((po2 << 1u32) == 2 * po2) by(bit_vector) requires po2 < 0x8000_0000_0000_0000;
            lemma_pow2_double(po2 as int);
            lemma_pow2_63();
            lemma_pow2_lt(po2 as int, 0x8000_0000_0000_0000);
        }
//@end

//@fn - :: round_down_to_power_of_2
//@props C12
fn round_down_to_power_of_2(x: u64) -> (r: Option<u64>)
    requires 1 <= x <= 0x8000_0000_0000_0000
    ensures r.is_some() && is_pow2_floor(x as int, r.unwrap() as int)
//@drop "let x: u64 = x.into();"
//@hint before "match round_up_to_power_of_2(x) {"
    proof { }
//@sub E13 "Some(po2) => Some(po2 / 2),"
        Some(po2) => { proof { lemma_pow2_half(po2 as int); } Some(po2 / 2) }
//@end

// ADR-013 merkle mountain range: greedy sequence of the largest power of two <= min(remaining, max)
pub open spec fn mmr_spec(total: int, max: int) -> Seq<int>
    decreases total
{
    if total <= 0 || max <= 0 { Seq::empty() }
    else if total >= max { seq![max] + mmr_spec(total - max, max) }
    else {
        let p = choose|p: int| is_pow2_floor(total, p);
        if is_pow2_floor(total, p) && 1 <= p <= total { seq![p] + mmr_spec(total - p, max) } else { Seq::empty() }
    }
}
pub proof fn lemma_pow2_floor_unique(x: int, p: int, q: int)
    requires is_pow2_floor(x, p), is_pow2_floor(x, q)
    ensures p == q
    decreases x
{
    if p == 1 || q == 1 {
        if p == 1 && q != 1 { lemma_pow2_half(q); }
        if q == 1 && p != 1 { lemma_pow2_half(p); }
    } else {
        lemma_pow2_half(p); lemma_pow2_half(q);
        lemma_pow2_floor_unique(x / 2, p / 2, q / 2);
    }
}
pub open spec fn seq_sum(s: Seq<u64>) -> int
    decreases s.len()
{ if s.len() == 0 { 0 } else { seq_sum(s.drop_last()) + s.last() } }
pub open spec fn as_ints(s: Seq<u64>) -> Seq<int> { s.map_values(|v: u64| v as int) }

//@fn - :: merkle_mountain_range_sizes
//@props C12
fn merkle_mountain_range_sizes(mut total_size: u64, max_tree_size: u64) -> (r: Vec<u64>)
    requires total_size <= 0x8000_0000_0000_0000, max_tree_size >= 1
    ensures
        as_ints(r@) == mmr_spec(total_size as int, max_tree_size as int),
        seq_sum(r@) == total_size,
        forall|i: int| 0 <= i < r@.len() ==> 1 <= #[trigger] r@[i] <= max_tree_size,
//@hint before "let mut tree_sizes = Vec::new();"
    let ghost total0 = total_size;
//@ascribe "let mut tree_sizes = Vec::new();" => "let mut tree_sizes: Vec<u64> = Vec::new();"
//@loop 1
        invariant
            total_size <= total0 <= 0x8000_0000_0000_0000, max_tree_size >= 1,
            seq_sum(tree_sizes@) + total_size == total0,
            as_ints(tree_sizes@) + mmr_spec(total_size as int, max_tree_size as int) == mmr_spec(total0 as int, max_tree_size as int),
            forall|i: int| 0 <= i < tree_sizes@.len() ==> 1 <= #[trigger] tree_sizes@[i] <= max_tree_size,
        decreases total_size
//@sub E1 "total_size.try_into().unwrap()," => "total_size,"
//@hint before "tree_sizes.push(max_tree_size);"
            let ghost old_sizes = tree_sizes@;
//@hint after "tree_sizes.push(max_tree_size);"
            proof {
                assert(tree_sizes@.drop_last() =~= old_sizes);
                assert(as_ints(tree_sizes@) =~= as_ints(old_sizes) + seq![max_tree_size as int]);
                assert(as_ints(old_sizes) + (seq![max_tree_size as int] + mmr_spec(total_size - max_tree_size, max_tree_size as int))
                    =~= (as_ints(old_sizes) + seq![max_tree_size as int]) + mmr_spec(total_size - max_tree_size, max_tree_size as int));
            }
//@hint before "tree_sizes.push(tree_size);"
            let ghost old_sizes = tree_sizes@;
//@hint after "tree_sizes.push(tree_size);"
            proof {
                assert(tree_sizes@.drop_last() =~= old_sizes);
                let p = choose|p: int| is_pow2_floor(total_size as int, p);
                lemma_pow2_floor_unique(total_size as int, p, tree_size as int);
                assert(as_ints(tree_sizes@) =~= as_ints(old_sizes) + seq![tree_size as int]);
                assert(as_ints(old_sizes) + (seq![tree_size as int] + mmr_spec(total_size - tree_size, max_tree_size as int))
                    =~= (as_ints(old_sizes) + seq![tree_size as int]) + mmr_spec(total_size - tree_size, max_tree_size as int));
            }
//@hint before "tree_sizes" last
    proof {
        assert(mmr_spec(0, max_tree_size as int) =~= Seq::<int>::empty());
        assert(as_ints(tree_sizes@) + Seq::<int>::empty() =~= as_ints(tree_sizes@));
    }
//@end

// ceil(sqrt(n)): least s with s*s >= n
pub open spec fn is_ceil_sqrt(n: int, s: int) -> bool { s >= 0 && s * s >= n && (s == 0 || (s - 1) * (s - 1) < n) }
pub open spec fn ceil_sqrt(n: int) -> int { choose|s: int| is_ceil_sqrt(n, s) }
pub open spec fn pow2_ceil(x: int) -> int { choose|p: int| is_pow2_ceil(x, p) }
pub proof fn lemma_pow2_ceil_unique(x: int, p: int, q: int)
    requires is_pow2_ceil(x, p), is_pow2_ceil(x, q)
    ensures p == q
    decreases p + q
{
    if p == 1 || q == 1 {
        if p == 1 && q != 1 { lemma_pow2_half(q); }
        if q == 1 && p != 1 { lemma_pow2_half(p); }
    } else {
        lemma_pow2_half(p); lemma_pow2_half(q);
        // p/2 < x <= p and q/2 < x <= q: halves are the pow2 ceilings of ceil(x/2)
        let y = (x + 1) / 2;
        assert(is_pow2_ceil(y, p / 2)) by { if p / 2 > 1 { lemma_pow2_half(p / 2); } }
        assert(is_pow2_ceil(y, q / 2)) by { if q / 2 > 1 { lemma_pow2_half(q / 2); } }
        lemma_pow2_ceil_unique(y, p / 2, q / 2);
    }
}
pub proof fn lemma_pow2_ceil_is(x: int, p: int)
    requires is_pow2_ceil(x, p)
    ensures pow2_ceil(x) == p
{ lemma_pow2_ceil_unique(x, p, pow2_ceil(x)); }

// A-f64: `(share_count as f64).sqrt().ceil() as u64` is exact for the share counts that occur (bounded Kani check, share_count <= 2^20)
#[verifier::external_body]
fn blob_min_square_size(share_count: u64) -> (r: u64)
    requires share_count <= 0x1_0000_0000
    ensures r == pow2_ceil(ceil_sqrt(share_count as int)), is_pow2(r as int), r >= 1
{ unimplemented!() }

pub open spec fn ceil_div(n: int, d: int) -> int { if n % d == 0 { n / d } else { n / d + 1 } }

//@fn - :: subtree_width
//@props C12
fn subtree_width(share_count: u64, subtree_root_threshold: u64) -> (r: u64)
    requires subtree_root_threshold >= 1, share_count <= 0x1_0000_0000
    ensures
        // ADR-013: width(n, thr) = min(pow2ceil(ceil(n / thr)), pow2ceil(ceil(sqrt(n))))
        r == (if pow2_ceil(ceil_div(share_count as int, subtree_root_threshold as int)) <= pow2_ceil(ceil_sqrt(share_count as int))
                { pow2_ceil(ceil_div(share_count as int, subtree_root_threshold as int)) } else { pow2_ceil(ceil_sqrt(share_count as int)) }),
        r >= 1, is_pow2(r as int),
//@hint before "// use the minimum of the subtree width and the min square size, this"
    proof { lemma_pow2_ceil_is(ceil_div(share_count as int, subtree_root_threshold as int), s as int); }
//@end

// ---------------------------------------------------------------------------
// C11: share counts
// ---------------------------------------------------------------------------
pub open spec fn first_cap(has_signer: bool) -> int {
    if has_signer { FIRST_SPARSE_SHARE_CONTENT_SIZE as int - SIGNER_SIZE as int } else { FIRST_SPARSE_SHARE_CONTENT_SIZE as int }
}
// number of sparse shares needed for `len` bytes
pub open spec fn n_shares(len: int, has_signer: bool) -> int {
    if len <= first_cap(has_signer) { 1 }
    else {
        let rest = len - first_cap(has_signer);
        1 + (if rest % (CONTINUATION_SPARSE_SHARE_CONTENT_SIZE as int) == 0 { rest / (CONTINUATION_SPARSE_SHARE_CONTENT_SIZE as int) } else { rest / (CONTINUATION_SPARSE_SHARE_CONTENT_SIZE as int) + 1 })
    }
}

//@fn - :: shares_needed_for_blob @ types/src/blob.rs
//@props C11
fn shares_needed_for_blob(blob_len: usize, has_signer: bool) -> (r: usize)
    ensures r == n_shares(blob_len as int, has_signer)
//@sub E9 "appconsts::" all => ""
//@end

pub struct AccAddress { pub v: u64 }
pub struct Blob { pub namespace: Namespace, pub data: Vec<u8>, pub share_version: u8, pub commitment: Commitment, pub signer: Option<AccAddress> }
impl Blob {
//@fn impl Blob :: shares_len @ types/src/blob.rs
//@props C11
    pub fn shares_len(&self) -> (r: usize)
        ensures r == n_shares(self.data@.len() as int, self.signer.is_some())
//@sub E9 "appconsts::" all => ""
//@end
}

pub proof fn lemma_ceil_div_unique(n: int, d: int, q: int)
    requires d > 0, n > 0, q * d >= n, (q - 1) * d < n
    ensures q == (if n % d == 0 { n / d } else { n / d + 1 })
{
    vstd::arithmetic::div_mod::lemma_fundamental_div_mod(n, d);
    vstd::arithmetic::div_mod::lemma_mod_bound(n, d);
    let k = n / d;
    assert(n == d * k + n % d);
    if n % d == 0 {
        assert(q * d >= k * d && (q - 1) * d < k * d) by(nonlinear_arith) requires q * d >= n, (q - 1) * d < n, n == d * k;
        assert(q >= k && q - 1 < k) by(nonlinear_arith) requires q * d >= k * d, (q - 1) * d < k * d, d > 0;
    } else {
        assert(q > k) by(nonlinear_arith) requires q * d >= n, n == d * k + n % d, n % d > 0, d > 0;
        assert(q - 1 <= k) by(nonlinear_arith) requires (q - 1) * d < n, n == d * k + n % d, n % d < d, d > 0;
    }
}

// ---------------------------------------------------------------------------
// C11: splitting a blob into sparse shares - byte containers are length-only stubs (E9), the arithmetic is the real code
// ---------------------------------------------------------------------------
#[derive(Debug)]
pub enum Error {
    MaxShareVersionExceeded(u8), ShareSequenceLenExceeded(usize), MissingSigner, UnsupportedShareVersion(u8), SignerNotSupported,
    Validation, Nmt, Other,
}
type Result<T, E = Error> = std::result::Result<T, E>;

#[derive(Clone, Copy)]
pub struct Namespace { pub v: u64 }
impl Namespace {
    #[verifier::external_body]
    pub fn as_bytes(&self) -> (r: &[u8]) ensures r@.len() == NS_SIZE { unimplemented!() }
}
impl AccAddress {
    #[verifier::external_body]
    pub fn as_bytes(&self) -> (r: &[u8]) ensures r@.len() == SIGNER_SIZE { unimplemented!() }
}
// std::io::Cursor<&[u8]> through bytes::Buf: only position and length are modelled
pub struct Cursor { pub pos: usize, pub len: usize }
impl Cursor {
    #[verifier::external_body]
    pub fn new(data: &[u8]) -> (c: Cursor) ensures c.pos == 0, c.len == data@.len() { unimplemented!() }
    #[verifier::external_body]
    pub fn has_remaining(&self) -> (b: bool) ensures b == (self.pos < self.len) { unimplemented!() }
    #[verifier::external_body]
    pub fn remaining(&self) -> (r: usize) ensures r == (if self.pos <= self.len { (self.len - self.pos) as usize } else { 0usize }) { unimplemented!() }
    #[verifier::external_body]
    pub fn position(&self) -> (r: u64) ensures r == self.pos { unimplemented!() }
    #[verifier::external_body]
    pub fn inner_len(&self) -> (r: usize) ensures r == self.len { unimplemented!() }
}
// bytes::BytesMut: only the length is modelled
pub struct BytesMut { pub n: usize }
impl BytesMut {
    #[verifier::external_body]
    pub fn with_capacity(c: usize) -> (b: BytesMut) ensures b.n == 0 { unimplemented!() }
    #[verifier::external_body]
    pub fn put_slice(&mut self, s: &[u8]) requires old(self).n + s@.len() <= usize::MAX ensures final(self).n == old(self).n + s@.len() { unimplemented!() }
    #[verifier::external_body]
    pub fn put_u8(&mut self, v: u8) requires old(self).n + 1 <= usize::MAX ensures final(self).n == old(self).n + 1 { unimplemented!() }
    #[verifier::external_body]
    pub fn put_u32(&mut self, v: u32) requires old(self).n + 4 <= usize::MAX ensures final(self).n == old(self).n + 4 { unimplemented!() }
    #[verifier::external_body]
    pub fn len(&self) -> (r: usize) ensures r == self.n { unimplemented!() }
    #[verifier::external_body]
    pub fn resize(&mut self, new_len: usize, v: u8) ensures final(self).n == new_len { unimplemented!() }
}
// data.copy_to_slice(&mut bytes[a..b]): panics unless a <= b <= bytes.len() and b - a <= data.remaining()
#[verifier::external_body]
fn vx_copy_to_slice(data: &mut Cursor, bytes: &mut BytesMut, a: usize, b: usize)
    requires a <= b <= old(bytes).n, old(data).pos <= old(data).len, b - a <= old(data).len - old(data).pos
    ensures final(data).pos == old(data).pos + (b - a), final(data).len == old(data).len, final(bytes).n == old(bytes).n
{ unimplemented!() }

pub struct InfoByte(pub u8);
impl InfoByte {
//@fn impl InfoByte :: new @ types/src/share/info_byte.rs
//@props C11
    pub fn new(version: u8, is_sequence_start: bool) -> (r: Result<Self>)
        ensures r.is_ok() == (version <= MAX_SHARE_VERSION)
//@sub E9 "appconsts::" all => ""
//@ascribe "let sequence_start = if is_sequence_start { 1 } else { 0 };" => "let sequence_start: u8 = if is_sequence_start { 1 } else { 0 };"
//@hint before "Ok(Self(prefix + sequence_start))"
            proof { assert((version << 1u8) <= 254) by(bit_vector) requires version <= 127; }
//@end
//@fn impl InfoByte :: as_u8 @ types/src/share/info_byte.rs
//@props C11
    pub fn as_u8(&self) -> (r: u8) ensures r == self.0
//@end
}
pub struct Share { pub v: u64 }
impl Share {
    // Share::from_raw: Ok for 512 bytes with a valid namespace and info byte (types/src/share.rs); not needed for the count
    #[verifier::external_body]
    pub fn from_raw_bytes(b: &BytesMut) -> (r: Result<Share>) ensures r.is_ok() ==> b.n == SHARE_SIZE { unimplemented!() }
}

// bytes of a sparse share available for data: 512 - 29 - 1, minus 4 (sequence length) and 20 (signer, share version 1) in the first share
pub open spec fn share_space(first: bool, share_version: u8) -> int {
    SHARE_SIZE as int - NS_SIZE as int - SHARE_INFO_BYTES as int
        - (if first { SEQUENCE_LEN_BYTES as int + (if share_version == SHARE_VERSION_ONE { SIGNER_SIZE as int } else { 0 }) } else { 0 })
}

//@fn - :: cursor_inner_length
//@props C11
fn cursor_inner_length(cursor: &Cursor) -> (r: usize) ensures r == cursor.len
//@sub E9 "cursor.get_ref().as_ref().len()" => "cursor.inner_len()"
//@end

//@fn - :: build_sparse_share
//@props C11
fn build_sparse_share(
    namespace: Namespace,
    share_version: u8,
    signer: Option<&AccAddress>,
    data: &mut Cursor,
) -> (r: Result<Share>)
    requires old(data).pos < old(data).len
    ensures
        final(data).len == old(data).len,
        r.is_ok() ==> final(data).pos == old(data).pos + (if share_space(old(data).pos == 0, share_version) <= old(data).len - old(data).pos
            { share_space(old(data).pos == 0, share_version) } else { old(data).len - old(data).pos }),
        r.is_ok() ==> share_version <= MAX_SHARE_VERSION && (old(data).pos == 0 && share_version == SHARE_VERSION_ONE ==> signer.is_some()),
//@sub E9 "appconsts::" all => ""
//@sub E9 "let data_len = data_len .try_into() .map_err(|_| Error::ShareSequenceLenExceeded(data_len))?;" => "let data_len: u32 = if data_len <= u32::MAX as usize { data_len as u32 } else { return Err(Error::ShareSequenceLenExceeded(data_len)) };"
//@sub E9 "let signer = signer.as_ref().ok_or(Error::MissingSigner)?;" => "let signer = match signer.as_ref() { Some(s) => s, None => return Err(Error::MissingSigner) };"
//@sub E9 "data.copy_to_slice(&mut bytes[current_size..current_size + read_amount]);" => "vx_copy_to_slice(data, &mut bytes, current_size, current_size + read_amount);"
//@sub E9 "Share::from_raw(&bytes)" => "Share::from_raw_bytes(&bytes)"
//@end

//@fn - :: split_blob_to_shares
//@props C11
fn split_blob_to_shares(
    namespace: Namespace,
    share_version: u8,
    blob_data: &[u8],
    signer: Option<&AccAddress>,
) -> (r: Result<Vec<Share>>)
    ensures
        // the number of shares produced is the reported share count (non-empty data)
        r.is_ok() && blob_data@.len() > 0 ==> r.unwrap()@.len() == n_shares(blob_data@.len() as int, share_version == SHARE_VERSION_ONE),
        r.is_ok() && blob_data@.len() == 0 ==> r.unwrap()@.len() == 0,
//@ascribe "let mut shares = Vec::new();" => "let mut shares: Vec<Share> = Vec::new(); let ghost len = blob_data@.len() as int; let ghost first = first_cap(share_version == SHARE_VERSION_ONE);"
//@hint before "while cursor.has_remaining() {"
    proof {
        assert(CONTINUATION_SPARSE_SHARE_CONTENT_SIZE == 482 && share_space(false, share_version) == 482);
        assert(share_space(true, share_version) == first && (first == 478 || first == 458));
    }
//@loop 1
        invariant
            cursor.len == len, cursor.pos <= cursor.len, len == blob_data@.len(),
            share_space(false, share_version) == 482, share_space(true, share_version) == first, first == 478 || first == 458,
            first == first_cap(share_version == SHARE_VERSION_ONE),
            shares@.len() == 0 <==> cursor.pos == 0,
            shares@.len() >= 1 ==> cursor.pos == (if first + (shares@.len() - 1) * 482 <= len { first + (shares@.len() - 1) * 482 } else { len }),
            shares@.len() >= 2 ==> first + (shares@.len() - 2) * 482 < len,
        decreases cursor.len - cursor.pos
//@hint before "Ok(shares)"
    proof {
        let k = shares@.len() as int;
        if len > 0 {
            assert(k >= 1);
            if len > first {
                let rest = len - first;
                assert((k - 1) * 482 >= rest && (k - 2) * 482 < rest);
                lemma_ceil_div_unique(rest, 482, k - 1);
            }
        }
    }
//@end

// ---------------------------------------------------------------------------
// C12: the share commitment (Commitment::from_shares) and blob validation
// ---------------------------------------------------------------------------
#[derive(PartialEq, Eq, Clone, Copy, Structural)]
pub enum AppVersion { V1, V2, V3, V4, V5, V6, V7 }
pub uninterp spec fn threshold_spec(v: AppVersion) -> u64;
// appconsts::subtree_root_threshold: a per-version constant table (64 for every version at this commit); only >= 1 is used
#[verifier::external_body]
pub fn subtree_root_threshold(v: AppVersion) -> (r: u64) ensures r == threshold_spec(v), r >= 1 { unimplemented!() }

pub struct NamespaceId { pub v: u64 }
impl Namespace {
    #[verifier::external_body]
    pub fn nmt_id(&self) -> (r: NamespaceId) ensures r.v == self.v { unimplemented!() }   // `namespace.into()`
}
pub uninterp spec fn share_bytes(s: Share) -> Seq<u8>;
impl Share {
    #[verifier::external_body]
    pub fn as_ref(&self) -> (r: &[u8]) ensures r@ == share_bytes(*self) { unimplemented!() }
}
#[derive(PartialEq, Eq, Clone, Copy, Structural)]
pub struct RawNamespacedHash { pub v: u64 }
#[derive(PartialEq, Eq, Clone, Copy, Structural)]
pub struct MerkleHash { pub v: u64 }
// A-nmt / A-crypto: NMT root of a leaf sequence pushed under one namespace (ignore-max-ns hasher) and the simple merkle hash are uninterpreted
pub uninterp spec fn nmt_root_spec(leaves: Seq<Seq<u8>>, ns: u64) -> RawNamespacedHash;
pub uninterp spec fn merkle_hash_spec(items: Seq<RawNamespacedHash>) -> MerkleHash;
pub struct NamespacedSha2Hasher {}
impl NamespacedSha2Hasher {
    #[verifier::external_body]
    pub fn with_ignore_max_ns(b: bool) -> NamespacedSha2Hasher { unimplemented!() }
}
pub struct NmtRoot { pub h: RawNamespacedHash }
impl NmtRoot {
    #[verifier::external_body]
    pub fn to_array(&self) -> (r: RawNamespacedHash) ensures r == self.h { unimplemented!() }
}
pub struct Nmt { pub leaves: Ghost<Seq<Seq<u8>>>, pub ns: Ghost<u64> }
#[derive(Debug)]
pub struct NmtError {}
impl vstd::std_specs::convert::FromSpecImpl<NmtError> for Error {
    open spec fn obeys_from_spec() -> bool { true }
    open spec fn from_spec(e: NmtError) -> Error { Error::Nmt }
}
impl From<NmtError> for Error { fn from(e: NmtError) -> Error { Error::Nmt } }
impl Nmt {
    #[verifier::external_body]
    pub fn with_hasher(h: NamespacedSha2Hasher) -> (t: Nmt) ensures t.leaves@.len() == 0 { unimplemented!() }
    #[verifier::external_body]
    pub fn push_leaf(&mut self, bytes: &[u8], ns: NamespaceId) -> (r: std::result::Result<(), NmtError>)
        ensures r.is_ok() ==> final(self).leaves@ == old(self).leaves@.push(bytes@) && final(self).ns@ == ns.v,
    { unimplemented!() }
    #[verifier::external_body]
    pub fn root(&mut self) -> (r: NmtRoot) ensures r.h == nmt_root_spec(old(self).leaves@, old(self).ns@), final(self).leaves == old(self).leaves { unimplemented!() }
}
#[verifier::external_body]
pub fn vx_simple_hash(items: &Vec<RawNamespacedHash>) -> (r: MerkleHash) ensures r == merkle_hash_spec(items@) { unimplemented!() }
#[verifier::external_body]
pub fn vx_split_at<'a>(s: &'a [Share], n: usize) -> (r: (&'a [Share], &'a [Share]))
    requires n <= s@.len()
    ensures r.0@ == s@.subrange(0, n as int), r.1@ == s@.subrange(n as int, s@.len() as int)
{ s.split_at(n) }

pub struct Commitment { pub hash: MerkleHash }

// independent statement of the rule: chunk the shares by the MMR sizes, NMT-root each chunk, merkle-hash the roots
pub open spec fn isum(s: Seq<int>) -> int
    decreases s.len()
{ if s.len() == 0 { 0 } else { s[0] + isum(s.subrange(1, s.len() as int)) } }
pub open spec fn leaf_bytes(s: Seq<Share>) -> Seq<Seq<u8>> { s.map_values(|x: Share| share_bytes(x)) }
pub open spec fn chunk_roots(shares: Seq<Share>, sizes: Seq<int>, ns: u64) -> Seq<RawNamespacedHash>
    decreases sizes.len()
{
    if sizes.len() == 0 { Seq::empty() }
    else if 0 <= sizes[0] <= shares.len() {
        seq![nmt_root_spec(leaf_bytes(shares.subrange(0, sizes[0])), ns)] + chunk_roots(shares.subrange(sizes[0], shares.len() as int), sizes.subrange(1, sizes.len() as int), ns)
    } else { Seq::empty() }
}
pub open spec fn width_spec(n: int, thr: int) -> int {
    if pow2_ceil(ceil_div(n, thr)) <= pow2_ceil(ceil_sqrt(n)) { pow2_ceil(ceil_div(n, thr)) } else { pow2_ceil(ceil_sqrt(n)) }
}
pub open spec fn commitment_spec(shares: Seq<Share>, ns: u64, thr: int) -> MerkleHash {
    merkle_hash_spec(chunk_roots(shares, mmr_spec(shares.len() as int, width_spec(shares.len() as int, thr)), ns))
}
pub proof fn lemma_mmr_sum(total: int, max: int)
    requires total >= 0, max >= 1
    ensures isum(mmr_spec(total, max)) == total, forall|i: int| 0 <= i < mmr_spec(total, max).len() ==> #[trigger] mmr_spec(total, max)[i] >= 1
    decreases total
{
    if total > 0 {
        if total >= max {
            lemma_mmr_sum(total - max, max);
            let r = mmr_spec(total - max, max);
            assert((seq![max] + r).subrange(1, (seq![max] + r).len() as int) =~= r);
        } else {
            lemma_pow2_floor_exists(total);
            let p = choose|p: int| is_pow2_floor(total, p);
            lemma_mmr_sum(total - p, max);
            let r = mmr_spec(total - p, max);
            assert((seq![p] + r).subrange(1, (seq![p] + r).len() as int) =~= r);
        }
    }
}
pub proof fn lemma_pow2_floor_exists(x: int)
    requires x >= 1
    ensures exists|p: int| is_pow2_floor(x, p)
    decreases x
{
    if x == 1 { assert(is_pow2_floor(1, 1)); }
    else {
        let y = x / 2;
        lemma_pow2_floor_exists(y);
        let q = choose|q: int| is_pow2_floor(y, q);
        lemma_pow2_double(q);
        assert(is_pow2_floor(x, 2 * q));
    }
}

impl Commitment {
//@fn impl Commitment :: from_shares
//@props C12
    pub fn from_shares(
        namespace: Namespace,
        mut shares: &[Share],
        app_version: AppVersion,
    ) -> (res: Result<Commitment>)
        requires shares@.len() <= 0xffff_ffff
        ensures res.is_ok() ==> res.unwrap().hash == commitment_spec(shares@, namespace.v, threshold_spec(app_version) as int)
//@sub E9 "appconsts::" all => ""
//@hint entry
        let ghost orig = shares@; let ghost ns = namespace.v;
//@ascribe "let mut leaf_sets: Vec<&[_]> = Vec::with_capacity(tree_sizes.len());" => "let mut leaf_sets: Vec<&[Share]> = Vec::with_capacity(tree_sizes.len()); let ghost sizes = as_ints(tree_sizes@);"
//@sub E9 "shares.split_at(size as usize)" => "vx_split_at(shares, size as usize)"
//@hint before "for size in tree_sizes {"
        proof {
            lemma_mmr_sum(orig.len() as int, subtree_width as int);
            assert(sizes.subrange(0, sizes.len() as int) =~= sizes);
        }
//@for 1 copy
//@loop 1
            invariant
                __i1 <= tree_sizes@.len(), sizes == as_ints(tree_sizes@), leaf_sets@.len() == __i1,
                forall|j: int| 0 <= j < __i1 ==> (#[trigger] leaf_sets@[j])@.len() >= 1,
                forall|i: int| 0 <= i < sizes.len() ==> #[trigger] sizes[i] >= 1,
                isum(sizes.subrange(__i1 as int, sizes.len() as int)) == shares@.len(),
                shares@.len() <= orig.len() <= 0xffff_ffff,
                // roots of the chunks taken so far ++ roots of what the remaining sizes cut out of the remaining shares == the whole
                Seq::new(__i1 as nat, |j: int| nmt_root_spec(leaf_bytes(leaf_sets@[j]@), ns)) + chunk_roots(shares@, sizes.subrange(__i1 as int, sizes.len() as int), ns)
                    == chunk_roots(orig, sizes, ns),
            decreases tree_sizes@.len() - __i1
//@hint before "let (leafs, rest)"
            let ghost shares_before = shares@;
            proof {
                let rem = sizes.subrange(__i1 as int - 1, sizes.len() as int);
                assert(sizes[__i1 as int - 1] == tree_sizes@[__i1 as int - 1] as int);
                assert(rem[0] == size as int);
                let tail = rem.subrange(1, rem.len() as int);
                assert(tail =~= sizes.subrange(__i1 as int, sizes.len() as int));
                assert forall|i: int| 0 <= i < tail.len() implies #[trigger] tail[i] >= 0 by { assert(tail[i] == sizes[__i1 + i]); }
                lemma_isum_nonneg(tail);
                assert(isum(rem) == rem[0] + isum(tail));
                assert(size as int >= 1 && size as int <= shares@.len());
            }
//@hint before "shares = rest;"
            let ghost before = Seq::new((__i1 - 1) as nat, |j: int| nmt_root_spec(leaf_bytes(leaf_sets@[j]@), ns));
//@hint after "shares = rest;"
            proof {
                let rem = sizes.subrange(__i1 as int - 1, sizes.len() as int);
                let now = Seq::new(__i1 as nat, |j: int| nmt_root_spec(leaf_bytes(leaf_sets@[j]@), ns));
                assert(now =~= before + seq![nmt_root_spec(leaf_bytes(leafs@), ns)]);
                assert(rem.subrange(1, rem.len() as int) =~= sizes.subrange(__i1 as int, sizes.len() as int));
                assert(rem.len() > 0);
                assert(sizes[__i1 as int - 1] == tree_sizes@[__i1 as int - 1] as int);
                assert(rem[0] == size as int);
                assert(size as int <= shares_before.len());
                assert((size as usize) as int == size as int);
                assert(leafs@ =~= shares_before.subrange(0, rem[0]));
                assert(rest@ =~= shares_before.subrange(rem[0], shares_before.len() as int));
                assert(chunk_roots(shares_before, rem, ns) =~= seq![nmt_root_spec(leaf_bytes(leafs@), ns)] + chunk_roots(rest@, rem.subrange(1, rem.len() as int), ns));
                assert((before + seq![nmt_root_spec(leaf_bytes(leafs@), ns)]) + chunk_roots(rest@, sizes.subrange(__i1 as int, sizes.len() as int), ns)
                    =~= before + (seq![nmt_root_spec(leaf_bytes(leafs@), ns)] + chunk_roots(rest@, sizes.subrange(__i1 as int, sizes.len() as int), ns)));
            }
//@sub E9 "tree.push_leaf(leaf_share.as_ref(), namespace.into()) .map_err(Error::Nmt)?;" => "tree.push_leaf(leaf_share.as_ref(), namespace.nmt_id())?;"
//@for 2 copy
//@loop 2
            invariant
                __i2 <= leaf_sets@.len(), subtree_roots@.len() == __i2, ns == namespace.v,
                forall|j: int| 0 <= j < leaf_sets@.len() ==> (#[trigger] leaf_sets@[j])@.len() >= 1,
                forall|j: int| 0 <= j < __i2 ==> #[trigger] subtree_roots@[j] == nmt_root_spec(leaf_bytes(leaf_sets@[j]@), ns),
            decreases leaf_sets@.len() - __i2
//@hint before "for leaf_share in leaf_set {"
            proof { assert(leaf_bytes(leaf_set@.subrange(0, 0)) =~= Seq::<Seq<u8>>::empty()); assert(tree.leaves@ =~= Seq::<Seq<u8>>::empty()); }
//@for 3 ref
//@loop 3
                invariant
                    __i3 <= leaf_set@.len(), ns == namespace.v,
                    tree.leaves@ == leaf_bytes(leaf_set@.subrange(0, __i3 as int)),
                    __i3 > 0 ==> tree.ns@ == ns,
                decreases leaf_set@.len() - __i3
//@hint after ".map_err(Error::Nmt)?;"
                proof {
                    assert(leaf_bytes(leaf_set@.subrange(0, __i3 as int)) =~= leaf_bytes(leaf_set@.subrange(0, __i3 as int - 1)).push(share_bytes(leaf_set@[__i3 as int - 1])));
                }
//@hint before "// add the root"
            proof {
                assert(leaf_set@.subrange(0, leaf_set@.len() as int) =~= leaf_set@);
                assert(tree.leaves@.len() == 0 ==> leaf_bytes(leaf_set@) =~= Seq::<Seq<u8>>::empty());
            }
//@sub E9 "merkle::simple_hash_from_byte_vectors::<crypto::default::Sha256>(&subtree_roots)" => "vx_simple_hash(&subtree_roots)"
//@hint before "let hash ="
        proof {
            assert(chunk_roots(shares@, sizes.subrange(sizes.len() as int, sizes.len() as int), ns) =~= Seq::<RawNamespacedHash>::empty());
            assert(subtree_roots@ =~= Seq::new(leaf_sets@.len(), |j: int| nmt_root_spec(leaf_bytes(leaf_sets@[j]@), ns)));
            assert(subtree_roots@ =~= chunk_roots(orig, sizes, ns));
        }
//@end
}

pub proof fn lemma_isum_nonneg(s: Seq<int>)
    requires forall|i: int| 0 <= i < s.len() ==> #[trigger] s[i] >= 0
    ensures isum(s) >= 0
    decreases s.len()
{ if s.len() > 0 { lemma_isum_nonneg(s.subrange(1, s.len() as int)); } }

// derive(PartialOrd) on AppVersion: `app < AppVersion::V3`
#[verifier::external_body]
pub fn vx_lt_v3(app: AppVersion) -> (b: bool) ensures b == (app == AppVersion::V1 || app == AppVersion::V2) { unimplemented!() }

pub open spec fn blob_kind_ok(share_version: u8, has_signer: bool, app: Option<AppVersion>) -> bool {
    &&& (share_version == SHARE_VERSION_ZERO || share_version == SHARE_VERSION_ONE)
    &&& (share_version == SHARE_VERSION_ZERO ==> !has_signer)
    &&& (share_version == SHARE_VERSION_ONE ==> has_signer)
    &&& (app.is_some() && share_version == SHARE_VERSION_ONE ==> !(app.unwrap() == AppVersion::V1 || app.unwrap() == AppVersion::V2))
}

//@fn - :: validate_blob
//@props C11 C12
fn validate_blob(
    share_version: u8,
    has_signer: bool,
    app_version: Option<AppVersion>,
) -> (r: Result<()>)
    ensures r.is_ok() == blob_kind_ok(share_version, has_signer, app_version)
//@sub E9 "appconsts::" all => ""
//@sub E8 "![appconsts::SHARE_VERSION_ZERO, appconsts::SHARE_VERSION_ONE].contains(&share_version)" => "!(share_version == SHARE_VERSION_ZERO || share_version == SHARE_VERSION_ONE)"
//@sub E8 "app_version .is_some_and(|app| share_version == appconsts::SHARE_VERSION_ONE && app < AppVersion::V3)" => "(match app_version { Some(app) => share_version == SHARE_VERSION_ONE && vx_lt_v3(app), None => false })"
//@end

// what a commitment computed for (namespace, data, share version, signer, app version) is: the ADR-013 commitment of SOME share
// sequence of exactly the reported length (the byte content of the shares is not modelled, see DESIGN.md C11)
pub open spec fn blob_commit_rel(ns: Namespace, data_len: int, share_version: u8, has_signer: bool, app: AppVersion, h: MerkleHash) -> bool {
    &&& blob_kind_ok(share_version, has_signer, Some(app))
    &&& exists|sh: Seq<Share>| #![trigger commitment_spec(sh, ns.v, threshold_spec(app) as int)]
            sh.len() == (if data_len == 0 { 0 } else { n_shares(data_len, share_version == SHARE_VERSION_ONE) })
            && h == commitment_spec(sh, ns.v, threshold_spec(app) as int)
}

impl Commitment {
//@fn impl Commitment :: from_blob
//@props C12
    pub fn from_blob(
        namespace: Namespace,
        blob_data: &[u8],
        share_version: u8,
        signer: Option<&AccAddress>,
        app_version: AppVersion,
    ) -> (res: Result<Commitment>)
        requires blob_data@.len() <= 0x0fff_ffff
        ensures res.is_ok() ==> blob_commit_rel(namespace, blob_data@.len() as int, share_version, signer.is_some(), app_version, res.unwrap().hash)
//@sub E9 "Self::from_shares(namespace, &shares, app_version)" => "Self::from_shares(namespace, shares.as_slice(), app_version)"
//@hint before "Self::from_shares(namespace, &shares, app_version)"
        proof { lemma_n_shares_bound(blob_data@.len() as int, share_version == SHARE_VERSION_ONE); }
//@end
}
pub proof fn lemma_n_shares_bound(len: int, has_signer: bool)
    requires 0 <= len
    ensures 1 <= n_shares(len, has_signer) <= len + 1
{ }

impl Blob {
//@fn impl Blob :: validate @ types/src/blob.rs
//@props C12
//@macro bail_validation => return Err(Error::Validation)
    pub fn validate(&self, app_version: AppVersion) -> (res: Result<()>)
        requires self.data@.len() <= 0x0fff_ffff
        ensures
            // accepted only when the stored commitment is a commitment computed for this blob
            res.is_ok() ==> blob_commit_rel(self.namespace, self.data@.len() as int, self.share_version, self.signer.is_some(), app_version, self.commitment.hash),
//@sub E9 "&self.data," => "self.data.as_slice(),"
//@sub E9 "if self.commitment != computed_commitment {" => "if self.commitment.hash != computed_commitment.hash {"
//@end
}
//@end-export
} // verus!
fn main() {}
