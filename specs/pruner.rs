//@unit pruner
//@serves C35 C36
use vstd::prelude::*;
use std::ops::RangeInclusive;
use std::collections::HashMap;
use std::collections::HashSet;
use std::collections::hash_map;
verus! {
broadcast use vstd::std_specs::hash::group_hash_axioms;
//@include range
//@src node/src/pruner.rs

// ---------------------------------------------------------------------------
// stubs of the surrounding system (E9): time, store, daser, blockstore, events
// ---------------------------------------------------------------------------
#[derive(Debug)]
pub enum StoreError { NotFound, Other }
#[derive(Debug)]
pub enum PrunerError { Store(StoreError), Blockstore, Daser }
impl vstd::std_specs::convert::FromSpecImpl<StoreError> for PrunerError {
    open spec fn obeys_from_spec() -> bool { true }
    open spec fn from_spec(e: StoreError) -> PrunerError { PrunerError::Store(e) }
}
impl From<StoreError> for PrunerError { fn from(e: StoreError) -> PrunerError { PrunerError::Store(e) } }
#[derive(Debug)]
pub struct BlockstoreError {}
impl vstd::std_specs::convert::FromSpecImpl<BlockstoreError> for PrunerError {
    open spec fn obeys_from_spec() -> bool { true }
    open spec fn from_spec(e: BlockstoreError) -> PrunerError { PrunerError::Blockstore }
}
impl From<BlockstoreError> for PrunerError { fn from(e: BlockstoreError) -> PrunerError { PrunerError::Blockstore } }
#[derive(Debug)]
pub struct DaserError {}
impl vstd::std_specs::convert::FromSpecImpl<DaserError> for PrunerError {
    open spec fn obeys_from_spec() -> bool { true }
    open spec fn from_spec(e: DaserError) -> PrunerError { PrunerError::Daser }
}
impl From<DaserError> for PrunerError { fn from(e: DaserError) -> PrunerError { PrunerError::Daser } }
type PResult<T, E = PrunerError> = std::result::Result<T, E>;

// (Option::is_none_or / is_some_and are specified in the range unit)

// header time (nanoseconds) of the unique (C21) header of the chain at a height; also defined for pruned heights
pub uninterp spec fn time_of(h: int) -> int;

// tendermint::Time: a totally ordered instant; `a < b` is PartialOrd::lt (E9-op)
#[derive(Clone, Copy, Debug)]
pub struct Time { pub t: u64 }
impl PartialEq for Time { fn eq(&self, o: &Time) -> (b: bool) ensures b == (self.t == o.t) { self.t == o.t } }
impl vstd::std_specs::cmp::PartialEqSpecImpl for Time {
    open spec fn obeys_eq_spec() -> bool { true }
    open spec fn eq_spec(&self, o: &Time) -> bool { self.t == o.t }
}
impl vstd::std_specs::cmp::PartialOrdSpecImpl for Time {
    open spec fn obeys_partial_cmp_spec() -> bool { true }
    open spec fn partial_cmp_spec(&self, o: &Time) -> Option<std::cmp::Ordering> {
        if self.t < o.t { Some(std::cmp::Ordering::Less) } else if self.t == o.t { Some(std::cmp::Ordering::Equal) } else { Some(std::cmp::Ordering::Greater) }
    }
}
impl PartialOrd for Time {
    fn partial_cmp(&self, o: &Time) -> (r: Option<std::cmp::Ordering>) {
        if self.t < o.t { Some(std::cmp::Ordering::Less) } else if self.t == o.t { Some(std::cmp::Ordering::Equal) } else { Some(std::cmp::Ordering::Greater) }
    }
}
pub struct ExtendedHeader { pub h: u64, pub t: Time }
impl ExtendedHeader {
    #[verifier::external_body]
    pub fn height(&self) -> (r: u64) ensures r == self.h { unimplemented!() }
    #[verifier::external_body]
    pub fn time(&self) -> (r: Time) ensures r == self.t { unimplemented!() }
}

// the header store as the pruner sees it (contracts assumed here; they are what the store unit proves for the in-memory
// back end, C19): `get_by_height` returns the header stored at that height, whose time is the chain's time for that height
pub struct Store { pub stored: Ghost<ISet<int>>, pub pruned: Ghost<ISet<int>>, pub sampled: Ghost<ISet<int>> }
impl Store {
    #[verifier::external_body]
    pub async fn get_by_height(&self, h: u64) -> (r: Result<ExtendedHeader, StoreError>)
        ensures r.is_ok() ==> self.stored@.contains(h as int) && r.unwrap().h == h && r.unwrap().t.t == time_of(h as int),
    { unimplemented!() }
}

#[derive(Debug)]
pub struct BlockInfo { pub height: u64, pub time: Time }
impl Clone for BlockInfo {
    #[verifier::external_body]
    fn clone(&self) -> (r: BlockInfo) ensures r == *self { unimplemented!() }
}
#[verifier::external_body]
pub fn vx_clone_info(b: &BlockInfo) -> (r: BlockInfo) ensures r == *b { unimplemented!() }

pub struct Instant {}
pub struct Cache {
    pub updated_at: Option<Instant>,
    pub after_pruning_window: Option<u64>,
    pub after_sampling_window: Option<u64>,
    pub block_info: HashMap<u64, BlockInfo>,
    pub keep_block_info: HashSet<u64>,
}

// every cached entry is the (height, time) of the chain's header at that height
pub open spec fn cache_ok(c: Cache) -> bool {
    forall|h: u64| #![trigger c.block_info@.contains_key(h)] c.block_info@.contains_key(h) ==> c.block_info@[h].height == h && c.block_info@[h].time.t == time_of(h as int)
}
// "times increase with height" over a set of heights (tendermint block time is strictly increasing: `verify` rejects
// an untrusted header whose time is not after the trusted one)
pub open spec fn mono_on(s: ISet<int>) -> bool {
    forall|a: int, b: int| s.contains(a) && s.contains(b) && a < b ==> time_of(a) < time_of(b)
}
// C36: the answer of the window search over the stored set
pub open spec fn window_ans(stored: ISet<int>, cutoff: int, ans: Option<u64>) -> bool {
    match ans {
        // a stored height whose time is not newer than the cutoff and above which no stored header is older than the cutoff
        Some(r) => stored.contains(r as int) && time_of(r as int) <= cutoff
            && forall|h: int| stored.contains(h) && h > r ==> !(time_of(h) < cutoff),
        // nothing only if no stored header is strictly older than the cutoff
        None => forall|h: int| stored.contains(h) ==> !(time_of(h) < cutoff),
    }
}
// invariant of the binary search
pub open spec fn search_inv(stored: ISet<int>, ranges: ISet<int>, cutoff: int, highest: Option<BlockInfo>) -> bool {
    &&& ranges.subset_of(stored)
    &&& forall|h: int| stored.contains(h) && !ranges.contains(h) && time_of(h) < cutoff ==> highest.is_some() && h <= highest.unwrap().height
    &&& highest.is_some() ==> {
        let hi = highest.unwrap();
        &&& stored.contains(hi.height as int) && hi.time.t == time_of(hi.height as int) && time_of(hi.height as int) <= cutoff
        &&& forall|h: int| ranges.contains(h) ==> h > hi.height
    }
}

// monotonicity over `stored + prev` as plain facts about stored heights and prev
pub proof fn lemma_mono_sub(stored: ISet<int>, prev: Option<u64>)
    requires mono_on(if prev.is_some() { stored.insert(prev.unwrap() as int) } else { stored })
    ensures
        mono_on(stored),
        prev.is_some() ==> forall|h: int| stored.contains(h) ==> (h < prev.unwrap() ==> time_of(h) < time_of(prev.unwrap() as int)) && (h > prev.unwrap() ==> time_of(h) > time_of(prev.unwrap() as int)),
{
    broadcast use vstd::iset::group_iset_lemmas;
    if prev.is_some() {
        let p = prev.unwrap() as int;
        let s2 = stored.insert(p);
        assert(s2.contains(p));
        assert forall|a: int, b: int| stored.contains(a) && stored.contains(b) && a < b implies time_of(a) < time_of(b) by {
            assert(s2.contains(a) && s2.contains(b));
        }
        assert forall|h: int| stored.contains(h) implies (h < p ==> time_of(h) < time_of(p)) && (h > p ==> time_of(h) > time_of(p)) by {
            assert(s2.contains(h));
        }
    }
}

// one step of the binary search: the half that is dropped cannot contain the answer
pub proof fn lemma_search_step(stored: ISet<int>, r0: ISet<int>, l: ISet<int>, m: int, r: ISet<int>, cutoff: int, h0: Option<BlockInfo>, h1: Option<BlockInfo>, go_right: bool)
    requires
        mono_on(stored), search_inv(stored, r0, cutoff, h0), part_ok(r0, l, m, r),
        go_right ==> time_of(m) <= cutoff && h1.is_some() && h1.unwrap().time.t == time_of(m)
            && (if h0.is_none() || h0.unwrap().time.t < time_of(m) { h1.unwrap().height == m } else { h1 == h0 }),
        !go_right ==> !(time_of(m) < cutoff) && h1 == h0,
    ensures
        go_right ==> search_inv(stored, r, cutoff, h1),
        !go_right ==> search_inv(stored, l, cutoff, h1),
        l.finite() && r.finite() && r0.finite() && l.len() < r0.len() && r.len() < r0.len(),
{
    broadcast use vstd::iset::group_iset_lemmas;
    assert(r0.contains(m) && stored.contains(m));
    assert forall|h: int| l.contains(h) implies r0.contains(h) by { assert(l.union(r).insert(m).contains(h)); }
    assert forall|h: int| r.contains(h) implies r0.contains(h) by { assert(l.union(r).insert(m).contains(h)); }
    assert forall|h: int| r0.contains(h) implies l.contains(h) || r.contains(h) || h == m by { assert(l.union(r).insert(m).contains(h)); }
    if go_right {
        if h0.is_some() { assert(h0.unwrap().height < m); assert(time_of(h0.unwrap().height as int) < time_of(m)); }
        assert(h1.unwrap().height == m);
        assert forall|h: int| stored.contains(h) && !r.contains(h) && time_of(h) < cutoff implies h <= m by {
            if r0.contains(h) { } else { assert(h0.is_some() && h <= h0.unwrap().height); }
        }
    } else {
        assert forall|h: int| stored.contains(h) && !l.contains(h) && time_of(h) < cutoff implies h0.is_some() && h <= h0.unwrap().height by {
            if r0.contains(h) { assert(h == m || r.contains(h)); assert(h >= m); if h > m { assert(time_of(m) < time_of(h)); } }
        }
    }
}


// ---- C35 stubs ----
pub struct Duration { pub d: u64 }
impl Duration {
    // std::cmp::Ord::max / min on Duration (A-std)
    #[verifier::external_body]
    pub fn max(self, o: Duration) -> (r: Duration) ensures r.d == (if self.d >= o.d { self.d } else { o.d }) { unimplemented!() }
}
impl Clone for Duration { #[verifier::external_body] fn clone(&self) -> (r: Duration) ensures r == *self { unimplemented!() } }
impl Copy for Duration {}
impl Duration {
    #[verifier::external_body]
    pub fn from_secs(s: u64) -> Duration { unimplemented!() }
    #[verifier::external_body]
    pub fn min(self, o: Duration) -> Duration { unimplemented!() }
}
impl Instant {
    #[verifier::external_body]
    pub fn now() -> Instant { unimplemented!() }
}
// `updated_at.is_some_and(|t| t.elapsed() < update_after)`: reading the monotonic clock; any answer is possible (A-clock)
#[verifier::external_body]
pub fn vx_recently_updated(updated_at: &Option<Instant>, update_after: Duration) -> bool { unimplemented!() }
// Option<u64>'s derived PartialOrd: None < Some(_), Some(a) < Some(b) iff a < b (E9-op)
pub fn vx_opt_lt(a: Option<u64>, b: Option<u64>) -> (r: bool)
    ensures r == (match (a, b) { (None, Some(_)) => true, (Some(x), Some(y)) => x < y, _ => false })
{
    match (a, b) { (None, Some(_)) => true, (Some(x), Some(y)) => x < y, _ => false }
}
// what the daser answers to WantToPrune(h) (its truth is the daser's: sampling of h is not in progress); a fixed oracle
// during one call (A-await)
pub uninterp spec fn daser_grants(h: int) -> bool;
pub struct Daser {}
impl Daser {
    #[verifier::external_body]
    pub async fn update_highest_prunable_block(&self, h: u64) -> (r: Result<(), DaserError>) { unimplemented!() }
    #[verifier::external_body]
    pub async fn update_number_of_prunable_blocks(&self, n: u64) -> (r: Result<(), DaserError>) { unimplemented!() }
    #[verifier::external_body]
    pub async fn want_to_prune(&self, h: u64) -> (r: Result<bool, DaserError>)
        ensures r.is_ok() ==> r.unwrap() == daser_grants(h as int) { unimplemented!() }
}
impl Store {
    #[verifier::external_body]
    pub async fn get_stored_header_ranges(&self) -> (r: Result<BlockRanges, StoreError>)
        ensures r.is_ok() ==> r.unwrap()@ == self.stored@ && r.unwrap().wf() { unimplemented!() }
    #[verifier::external_body]
    pub async fn get_pruned_ranges(&self) -> (r: Result<BlockRanges, StoreError>)
        ensures r.is_ok() ==> r.unwrap()@ == self.pruned@ && r.unwrap().wf() { unimplemented!() }
    #[verifier::external_body]
    pub async fn get_sampled_ranges(&self) -> (r: Result<BlockRanges, StoreError>)
        ensures r.is_ok() ==> r.unwrap()@ == self.sampled@ && r.unwrap().wf() { unimplemented!() }
}
impl Cache {
    // A-gc: garbage_collect only drops entries of `block_info` (HashMap::retain)
    #[verifier::external_body]
    pub fn garbage_collect(&mut self)
        ensures
            cache_ok(*old(self)) ==> cache_ok(*final(self)),
            final(self).after_pruning_window == old(self).after_pruning_window,
            final(self).after_sampling_window == old(self).after_sampling_window,
            final(self).keep_block_info == old(self).keep_block_info,
    { unimplemented!() }
}
pub struct CancellationToken {}
pub struct EventPublisher {}
pub struct Blockstore {}
pub struct Worker {
    pub daser: Daser,
    pub cancellation_token: CancellationToken,
    pub event_pub: EventPublisher,
    pub store: Store,
    pub blockstore: Blockstore,
    pub block_time: Duration,
    pub pruning_window: Duration,
    pub sampling_window: Duration,
    pub prev_num_of_prunable_blocks: u64,
    pub cache: Cache,
}

//@const MAX_PRUNABLE_BATCH_SIZE

// chain times strictly increase with height (tendermint BFT time; `verify` rejects a successor whose time is not later)
pub open spec fn mono_all() -> bool { forall|a: int, b: int| 1 <= a < b ==> time_of(a) < time_of(b) }
// the cached window edges are heights already outside the respective window
pub open spec fn edges_ok(c: Cache, sampling_cutoff: int, pruning_cutoff: int) -> bool {
    &&& c.after_sampling_window.is_some() ==> c.after_sampling_window.unwrap() >= 1 && time_of(c.after_sampling_window.unwrap() as int) <= sampling_cutoff
    &&& c.after_pruning_window.is_some() ==> c.after_pruning_window.unwrap() >= 1 && time_of(c.after_pruning_window.unwrap() as int) <= pruning_cutoff
}
// h borders an unsynced gap
pub open spec fn borders_gap(synced: ISet<int>, h: int) -> bool { synced.contains(h) && (!synced.contains(h - 1) || !synced.contains(h + 1)) }
// C35: what may be in a prunable batch
pub open spec fn prunable(st: Store, sampling_cutoff: int, pruning_cutoff: int, h: int) -> bool {
    &&& st.stored@.contains(h)
    // never inside the pruning window
    &&& time_of(h) <= pruning_cutoff
    // inside the sampling window: only if sampled and not bordering an unsynced gap
    &&& (time_of(h) > sampling_cutoff ==> st.sampled@.contains(h) && !borders_gap(st.pruned@.union(st.stored@), h))
    // outside both windows: sampled, or the daser confirmed that no sampling of it is in progress
    &&& (st.sampled@.contains(h) || daser_grants(h))
}
pub proof fn lemma_mono_all_on(s: ISet<int>)
    requires mono_all(), forall|h: int| s.contains(h) ==> h >= 1
    ensures mono_on(s)
{}
// for a wf range sequence, "start or end of a range" is "borders a gap"
pub proof fn lemma_edge_set(s: Seq<BlockRange>, h: int)
    requires wf_seq(s)
    ensures edge_has(s, h) == (seq_has(s, h) && (!seq_has(s, h - 1) || !seq_has(s, h + 1)))
{
    if edge_has(s, h) {
        let k = choose|k: int| 0 <= k < s.len() && ((#[trigger] s[k])@.start == h || s[k]@.end == h);
        assert(r_valid(s[k]));
        assert(r_has(s[k], h));
        if s[k]@.start == h && seq_has(s, h - 1) {
            let j = choose|j: int| 0 <= j < s.len() && r_has(#[trigger] s[j], h - 1);
            if j < k { assert(s[j]@.end + 1 < s[k]@.start); } else if j > k { assert(s[k]@.end + 1 < s[j]@.start); }
            assert(s[k]@.end == h);
            if seq_has(s, h + 1) {
                let j2 = choose|j2: int| 0 <= j2 < s.len() && r_has(#[trigger] s[j2], h + 1);
                if j2 < k { assert(s[j2]@.end + 1 < s[k]@.start); } else if j2 > k { assert(s[k]@.end + 1 < s[j2]@.start); }
            }
        }
        if s[k]@.end == h && seq_has(s, h + 1) {
            let j = choose|j: int| 0 <= j < s.len() && r_has(#[trigger] s[j], h + 1);
            if j < k { assert(s[j]@.end + 1 < s[k]@.start); } else if j > k { assert(s[k]@.end + 1 < s[j]@.start); }
            assert(s[k]@.start == h);
            if seq_has(s, h - 1) {
                let j2 = choose|j2: int| 0 <= j2 < s.len() && r_has(#[trigger] s[j2], h - 1);
                if j2 < k { assert(s[j2]@.end + 1 < s[k]@.start); } else if j2 > k { assert(s[k]@.end + 1 < s[j2]@.start); }
            }
        }
    }
    if seq_has(s, h) && (!seq_has(s, h - 1) || !seq_has(s, h + 1)) {
        let k = choose|k: int| 0 <= k < s.len() && r_has(#[trigger] s[k], h);
        if s[k]@.start != h && s[k]@.end != h {
            assert(r_has(s[k], h - 1) && r_has(s[k], h + 1));
        }
    }
}

impl Cache {
//@fn impl Cache :: get_block_info
//@props C36
    async fn get_block_info(&mut self, store: &Store, height: u64) -> (r: PResult<BlockInfo>)
        requires cache_ok(*old(self))
        ensures
            cache_ok(*final(self)),
            final(self).after_pruning_window == old(self).after_pruning_window,
            final(self).after_sampling_window == old(self).after_sampling_window,
            final(self).keep_block_info == old(self).keep_block_info,
            final(self).updated_at == old(self).updated_at,
            r.is_ok() ==> r.unwrap().height == height && r.unwrap().time.t == time_of(height as int),
//@sub E9 "entry.get().to_owned()" => "vx_clone_info(entry.get())"
//@hint entry
        proof { broadcast use vstd::std_specs::hash::group_hash_axioms; }
//@end
}

//@fn - :: find_height_after_window
//@props C36
async fn find_height_after_window(
    store: &Store,
    stored_headers: &BlockRanges,
    cutoff: &Time,
    prev_after_window: Option<u64>,
    cache: &mut Cache,
) -> (r: PResult<Option<u64>>)
    requires
        stored_headers.wf(), stored_headers@ == store.stored@, cache_ok(*old(cache)),
        // an answer that was correct for an earlier cutoff (the header itself may have been removed since)
        prev_after_window.is_some() ==> prev_after_window.unwrap() >= 1 && time_of(prev_after_window.unwrap() as int) <= cutoff.t,
        mono_on(if prev_after_window.is_some() { store.stored@.insert(prev_after_window.unwrap() as int) } else { store.stored@ }),
    ensures
        cache_ok(*final(cache)),
        final(cache).after_pruning_window == old(cache).after_pruning_window,
        final(cache).after_sampling_window == old(cache).after_sampling_window,
        r.is_ok() ==> window_ans(store.stored@, cutoff.t as int, r.unwrap()),
//@hint entry
    proof { lemma_mono_sub(store.stored@, prev_after_window); }
//@end

//@fn - :: find_height_after_window_fast
//@props C36
async fn find_height_after_window_fast(
    store: &Store,
    stored_headers: &BlockRanges,
    cutoff: &Time,
    prev_after_window: Option<u64>,
    cache: &mut Cache,
) -> (r: PResult<Option<Option<u64>>>)
    requires
        stored_headers.wf(), stored_headers@ == store.stored@, cache_ok(*old(cache)),
        prev_after_window.is_some() ==> prev_after_window.unwrap() >= 1 && time_of(prev_after_window.unwrap() as int) <= cutoff.t,
        mono_on(if prev_after_window.is_some() { store.stored@.insert(prev_after_window.unwrap() as int) } else { store.stored@ }),
    ensures
        cache_ok(*final(cache)),
        final(cache).after_pruning_window == old(cache).after_pruning_window,
        final(cache).after_sampling_window == old(cache).after_sampling_window,
        (r.is_ok() && r.unwrap().is_some()) ==> window_ans(store.stored@, cutoff.t as int, r.unwrap().unwrap()),
//@hint entry
    proof { lemma_mono_sub(store.stored@, prev_after_window); }
//@end

//@fn - :: find_height_after_window_slow
//@props C36
async fn find_height_after_window_slow(
    store: &Store,
    stored_headers: &BlockRanges,
    cutoff: &Time,
    cache: &mut Cache,
) -> (r: PResult<Option<u64>>)
    requires
        stored_headers.wf(), stored_headers@ == store.stored@, cache_ok(*old(cache)),
        mono_on(store.stored@),
    ensures
        cache_ok(*final(cache)),
        final(cache).after_pruning_window == old(cache).after_pruning_window,
        final(cache).after_sampling_window == old(cache).after_sampling_window,
        r.is_ok() ==> window_ans(store.stored@, cutoff.t as int, r.unwrap()),
//@sub E9 "stored_headers.to_owned()" => "stored_headers.clone()"

//@closure "|highest|" => "|highest: &BlockInfo| -> (b: bool) ensures (highest.time.t < middle.time.t) ==> b"
//@sub E9 "highest.map(|block_info| block_info.height)" => "(match highest { Some(block_info) => Some(block_info.height), None => None })"
//@hint before "while let Some((left, middle, right)) = ranges.partitions() {"
    proof { lemma_seq_len_card(ranges.0@); }
//@loop 1
        invariant
            ranges.wf(), ranges@.finite(), stored_headers@ == store.stored@, mono_on(store.stored@), cache_ok(*cache),
            cache.after_pruning_window == old(cache).after_pruning_window,
            cache.after_sampling_window == old(cache).after_sampling_window,
            search_inv(store.stored@, ranges@, cutoff.t as int, highest),
        ensures ranges@ =~= ISet::<int>::empty()
        decreases ranges@.len()
//@hint before "let middle = cache.get_block_info(store, middle).await?;"
        let ghost r0 = ranges@; let ghost h0 = highest; let ghost m0 = middle as int;
        proof { assert(r0.contains(m0)); assert(store.stored@.contains(m0)); }
//@hint after "ranges = right;"
            proof { lemma_search_step(store.stored@, r0, left@, m0, right@, cutoff.t as int, h0, highest, true); }
//@hint after "ranges = left;"
            proof { lemma_search_step(store.stored@, r0, left@, m0, right@, cutoff.t as int, h0, highest, false); }
//@end

// ---- removal loop of Worker::run (C35, second half) ----
#[derive(PartialEq, Eq, Clone, Copy, Structural)]
pub struct Cid { pub v: u64 }
pub struct SamplingMetadata { pub cids: Vec<Cid> }
// the CIDs recorded in the sampling metadata of a height
pub uninterp spec fn meta_cids(h: int) -> Seq<Cid>;
// ghost log of what the pruner removed so far (E13: threaded through the stubs of the two removal calls)
pub struct RmLog { pub cids: ISet<Cid>, pub heights: ISet<int> }
impl Store {
    #[verifier::external_body]
    pub async fn get_sampling_metadata(&self, h: u64) -> (r: Result<Option<SamplingMetadata>, StoreError>)
        ensures r.is_ok() ==> (match r.unwrap() { Some(m) => m.cids@ == meta_cids(h as int), None => meta_cids(h as int).len() == 0 })
    { unimplemented!() }
    // C35: a header is removed only after every CID of its sampling metadata was removed from the blockstore
    #[verifier::external_body]
    pub async fn remove_height(&self, h: u64, log: &mut Ghost<RmLog>) -> (r: Result<(), StoreError>)
        requires forall|i: int| 0 <= i < meta_cids(h as int).len() ==> old(log)@.cids.contains(#[trigger] meta_cids(h as int)[i])
        ensures final(log)@.cids == old(log)@.cids, final(log)@.heights == old(log)@.heights.insert(h as int)
    { unimplemented!() }
}
impl Blockstore {
    #[verifier::external_body]
    pub async fn remove(&self, c: &Cid, log: &mut Ghost<RmLog>) -> (r: Result<(), BlockstoreError>)
        ensures r.is_ok() ==> final(log)@.cids == old(log)@.cids.insert(*c), r.is_err() ==> final(log)@.cids == old(log)@.cids,
            final(log)@.heights == old(log)@.heights
    { unimplemented!() }
}
impl CancellationToken {
    #[verifier::external_body]
    pub fn is_cancelled(&self) -> bool { unimplemented!() }
}
pub enum NodeEvent { PrunedHeaders { from_height: u64, to_height: u64 } }
impl EventPublisher {
    #[verifier::external_body]
    pub fn send(&self, ev: NodeEvent) { unimplemented!() }
}

impl Worker {
//@fn impl<S, B> Worker<S, B> :: update_cached_data
//@props C35
    async fn update_cached_data(
        &mut self,
        stored_blocks: &BlockRanges,
        sampling_cutoff: &Time,
        pruning_cutoff: &Time,
    ) -> (r: PResult<()>)
        requires
            stored_blocks.wf(), stored_blocks@ == old(self).store.stored@, cache_ok(old(self).cache), mono_all(),
            edges_ok(old(self).cache, sampling_cutoff.t as int, pruning_cutoff.t as int),
        ensures
            final(self).store == old(self).store, final(self).prev_num_of_prunable_blocks == old(self).prev_num_of_prunable_blocks,
            cache_ok(final(self).cache),
            edges_ok(final(self).cache, sampling_cutoff.t as int, pruning_cutoff.t as int),
//@sub E8 "self .cache .updated_at .is_some_and(|updated_at| updated_at.elapsed() < update_after)" => "vx_recently_updated(&self.cache.updated_at, update_after)"
//@sub E9 "&*self.store" all => "&self.store"
//@sub E8 "self .cache .after_sampling_window .and_then(|height| stored_blocks.right_of(height))" => "(match self.cache.after_sampling_window { Some(height) => stored_blocks.right_of(height), None => None })"
//@sub E8 "self .cache .after_pruning_window .and_then(|height| stored_blocks.right_of(height))" => "(match self.cache.after_pruning_window { Some(height) => stored_blocks.right_of(height), None => None })"
//@hint entry
        proof {
            broadcast use vstd::iset::group_iset_lemmas;
            assert forall|h: int| stored_blocks@.contains(h) implies h >= 1 by { lemma_view_bounds(stored_blocks.0@); }
            if self.cache.after_sampling_window.is_some() { lemma_mono_all_on(self.store.stored@.insert(self.cache.after_sampling_window.unwrap() as int)); }
            if self.cache.after_pruning_window.is_some() { lemma_mono_all_on(self.store.stored@.insert(self.cache.after_pruning_window.unwrap() as int)); }
            lemma_mono_all_on(self.store.stored@);
        }
//@end

//@fn impl<S, B> Worker<S, B> :: get_next_prunable_batch
//@props C35
    async fn get_next_prunable_batch(
        &mut self,
        sampling_cutoff: Time,
        pruning_cutoff: Time,
    ) -> (r: PResult<BlockRanges>)
        requires
            cache_ok(old(self).cache), mono_all(),
            edges_ok(old(self).cache, sampling_cutoff.t as int, pruning_cutoff.t as int),
        ensures
            final(self).store == old(self).store,
            cache_ok(final(self).cache),
            edges_ok(final(self).cache, sampling_cutoff.t as int, pruning_cutoff.t as int),
            r.is_ok() ==> {
                let batch = r.unwrap();
                &&& batch.wf()
                &&& forall|h: int| batch@.contains(h) ==> prunable(old(self).store, sampling_cutoff.t as int, pruning_cutoff.t as int, h)
                &&& batch@.finite() && batch@.len() <= MAX_PRUNABLE_BATCH_SIZE
            },
//@sub E8 "self .cache .after_sampling_window .map(|height| BlockRanges::try_from(1..=height).expect(\"never fails\")) .unwrap_or_default()" => "(match self.cache.after_sampling_window { Some(height) => BlockRanges::try_from__range(1..=height).unwrap(), None => BlockRanges::new() })"
//@sub E8 "self .cache .after_pruning_window .map(|height| BlockRanges::try_from(1..=height).expect(\"never fails\")) .unwrap_or_default()" => "(match self.cache.after_pruning_window { Some(height) => BlockRanges::try_from__range(1..=height).unwrap(), None => BlockRanges::new() })"
//@binops
//@refarg insert_relaxed
//@hint after "let sampled_ranges = self.store.get_sampled_ranges().await?;"
        let ghost sc = sampling_cutoff.t as int; let ghost pc = pruning_cutoff.t as int; let ghost st = self.store;
//@hint before "let num_of_prunable_blocks = after_sampling_window.len() + prunable_and_sampled.len();"
        proof {
            broadcast use vstd::iset::group_iset_lemmas;
            lemma_view_bounds(stored_ranges.0@);
            lemma_seq_len_card(prune_candidates.0@); lemma_seq_len_bound(prune_candidates.0@);
            lemma_seq_len_card(after_sampling_window.0@); lemma_seq_len_card(prunable_and_sampled.0@);
            assert(after_sampling_window@.disjoint(prunable_and_sampled@));
            lemma_disj_union_len(after_sampling_window@, prunable_and_sampled@);
            vstd::iset_lib::lemma_len_subset(after_sampling_window@.union(prunable_and_sampled@), prune_candidates@);
            assert forall|h: int| prunable_and_sampled@.contains(h) implies prunable(st, sc, pc, h) by {
                lemma_edge_set(synced_ranges.0@, h);
                assert(seq_has(synced_ranges.0@, h) == synced_ranges@.contains(h));
                assert(seq_has(synced_ranges.0@, h - 1) == synced_ranges@.contains(h - 1));
                assert(seq_has(synced_ranges.0@, h + 1) == synced_ranges@.contains(h + 1));
            }
            assert forall|h: int| after_sampling_window@.contains(h) implies st.stored@.contains(h) && time_of(h) <= pc && time_of(h) <= sc by {}
        }
//@hint before "for height in after_sampling_window.rev() {"
        proof { lemma_seq_len_card(after_sampling_window.0@); lemma_seq_len_card(prunable_batch.0@); }
//@for 1 iter pop_head
//@loop 1
            invariant
                __i1_it.wf(), __i1_it@.finite(), prunable_batch.wf(), sampled_ranges.wf(), sampled_ranges@ == st.sampled@,
                prunable_batch@.finite(), prunable_batch@.len() <= MAX_PRUNABLE_BATCH_SIZE,
                forall|h: int| __i1_it@.contains(h) ==> st.stored@.contains(h) && time_of(h) <= pc && time_of(h) <= sc,
                forall|h: int| prunable_batch@.contains(h) ==> prunable(st, sc, pc, h),
                self.store == st, st == old(self).store, sc == sampling_cutoff.t as int, pc == pruning_cutoff.t as int, cache_ok(self.cache), edges_ok(self.cache, sc, pc),
            decreases __i1_it@.len()
//@loopstart 1
            let ghost b0 = prunable_batch@;
//@hint after ".expect(\"never fails\");" last
                proof {
                    broadcast use vstd::iset::group_iset_lemmas;
                    assert(prunable_batch@ =~= b0.insert(height as int));
                    lemma_seq_len_card(prunable_batch.0@);
                }
//@end

//@fn impl<S, B> Worker<S, B> :: run
//@props C35
//@block "for range in prunable_batch.into_inner() {"
    async fn run__prune_range(&mut self, range: BlockRange, log: &mut Ghost<RmLog>) -> (r: PResult<()>)
        requires !range@.exhausted
        ensures
            // only heights of the batch are removed
            forall|h: int| final(log)@.heights.contains(h) ==> old(log)@.heights.contains(h) || r_has(range, h),
//@sub E8 "self .store .get_sampling_metadata(height) .await? .map(|m| m.cids) .unwrap_or_default()" => "(match self.store.get_sampling_metadata(height).await? { Some(m) => m.cids, None => Vec::new() })"
//@addarg "self.blockstore.remove" "log"
//@addarg "self.store.remove_height" "log"
//@for 1 rangeinc
//@loop 1
                invariant
                    __i1_end == range@.end, __i1 >= range@.start, !__i1_done ==> __i1 <= __i1_end,
                    forall|h: int| log@.heights.contains(h) ==> old(log)@.heights.contains(h) || r_has(range, h),
                decreases (if __i1_done { 0 } else { __i1_end - __i1 + 1 })
//@for 2 copy
//@loop 2
                    invariant
                        __i2 <= cids@.len(),
                        forall|i: int| 0 <= i < __i2 ==> log@.cids.contains(#[trigger] cids@[i]),
                        forall|h: int| log@.heights.contains(h) ==> old(log)@.heights.contains(h) || r_has(range, h),
                    decreases cids@.len() - __i2
//@hint exit
        Ok(())
//@end
}

} // verus!
fn main() {}
