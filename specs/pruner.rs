//@unit pruner
//@serves C35 C36
use vstd::prelude::*;
use std::ops::RangeInclusive;
use std::collections::HashMap;
use std::collections::HashSet;
use std::collections::hash_map;
verus! {
broadcast use vstd::std_specs::hash::group_hash_axioms;
//@include range
//@src node/src/pruner.rs

// ---------------------------------------------------------------------------
// stubs of the surrounding system (E9): time, store, daser, blockstore, events
// ---------------------------------------------------------------------------
#[derive(Debug)]
pub enum StoreError { NotFound, Other }
#[derive(Debug)]
pub enum PrunerError { Store(StoreError), Blockstore, Daser }
impl vstd::std_specs::convert::FromSpecImpl<StoreError> for PrunerError {
    open spec fn obeys_from_spec() -> bool { true }
    open spec fn from_spec(e: StoreError) -> PrunerError { PrunerError::Store(e) }
}
impl From<StoreError> for PrunerError { fn from(e: StoreError) -> PrunerError { PrunerError::Store(e) } }
pub struct BlockstoreError {}
impl vstd::std_specs::convert::FromSpecImpl<BlockstoreError> for PrunerError {
    open spec fn obeys_from_spec() -> bool { true }
    open spec fn from_spec(e: BlockstoreError) -> PrunerError { PrunerError::Blockstore }
}
impl From<BlockstoreError> for PrunerError { fn from(e: BlockstoreError) -> PrunerError { PrunerError::Blockstore } }
pub struct DaserError {}
impl vstd::std_specs::convert::FromSpecImpl<DaserError> for PrunerError {
    open spec fn obeys_from_spec() -> bool { true }
    open spec fn from_spec(e: DaserError) -> PrunerError { PrunerError::Daser }
}
impl From<DaserError> for PrunerError { fn from(e: DaserError) -> PrunerError { PrunerError::Daser } }
type PResult<T, E = PrunerError> = std::result::Result<T, E>;

// header time (nanoseconds) of the unique (C21) header of the chain at a height; also defined for pruned heights
pub uninterp spec fn time_of(h: int) -> int;

// tendermint::Time: a totally ordered instant; `a < b` is PartialOrd::lt (E9-op)
#[derive(Clone, Copy, Debug)]
pub struct Time { pub t: u64 }
impl Time {
    #[verifier::external_body]
    pub fn lt(&self, o: &Time) -> (b: bool) ensures b == (self.t < o.t) { unimplemented!() }
}
pub struct ExtendedHeader { pub h: u64, pub t: Time }
impl ExtendedHeader {
    #[verifier::external_body]
    pub fn height(&self) -> (r: u64) ensures r == self.h { unimplemented!() }
    #[verifier::external_body]
    pub fn time(&self) -> (r: Time) ensures r == self.t { unimplemented!() }
}

// the header store as the pruner sees it (contracts assumed here; they are what the store unit proves for the in-memory
// back end, C19): `get_by_height` returns the header stored at that height, whose time is the chain's time for that height
pub struct Store { pub stored: Ghost<ISet<int>>, pub pruned: Ghost<ISet<int>>, pub sampled: Ghost<ISet<int>> }
impl Store {
    #[verifier::external_body]
    pub async fn get_by_height(&self, h: u64) -> (r: Result<ExtendedHeader, StoreError>)
        ensures r.is_ok() ==> self.stored@.contains(h as int) && r.unwrap().h == h && r.unwrap().t.t == time_of(h as int),
    { unimplemented!() }
}

#[derive(Debug)]
pub struct BlockInfo { pub height: u64, pub time: Time }
impl Clone for BlockInfo {
    #[verifier::external_body]
    fn clone(&self) -> (r: BlockInfo) ensures r == *self { unimplemented!() }
}
#[verifier::external_body]
pub fn vx_clone_info(b: &BlockInfo) -> (r: BlockInfo) ensures r == *b { unimplemented!() }

pub struct Instant {}
pub struct Cache {
    pub updated_at: Option<Instant>,
    pub after_pruning_window: Option<u64>,
    pub after_sampling_window: Option<u64>,
    pub block_info: HashMap<u64, BlockInfo>,
    pub keep_block_info: HashSet<u64>,
}

// every cached entry is the (height, time) of the chain's header at that height
pub open spec fn cache_ok(c: Cache) -> bool {
    forall|h: u64| #![trigger c.block_info@.contains_key(h)] c.block_info@.contains_key(h) ==> c.block_info@[h].height == h && c.block_info@[h].time.t == time_of(h as int)
}
// "times increase with height" over a set of heights (tendermint block time is strictly increasing: `verify` rejects
// an untrusted header whose time is not after the trusted one)
pub open spec fn mono_on(s: ISet<int>) -> bool {
    forall|a: int, b: int| s.contains(a) && s.contains(b) && a < b ==> time_of(a) < time_of(b)
}
// C36: the answer of the window search over the stored set
pub open spec fn window_ans(stored: ISet<int>, cutoff: int, ans: Option<u64>) -> bool {
    match ans {
        // a stored height whose time is not newer than the cutoff and above which no stored header is older than the cutoff
        Some(r) => stored.contains(r as int) && time_of(r as int) <= cutoff
            && forall|h: int| stored.contains(h) && h > r ==> !(time_of(h) < cutoff),
        // nothing only if no stored header is strictly older than the cutoff
        None => forall|h: int| stored.contains(h) ==> !(time_of(h) < cutoff),
    }
}
// invariant of the binary search
pub open spec fn search_inv(stored: ISet<int>, ranges: ISet<int>, cutoff: int, highest: Option<BlockInfo>) -> bool {
    &&& ranges.subset_of(stored)
    &&& forall|h: int| stored.contains(h) && !ranges.contains(h) && time_of(h) < cutoff ==> highest.is_some() && h <= highest.unwrap().height
    &&& highest.is_some() ==> {
        let hi = highest.unwrap();
        &&& stored.contains(hi.height as int) && hi.time.t == time_of(hi.height as int) && time_of(hi.height as int) <= cutoff
        &&& forall|h: int| ranges.contains(h) ==> h > hi.height
    }
}

// monotonicity over `stored + prev` as plain facts about stored heights and prev
pub proof fn lemma_mono_sub(stored: ISet<int>, prev: Option<u64>)
    requires mono_on(if prev.is_some() { stored.insert(prev.unwrap() as int) } else { stored })
    ensures
        mono_on(stored),
        prev.is_some() ==> forall|h: int| stored.contains(h) ==> (h < prev.unwrap() ==> time_of(h) < time_of(prev.unwrap() as int)) && (h > prev.unwrap() ==> time_of(h) > time_of(prev.unwrap() as int)),
{
    broadcast use vstd::iset::group_iset_lemmas;
    if prev.is_some() {
        let p = prev.unwrap() as int;
        let s2 = stored.insert(p);
        assert(s2.contains(p));
        assert forall|a: int, b: int| stored.contains(a) && stored.contains(b) && a < b implies time_of(a) < time_of(b) by {
            assert(s2.contains(a) && s2.contains(b));
        }
        assert forall|h: int| stored.contains(h) implies (h < p ==> time_of(h) < time_of(p)) && (h > p ==> time_of(h) > time_of(p)) by {
            assert(s2.contains(h));
        }
    }
}

// one step of the binary search: the half that is dropped cannot contain the answer
pub proof fn lemma_search_step(stored: ISet<int>, r0: ISet<int>, l: ISet<int>, m: int, r: ISet<int>, cutoff: int, h0: Option<BlockInfo>, h1: Option<BlockInfo>, go_right: bool)
    requires
        mono_on(stored), search_inv(stored, r0, cutoff, h0), part_ok(r0, l, m, r),
        go_right ==> time_of(m) <= cutoff && h1.is_some() && h1.unwrap().time.t == time_of(m)
            && (if h0.is_none() || h0.unwrap().time.t < time_of(m) { h1.unwrap().height == m } else { h1 == h0 }),
        !go_right ==> !(time_of(m) < cutoff) && h1 == h0,
    ensures
        go_right ==> search_inv(stored, r, cutoff, h1),
        !go_right ==> search_inv(stored, l, cutoff, h1),
        l.finite() && r.finite() && r0.finite() && l.len() < r0.len() && r.len() < r0.len(),
{
    broadcast use vstd::iset::group_iset_lemmas;
    assert(r0.contains(m) && stored.contains(m));
    assert forall|h: int| l.contains(h) implies r0.contains(h) by { assert(l.union(r).insert(m).contains(h)); }
    assert forall|h: int| r.contains(h) implies r0.contains(h) by { assert(l.union(r).insert(m).contains(h)); }
    assert forall|h: int| r0.contains(h) implies l.contains(h) || r.contains(h) || h == m by { assert(l.union(r).insert(m).contains(h)); }
    if go_right {
        if h0.is_some() { assert(h0.unwrap().height < m); assert(time_of(h0.unwrap().height as int) < time_of(m)); }
        assert(h1.unwrap().height == m);
        assert forall|h: int| stored.contains(h) && !r.contains(h) && time_of(h) < cutoff implies h <= m by {
            if r0.contains(h) { } else { assert(h0.is_some() && h <= h0.unwrap().height); }
        }
    } else {
        assert forall|h: int| stored.contains(h) && !l.contains(h) && time_of(h) < cutoff implies h0.is_some() && h <= h0.unwrap().height by {
            if r0.contains(h) { assert(h == m || r.contains(h)); assert(h >= m); if h > m { assert(time_of(m) < time_of(h)); } }
        }
    }
}

impl Cache {
//@fn impl Cache :: get_block_info
//@props C36
    async fn get_block_info(&mut self, store: &Store, height: u64) -> (r: PResult<BlockInfo>)
        requires cache_ok(*old(self))
        ensures
            cache_ok(*final(self)),
            final(self).after_pruning_window == old(self).after_pruning_window,
            final(self).after_sampling_window == old(self).after_sampling_window,
            final(self).keep_block_info == old(self).keep_block_info,
            final(self).updated_at == old(self).updated_at,
            r.is_ok() ==> r.unwrap().height == height && r.unwrap().time.t == time_of(height as int),
//@sub E9 "entry.get().to_owned()" => "vx_clone_info(entry.get())"
//@hint entry
        proof { broadcast use vstd::std_specs::hash::group_hash_axioms; }
//@end
}

//@fn - :: find_height_after_window
//@props C36
async fn find_height_after_window(
    store: &Store,
    stored_headers: &BlockRanges,
    cutoff: &Time,
    prev_after_window: Option<u64>,
    cache: &mut Cache,
) -> (r: PResult<Option<u64>>)
    requires
        stored_headers.wf(), stored_headers@ == store.stored@, cache_ok(*old(cache)),
        // an answer that was correct for an earlier cutoff (the header itself may have been removed since)
        prev_after_window.is_some() ==> prev_after_window.unwrap() >= 1 && time_of(prev_after_window.unwrap() as int) <= cutoff.t,
        mono_on(if prev_after_window.is_some() { store.stored@.insert(prev_after_window.unwrap() as int) } else { store.stored@ }),
    ensures
        cache_ok(*final(cache)),
        final(cache).after_pruning_window == old(cache).after_pruning_window,
        final(cache).after_sampling_window == old(cache).after_sampling_window,
        r.is_ok() ==> window_ans(store.stored@, cutoff.t as int, r.unwrap()),
//@hint entry
    proof { lemma_mono_sub(store.stored@, prev_after_window); }
//@end

//@fn - :: find_height_after_window_fast
//@props C36
async fn find_height_after_window_fast(
    store: &Store,
    stored_headers: &BlockRanges,
    cutoff: &Time,
    prev_after_window: Option<u64>,
    cache: &mut Cache,
) -> (r: PResult<Option<Option<u64>>>)
    requires
        stored_headers.wf(), stored_headers@ == store.stored@, cache_ok(*old(cache)),
        prev_after_window.is_some() ==> prev_after_window.unwrap() >= 1 && time_of(prev_after_window.unwrap() as int) <= cutoff.t,
        mono_on(if prev_after_window.is_some() { store.stored@.insert(prev_after_window.unwrap() as int) } else { store.stored@ }),
    ensures
        cache_ok(*final(cache)),
        final(cache).after_pruning_window == old(cache).after_pruning_window,
        final(cache).after_sampling_window == old(cache).after_sampling_window,
        (r.is_ok() && r.unwrap().is_some()) ==> window_ans(store.stored@, cutoff.t as int, r.unwrap().unwrap()),
//@sub E9-op "*cutoff < block_info.time" all => "cutoff.lt(&block_info.time)"
//@hint entry
    proof { lemma_mono_sub(store.stored@, prev_after_window); }
//@end

//@fn - :: find_height_after_window_slow
//@props C36
async fn find_height_after_window_slow(
    store: &Store,
    stored_headers: &BlockRanges,
    cutoff: &Time,
    cache: &mut Cache,
) -> (r: PResult<Option<u64>>)
    requires
        stored_headers.wf(), stored_headers@ == store.stored@, cache_ok(*old(cache)),
        mono_on(store.stored@),
    ensures
        cache_ok(*final(cache)),
        final(cache).after_pruning_window == old(cache).after_pruning_window,
        final(cache).after_sampling_window == old(cache).after_sampling_window,
        r.is_ok() ==> window_ans(store.stored@, cutoff.t as int, r.unwrap()),
//@sub E9 "stored_headers.to_owned()" => "stored_headers.clone()"
//@sub E9-op "middle.time < *cutoff" => "middle.time.lt(cutoff)"
//@sub E8 "highest .as_ref() .is_none_or(|highest| highest.time < middle.time)" => "(match &highest { None => true, Some(highest) => highest.time.lt(&middle.time) })"
//@sub E9 "highest.map(|block_info| block_info.height)" => "(match highest { Some(block_info) => Some(block_info.height), None => None })"
//@hint before "while let Some((left, middle, right)) = ranges.partitions() {"
    proof { lemma_seq_len_card(ranges.0@); }
//@loop 1
        invariant
            ranges.wf(), ranges@.finite(), stored_headers@ == store.stored@, mono_on(store.stored@), cache_ok(*cache),
            cache.after_pruning_window == old(cache).after_pruning_window,
            cache.after_sampling_window == old(cache).after_sampling_window,
            search_inv(store.stored@, ranges@, cutoff.t as int, highest),
        ensures ranges@ =~= ISet::<int>::empty()
        decreases ranges@.len()
//@hint before "let middle = cache.get_block_info(store, middle).await?;"
        let ghost r0 = ranges@; let ghost h0 = highest; let ghost m0 = middle as int;
        proof { assert(r0.contains(m0)); assert(store.stored@.contains(m0)); }
//@hint after "ranges = right;"
            proof { lemma_search_step(store.stored@, r0, left@, m0, right@, cutoff.t as int, h0, highest, true); }
//@hint after "ranges = left;"
            proof { lemma_search_step(store.stored@, r0, left@, m0, right@, cutoff.t as int, h0, highest, false); }
//@end

} // verus!
fn main() {}
