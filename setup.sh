#!/bin/bash
# Offline setup: nothing to build for vx/check (python3); pre-build the guarded native test binary
# (witness finders / bounded stand-ins) and the Kani harness crates so that checks start warm.
set -u
export CARGO_NET_OFFLINE=true
T=${LUMINA_VERIF_TARGET:-/var/tmp/lumina-verif}
mkdir -p "$T" /verif/work /verif/evidence/replay
verus --version >/dev/null || { echo "verus missing"; exit 1; }
( cd /repo && RUSTFLAGS='--cfg lumina_verif' LUMINA_VERIF_DIR=/verif CARGO_TARGET_DIR=$T/native-v \
    cargo test -p lumina-node --lib --offline --no-run >"$T/setup-native.log" 2>&1 ) || { echo "native build failed (witness finders unavailable)"; tail -5 "$T/setup-native.log"; }
( cd /repo && RUSTFLAGS='--cfg lumina_verif' LUMINA_VERIF_DIR=/verif CARGO_TARGET_DIR=$T/native-v \
    cargo test -p celestia-types --features test-utils --lib --offline --no-run >>"$T/setup-native.log" 2>&1 ) || echo "native build of celestia-types failed"
( cd /repo && RUSTFLAGS='--cfg lumina_verif' LUMINA_VERIF_DIR=/verif CARGO_TARGET_DIR=$T/native-v \
    cargo test -p celestia-grpc --lib --offline --no-run >>"$T/setup-native.log" 2>&1 ) || echo "native build of celestia-grpc failed"
if [ -x /verif/kani/prebuild.sh ]; then /verif/kani/prebuild.sh || echo "kani prebuild failed"; fi
echo "setup done"
