use vstd::prelude::*;
use std::collections::HashMap;
use std::collections::hash_map::Entry;
verus! {
#[derive(Debug)]
pub enum StoreError { NotFound, StoredDataError }

pub struct Inner {
    pub headers: HashMap<u64, u64>,        // hash -> header (abstracted)
    pub height_to_hash: HashMap<u64, u64>, // height -> hash
}

impl Inner {
    fn remove_height(&mut self, height: u64) -> (res: Result<(), StoreError>)
        ensures
            res.is_ok() ==> old(self).height_to_hash@.contains_key(height)
                && final(self).height_to_hash@ == old(self).height_to_hash@.remove(height)
                && final(self).headers@ == old(self).headers@.remove(old(self).height_to_hash@[height]),
            res.is_err() ==> final(self).height_to_hash@ == old(self).height_to_hash@ && final(self).headers@ == old(self).headers@,
    {
        let Entry::Occupied(height_to_hash) = self.height_to_hash.entry(height) else {
            return Err(StoreError::StoredDataError);
        };

        let hash = height_to_hash.get();
        let Entry::Occupied(header) = self.headers.entry(*hash) else {
            return Err(StoreError::StoredDataError);
        };

        height_to_hash.remove_entry();
        header.remove_entry();

        Ok(())
    }
}
}
fn main() {}
