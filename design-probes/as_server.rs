use vstd::prelude::*;
verus! {
pub struct Store { pub v: u64 }
pub uninterp spec fn stored(s: Store, h: u64) -> bool;
impl Store {
    #[verifier::external_body]
    pub async fn get_by_height(&self, h: u64) -> (r: Result<u64, ()>)
        ensures r.is_ok() == stored(*self, h), r.is_ok() ==> r.unwrap() == h
    { unimplemented!() }
}

pub async fn by_height(store: &Store, origin: u64, amount: u64) -> (responses: Vec<u64>)
    requires origin >= 1
    ensures
        responses.len() >= 1,
{
    let amount = if amount < 512 { amount } else { 512 };
    let mut responses: Vec<u64> = vec![];

    for i in origin..origin + amount
        invariant responses.len() <= i - origin
    {
        match store.get_by_height(i).await {
            Ok(h) => {
                responses.push(h);
            }
            Err(_) => break,
        }
    }

    if responses.is_empty() {
        responses.push(0);
    }
    responses
}
}
fn main() {}
