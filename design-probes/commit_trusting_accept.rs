use vstd::prelude::*;
verus! {

// ---------- stubs for external types (trusted) ----------
pub struct ChainId { pub v: u64 }
#[derive(PartialEq, Eq, Clone, Copy)]
pub struct Height { pub v: u64 }
pub struct Signature { pub v: u64 }
pub struct AccountId { pub v: u64 }
pub struct Time { pub v: u64 }
pub struct BlockId { pub v: u64 }

pub enum CommitSig {
    BlockIdFlagAbsent,
    BlockIdFlagCommit { validator_address: AccountId, timestamp: Time, signature: Option<Signature> },
    BlockIdFlagNil { validator_address: AccountId, timestamp: Time, signature: Option<Signature> },
}
pub struct Commit { pub height: Height, pub round: u32, pub block_id: BlockId, pub signatures: Vec<CommitSig> }
pub struct Info { pub address: AccountId, pub pk: u64, pub power_: u64 }
pub struct Set { pub validators_: Vec<Info>, pub total: u64 }

#[derive(Debug)]
pub enum Error { Verification, Other }

pub uninterp spec fn sig_valid(pk: u64, msg: Seq<u8>, sig: u64) -> bool;
pub uninterp spec fn vote_bytes(c: Commit, chain: ChainId, idx: int) -> Seq<u8>;

impl Info {
    #[verifier::external_body]
    pub fn power(&self) -> (p: u64) ensures p == self.power_ { unimplemented!() }
    #[verifier::external_body]
    pub fn verify_signature(&self, msg: &Vec<u8>, sig: &Signature) -> (r: Result<(), Error>)
        ensures r.is_ok() == sig_valid(self.pk, msg@, sig.v) { unimplemented!() }
}
impl Set {
    #[verifier::external_body]
    pub fn validators(&self) -> (v: &Vec<Info>) ensures *v == self.validators_ { unimplemented!() }
    #[verifier::external_body]
    pub fn total_voting_power(&self) -> (p: u64) ensures p == self.total { unimplemented!() }
}
impl Commit {
    #[verifier::external_body]
    pub fn vote_sign_bytes(&self, chain_id: &ChainId, idx: usize) -> (r: Result<Vec<u8>, Error>)
        ensures r.is_ok() ==> r.unwrap()@ == vote_bytes(*self, *chain_id, idx as int) { unimplemented!() }
}

#[verifier::external_body]
fn voting_power_needed(num: u64, den: u64, total: u64) -> (r: Result<u64, Error>)
    ensures r.is_ok() ==> den != 0 && r.unwrap() == (num * total) / (den as int)
{ unimplemented!() }

pub open spec fn signed_ok(set: Set, commit: Commit, chain: ChainId, i: int) -> bool {
    match commit.signatures@[i] {
        CommitSig::BlockIdFlagCommit { signature: Some(sig), .. } =>
            sig_valid(set.validators_@[i].pk, vote_bytes(commit, chain, i), sig.v),
        _ => false,
    }
}
pub open spec fn tally(set: Set, commit: Commit, chain: ChainId, n: int) -> int
    decreases n
{
    if n <= 0 { 0 } else {
        tally(set, commit, chain, n - 1) + if signed_ok(set, commit, chain, n - 1) { set.validators_@[n - 1].power_ as int } else { 0 }
    }
}

// ---------- extracted body (rewrites: bail macro -> return Err; zip+enumerate -> index loop) ----------
fn verify_commit_light(this: &Set, chain_id: &ChainId, height: &Height, commit: &Commit) -> (res: Result<(), Error>)
    ensures
        res.is_ok() ==> {
            &&& this.validators_.len() == commit.signatures.len()
            &&& *height == commit.height
            &&& exists|n: int| 0 <= n <= this.validators_.len() && 3 * tally(*this, *commit, *chain_id, n) > 2 * this.total
        }
{
    if this.validators().len() != commit.signatures.len() {
        return Err(Error::Verification);
    }
    if height != &commit.height {
        return Err(Error::Verification);
    }

    let mut tallied_voting_power = 0;
    let voting_power_needed = voting_power_needed(2, 3, this.total_voting_power())?;

    let mut __i: usize = 0;
    while __i < this.validators().len()
        invariant
            __i <= this.validators_.len(),
            this.validators_.len() == commit.signatures.len(),
            tallied_voting_power == tally(*this, *commit, *chain_id, __i as int),
            voting_power_needed == (2 * this.total) / 3,
        decreases this.validators_.len() - __i
    {
        let idx = __i;
        let validator = &this.validators()[__i];
        let commit_sig = &commit.signatures[__i];
        __i += 1;

        let signature = match commit_sig {
            CommitSig::BlockIdFlagCommit { signature: Some(sig), .. } => sig,
            CommitSig::BlockIdFlagCommit { .. } => {
                return Err(Error::Verification);
            }
            _ => continue,
        };
        let vote_sign = commit.vote_sign_bytes(chain_id, idx)?;
        validator.verify_signature(&vote_sign, signature)?;

        tallied_voting_power += validator.power();
        if tallied_voting_power > voting_power_needed {
            return Ok(());
        }
    }

    Err(Error::Verification)
}

}
use std::collections::HashMap;
verus! {
impl PartialEq for AccountId { fn eq(&self, o: &AccountId) -> (b: bool) ensures b == (self.v == o.v) { self.v == o.v } }

// E8: `.iter().enumerate().find(|(_idx, val)| val.address == *val_id)` -> explicit loop
fn find_validator<'a>(vals: &'a Set, val_id: &AccountId) -> (r: Option<(usize, &'a Info)>)
    ensures
        r.is_some() ==> r.unwrap().0 < vals.validators_.len() && *r.unwrap().1 == vals.validators_@[r.unwrap().0 as int]
            && vals.validators_@[r.unwrap().0 as int].address.v == val_id.v
            && forall|k: int| 0 <= k < r.unwrap().0 ==> (#[trigger] vals.validators_@[k]).address.v != val_id.v,
        r.is_none() ==> forall|k: int| 0 <= k < vals.validators_.len() ==> (#[trigger] vals.validators_@[k]).address.v != val_id.v,
{
    let mut __i: usize = 0;
    while __i < vals.validators().len()
        invariant __i <= vals.validators_.len(), forall|k: int| 0 <= k < __i ==> (#[trigger] vals.validators_@[k]).address.v != val_id.v,
        decreases vals.validators_.len() - __i
    {
        let _idx = __i;
        let val = &vals.validators()[__i];
        __i += 1;
        if val.address == *val_id { return Some((_idx, val)); }
    }
    None
}

fn verify_commit_light_trusting(this: &Set, chain_id: &ChainId, commit: &Commit, num: u64, den: u64) -> (res: Result<(), Error>)
{
    let mut seen_vals = HashMap::<usize, usize>::new();
    let mut tallied_voting_power = 0;

    let voting_power_needed = voting_power_needed(num, den, this.total_voting_power())?;

    let mut __i: usize = 0;
    while __i < commit.signatures.len()
        invariant __i <= commit.signatures.len(),
        decreases commit.signatures.len() - __i
    {
        let idx = __i;
        let commit_sig = &commit.signatures[__i];
        __i += 1;
        let (val_id, signature) = match commit_sig {
            CommitSig::BlockIdFlagCommit {
                validator_address,
                signature: Some(sig),
                ..
            } => (validator_address, sig),
            CommitSig::BlockIdFlagCommit { .. } => {
                return Err(Error::Verification);
            }
            _ => continue,
        };

        let Some((val_idx, validator)) = find_validator(this, val_id) else {
            continue;
        };

        if let Some(prev_idx) = seen_vals.get(&val_idx) {
            return Err(Error::Verification);
        }

        seen_vals.insert(val_idx, idx);

        let vote_sign = commit.vote_sign_bytes(chain_id, idx)?;
        validator.verify_signature(&vote_sign, signature)?;

        tallied_voting_power += validator.power();

        if tallied_voting_power > voting_power_needed {
            return Ok(());
        }
    }

    Err(Error::Verification)
}
}
fn main() {}

