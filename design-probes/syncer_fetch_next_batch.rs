use vstd::prelude::*;
use std::ops::RangeInclusive;
verus! {
pub type BlockRange = RangeInclusive<u64>;
pub assume_specification<Idx> [std::ops::RangeInclusive::<Idx>::start] (r: &RangeInclusive<Idx>) -> (s: &Idx)
    ensures *s == r@.start;
pub assume_specification<Idx> [std::ops::RangeInclusive::<Idx>::end] (r: &RangeInclusive<Idx>) -> (s: &Idx)
    ensures *s == r@.end;

pub assume_specification<T, F: FnOnce(T) -> bool> [Option::<T>::is_some_and] (o: Option<T>, f: F) -> (r: bool)
    requires o.is_some() ==> f.requires((o.unwrap(),))
    ensures o.is_none() ==> !r, o.is_some() ==> f.ensures((o.unwrap(),), r);

#[derive(Debug)]
pub enum StoreError { NotFound, Other }
#[derive(Debug)]
pub enum SyncerError { Store(StoreError) }
impl vstd::std_specs::convert::FromSpecImpl<StoreError> for SyncerError {
    open spec fn obeys_from_spec() -> bool { true }
    open spec fn from_spec(e: StoreError) -> SyncerError { SyncerError::Store(e) }
}
impl From<StoreError> for SyncerError { fn from(e: StoreError) -> SyncerError { SyncerError::Store(e) } }

pub struct ExtendedHeader { pub h: u64, pub t: u64 }
pub struct BlockRanges { pub v: Ghost<ISet<int>> }
impl BlockRanges {
    pub open spec fn view(&self) -> ISet<int> { self.v@ }
    #[verifier::external_body]
    pub fn plus(self, o: &BlockRanges) -> (r: BlockRanges) ensures r@ == self@.union(o@) { unimplemented!() }
    #[verifier::external_body]
    pub fn minus(self, o: BlockRanges) -> (r: BlockRanges) ensures r@ == self@.difference(o@) { unimplemented!() }
    #[verifier::external_body]
    pub fn len(&self) -> (r: u64) { unimplemented!() }
    #[verifier::external_body]
    pub fn as_ref(&self) -> (r: &[BlockRange]) { unimplemented!() }
}
pub uninterp spec fn time_of(h: int) -> u64;
pub struct Store { pub stored: Ghost<ISet<int>>, pub pruned: Ghost<ISet<int>>, pub sampled: Ghost<ISet<int>> }
impl Store {
    #[verifier::external_body]
    pub async fn get_stored_header_ranges(&self) -> (r: Result<BlockRanges, StoreError>) ensures r.is_ok() ==> r.unwrap()@ == self.stored@ { unimplemented!() }
    #[verifier::external_body]
    pub async fn get_pruned_ranges(&self) -> (r: Result<BlockRanges, StoreError>) ensures r.is_ok() ==> r.unwrap()@ == self.pruned@ { unimplemented!() }
    #[verifier::external_body]
    pub async fn get_sampled_ranges(&self) -> (r: Result<BlockRanges, StoreError>) ensures r.is_ok() ==> r.unwrap()@ == self.sampled@ { unimplemented!() }
    #[verifier::external_body]
    pub async fn get_by_height(&self, h: u64) -> (r: Result<ExtendedHeader, StoreError>)
        ensures
            r.is_ok() ==> self.stored@.contains(h as int) && r.unwrap().h == h && r.unwrap().t == time_of(h as int),
            (r is Err && r->Err_0 is NotFound) ==> !self.stored@.contains(h as int),
    { unimplemented!() }
}
pub struct PeerInfo { pub num_connected_peers: u64 }
pub struct P2p {}
impl P2p {
    #[verifier::external_body]
    pub fn peer_tracker_info(&self) -> PeerInfo { unimplemented!() }
}
pub struct Task { pub terminated: bool }
impl Task {
    #[verifier::external_body]
    pub fn is_terminated(&self) -> (b: bool) ensures b == self.terminated { unimplemented!() }
    #[verifier::external_body]
    pub fn set_opaque(&mut self) ensures !final(self).terminated { unimplemented!() }
}
pub struct Ongoing { pub range: Option<BlockRange>, pub task: Task }
pub struct Worker {
    pub p2p: P2p, pub store: Store,
    pub subjective_head_height: Option<u64>, pub highest_slow_sync_height: Option<u64>,
    pub batch_size: u64, pub ongoing_batch: Ongoing, pub window_end: u64,
}
#[verifier::external_body]
fn calculate_range_to_fetch(head: u64, synced: &[BlockRange], limit: u64) -> (r: BlockRange) ensures !r@.exhausted, r@.start <= r@.end ==> r@.end < u64::MAX { unimplemented!() }
#[verifier::external_body]
fn vx_clone(r: &BlockRange) -> (o: BlockRange) ensures o == *r { unimplemented!() }

impl Worker {
    #[verifier::external_body]
    fn in_sampling_window(&self, header: &ExtendedHeader) -> (b: bool) ensures b == (header.t > self.window_end) { unimplemented!() }

    async fn fetch_next_batch(&mut self) -> (res: Result<(), SyncerError>)
        requires old(self).ongoing_batch.range.is_none() == old(self).ongoing_batch.task.terminated
        ensures
            // C25: a scheduled batch never lies directly below a *stored* header outside the window ...
            (res.is_ok() && final(self).ongoing_batch.range.is_some() && old(self).ongoing_batch.task.terminated) ==> {
                let r = final(self).ongoing_batch.range.unwrap();
                let above = r@.end + 1;
                (old(self).store.stored@.contains(above) ==> time_of(above) > old(self).window_end)
                // ... nor below a *pruned* one (this is the conjunct the current code cannot establish)
                && (old(self).store.pruned@.contains(above) ==> time_of(above) > old(self).window_end)
            }
    {
        if !self.ongoing_batch.task.is_terminated() {
            return Ok(());
        }

        if self.p2p.peer_tracker_info().num_connected_peers == 0 {
            return Ok(());
        }

        let Some(subjective_head_height) = self.subjective_head_height else {
            return Ok(());
        };

        let store_ranges = self.store.get_stored_header_ranges().await?;
        let pruned_ranges = self.store.get_pruned_ranges().await?;

        let synced_ranges = pruned_ranges.plus(&store_ranges);

        let next_batch = calculate_range_to_fetch(
            subjective_head_height,
            synced_ranges.as_ref(),
            self.batch_size,
        );

        if next_batch.is_empty() {
            return Ok(());
        }

        if self
            .highest_slow_sync_height
            .is_some_and(|height| *next_batch.end() <= height)
        {
            let threshold = (self.batch_size / 2).max(50);

            let sampled_ranges = self.store.get_sampled_ranges().await?;
            let available_for_sampling = (store_ranges.minus(sampled_ranges)).len();

            if available_for_sampling > threshold {
                return Ok(());
            }
        }

        match self.store.get_by_height(next_batch.end() + 1).await {
            Ok(known_header) => {
                if !self.in_sampling_window(&known_header) {
                    return Ok(());
                }
            }
            Err(StoreError::NotFound) => {}
            Err(e) => return Err(e.into()),
        }

        self.ongoing_batch.range = Some(vx_clone(&next_batch));
        self.ongoing_batch.task.set_opaque();

        Ok(())
    }
}
}
fn main() {}
