use vstd::prelude::*;
use std::ops::RangeInclusive;
use vstd::multiset::Multiset;
verus! {
pub type BlockRange = RangeInclusive<u64>;
pub assume_specification<Idx> [std::ops::RangeInclusive::<Idx>::start] (r: &RangeInclusive<Idx>) -> (s: &Idx)
    ensures *s == r@.start;
pub assume_specification<Idx> [std::ops::RangeInclusive::<Idx>::end] (r: &RangeInclusive<Idx>) -> (s: &Idx)
    ensures *s == r@.end;

#[derive(Debug)]
pub enum HeaderExError { NotFound, Invalid }
#[derive(Debug)]
pub enum P2pError { HeaderEx(HeaderExError), WorkerDied }
pub struct ExtendedHeader { pub h: u64 }
impl ExtendedHeader {
    #[verifier::external_body]
    pub fn height(&self) -> (r: u64) ensures r == self.h { unimplemented!() }
}

pub open spec fn is_prefix_resp(height: u64, amount: u64, hs: Seq<ExtendedHeader>) -> bool {
    hs.len() <= amount && forall|i: int| 0 <= i < hs.len() ==> (#[trigger] hs[i]).h == height + i
}

// FuturesUnordered of outstanding requests: ghost multiset of (height, amount)
pub struct Tasks { pub out: Ghost<Multiset<(u64, u64)>> }
impl Tasks {
    #[verifier::external_body]
    pub async fn next(&mut self) -> (r: Option<(u64, u64, Result<Vec<ExtendedHeader>, P2pError>)>)
        ensures
            r.is_none() <==> old(self).out@.len() == 0,
            r.is_some() ==> {
                let (h, a, res) = r.unwrap();
                &&& old(self).out@.count((h, a)) > 0
                &&& final(self).out@ == old(self).out@.remove((h, a))
                &&& (res.is_ok() ==> is_prefix_resp(h, a, res.unwrap()@))   // assumption of the property: responses are prefixes
            },
            r.is_none() ==> final(self).out@ == old(self).out@,
    { unimplemented!() }
}

pub struct HeaderSession {
    pub to_fetch: Option<BlockRange>,
    pub tasks: Tasks,
    pub batch_size: u64,
}

#[verifier::external_body]
fn range_len(this: &BlockRange) -> (n: u64)
    ensures n == (if this@.start <= this@.end && this@.end - this@.start < u64::MAX { this@.end - this@.start + 1 } else { 0 })
{ unimplemented!() }
#[verifier::external_body]
fn take_next_batch(range_to_fetch: &mut Option<BlockRange>, limit: u64) -> (res: Option<BlockRange>) { unimplemented!() }

impl HeaderSession {
    #[verifier::external_body]
    pub async fn send_request(&mut self, height: u64, amount: u64)
        requires 1 <= amount <= 64, height >= 1
        ensures final(self).tasks.out@ == old(self).tasks.out@.insert((height, amount)), final(self).to_fetch == old(self).to_fetch, final(self).batch_size == old(self).batch_size
    { unimplemented!() }

    pub async fn send_next_request(&mut self) {
        if let Some(range) = take_next_batch(&mut self.to_fetch, self.batch_size) {
            self.send_request(*range.start(), range_len(&range)).await;
        }
    }

    pub async fn run(&mut self) -> (res: Result<Vec<Vec<ExtendedHeader>>, P2pError>)
    {
        let mut responses = Vec::new();

        for _i in 0..8 {
            self.send_next_request().await;
        }

        while let Some((height, requested_amount, res)) = self.tasks.next().await {
            match res {
                Ok(headers) => {
                    let headers_len = headers.len() as u64;

                    if headers_len > 0 {
                        responses.push(headers);
                    }

                    if headers_len < requested_amount {
                        let height = height + headers_len;
                        let amount = requested_amount - headers_len;
                        self.send_request(height, amount).await;
                    } else {
                        self.send_next_request().await;
                    }
                }
                Err(P2pError::HeaderEx(e)) => {
                    self.send_request(height, requested_amount).await;
                }
                Err(e) => return Err(e),
            }
        }

        Ok(responses)
    }
}
}
fn main() {}
