use vstd::prelude::*;
use std::ops::RangeInclusive;
verus! {

pub type BlockRange = RangeInclusive<u64>;

pub assume_specification<Idx> [std::ops::RangeInclusive::<Idx>::start] (r: &RangeInclusive<Idx>) -> (s: &Idx)
    ensures *s == r@.start;
pub assume_specification<Idx> [std::ops::RangeInclusive::<Idx>::end] (r: &RangeInclusive<Idx>) -> (s: &Idx)
    ensures *s == r@.end;

pub open spec fn r_valid(r: BlockRange) -> bool {
    r@.start > 0 && r@.start <= r@.end && !r@.exhausted
}

pub open spec fn r_has(r: BlockRange, h: int) -> bool {
    r@.start <= h <= r@.end
}

// ---- extracted: BlockRangeExt for BlockRange ----
fn validate(this: &BlockRange) -> (res: Result<(), ()>)
    requires !this@.exhausted
    ensures res.is_ok() == r_valid(*this)
{
    if *this.start() > 0 && this.start() <= this.end() {
        Ok(())
    } else {
        Err(())
    }
}

fn len(this: &BlockRange) -> (n: u64)
    requires r_valid(*this) || this@.start > this@.end, this@.end - this@.start < u64::MAX,
    ensures n == if this@.start <= this@.end { this@.end - this@.start + 1 } else { 0 }
{
    match this.end().checked_sub(*this.start()) {
        Some(difference) => difference + 1,
        None => 0,
    }
}

fn is_adjacent(this: &BlockRange, other: &BlockRange) -> (b: bool)
    requires r_valid(*this), r_valid(*other)
    ensures b == (this@.end + 1 == other@.start || other@.end + 1 == this@.start)
{
    if *this.end() == other.start().saturating_sub(1) {
        return true;
    }
    if this.start().saturating_sub(1) == *other.end() {
        return true;
    }
    false
}

fn is_overlapping(this: &BlockRange, other: &BlockRange) -> (b: bool)
    requires r_valid(*this), r_valid(*other)
    ensures b == (this@.start <= other@.end && other@.start <= this@.end)
{
    if this.start() < other.start() && other.contains(this.end()) {
        return true;
    }
    if this.end() > other.end() && other.contains(this.start()) {
        return true;
    }
    if this.start() >= other.start() && this.end() <= other.end() {
        return true;
    }
    if this.start() <= other.start() && this.end() >= other.end() {
        return true;
    }
    false
}

}
fn main() {}
