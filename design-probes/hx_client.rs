use vstd::prelude::*;
verus! {

// ---- stubs
pub enum Data { Origin(u64), Hash(Vec<u8>) }
pub struct HeaderRequest { pub data: Option<Data>, pub amount: u64 }
pub struct HeaderResponse { pub body: Vec<u8>, pub status_code: i32 }
#[derive(Debug)]
pub enum HeaderExError { HeaderNotFound, InvalidResponse, InvalidRequest }
pub struct ExtendedHeader { pub h: u64, pub hash_: Seq<u8> }
pub struct Hash { pub b: Vec<u8> }

pub uninterp spec fn validated_from(resp: HeaderResponse, hdr: ExtendedHeader) -> bool;

impl ExtendedHeader {
    #[verifier::external_body]
    pub fn height(&self) -> (r: u64) ensures r == self.h { unimplemented!() }
    #[verifier::external_body]
    pub fn hash(&self) -> (r: Hash) ensures r.b@ == self.hash_ { unimplemented!() }
}
impl Hash {
    #[verifier::external_body]
    pub fn as_bytes(&self) -> (r: &[u8]) ensures r@ == self.b@ { unimplemented!() }
}
impl HeaderResponse {
    #[verifier::external_body]
    pub fn to_validated_extented_header(&self) -> (r: Result<ExtendedHeader, HeaderExError>)
        ensures r.is_ok() ==> validated_from(*self, r.unwrap())
    { unimplemented!() }
}
#[verifier::external_body]
pub async fn yield_now() { unimplemented!() }

pub open spec fn sorted_by_height(s: Seq<ExtendedHeader>) -> bool {
    forall|i: int, j: int| 0 <= i < j < s.len() ==> s[i].h <= s[j].h
}
#[verifier::external_body]
fn sort_unstable_by_height(v: &mut Vec<ExtendedHeader>)
    ensures final(v)@.len() == old(v)@.len(), sorted_by_height(final(v)@), final(v)@.to_multiset() == old(v)@.to_multiset()
{ unimplemented!() }

pub open spec fn req_valid(r: HeaderRequest) -> bool {
    r.amount >= 1 && r.amount <= usize::MAX && r.data.is_some()
}

async fn decode_and_verify_responses(
    request: &HeaderRequest,
    responses: &[HeaderResponse],
) -> (res: Result<Vec<ExtendedHeader>, HeaderExError>)
    requires req_valid(*request)
    ensures
        res.is_ok() ==> {
            let hs = res.unwrap()@;
            &&& 1 <= hs.len() <= responses.len() <= request.amount
            &&& match request.data {
                Some(Data::Origin(start)) => start > 0 ==> forall|i: int| 0 <= i < hs.len() ==> (#[trigger] hs[i]).h == start + i,
                Some(Data::Hash(hash)) => hs.len() == 1 && hs[0].hash_ == hash@,
                None => false,
            }
        }
{
    if responses.is_empty() {
        return Err(HeaderExError::InvalidResponse);
    }

    let amount = usize::try_from(request.amount).unwrap();

    if responses.len() > amount {
        return Err(HeaderExError::InvalidResponse);
    }

    let mut headers = Vec::with_capacity(responses.len());

    for response in responses {
        let header = match response.to_validated_extented_header() {
            Ok(header) => header,
            Err(e) if headers.is_empty() => return Err(e),
            Err(_) => break,
        };

        headers.push(header);
        yield_now().await;
    }

    sort_unstable_by_height(&mut headers);

    match (&request.data, headers.len()) {
        (Some(Data::Origin(0)), 1) => {}

        (Some(Data::Origin(start)), amount) if *start > 0 && amount > 0 => {
            for (header, height) in headers.iter().zip(*start..*start + amount as u64) {
                if header.height() != height {
                    return Err(HeaderExError::InvalidResponse);
                }
            }
        }

        (Some(Data::Hash(hash)), 1) => {
            if headers[0].hash().as_bytes() != hash {
                return Err(HeaderExError::InvalidResponse);
            }
        }

        _ => return Err(HeaderExError::InvalidResponse),
    }

    Ok(headers)
}
}
fn main() {}
