use vstd::prelude::*;
verus! {
#[derive(Debug)]
pub enum PrunerError { Store }
#[derive(Clone, Copy, PartialEq, Eq)]
pub struct Time { pub t: u64 }
impl Time {
    #[verifier::external_body]
    pub fn lt(&self, o: &Time) -> (b: bool) ensures b == (self.t < o.t) { unimplemented!() }
}
#[derive(Clone)]
pub struct BlockInfo { pub height: u64, pub time: Time }

pub struct BlockRanges { pub v: Ghost<ISet<int>> }
impl BlockRanges {
    pub open spec fn view(&self) -> ISet<int> { self.v@ }
    #[verifier::external_body]
    pub fn to_owned(&self) -> (r: BlockRanges) ensures r@ == self@ { unimplemented!() }
    // contract proved in U-range (C17)
    #[verifier::external_body]
    pub fn partitions(&self) -> (r: Option<(BlockRanges, u64, BlockRanges)>)
        ensures
            r.is_none() <==> self@ =~= ISet::<int>::empty(),
            r.is_some() ==> {
                let (l, m, rr) = r.unwrap();
                &&& self@.contains(m as int)
                &&& forall|h: int| #![trigger self@.contains(h)] #![trigger l@.contains(h)] #![trigger rr@.contains(h)] self@.contains(h) <==> (l@.contains(h) || h == m || rr@.contains(h))
                &&& forall|h: int| #![trigger l@.contains(h)] l@.contains(h) ==> h < m
                &&& forall|h: int| #![trigger rr@.contains(h)] rr@.contains(h) ==> h > m
            }
    { unimplemented!() }
}

pub assume_specification<T, F: FnOnce(T) -> bool> [Option::<T>::is_none_or] (o: Option<T>, f: F) -> (r: bool)
    requires o.is_some() ==> f.requires((o.unwrap(),))
    ensures o.is_none() ==> r, o.is_some() ==> f.ensures((o.unwrap(),), r);

pub uninterp spec fn time_of(h: int) -> u64;
pub uninterp spec fn card(s: ISet<int>) -> nat;   // |s|, finite because s ⊆ 1..=u64::MAX
#[verifier::external_body]
pub proof fn axiom_card_split(s: ISet<int>, l: ISet<int>, m: int, r: ISet<int>)
    requires
        s.contains(m), forall|h: int| s.contains(h) <==> (l.contains(h) || h == m || r.contains(h)),
        forall|h: int| l.contains(h) ==> h < m, forall|h: int| r.contains(h) ==> h > m,
    ensures card(l) < card(s), card(r) < card(s)
{}

pub struct Cache {}
pub struct Store { pub stored: Ghost<ISet<int>> }
impl Cache {
    #[verifier::external_body]
    pub async fn get_block_info(&mut self, store: &Store, height: u64) -> (r: Result<BlockInfo, PrunerError>)
        requires store.stored@.contains(height as int)
        ensures r.is_ok() ==> r.unwrap().height == height && r.unwrap().time.t == time_of(height as int)
    { unimplemented!() }
}

pub open spec fn monotone(stored: ISet<int>) -> bool {
    forall|a: int, b: int| #![trigger time_of(a), time_of(b)] stored.contains(a) && stored.contains(b) && a < b ==> time_of(a) < time_of(b)
}

// pruner.rs: find_height_after_window_slow (verbatim except `*cutoff`/Time comparisons through stub `lt`)
async fn find_height_after_window_slow(
    store: &Store,
    stored_headers: &BlockRanges,
    cutoff: &Time,
    cache: &mut Cache,
) -> (res: Result<Option<u64>, PrunerError>)
    requires stored_headers@ == store.stored@, monotone(store.stored@)
    ensures
        res.is_ok() ==> match res.unwrap() {
            Some(r) => store.stored@.contains(r as int) && time_of(r as int) < cutoff.t
                && forall|h: int| #![trigger time_of(h)] store.stored@.contains(h) && h > r ==> !(time_of(h) < cutoff.t),
            None => forall|h: int| #![trigger time_of(h)] store.stored@.contains(h) ==> !(time_of(h) < cutoff.t),
        }
{
    let mut ranges = stored_headers.to_owned();
    let mut highest: Option<BlockInfo> = None;

    while let Some((left, middle, right)) = ranges.partitions()
        invariant
            monotone(store.stored@),
            forall|h: int| #![trigger ranges@.contains(h)] ranges@.contains(h) ==> store.stored@.contains(h),
            highest.is_some() ==> store.stored@.contains(highest.unwrap().height as int)
                && highest.unwrap().time.t == time_of(highest.unwrap().height as int)
                && highest.unwrap().time.t < cutoff.t,
            // every stored height older than the cutoff is <= highest or still in `ranges`
            forall|h: int| #![trigger time_of(h)] store.stored@.contains(h) && time_of(h) < cutoff.t ==>
                (ranges@.contains(h) || (highest.is_some() && h <= highest.unwrap().height)),
            // everything still in `ranges` is above `highest`
            highest.is_some() ==> forall|h: int| #![trigger ranges@.contains(h)] ranges@.contains(h) ==> h > highest.unwrap().height,
        ensures ranges@ =~= ISet::<int>::empty(),
        decreases card(ranges@)
    {
        proof { axiom_card_split(ranges@, left@, middle as int, right@); }
        let ghost old_ranges = ranges@;
        let ghost mh = middle as int;
        proof { assert(old_ranges.contains(mh)); }
        let middle = cache.get_block_info(store, middle).await?;

        if middle.time.lt(cutoff) {
            proof {
                if highest.is_some() {
                    assert(old_ranges.contains(mh));
                    assert(time_of(highest.unwrap().height as int) < time_of(mh));
                }
            }
            if highest
                .as_ref()
                .is_none_or(|highest: &BlockInfo| -> (b: bool) ensures b == (highest.time.t < middle.time.t) { highest.time.lt(&middle.time) })
            {
                highest = Some(middle);
            }

            ranges = right;
            proof {
                assert(highest.is_some() && highest.unwrap().height == mh);
                assert forall|h: int| #![trigger time_of(h)] store.stored@.contains(h) && time_of(h) < cutoff.t implies
                    (ranges@.contains(h) || h <= mh) by {
                    if old_ranges.contains(h) { } 
                }
            }
        } else {
            ranges = left;
            proof {
                assert forall|h: int| #![trigger time_of(h)] store.stored@.contains(h) && time_of(h) < cutoff.t implies
                    (ranges@.contains(h) || (highest.is_some() && h <= highest.unwrap().height)) by {
                    if old_ranges.contains(h) && !ranges@.contains(h) {
                        // h >= mh but time(h) < cutoff <= time(mh): contradiction with monotonicity
                        if h > mh { assert(time_of(mh) < time_of(h)); }
                    }
                }
            }
        }
    }

    Ok(highest.map(|block_info: BlockInfo| -> (r: u64) ensures r == block_info.height { block_info.height }))
}
}
fn main() {}
