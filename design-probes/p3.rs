use vstd::prelude::*;
use std::ops::RangeInclusive;
verus! {

pub assume_specification<Idx> [std::ops::RangeInclusive::<Idx>::start] (r: &RangeInclusive<Idx>) -> (s: &Idx)
    ensures *s == r@.start;
pub assume_specification<Idx> [std::ops::RangeInclusive::<Idx>::end] (r: &RangeInclusive<Idx>) -> (s: &Idx)
    ensures *s == r@.end;

fn t1(r: &RangeInclusive<u64>) -> (b: bool)
    ensures b == (r@.start <= r@.end)
{
    let s = *r.start();
    let e = *r.end();
    s <= e
}

fn t3(a: u64, b: u64) -> (r: RangeInclusive<u64>)
  ensures r@.start == a, r@.end == b, !r@.exhausted
{
    RangeInclusive::new(a, b)
}
fn t2(a: u64, b: u64) -> (r: RangeInclusive<u64>)
  ensures r@.start == a, r@.end == b, !r@.exhausted
{
    a..=b
}
fn t4(r: &RangeInclusive<u64>, x: u64) -> (b: bool)
  ensures !r@.exhausted ==> b == (r@.start <= x <= r@.end)
{
    r.contains(&x)
}
fn t5(r: &RangeInclusive<u64>) -> (b: bool)
  ensures !r@.exhausted ==> b == (r@.start > r@.end)
{
    r.is_empty()
}
fn t6(v: &Vec<RangeInclusive<u64>>) -> (n: u64)
{
    let mut c = 0u64;
    for r in it: v.iter() 
      invariant c <= it.index@
    {
        if c < 100000 { c += 1; }
    }
    c
}
}
fn main() {}
