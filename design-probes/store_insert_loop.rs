use vstd::prelude::*;
use std::collections::HashMap;
use std::collections::hash_map::Entry;
verus! {
#[derive(Debug)]
pub enum StoreError { NotFound, HashExists(u64) }

pub struct Header { pub hash_: u64, pub height_: u64 }
impl Header {
    #[verifier::external_body]
    pub fn hash(&self) -> (r: u64) ensures r == self.hash_ { unimplemented!() }
    #[verifier::external_body]
    pub fn height(&self) -> (r: u64) ensures r == self.height_ { unimplemented!() }
}

pub struct Inner {
    pub headers: HashMap<u64, Header>,
    pub height_to_hash: HashMap<u64, u64>,
}

impl Inner {
    // the insertion loop of InMemoryStoreInner::insert (ranges bookkeeping omitted in this probe)
    fn insert_loop(&mut self, headers: Vec<Header>) -> (res: Result<(), StoreError>)
        ensures
            res.is_err() ==> final(self).headers@ == old(self).headers@ && final(self).height_to_hash@ == old(self).height_to_hash@,
    {
        for header in headers.into_iter() {
            let hash = header.hash();
            let height = header.height();

            let Entry::Vacant(headers_entry) = self.headers.entry(hash) else {
                return Err(StoreError::HashExists(hash));
            };

            headers_entry.insert(header);
            self.height_to_hash.insert(height, hash);
        }
        Ok(())
    }
}
}
fn main() {}
