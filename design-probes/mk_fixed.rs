use vstd::prelude::*;
verus! {

// ---- stubs (E9): Hash = [u8;32] abstracted; sha256 leaf/inner hash uninterpreted + collision resistance
#[derive(PartialEq, Eq, Clone, Copy)]
pub struct Hash { pub v: u64 }
#[derive(Debug)]
pub enum Error { Verification, RootMismatch }

pub uninterp spec fn inner_hash_spec(l: Hash, r: Hash) -> Hash;

#[verifier::external_body]
pub proof fn axiom_inner_injective(a: Hash, b: Hash, c: Hash, d: Hash)
    requires inner_hash_spec(a, b) == inner_hash_spec(c, d)
    ensures a == c, b == d
{}

pub struct Sha256 {}
impl Sha256 {
    #[verifier::external_body]
    pub fn default() -> Sha256 { unimplemented!() }
    #[verifier::external_body]
    pub fn inner_hash(&mut self, l: Hash, r: Hash) -> (h: Hash) ensures h == inner_hash_spec(l, r) { unimplemented!() }
}

// spec: usize::next_power_of_two / 2 for total >= 2  == largest power of two strictly less than total
pub open spec fn is_pow2(x: int) -> bool decreases x {
    if x <= 0 { false } else if x == 1 { true } else { x % 2 == 0 && is_pow2(x / 2) }
}
pub uninterp spec fn split_point(total: int) -> int;
#[verifier::external_body]
pub proof fn axiom_split(total: int)
    requires total >= 2
    ensures 1 <= split_point(total) < total, 2 * split_point(total) >= total
{}

#[verifier::external_body]
fn next_pow2_half(total: usize) -> (s: usize)
    requires total >= 2
    ensures s == split_point(total as int)
{ total.next_power_of_two() / 2 }

// oracle: merkle root of a leaf-hash sequence (RFC 6962 split)
pub open spec fn mroot(l: Seq<Hash>) -> Hash
    decreases l.len()
{
    if l.len() <= 1 { if l.len() == 1 { l[0] } else { Hash { v: 0 } } }
    else {
        let k = split_point(l.len() as int);
        if 1 <= k < l.len() {
            inner_hash_spec(mroot(l.subrange(0, k)), mroot(l.subrange(k, l.len() as int)))
        } else { Hash { v: 0 } }
    }
}

#[verifier::external_body]
fn split_last_hash(aunts: &[Hash]) -> (r: Option<(Hash, &[Hash])>)
    ensures
        aunts.len() == 0 ==> r.is_none(),
        aunts.len() > 0 ==> r.is_some() && r.unwrap().0 == aunts@[aunts.len() - 1] && r.unwrap().1@ == aunts@.subrange(0, aunts.len() - 1),
{ unimplemented!() }

// ---- extracted (with the repair `index >= total` check NOT present: current code) ----
fn subtree_root_from_aunts(index: usize, total: usize, leaf: Hash, aunts: &[Hash]) -> (res: Result<Hash, Error>)
    requires total >= 1
    ensures
        res.is_ok() ==> index < total,   // <- position binding, part 1 (expected to FAIL on the current code)
        res.is_ok() ==> forall|l: Seq<Hash>| l.len() == total && mroot(l) == res.unwrap() ==> #[trigger] l[index as int] == leaf,
    decreases total
{
    if index >= total { return Err(Error::Verification); }
    let root = if total == 1 {
        if !aunts.is_empty() {
            return Err(Error::Verification);
        }
        leaf
    } else {
        let mut hasher = Sha256::default();
        let subtrees_split = next_pow2_half(total);
        proof { axiom_split(total as int); }

        let (sibling, aunts) = match split_last_hash(aunts) { Some(x) => x, None => return Err(Error::Verification) };

        if index < subtrees_split {
            let left_hash = subtree_root_from_aunts(index, subtrees_split, leaf, aunts)?;
            let h = hasher.inner_hash(left_hash, sibling);
            proof {
                assert forall|l: Seq<Hash>| l.len() == total && mroot(l) == h implies #[trigger] l[index as int] == leaf by {
                    let k = split_point(l.len() as int);
                    axiom_inner_injective(mroot(l.subrange(0, k)), mroot(l.subrange(k, l.len() as int)), left_hash, sibling);
                    assert(l.subrange(0, k)[index as int] == l[index as int]);
                }
            }
            h
        } else {
            let right_hash = subtree_root_from_aunts(index - subtrees_split, total - subtrees_split, leaf, aunts)?;
            let h = hasher.inner_hash(sibling, right_hash);
            proof {
                assert forall|l: Seq<Hash>| l.len() == total && mroot(l) == h implies #[trigger] l[index as int] == leaf by {
                    let k = split_point(l.len() as int);
                    axiom_inner_injective(mroot(l.subrange(0, k)), mroot(l.subrange(k, l.len() as int)), sibling, right_hash);
                    assert(l.subrange(k, l.len() as int)[index - k] == l[index as int]);
                }
            }
            h
        }
    };
    Ok(root)
}

}
fn main() {}
