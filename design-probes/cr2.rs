use vstd::prelude::*;
use std::ops::RangeInclusive;
verus! {
pub type BlockRange = RangeInclusive<u64>;
pub assume_specification<Idx> [std::ops::RangeInclusive::<Idx>::start] (r: &RangeInclusive<Idx>) -> (s: &Idx)
    ensures *s == r@.start;
pub assume_specification<Idx> [std::ops::RangeInclusive::<Idx>::end] (r: &RangeInclusive<Idx>) -> (s: &Idx)
    ensures *s == r@.end;

pub open spec fn r_valid(r: BlockRange) -> bool { r@.start > 0 && r@.start <= r@.end && !r@.exhausted }
pub open spec fn wf_seq(s: Seq<BlockRange>) -> bool {
    &&& forall|i: int| 0 <= i < s.len() ==> r_valid(#[trigger] s[i])
    &&& forall|i: int, j: int| 0 <= i < j < s.len() ==> (#[trigger] s[i])@.end + 1 < (#[trigger] s[j])@.start
}
pub open spec fn r_empty(r: BlockRange) -> bool { r@.exhausted || r@.start > r@.end }
pub open spec fn r_len(r: BlockRange) -> int { if r_empty(r) { 0 } else { r@.end - r@.start + 1 } }

#[verifier::external_body]
fn tailn(this: &BlockRange, limit: u64) -> (r: BlockRange)
    requires !this@.exhausted
    ensures !r@.exhausted,
        r_empty(*this) || limit == 0 ==> r_empty(r),
        !r_empty(*this) && limit > 0 ==> r@.start == this@.start && r@.end <= this@.end && r_len(r) == (if r_len(*this) < limit { r_len(*this) } else { limit as int }),
{ unimplemented!() }
#[verifier::external_body]
fn headn(this: &BlockRange, limit: u64) -> (r: BlockRange)
    requires !this@.exhausted
    ensures !r@.exhausted,
        r_empty(*this) || limit == 0 ==> r_empty(r),
        !r_empty(*this) && limit > 0 ==> r@.end == this@.end && r@.start >= this@.start && r_len(r) == (if r_len(*this) < limit { r_len(*this) } else { limit as int }),
{ unimplemented!() }

fn calculate_range_to_fetch(
    subjective_head_height: u64,
    synced_headers: &[BlockRange],
    limit: u64,
) -> (res: BlockRange)
    requires wf_seq(synced_headers@)
    ensures
        !res@.exhausted,
        !r_empty(res) ==> {
            &&& res@.start >= 1
            &&& r_len(res) <= limit
            &&& forall|k: int| 0 <= k < synced_headers.len() ==> (res@.end < (#[trigger] synced_headers@[k])@.start || synced_headers@[k]@.end < res@.start)
        }
{
    let mut synced_headers_iter = synced_headers.iter().rev();

    let Some(synced_head_range) = synced_headers_iter.next() else {
        let range = 1..=subjective_head_height;
        return tailn(&range, limit);
    };

    if synced_head_range.end() < &subjective_head_height {
        let range = synced_head_range.end() + 1..=subjective_head_height;
        return tailn(&range, limit);
    }

    let penultimate_range_end = synced_headers_iter.next().map(|r| *r.end()).unwrap_or(0);

    let range = penultimate_range_end + 1..=synced_head_range.start().saturating_sub(1);
    headn(&range, limit)
}
}
fn main() {}
