use vstd::prelude::*;
verus! {
fn e2(v: &Vec<u64>, x: u64) -> (n: Option<u64>)
   ensures n.is_some() ==> exists|i:int| 0 <= i < v.len() && v@[i] == n.unwrap() && n.unwrap() > x,
{
    for r in it: v.iter().rev()
    {
        if *r > x { 
           return Some(*r); 
        }
    }
    None
}
}
fn main() {}
