use vstd::prelude::*;
verus! {
pub struct Store { pub v: u64 }
impl Store {
    #[verifier::external_body]
    pub async fn get(&self, h: u64) -> (r: Option<u64>)
        ensures r.is_some() ==> r.unwrap() == h
    { unimplemented!() }
}

pub async fn f(s: &Store, h: u64) -> (r: u64)
    ensures r == h || r == 0
{
    match s.get(h).await {
        Some(x) => x,
        None => 0,
    }
}
}
fn main() {}
