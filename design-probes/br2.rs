use vstd::prelude::*;
use std::ops::RangeInclusive;
verus! {

pub type BlockRange = RangeInclusive<u64>;

pub assume_specification<Idx> [std::ops::RangeInclusive::<Idx>::start] (r: &RangeInclusive<Idx>) -> (s: &Idx)
    ensures *s == r@.start;
pub assume_specification<Idx> [std::ops::RangeInclusive::<Idx>::end] (r: &RangeInclusive<Idx>) -> (s: &Idx)
    ensures *s == r@.end;

pub open spec fn r_valid(r: BlockRange) -> bool {
    r@.start > 0 && r@.start <= r@.end && !r@.exhausted
}
pub open spec fn r_has(r: BlockRange, h: int) -> bool {
    r@.start <= h <= r@.end
}
pub open spec fn touches(a: BlockRange, b: BlockRange) -> bool {
    // overlapping or adjacent
    a@.start <= b@.end + 1 && b@.start <= a@.end + 1
}

#[verifier::external_body]
fn validate(this: &BlockRange) -> (res: Result<(), ()>)
    ensures res.is_ok() == r_valid(*this)
{ unimplemented!() }

#[verifier::external_body]
fn is_adjacent(this: &BlockRange, other: &BlockRange) -> (b: bool)
    requires r_valid(*this), r_valid(*other)
    ensures b == (this@.end + 1 == other@.start || other@.end + 1 == this@.start)
{ unimplemented!() }

#[verifier::external_body]
fn is_overlapping(this: &BlockRange, other: &BlockRange) -> (b: bool)
    requires r_valid(*this), r_valid(*other)
    ensures b == (this@.start <= other@.end && other@.start <= this@.end)
{ unimplemented!() }

pub struct BlockRanges(pub Vec<BlockRange>);

pub open spec fn wf_seq(s: Seq<BlockRange>) -> bool {
    &&& forall|i: int| 0 <= i < s.len() ==> r_valid(#[trigger] s[i])
    &&& forall|i: int, j: int| 0 <= i < j < s.len() ==> (#[trigger] s[i])@.end + 1 < (#[trigger] s[j])@.start
}
pub open spec fn seq_has(s: Seq<BlockRange>, h: int) -> bool {
    exists|i: int| 0 <= i < s.len() && r_has(#[trigger] s[i], h)
}

impl BlockRanges {
    pub open spec fn wf(&self) -> bool { wf_seq(self.0@) }
    pub open spec fn has(&self, h: int) -> bool { seq_has(self.0@, h) }

    fn find_affected_ranges(&self, range: &BlockRange) -> (res: Option<(usize, usize)>)
        requires self.wf(), r_valid(*range)
        ensures
            match res {
                Some((a, b)) => a <= b < self.0.len()
                    && (forall|k: int| 0 <= k < self.0.len() ==> (touches(#[trigger] self.0@[k], *range) <==> a <= k <= b)),
                None => forall|k: int| 0 <= k < self.0.len() ==> !touches(#[trigger] self.0@[k], *range),
            }
    {
        let mut start_idx: Option<usize> = None;
        let mut end_idx: Option<usize> = None;

        let mut __i: usize = 0;
        while __i < self.0.len()
            invariant_except_break
                match (start_idx, end_idx) {
                    (Some(a), Some(b)) => a <= b && b + 1 == __i
                        && (forall|k: int| 0 <= k < __i ==> (touches(#[trigger] self.0@[k], *range) <==> a <= k <= b)),
                    _ => forall|k: int| 0 <= k < __i ==> !touches(#[trigger] self.0@[k], *range),
                },
            invariant
                __i <= self.0.len(),
                self.wf(), r_valid(*range),
                start_idx.is_some() == end_idx.is_some(),
            ensures
                start_idx.is_some() == end_idx.is_some(),
                match (start_idx, end_idx) {
                    (Some(a), Some(b)) => a <= b < self.0.len()
                        && (forall|k: int| 0 <= k < self.0.len() ==> (touches(#[trigger] self.0@[k], *range) <==> a <= k <= b)),
                    _ => forall|k: int| 0 <= k < self.0.len() ==> !touches(#[trigger] self.0@[k], *range),
                },
            decreases self.0.len() - __i
        {
            let i = __i;
            let r = &self.0[__i];
            __i += 1;
            if is_overlapping(r, range) || is_adjacent(r, range) {
                if start_idx.is_none() {
                    start_idx = Some(i);
                }
                end_idx = Some(i);
            } else if end_idx.is_some() {
                proof { let b = end_idx.unwrap(); assert(touches(self.0@[b as int], *range)); }
                break;
            }
        }

        Some((start_idx?, end_idx?))
    }
}

}
fn main() {}
