use vstd::prelude::*;
use std::ops::RangeInclusive;
use std::num::NonZeroU64;
verus! {
pub type BlockRange = RangeInclusive<u64>;
pub assume_specification<Idx> [std::ops::RangeInclusive::<Idx>::start] (r: &RangeInclusive<Idx>) -> (s: &Idx)
    ensures *s == r@.start;
pub assume_specification<Idx> [std::ops::RangeInclusive::<Idx>::end] (r: &RangeInclusive<Idx>) -> (s: &Idx)
    ensures *s == r@.end;

pub assume_specification [u64::checked_shl] (x: u64, rhs: u32) -> (r: Option<u64>)
    ensures rhs >= 64 ==> r.is_none(), rhs < 64 ==> r == Some(((x as int * vstd::arithmetic::power2::pow2(rhs as nat) as int) % 0x1_0000_0000_0000_0000) as u64);
pub assume_specification [usize::div_ceil] (x: usize, d: usize) -> (r: usize)
    requires d != 0
    ensures r == (x as int + d as int - 1) / (d as int);

#[verifier::external_body]
fn range_len(this: &BlockRange) -> (n: u64)
    ensures n == (if this@.start <= this@.end && this@.end - this@.start < u64::MAX { this@.end - this@.start + 1 } else { 0 })
{ unimplemented!() }

// ---- header_session.rs: take_next_batch (verbatim except `.len()` -> range_len)
fn take_next_batch(range_to_fetch: &mut Option<BlockRange>, limit: u64) -> (res: Option<BlockRange>)
    requires
        old(range_to_fetch).is_some() ==> { let r = old(range_to_fetch).unwrap(); r@.start >= 1 && r@.start <= r@.end && !r@.exhausted },
    ensures
        (limit == 0) ==> res.is_none() && *final(range_to_fetch) == *old(range_to_fetch),
        (limit > 0 && old(range_to_fetch).is_none()) ==> res.is_none() && final(range_to_fetch).is_none(),
        (limit > 0 && old(range_to_fetch).is_some()) ==> {
            let o = old(range_to_fetch).unwrap();
            &&& res.is_some()
            &&& res.unwrap()@.end == o@.end
            &&& res.unwrap()@.start >= o@.start
            &&& res.unwrap()@.end - res.unwrap()@.start + 1 <= limit
            &&& (final(range_to_fetch).is_none() ==> res.unwrap()@.start == o@.start)
            &&& (final(range_to_fetch).is_some() ==> {
                    let rest = final(range_to_fetch).unwrap();
                    rest@.start == o@.start && rest@.end + 1 == res.unwrap()@.start && res.unwrap()@.end - res.unwrap()@.start + 1 == limit
                })
        },
{
    let end_offset = limit.checked_sub(1)?;

    let to_fetch = range_to_fetch.take()?;
    if range_len(&to_fetch) <= limit {
        Some(to_fetch)
    } else {
        let _ = range_to_fetch.insert(*to_fetch.start()..=*to_fetch.end() - limit);
        Some(*to_fetch.end() - end_offset..=*to_fetch.end())
    }
}

// ---- commitment.rs (verbatim)
fn round_up_to_power_of_2(x: u64) -> (r: Option<u64>)
    requires x <= 0x8000_0000_0000_0000
    ensures r.is_some() && r.unwrap() >= x
{
    let mut po2 = 1;

    loop
        invariant po2 >= 1, po2 <= 0x8000_0000_0000_0000u64, x <= 0x8000_0000_0000_0000u64,
        decreases 0x8000_0000_0000_0000u64 - po2
    {
        if po2 >= x {
            return Some(po2);
        }
        if let Some(next_po2) = po2.checked_shl(1) {
            po2 = next_po2;
        } else {
            return None;
        }
    }
}

fn subtree_width_head(share_count: u64, subtree_root_threshold: u64) -> (s: u64)
    requires subtree_root_threshold > 0
{
    let mut s = share_count / subtree_root_threshold;
    if !share_count.is_multiple_of(subtree_root_threshold) {
        s += 1;
    }
    s
}

fn shares_len(data_len: usize) -> usize {
    let Some(without_first_share) = data_len.checked_sub(478)
    else {
        return 1;
    };
    1 + without_first_share.div_ceil(482)
}
}
fn main() {}
