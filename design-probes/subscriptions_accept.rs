use vstd::prelude::*;
verus! {
#[derive(Debug)]
pub enum StoreError { Other }
#[derive(Clone)]
pub struct ExtendedHeader { pub h: u64 }
impl ExtendedHeader {
    #[verifier::external_body]
    pub fn height(&self) -> (r: u64) ensures r == self.h { unimplemented!() }
}
pub struct Sender { pub log: Ghost<Seq<u64>> }
impl Sender {
    // ghost log of heights handed to the broadcast channel
    #[verifier::external_body]
    pub fn send(&mut self, h: ExtendedHeader) -> (r: Result<usize, ()>)
        ensures final(self).log@ == old(self).log@.push(h.h)
    { unimplemented!() }
}
pub struct Inner {}
impl Inner {
    #[verifier::external_body]
    pub async fn insert(&self, range: Vec<ExtendedHeader>) -> (r: Result<(), StoreError>) { unimplemented!() }
}
#[verifier::external_body]
pub async fn yield_now() { unimplemented!() }
#[verifier::external_body]
fn clone_range(v: &Vec<ExtendedHeader>) -> (r: Vec<ExtendedHeader>) ensures r@ == v@ { unimplemented!() }

pub struct BroadcastingStore {
    pub inner: Inner,
    pub sender: Sender,
    pub last_sent_height: Option<u64>,
    pub pending: Vec<Vec<ExtendedHeader>>,
}

pub open spec fn consecutive(s: Seq<ExtendedHeader>) -> bool {
    forall|i: int| 0 <= i < s.len() ==> (#[trigger] s[i]).h == s[0].h + i
}

impl BroadcastingStore {
    async fn send_range(&mut self, headers: Vec<ExtendedHeader>)
        requires headers.len() > 0
    {
        self.last_sent_height = Some(
            headers
                .last()
                .unwrap()
                .height(),
        );
        for header in headers {
            if self.sender.send(header).is_err() {
                return;
            }
            yield_now().await;
        }
    }

    async fn announce_insert(&mut self, range: Vec<ExtendedHeader>) -> (res: Result<(), StoreError>)
        requires old(self).last_sent_height.is_some(),
    {
        let last_sent_height = self
            .last_sent_height
            .unwrap();

        let Some(lowest_range_height) = range.first().map(|h| h.height()) else {
            return Ok(());
        };

        if lowest_range_height < last_sent_height {
            return self.inner.insert(range).await;
        }

        self.inner.insert(clone_range(&range)).await?;

        if last_sent_height + 1 == lowest_range_height {
            self.send_range(range).await;
        } else {
            self.pending.push(range);
        }

        let mut i = 0;
        while i < self.pending.len() {
            let last_sent_height = self
                .last_sent_height
                .unwrap();
            let first_pending_height = self.pending[i]
                .first()
                .unwrap()
                .height();

            if last_sent_height + 1 == first_pending_height {
                let range = self.pending.swap_remove(i);
                self.send_range(range).await;
                i = 0;
            } else {
                i += 1;
            }
        }

        Ok(())
    }
}
}
fn main() {}
