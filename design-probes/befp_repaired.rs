use vstd::prelude::*;
verus! {

// ---------------- stubs (E9)
#[derive(PartialEq, Eq, Clone, Copy)]
pub enum AxisType { Row, Col }
#[derive(Clone, Copy, PartialEq, Eq)]
pub struct Namespace { pub v: u64 }
#[derive(Clone, Copy, PartialEq, Eq)]
pub struct NsId { pub v: u64 }
#[derive(PartialEq, Eq, Clone, Copy)]
pub struct NamespacedHash { pub v: u64 }
#[derive(Clone)]
pub struct NamespaceProof { pub start: u32, pub end: u32, pub g: u64 }
#[derive(Debug)]
pub enum Error { Validation, RangeProofError, Nmt }
pub struct Dah { pub rows: Vec<NamespacedHash>, pub cols: Vec<NamespacedHash> }
pub struct ExtendedHeader { pub h: u64, pub dah: Dah }
pub struct Nmt { pub leaves: Ghost<Seq<(Seq<u8>, NsId)>> }

pub uninterp spec fn leaf_at(root: NamespacedHash, pos: int) -> Seq<u8>;   // committed leaf bytes (A-nmt)
pub uninterp spec fn nmt_root_of(leaves: Seq<(Seq<u8>, NsId)>) -> NamespacedHash;
pub uninterp spec fn ns_of_bytes(b: Seq<u8>) -> Option<Namespace>;
pub const NS_SIZE: usize = 29;
pub spec const PARITY: Namespace = Namespace { v: 0xffff };

impl Namespace {
    #[verifier::external_body]
    pub fn from_raw(b: &[u8]) -> (r: Result<Namespace, Error>)
        ensures r.is_ok() == ns_of_bytes(b@).is_some(), r.is_ok() ==> r.unwrap() == ns_of_bytes(b@).unwrap()
    { unimplemented!() }
    #[verifier::external_body]
    pub fn parity_share() -> (r: Namespace) ensures r == PARITY { unimplemented!() }
    #[verifier::external_body]
    pub fn id(&self) -> (r: NsId) { unimplemented!() }
}
impl NamespaceProof {
    // A-nmt: a successful single-leaf range verification pins the leaf at proof.start
    #[verifier::external_body]
    pub fn verify_range(&self, root: &NamespacedHash, leaf: &Vec<u8>, ns: NsId) -> (r: Result<(), Error>)
        ensures r.is_ok() ==> self.end == self.start + 1 && leaf_at(*root, self.start as int) == leaf@
    { unimplemented!() }
}
impl Dah {
    #[verifier::external_body]
    pub fn row_roots(&self) -> (r: &[NamespacedHash]) ensures r@ == self.rows@ { unimplemented!() }
    #[verifier::external_body]
    pub fn column_roots(&self) -> (r: &[NamespacedHash]) ensures r@ == self.cols@ { unimplemented!() }
    #[verifier::external_body]
    pub fn square_width(&self) -> (r: u16) requires self.rows.len() <= u16::MAX ensures r == self.rows.len() { unimplemented!() }
    #[verifier::external_body]
    pub fn row_root(&self, i: u16) -> (r: Option<NamespacedHash>)
        ensures r.is_some() == (i < self.rows.len()), r.is_some() ==> r.unwrap() == self.rows@[i as int] { unimplemented!() }
    #[verifier::external_body]
    pub fn column_root(&self, i: u16) -> (r: Option<NamespacedHash>)
        ensures r.is_some() == (i < self.cols.len()), r.is_some() ==> r.unwrap() == self.cols@[i as int] { unimplemented!() }
}
impl ExtendedHeader {
    #[verifier::external_body]
    pub fn height(&self) -> (r: u64) ensures r == self.h { unimplemented!() }
}
impl Nmt {
    #[verifier::external_body]
    pub fn default() -> (r: Nmt) ensures r.leaves@.len() == 0 { unimplemented!() }
    #[verifier::external_body]
    pub fn push_leaf(&mut self, b: &Vec<u8>, ns: NsId) -> (r: Result<(), Error>)
        ensures r.is_ok() ==> final(self).leaves@ == old(self).leaves@.push((b@, ns)), r.is_err() ==> final(self).leaves@ == old(self).leaves@
    { unimplemented!() }
    #[verifier::external_body]
    pub fn root(&mut self) -> (r: NamespacedHash) ensures r == nmt_root_of(old(self).leaves@), final(self).leaves@ == old(self).leaves@ { unimplemented!() }
}
#[verifier::external_body]
fn leopard_reconstruct(shards: &mut Vec<Vec<u8>>, k: usize) -> (r: Result<(), Error>) { unimplemented!() }
#[verifier::external_body]
fn leopard_encode(shards: &mut Vec<Vec<u8>>, k: usize) -> (r: Result<(), Error>) { unimplemented!() }

#[derive(Clone)]
pub struct NmtLeaf { pub namespace: Namespace, pub share: Vec<u8> }
#[derive(Clone)]
pub struct ShareWithProof { pub leaf: NmtLeaf, pub proof: NamespaceProof, pub proof_axis: AxisType }
pub struct BadEncodingFraudProof {
    pub block_height: u64,
    pub shares: Vec<Option<ShareWithProof>>,
    pub index: u16,
    pub axis: AxisType,
}

// expected position/root of the i-th share (from the property statement)
pub open spec fn exp_root(dah: Dah, axis: AxisType, index: u16, i: int, pa: AxisType) -> NamespacedHash {
    match (axis, pa) {
        (AxisType::Row, AxisType::Row) => dah.rows@[index as int],
        (AxisType::Row, AxisType::Col) => dah.cols@[i],
        (AxisType::Col, AxisType::Row) => dah.rows@[i],
        (AxisType::Col, AxisType::Col) => dah.cols@[index as int],
    }
}
pub open spec fn exp_pos(axis: AxisType, index: u16, i: int, pa: AxisType) -> int {
    if axis == pa { i } else { index as int }
}

impl BadEncodingFraudProof {
    pub fn height(&self) -> (r: u64) ensures r == self.block_height { self.block_height }

    // body: types/src/byzantine.rs `validate` up to the reconstruction step
    fn validate_prefix(&self, header: &ExtendedHeader) -> (res: Result<(), Error>)
        requires header.dah.rows.len() <= u16::MAX
        ensures
            res.is_ok() ==> forall|i: int| 0 <= i < self.shares.len() && self.shares@[i].is_some() ==> {
                let sp = (#[trigger] self.shares@[i]).unwrap();
                leaf_at(exp_root(header.dah, self.axis, self.index, i, sp.proof_axis), exp_pos(self.axis, self.index, i, sp.proof_axis)) == sp.leaf.share@
            }
    {
        if header.height() != self.height() {
            return Err(Error::Validation);
        }

        if header.dah.row_roots().len() != header.dah.column_roots().len() {
            return Err(Error::Validation);
        }

        let square_width = usize::from(header.dah.square_width());
        let ods_width = square_width / 2;

        if usize::from(self.index) >= square_width {
            return Err(Error::Validation);
        }

        if self.shares.len() != square_width {
            return Err(Error::Validation);
        }

        let mut __i: usize = 0;
        while __i < self.shares.len()
            invariant
                __i <= self.shares.len(),
                self.shares.len() == square_width, square_width == header.dah.rows.len(), header.dah.rows.len() == header.dah.cols.len(),
                square_width <= u16::MAX, (self.index as int) < square_width,
                forall|i: int| 0 <= i < __i && self.shares@[i].is_some() ==> {
                    let sp = (#[trigger] self.shares@[i]).unwrap();
                    leaf_at(exp_root(header.dah, self.axis, self.index, i, sp.proof_axis), exp_pos(self.axis, self.index, i, sp.proof_axis)) == sp.leaf.share@
                },
            decreases self.shares.len() - __i
        {
            let share_idx = __i;
            let maybe_share = &self.shares[__i];
            __i += 1;
            let Some(share_with_proof) = maybe_share else {
                continue;
            };

            let ShareWithProof {
                leaf: NmtLeaf { namespace, share },
                proof,
                proof_axis,
            } = share_with_proof;

            let root = match (self.axis, proof_axis) {
                (AxisType::Row, AxisType::Row) => header.dah.row_root(self.index).unwrap(),
                (AxisType::Row, AxisType::Col) => header.dah.column_root(share_idx as u16).unwrap(),
                (AxisType::Col, AxisType::Row) => header.dah.row_root(share_idx as u16).unwrap(),
                (AxisType::Col, AxisType::Col) => header.dah.column_root(self.index).unwrap(),
            };

            let expected_pos = match (self.axis, proof_axis) {
                (AxisType::Row, AxisType::Row) | (AxisType::Col, AxisType::Col) => share_idx,
                _ => usize::from(self.index),
            };
            if proof.start as usize != expected_pos { return Err(Error::Validation); }
            match proof.verify_range(&root, share, namespace.id()) { Ok(()) => {}, Err(_) => return Err(Error::RangeProofError) }
        }
        Ok(())
    }
}
}
fn main() {}
