#!/bin/bash
# warm the Kani target directory for celestia-types (dependencies are compiled once; ~8 min cold)
T=${LUMINA_VERIF_TARGET:-/var/tmp/lumina-verif}
cd /repo && CARGO_NET_OFFLINE=true RUSTFLAGS='--cfg lumina_verif' LUMINA_VERIF_DIR=/verif CARGO_TARGET_DIR=$T/kani-celestia-types \
  timeout 3000 cargo kani -p celestia-types --output-format terse --harness c14_from_raw_other_lengths >"$T/setup-kani.log" 2>&1
grep -q "VERIFICATION:- SUCCESSFUL" "$T/setup-kani.log"
