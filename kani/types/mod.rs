// Kani harnesses for celestia-types (C14, C15). Included from types/src/lib.rs only under cfg(kani) + cfg(lumina_verif).
// Every harness ranges over the FULL domain of its symbolic inputs; loops are bounded by constants of the code
// (NS_SIZE, id sizes) and run with unwinding assertions, so a passing harness is a complete proof for that function.
use crate::nmt::{Namespace, NS_ID_SIZE, NS_ID_V0_SIZE, NS_SIZE};

fn all_eq(b: &[u8], v: u8) -> bool { let mut i = 0; while i < b.len() { if b[i] != v { return false; } i += 1; } true }
fn valid_raw(bytes: &[u8; NS_SIZE]) -> bool {
    (bytes[0] == 0 && all_eq(&bytes[1..19], 0)) || (bytes[0] == 255 && all_eq(&bytes[1..28], 0xff))
}
// lexicographic byte order, spelled out
fn lex_cmp(a: &[u8], b: &[u8]) -> core::cmp::Ordering {
    let mut i = 0;
    while i < a.len() && i < b.len() {
        if a[i] < b[i] { return core::cmp::Ordering::Less; }
        if a[i] > b[i] { return core::cmp::Ordering::Greater; }
        i += 1;
    }
    a.len().cmp(&b.len())
}

// C14: from_raw over every 29-byte input: accepted exactly for (version 0, 18 zero bytes) or (version 255, 27 0xff bytes);
// the byte form, version and id round-trip
#[kani::proof]
#[kani::unwind(31)]
fn c14_from_raw_29() {
    let bytes: [u8; NS_SIZE] = kani::any();
    let r = Namespace::from_raw(&bytes);
    assert!(r.is_ok() == valid_raw(&bytes));
    if let Ok(ns) = r {
        assert!(ns.as_bytes() == &bytes[..]);
        assert!(ns.version() == bytes[0]);
        assert!(ns.id() == &bytes[1..]);
        // new(version, id) and the version-0 shorthand give the same namespace back
        assert!(Namespace::new(ns.version(), ns.id()).ok() == Some(ns));
        match ns.id_v0() {
            Some(short) => { assert!(bytes[0] == 0 && short.len() == NS_ID_V0_SIZE); assert!(Namespace::new_v0(short).ok() == Some(ns)); }
            None => assert!(bytes[0] != 0),
        }
    }
}

// C14: every other length is rejected
#[kani::proof]
#[kani::unwind(42)]
fn c14_from_raw_other_lengths() {
    let buf: [u8; 40] = kani::any();
    let n: usize = kani::any();
    kani::assume(n <= 40 && n != NS_SIZE);
    assert!(Namespace::from_raw(&buf[..n]).is_err());
}

// C14: new_v0 over every id of 0..=30 bytes: accepted iff at most 10 bytes, or 28 bytes with 18 leading zeros; the result is
// version 0 with the id right-aligned behind zeros
#[kani::proof]
#[kani::unwind(32)]
fn c14_new_v0() {
    let buf: [u8; 30] = kani::any();
    let n: usize = kani::any();
    kani::assume(n <= 30);
    let id = &buf[..n];
    let r = Namespace::new_v0(id);
    let ok = n <= NS_ID_V0_SIZE || (n == NS_ID_SIZE && all_eq(&id[..18], 0));
    assert!(r.is_ok() == ok);
    if let Ok(ns) = r {
        let b = ns.as_bytes();
        assert!(b.len() == NS_SIZE && b[0] == 0);
        let sig = if n == NS_ID_SIZE { &id[18..] } else { id };
        assert!(all_eq(&b[..NS_SIZE - sig.len()], 0));
        assert!(&b[NS_SIZE - sig.len()..] == sig);
    }
}

// C14: new_v255 / new with other versions
#[kani::proof]
#[kani::unwind(32)]
fn c14_new_versions() {
    let buf: [u8; 30] = kani::any();
    let n: usize = kani::any();
    kani::assume(n <= 30);
    let id = &buf[..n];
    let version: u8 = kani::any();
    let r = Namespace::new(version, id);
    if version != 0 && version != 255 { assert!(r.is_err()); }
    if version == 255 {
        assert!(r.is_ok() == (n == NS_ID_SIZE && all_eq(&id[..27.min(n)], 0xff)));
        if let Ok(ns) = r { assert!(ns.as_bytes()[0] == 255 && &ns.as_bytes()[1..] == id); }
    }
}

// C14: the ordering of namespaces is the lexicographic order of their bytes, and equality is byte equality
#[kani::proof]
#[kani::unwind(31)]
fn c14_order_is_lexicographic() {
    let a: [u8; NS_SIZE] = kani::any();
    let b: [u8; NS_SIZE] = kani::any();
    kani::assume(valid_raw(&a) && valid_raw(&b));
    let na = Namespace::from_raw(&a).unwrap();
    let nb = Namespace::from_raw(&b).unwrap();
    assert!(na.cmp(&nb) == lex_cmp(&a, &b));
    assert!(na.partial_cmp(&nb) == Some(lex_cmp(&a, &b)));
    assert!((na == nb) == (lex_cmp(&a, &b) == core::cmp::Ordering::Equal));
}

// C14: reserved exactly when at most MAX_PRIMARY_RESERVED or at least MIN_SECONDARY_RESERVED, i.e. (for valid
// namespaces) version 0 with an id of at most 0xff, or version 255
#[kani::proof]
#[kani::unwind(31)]
fn c14_reserved() {
    let a: [u8; NS_SIZE] = kani::any();
    kani::assume(valid_raw(&a));
    let ns = Namespace::from_raw(&a).unwrap();
    let by_bounds = lex_cmp(&a, Namespace::MAX_PRIMARY_RESERVED.as_bytes()) != core::cmp::Ordering::Greater
        || lex_cmp(&a, Namespace::MIN_SECONDARY_RESERVED.as_bytes()) != core::cmp::Ordering::Less;
    assert!(ns.is_reserved() == by_bounds);
    assert!(ns.is_reserved() == ((a[0] == 0 && all_eq(&a[1..28], 0)) || a[0] == 255));
}
