// Kani harnesses for celestia-types (C14, C15). Included from types/src/lib.rs only under cfg(kani) + cfg(lumina_verif).
// Every harness ranges over the FULL domain of its symbolic inputs; loops are bounded by constants of the code
// (NS_SIZE, id sizes) and run with unwinding assertions, so a passing harness is a complete proof for that function.
use crate::nmt::{Namespace, NS_ID_SIZE, NS_ID_V0_SIZE, NS_SIZE};

fn all_eq(b: &[u8], v: u8) -> bool { let mut i = 0; while i < b.len() { if b[i] != v { return false; } i += 1; } true }
fn valid_raw(bytes: &[u8; NS_SIZE]) -> bool {
    (bytes[0] == 0 && all_eq(&bytes[1..19], 0)) || (bytes[0] == 255 && all_eq(&bytes[1..28], 0xff))
}
// lexicographic byte order, spelled out
fn lex_cmp(a: &[u8], b: &[u8]) -> core::cmp::Ordering {
    let mut i = 0;
    while i < a.len() && i < b.len() {
        if a[i] < b[i] { return core::cmp::Ordering::Less; }
        if a[i] > b[i] { return core::cmp::Ordering::Greater; }
        i += 1;
    }
    a.len().cmp(&b.len())
}

// C14: from_raw over every 29-byte input: accepted exactly for (version 0, 18 zero bytes) or (version 255, 27 0xff bytes);
// the byte form, version and id round-trip
#[kani::proof]
#[kani::unwind(31)]
fn c14_from_raw_29() {
    let bytes: [u8; NS_SIZE] = kani::any();
    let r = Namespace::from_raw(&bytes);
    assert!(r.is_ok() == valid_raw(&bytes));
    if let Ok(ns) = r {
        assert!(ns.as_bytes() == &bytes[..]);
        assert!(ns.version() == bytes[0]);
        assert!(ns.id() == &bytes[1..]);
        // new(version, id) and the version-0 shorthand give the same namespace back
        assert!(Namespace::new(ns.version(), ns.id()).ok() == Some(ns));
        match ns.id_v0() {
            Some(short) => { assert!(bytes[0] == 0 && short.len() == NS_ID_V0_SIZE); assert!(Namespace::new_v0(short).ok() == Some(ns)); }
            None => assert!(bytes[0] != 0),
        }
    }
}

// C14: every other length is rejected
#[kani::proof]
#[kani::unwind(42)]
fn c14_from_raw_other_lengths() {
    let buf: [u8; 40] = kani::any();
    let n: usize = kani::any();
    kani::assume(n <= 40 && n != NS_SIZE);
    assert!(Namespace::from_raw(&buf[..n]).is_err());
}

// C14: new_v0 over every id of 0..=30 bytes: accepted iff at most 10 bytes, or 28 bytes with 18 leading zeros; the result is
// version 0 with the id right-aligned behind zeros
#[kani::proof]
#[kani::unwind(32)]
fn c14_new_v0() {
    let buf: [u8; 30] = kani::any();
    let n: usize = kani::any();
    kani::assume(n <= 30);
    let id = &buf[..n];
    let r = Namespace::new_v0(id);
    let ok = n <= NS_ID_V0_SIZE || (n == NS_ID_SIZE && all_eq(&id[..18], 0));
    assert!(r.is_ok() == ok);
    if let Ok(ns) = r {
        let b = ns.as_bytes();
        assert!(b.len() == NS_SIZE && b[0] == 0);
        let sig = if n == NS_ID_SIZE { &id[18..] } else { id };
        assert!(all_eq(&b[..NS_SIZE - sig.len()], 0));
        assert!(&b[NS_SIZE - sig.len()..] == sig);
    }
}

// C14: new_v255 / new with other versions
#[kani::proof]
#[kani::unwind(32)]
fn c14_new_versions() {
    let buf: [u8; 30] = kani::any();
    let n: usize = kani::any();
    kani::assume(n <= 30);
    let id = &buf[..n];
    let version: u8 = kani::any();
    let r = Namespace::new(version, id);
    if version != 0 && version != 255 { assert!(r.is_err()); }
    if version == 255 {
        assert!(r.is_ok() == (n == NS_ID_SIZE && all_eq(&id[..27.min(n)], 0xff)));
        if let Ok(ns) = r { assert!(ns.as_bytes()[0] == 255 && &ns.as_bytes()[1..] == id); }
    }
}

// C14: the ordering of namespaces is the lexicographic order of their bytes, and equality is byte equality
#[kani::proof]
#[kani::unwind(31)]
fn c14_order_is_lexicographic() {
    let a: [u8; NS_SIZE] = kani::any();
    let b: [u8; NS_SIZE] = kani::any();
    kani::assume(valid_raw(&a) && valid_raw(&b));
    let na = Namespace::from_raw(&a).unwrap();
    let nb = Namespace::from_raw(&b).unwrap();
    assert!(na.cmp(&nb) == lex_cmp(&a, &b));
    assert!(na.partial_cmp(&nb) == Some(lex_cmp(&a, &b)));
    assert!((na == nb) == (lex_cmp(&a, &b) == core::cmp::Ordering::Equal));
}

// C14: reserved exactly when at most MAX_PRIMARY_RESERVED or at least MIN_SECONDARY_RESERVED, i.e. (for valid
// namespaces) version 0 with an id of at most 0xff, or version 255
#[kani::proof]
#[kani::unwind(31)]
fn c14_reserved() {
    let a: [u8; NS_SIZE] = kani::any();
    kani::assume(valid_raw(&a));
    let ns = Namespace::from_raw(&a).unwrap();
    let by_bounds = lex_cmp(&a, Namespace::MAX_PRIMARY_RESERVED.as_bytes()) != core::cmp::Ordering::Greater
        || lex_cmp(&a, Namespace::MIN_SECONDARY_RESERVED.as_bytes()) != core::cmp::Ordering::Less;
    assert!(ns.is_reserved() == by_bounds);
    assert!(ns.is_reserved() == ((a[0] == 0 && all_eq(&a[1..28], 0)) || a[0] == 255));
}

// ---------------------------------------------------------------------------------------------------------------
// C15: shwap identifiers <-> bytes <-> CIDs
// ---------------------------------------------------------------------------------------------------------------
use crate::eds::{EdsId, EDS_ID_SIZE};
use crate::namespace_data::{NamespaceDataId, NAMESPACE_DATA_ID_SIZE};
use crate::row::{RowId, ROW_ID_CODEC, ROW_ID_MULTIHASH_CODE, ROW_ID_SIZE};
use crate::row_namespace_data::{RowNamespaceDataId, ROW_NAMESPACE_DATA_CODEC, ROW_NAMESPACE_DATA_ID_MULTIHASH_CODE, ROW_NAMESPACE_DATA_ID_SIZE};
use crate::sample::{SampleId, SAMPLE_ID_CODEC, SAMPLE_ID_MULTIHASH_CODE};
// sample.rs keeps its size constant private: row id (10) + column index (2)
const SAMPLE_ID_SIZE: usize = ROW_ID_SIZE + 2;
use bytes::BytesMut;
use cid::CidGeneric;
use multihash::Multihash;

// error paths format messages (`e.to_string()`); the text is irrelevant here
fn stub_format(_args: core::fmt::Arguments<'_>) -> String { String::new() }

// EdsId: every 8-byte buffer decodes iff the big-endian height is non-zero; decode(encode(id)) == id; other lengths rejected
#[kani::proof]
#[kani::unwind(18)]
fn c15_eds_id() {
    let buf: [u8; 16] = kani::any();
    let n: usize = kani::any();
    kani::assume(n <= 16);
    let r = EdsId::decode(&buf[..n]);
    if n != EDS_ID_SIZE { assert!(r.is_err()); }
    else {
        let h = u64::from_be_bytes([buf[0], buf[1], buf[2], buf[3], buf[4], buf[5], buf[6], buf[7]]);
        assert!(r.is_ok() == (h != 0));
        if let Ok(id) = r { assert!(id.block_height() == h); }
    }
    let h: u64 = kani::any();
    let r = EdsId::new(h);
    assert!(r.is_ok() == (h != 0));
    if let Ok(id) = r {
        let mut out = BytesMut::new();
        id.encode(&mut out);
        assert!(out.len() == EDS_ID_SIZE);
        assert!(&out[..] == &h.to_be_bytes()[..]);
        assert!(EdsId::decode(&out[..]).ok() == Some(id));
    }
}

// RowId / SampleId: bytes round trip for every valid id, rejection of zero heights and wrong lengths
#[kani::proof]
#[kani::unwind(18)]
fn c15_row_and_sample_id_bytes() {
    let row: u16 = kani::any(); let col: u16 = kani::any(); let h: u64 = kani::any();
    let r = RowId::new(row, h);
    assert!(r.is_ok() == (h != 0));
    let s = SampleId::new(row, col, h);
    assert!(s.is_ok() == (h != 0));
    if let (Ok(rid), Ok(sid)) = (r, s) {
        let mut out = BytesMut::new();
        rid.encode(&mut out);
        assert!(out.len() == ROW_ID_SIZE);
        assert!(RowId::decode(&out[..]).ok() == Some(rid));
        let mut out2 = BytesMut::new();
        sid.encode(&mut out2);
        assert!(out2.len() == SAMPLE_ID_SIZE);
        let back = SampleId::decode(&out2[..]);
        assert!(back.ok() == Some(sid));
        assert!(sid.row_index() == row && sid.column_index() == col && sid.block_height() == h);
    }
    // arbitrary buffers
    let buf: [u8; 16] = kani::any();
    let n: usize = kani::any();
    kani::assume(n <= 16);
    let d = RowId::decode(&buf[..n]);
    if n != ROW_ID_SIZE { assert!(d.is_err()); } else {
        let hh = u64::from_be_bytes([buf[0], buf[1], buf[2], buf[3], buf[4], buf[5], buf[6], buf[7]]);
        assert!(d.is_ok() == (hh != 0));
        if let Ok(id) = d { assert!(id.block_height() == hh && id.index() == u16::from_be_bytes([buf[8], buf[9]])); }
    }
    let d = SampleId::decode(&buf[..n]);
    if n != SAMPLE_ID_SIZE { assert!(d.is_err()); } else {
        let hh = u64::from_be_bytes([buf[0], buf[1], buf[2], buf[3], buf[4], buf[5], buf[6], buf[7]]);
        assert!(d.is_ok() == (hh != 0));
        if let Ok(id) = d { assert!(id.block_height() == hh && id.row_index() == u16::from_be_bytes([buf[8], buf[9]]) && id.column_index() == u16::from_be_bytes([buf[10], buf[11]])); }
    }
}

// RowNamespaceDataId / NamespaceDataId: bytes round trip for every valid id (any valid namespace); decode accepts a buffer
// exactly when it has the right length, a non-zero height and a valid namespace
#[kani::proof]
#[kani::unwind(48)]
fn c15_namespace_ids_bytes() {
    let nsb: [u8; NS_SIZE] = kani::any();
    kani::assume(valid_raw(&nsb));
    let ns = Namespace::from_raw(&nsb).unwrap();
    let row: u16 = kani::any(); let h: u64 = kani::any();
    let r = RowNamespaceDataId::new(ns, row, h);
    assert!(r.is_ok() == (h != 0));
    let n = NamespaceDataId::new(ns, h);
    assert!(n.is_ok() == (h != 0));
    if let (Ok(rid), Ok(nid)) = (r, n) {
        let mut out = BytesMut::new();
        rid.encode(&mut out);
        assert!(out.len() == ROW_NAMESPACE_DATA_ID_SIZE);
        assert!(RowNamespaceDataId::decode(&out[..]).ok() == Some(rid));
        assert!(rid.namespace() == ns && rid.row_index() == row && rid.block_height() == h);
        let mut out2 = BytesMut::new();
        nid.encode(&mut out2);
        assert!(out2.len() == NAMESPACE_DATA_ID_SIZE);
        assert!(NamespaceDataId::decode(&out2[..]).ok() == Some(nid));
        assert!(nid.namespace() == ns && nid.block_height() == h);
    }
}

#[kani::proof]
#[kani::unwind(48)]
fn c15_namespace_ids_decode_arbitrary() {
    let buf: [u8; 44] = kani::any();
    let n: usize = kani::any();
    kani::assume(n <= 44);
    let hh = u64::from_be_bytes([buf[0], buf[1], buf[2], buf[3], buf[4], buf[5], buf[6], buf[7]]);
    let d = RowNamespaceDataId::decode(&buf[..n]);
    if n != ROW_NAMESPACE_DATA_ID_SIZE { assert!(d.is_err()); } else {
        let mut nsb = [0u8; NS_SIZE];
        let mut i = 0; while i < NS_SIZE { nsb[i] = buf[ROW_ID_SIZE + i]; i += 1; }
        assert!(d.is_ok() == (hh != 0 && valid_raw(&nsb)));
    }
    let d = NamespaceDataId::decode(&buf[..n]);
    if n != NAMESPACE_DATA_ID_SIZE { assert!(d.is_err()); } else {
        let mut nsb = [0u8; NS_SIZE];
        let mut i = 0; while i < NS_SIZE { nsb[i] = buf[EDS_ID_SIZE + i]; i += 1; }
        assert!(d.is_ok() == (hh != 0 && valid_raw(&nsb)));
    }
}

// ---------------------------------------------------------------------------------------------------------------
// The CID layer of C15 (From<Id> for CidGeneric / TryFrom<CidGeneric> for Id) is NOT claimed: the four harnesses below
// each exceed 20 minutes of CBMC time on this machine (multihash/cid varint code plus the `e.to_string()` error path).
// They are kept for reference and are not registered in any check.
// ---------------------------------------------------------------------------------------------------------------
// RowId: CID round trip for every valid id
#[kani::proof]
#[kani::unwind(18)]
#[kani::stub(alloc::fmt::format, stub_format)]
fn c15_row_id_cid_roundtrip() {
    let row: u16 = kani::any(); let h: u64 = kani::any();
    kani::assume(h != 0);
    let rid = RowId::new(row, h).unwrap();
    let cid: CidGeneric<ROW_ID_SIZE> = rid.into();
    assert!(cid.codec() == ROW_ID_CODEC && cid.hash().code() == ROW_ID_MULTIHASH_CODE && cid.hash().size() as usize == ROW_ID_SIZE);
    assert!(RowId::try_from(cid).ok() == Some(rid));
}

// SampleId: CID round trip for every valid id
#[kani::proof]
#[kani::unwind(18)]
#[kani::stub(alloc::fmt::format, stub_format)]
fn c15_sample_id_cid_roundtrip() {
    let row: u16 = kani::any(); let col: u16 = kani::any(); let h: u64 = kani::any();
    kani::assume(h != 0);
    let sid = SampleId::new(row, col, h).unwrap();
    let cid: CidGeneric<SAMPLE_ID_SIZE> = sid.into();
    assert!(cid.codec() == SAMPLE_ID_CODEC && cid.hash().code() == SAMPLE_ID_MULTIHASH_CODE && cid.hash().size() as usize == SAMPLE_ID_SIZE);
    assert!(SampleId::try_from(cid).ok() == Some(sid));
}

// a CID with an arbitrary codec / multihash code / digest is accepted as a RowId only with the right codec, code and size
// (and then exactly when the digest decodes, i.e. the height is non-zero)
#[kani::proof]
#[kani::unwind(18)]
#[kani::stub(alloc::fmt::format, stub_format)]
fn c15_row_id_from_foreign_cid() {
    let codec: u64 = kani::any(); let code: u64 = kani::any();
    let digest: [u8; 12] = kani::any();
    let n: usize = kani::any();
    kani::assume(n <= 12);
    let mh = Multihash::<12>::wrap(code, &digest[..n]).unwrap();
    let cid = CidGeneric::<12>::new_v1(codec, mh);
    let hh = u64::from_be_bytes([digest[0], digest[1], digest[2], digest[3], digest[4], digest[5], digest[6], digest[7]]);
    let as_row = RowId::try_from(cid);
    assert!(as_row.is_ok() == (codec == ROW_ID_CODEC && code == ROW_ID_MULTIHASH_CODE && n == ROW_ID_SIZE && hh != 0));
}

#[kani::proof]
#[kani::unwind(18)]
#[kani::stub(alloc::fmt::format, stub_format)]
fn c15_sample_id_from_foreign_cid() {
    let codec: u64 = kani::any(); let code: u64 = kani::any();
    let digest: [u8; 12] = kani::any();
    let n: usize = kani::any();
    kani::assume(n <= 12);
    let mh = Multihash::<12>::wrap(code, &digest[..n]).unwrap();
    let cid = CidGeneric::<12>::new_v1(codec, mh);
    let hh = u64::from_be_bytes([digest[0], digest[1], digest[2], digest[3], digest[4], digest[5], digest[6], digest[7]]);
    let as_sample = SampleId::try_from(cid);
    assert!(as_sample.is_ok() == (codec == SAMPLE_ID_CODEC && code == SAMPLE_ID_MULTIHASH_CODE && n == SAMPLE_ID_SIZE && hh != 0));
}
