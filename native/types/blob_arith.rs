// Bounded stand-in for the one function of the blob unit that Verus cannot reach (f64): blob_min_square_size, checked
// exhaustively for share counts 0..=2^22 against an integer reference, together with subtree_width and
// merkle_mountain_range_sizes against an independent ADR-013 reference (also witness finder for C12).
// Included inside `mod tests` of types/src/blob/commitment.rs only with `--cfg lumina_verif`.
use super::*;

fn ceil_isqrt(n: u64) -> u64 {
    // least s with s*s >= n (integer only)
    let mut lo = 0u64; let mut hi = 1u64 << 32;
    while lo < hi { let mid = (lo + hi) / 2; if (mid as u128) * (mid as u128) >= n as u128 { hi = mid } else { lo = mid + 1 } }
    lo
}
fn pow2_ceil(x: u64) -> u64 { let mut p = 1u64; while p < x { p *= 2; } p }
fn ref_width(n: u64, thr: u64) -> u64 { pow2_ceil(n.div_ceil(thr)).min(pow2_ceil(ceil_isqrt(n))) }
fn ref_mmr(mut total: u64, max: u64) -> Vec<u64> {
    let mut v = vec![];
    while total != 0 {
        let mut p = 1u64; while p * 2 <= total.min(max) { p *= 2; }
        v.push(p); total -= p;
    }
    v
}

#[test]
fn verif_enum_blob_arith() {
    let only = std::env::var("VERIF_ONLY").unwrap_or_default();
    let want = |n: &str| only.is_empty() || n.contains(&only) || only.contains(n);
    let mut cases = 0u64;
    let bound = 1u64 << 22;
    for n in 0..=bound {
        cases += 1;
        if want("blob_min_square_size") {
            let got = blob_min_square_size(n);
            let exp = pow2_ceil(ceil_isqrt(n));
            if got != exp { println!("WITNESS blob_min_square_size({n}) = {got}, expected pow2ceil(ceil(sqrt n)) = {exp}"); panic!("witness"); }
        }
        if want("subtree_width") && n >= 1 {
            for thr in [64u64, 1, 3] {
                let got = subtree_width(n, thr);
                let exp = ref_width(n, thr);
                if got != exp { println!("WITNESS subtree_width({n}, {thr}) = {got}, ADR-013 reference = {exp}"); panic!("witness"); }
            }
        }
    }
    if want("merkle_mountain_range_sizes") || want("round_") {
        for n in (0..=20000u64).chain([1 << 20, (1 << 20) + 1, (1 << 32) - 1, 1 << 40, (1 << 62) + 12345, 1 << 63]) {
            for w in [1u64, 2, 4, 64, 128, 1 << 20, 1 << 40, 1 << 62] {
                if n / w > 100_000 { continue; }   // keep the result vectors small
                cases += 1;
                let got = merkle_mountain_range_sizes(n, w);
                let exp = ref_mmr(n, w);
                if got != exp { println!("WITNESS merkle_mountain_range_sizes({n}, {w}) = {:?}.., reference = {:?}..", &got[..got.len().min(6)], &exp[..exp.len().min(6)]); panic!("witness"); }
            }
        }
    }
    println!("ENUM-OK cases={cases}");
}
