// Witness finder / bounded stand-in for C04, C05, C06 on a 4x4 and an 8x8 EDS (types level, no networking).
// A panic of the nmt-rs dependency while verifying a foreign id counts as "rejected" here (it is finding D17, reported
// by the C10/C16 check); every other panic is a witness.
use crate::consts::appconsts::AppVersion;
use crate::eds::AxisType;
use crate::nmt::Namespace;
use crate::namespace_data::{NamespaceData, NamespaceDataId};
use crate::row::{Row, RowId};
use crate::row_namespace_data::RowNamespaceDataId;
use crate::sample::{Sample, SampleId};
use crate::test_utils::generate_dummy_eds;
use crate::{DataAvailabilityHeader, ExtendedDataSquare};
use bytes::BytesMut;

fn accepts<F: FnOnce() -> bool + std::panic::UnwindSafe>(f: F) -> bool {
    match std::panic::catch_unwind(f) {
        Ok(b) => b,
        Err(p) => {
            let msg = p.downcast_ref::<String>().cloned().or_else(|| p.downcast_ref::<&str>().map(|s| s.to_string())).unwrap_or_default();
            if msg.contains("left max namespace must be <= right min namespace") { false } else { println!("WITNESS shwap: verification panicked: {msg}"); panic!("witness"); }
        }
    }
}

#[test]
fn verif_enum_shwap_types() {
    let only = std::env::var("VERIF_ONLY").unwrap_or_default();
    let want = |k: &str| only.is_empty() || only.to_lowercase().contains(k);
    let mut cases = 0u64;
    for width in [4usize, 8] {
        let eds = generate_dummy_eds(width, AppVersion::V2);
        let dah = DataAvailabilityHeader::from_eds(&eds);
        let w = eds.square_width();
        // ---- C04 ----
        if want("sample") { for r in 0..w { for c in 0..w { for axis in [AxisType::Row, AxisType::Col] {
            let sample = Sample::new(r, c, axis, &eds).unwrap();
            let own = SampleId::new(r, c, 3).unwrap();
            // encode / decode round trip, then verify
            let mut b = BytesMut::new(); sample.encode(&mut b);
            let back = match Sample::decode(own, &b) { Ok(s) => s, Err(e) => { println!("WITNESS C04: honest sample ({r},{c},{axis:?}) does not decode: {e}"); panic!("witness"); } };
            cases += 1;
            if back.verify(own, &dah).is_err() { println!("WITNESS C04: honest sample ({r},{c},{axis:?}) rejected after encode/decode (width {width})"); panic!("witness"); }
            if back.share != *eds.share(r, c).unwrap() { println!("WITNESS C04: decoded sample carries another share"); panic!("witness"); }
            // coordinates outside the square never verify
            for (rr, cc) in [(w, c), (r, w), (u16::MAX, c), (r, u16::MAX), (w, w)] {
                cases += 1;
                let id = SampleId::new(rr, cc, 3).unwrap();
                let (s2, d2) = (sample.clone(), dah.clone());
                if accepts(move || s2.verify(id, &d2).is_ok()) { println!("WITNESS C04: the sample of ({r},{c}) verifies for ({rr},{cc}), outside a square of width {w}"); panic!("witness"); }
            }
            for rr in 0..w { for cc in 0..w {
                if (rr, cc) == (r, c) { continue; }
                cases += 1;
                let id = SampleId::new(rr, cc, 3).unwrap();
                let (s2, d2) = (sample.clone(), dah.clone());
                if accepts(move || s2.verify(id, &d2).is_ok()) && *eds.share(rr, cc).unwrap() != sample.share {
                    println!("WITNESS C04: the sample of ({r},{c}) with a {axis:?}-axis proof verifies for coordinates ({rr},{cc}) whose share is different (width {width})"); panic!("witness");
                }
            }}
        }}}}
        // ---- C05 ----
        if want("row") { for r in 0..w {
            let row = Row::new(r, &eds).unwrap();
            for rr in 0..w {
                cases += 1;
                let id = RowId::new(rr, 3).unwrap();
                let (r2, d2) = (row.clone(), dah.clone());
                let ok = accepts(move || r2.verify(id, &d2).is_ok());
                if ok != (rr == r) && !(ok && eds.row(rr).unwrap() == eds.row(r).unwrap()) { println!("WITNESS C05: row {r} verified as row {rr}: {ok} (width {width})"); panic!("witness"); }
            }
            // an index outside the square never verifies, whatever the row
            for rr in [w, w + 1, 2 * w, u16::MAX] {
                cases += 1;
                let id = RowId::new(rr, 3).unwrap();
                let (r2, d2) = (row.clone(), dah.clone());
                if accepts(move || r2.verify(id, &d2).is_ok()) { println!("WITNESS C05: row {r} verifies as row {rr} of a square of width {w} (there is no such row)"); panic!("witness"); }
            }
            // forged rows: a surplus share (in and out of namespace order), a dropped share, two shares swapped, a share of
            // another row in place of one of its own - none may verify as row r
            let id_r = RowId::new(r, 3).unwrap();
            let mut forged: Vec<(&str, Vec<crate::Share>)> = Vec::new();
            { let mut v = row.shares.clone(); v.insert(usize::from(w) - 1, row.shares[0].clone()); forged.push(("a data share inserted among the parity shares", v)); }
            { let mut v = row.shares.clone(); v.push(row.shares[usize::from(w) - 1].clone()); forged.push(("the last share repeated", v)); }
            { let mut v = row.shares.clone(); v.insert(1, row.shares[0].clone()); forged.push(("the first share repeated", v)); }
            { let mut v = row.shares.clone(); v.pop(); forged.push(("the last share dropped", v)); }
            if row.shares[0] != row.shares[1] { let mut v = row.shares.clone(); v.swap(0, 1); forged.push(("the first two shares swapped", v)); }
            { let other = Row::new((r + 1) % w, &eds).unwrap(); if other.shares[0] != row.shares[0] { let mut v = row.shares.clone(); v[0] = other.shares[0].clone(); forged.push(("the first share taken from another row", v)); } }
            for (what, shares) in forged {
                cases += 1;
                let (f, d2) = (Row { shares }, dah.clone());
                if accepts(move || f.verify(id_r, &d2).is_ok()) { println!("WITNESS C05: row {r} with {what} verifies as row {r} (width {width})"); panic!("witness"); }
            }
            // a row with one share altered or two shares swapped is rejected
            let mut b = BytesMut::new(); row.encode(&mut b);
            let id = RowId::new(r, 3).unwrap();
            match Row::decode(id, &b) {
                Ok(dec) => { cases += 1;
                    if dec.shares != row.shares { println!("WITNESS C05: row {r} differs after encode/decode (left half on the wire) (width {width})"); panic!("witness"); }
                    if dec.verify(id, &dah).is_err() { println!("WITNESS C05: honest row {r} rejected after encode/decode"); panic!("witness"); } }
                Err(e) => { println!("WITNESS C05: honest row {r} does not decode: {e} (width {width})"); panic!("witness"); }
            }
            // the same row served as its RIGHT half (what a peer holding only the parity half sends): reconstruction
            // must give the same row
            let half = row.shares.len() / 2;
            let raw_right = celestia_proto::shwap::Row {
                shares_half: row.shares[half..].iter().map(|s| celestia_proto::shwap::Share { data: s.to_vec() }).collect(),
                half_side: celestia_proto::shwap::row::HalfSide::Right.into(),
            };
            cases += 1;
            match Row::from_raw(id, raw_right) {
                Ok(dec) => {
                    if dec.shares != row.shares { println!("WITNESS C05: reconstructing row {r} from its right half returned a different row (width {width})"); panic!("witness"); }
                    if dec.verify(id, &dah).is_err() { println!("WITNESS C05: row {r} reconstructed from its right half is rejected (width {width})"); panic!("witness"); }
                }
                Err(e) => { println!("WITNESS C05: the right half of honest row {r} does not decode: {e} (width {width})"); panic!("witness"); }
            }
        }}
        // ---- C06 ----
        if want("namespace") {
            let mut namespaces: Vec<Namespace> = Vec::new();
            for r in 0..w / 2 { for c in 0..w / 2 { let n = eds.share(r, c).unwrap().namespace(); if !namespaces.contains(&n) { namespaces.push(n); } } }
            // the parity namespace: covered by the row roots of the lower half (and by the upper ones through their parity half)
            namespaces.push(Namespace::PARITY_SHARE);
            // a namespace that is absent but inside some row's range, if there is one
            for ns in namespaces.clone() {
                cases += 1;
                let rows = match eds.get_namespace_data(ns, &dah, 3) { Ok(x) => x, Err(e) => { println!("WITNESS C06: get_namespace_data failed for a present namespace: {e}"); panic!("witness"); } };
                // brute-force scan of the square
                let mut scan: Vec<Vec<crate::Share>> = Vec::new();
                for r in 0..w {
                    // (the roots of the upper rows ignore the parity namespace - NMT "ignore max namespace" -, so the parity
                    // shares in their right halves are not namespace data of those rows; the lower rows are parity only)
                    if ns == Namespace::PARITY_SHARE && r < w / 2 { continue; }
                    let mut row_shares = Vec::new();
                    for c in 0..w { let s = eds.share(r, c).unwrap(); if s.namespace() == ns { row_shares.push(s.clone()); } }
                    if !row_shares.is_empty() { scan.push(row_shares); }
                }
                let produced: Vec<Vec<crate::Share>> = rows.iter().map(|(_, d)| d.shares.clone()).filter(|v| !v.is_empty()).collect();
                if produced != scan { println!("WITNESS C06: get_namespace_data for {ns:?} differs from a brute-force scan of the square (width {width})"); panic!("witness"); }
                let id = NamespaceDataId::new(ns, 3).unwrap();
                let honest = NamespaceData::new(rows.iter().map(|(_, d)| d.clone()).collect());
                if honest.verify(id, &dah).is_err() { println!("WITNESS C06: the namespace data the square produces for {ns:?} does not verify (width {width})"); panic!("witness"); }
                for (rid, d) in rows.iter() { if d.verify(*rid, &dah).is_err() { println!("WITNESS C06: row namespace data {rid:?} does not verify"); panic!("witness"); } }
                // a row index outside the square never verifies
                for (_, d) in rows.iter() { for rr in [w, 2 * w, u16::MAX] {
                    cases += 1;
                    let id_out = RowNamespaceDataId::new(ns, rr, 3).unwrap();
                    let (d1, d2) = (d.clone(), dah.clone());
                    if accepts(move || d1.verify(id_out, &d2).is_ok()) { println!("WITNESS C06: row namespace data verifies for row {rr} of a square of width {w}"); panic!("witness"); }
                }}
                if !rows.is_empty() {
                    cases += 1;
                    let (nd, d2) = (NamespaceData::new(vec![]), dah.clone());
                    if accepts(move || nd.verify(id, &d2).is_ok()) { println!("WITNESS C06: EMPTY namespace data for {ns:?} verifies although {} rows cover the namespace (width {width})", rows.len()); panic!("witness"); }
                }
                // tampering: drop the last row, duplicate the last row, reverse the rows (when that changes anything)
                let all: Vec<_> = rows.iter().map(|(_, d)| d.clone()).collect();
                let mut variants: Vec<(&str, Vec<_>)> = Vec::new();
                if !all.is_empty() { variants.push(("last row dropped", all[..all.len() - 1].to_vec())); let mut v = all.clone(); v.push(all[all.len() - 1].clone()); variants.push(("last row repeated", v)); }
                if all.len() >= 2 { let mut v = all.clone(); v.reverse(); variants.push(("rows reversed", v)); }
                for (what, v) in variants {
                    cases += 1;
                    let (nd, d2) = (NamespaceData::new(v), dah.clone());
                    if accepts(move || nd.verify(id, &d2).is_ok()) { println!("WITNESS C06: namespace data for {ns:?} with {what} verifies (width {width})"); panic!("witness"); }
                }
                // row namespace data presented for another row
                for (rid, d) in rows.iter() { for rr in 0..w {
                    if rr == rid.row_index() { continue; }
                    cases += 1;
                    let Ok(other) = RowNamespaceDataId::new(ns, rr, 3) else { continue };
                    let (d3, d2) = (d.clone(), dah.clone());
                    if accepts(move || d3.verify(other, &d2).is_ok()) {
                        // only legitimate if that row holds exactly the same shares of the namespace
                        let same = (0..w).filter_map(|c| { let s = eds.share(rr, c).unwrap(); (s.namespace() == ns).then(|| s.clone()) }).collect::<Vec<_>>() == d.shares;
                        if !same { println!("WITNESS C06: row namespace data of row {} verifies as row {rr} (width {width})", rid.row_index()); panic!("witness"); }
                    }
                }}
            }
        }
    }
    println!("ENUM-OK cases={cases}");
}
