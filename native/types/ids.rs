// Bounded stand-in for C15 (identifier byte / CID round trips; the CID layer is out of reach for CBMC): boundary values of
// heights, indexes and namespaces for all five identifiers; wrong lengths, codecs, multihash codes, zero heights and
// invalid namespaces must be rejected.
use crate::eds::EdsId;
use crate::namespace_data::NamespaceDataId;
use crate::nmt::Namespace;
use crate::row::{RowId, ROW_ID_CODEC, ROW_ID_MULTIHASH_CODE, ROW_ID_SIZE};
use crate::row_namespace_data::{RowNamespaceDataId, ROW_NAMESPACE_DATA_CODEC, ROW_NAMESPACE_DATA_ID_MULTIHASH_CODE, ROW_NAMESPACE_DATA_ID_SIZE};
use crate::sample::{SampleId, SAMPLE_ID_CODEC, SAMPLE_ID_MULTIHASH_CODE};
use bytes::BytesMut;
use cid::CidGeneric;
use multihash::Multihash;

fn w(what: String) -> ! { println!("WITNESS C15: {what}"); panic!("witness") }

#[test]
fn verif_enum_shwap_ids() {
    let heights = [0u64, 1, 2, 255, 256, 65_535, 65_536, 1 << 32, u64::MAX - 1, u64::MAX];
    let idx = [0u16, 1, 255, 256, 32_767, 65_535];
    let nss = [Namespace::new_v0(&[1]).unwrap(), Namespace::new_v0(&[0xff; 10]).unwrap(), Namespace::PAY_FOR_BLOB, Namespace::TAIL_PADDING, Namespace::PARITY_SHARE];
    let mut cases = 0u64;
    // ---- byte form: encode / decode, wrong lengths, zero height ----
    macro_rules! bytes_roundtrip { ($id:expr, $ty:ty, $what:expr) => {{
        let id = $id; let mut b = BytesMut::new(); id.encode(&mut b);
        match <$ty>::decode(&b) { Ok(back) => if back != id { w(format!("{} {:?} decodes to {:?}", $what, id, back)) }, Err(e) => w(format!("{} {:?} does not decode: {e}", $what, id)) }
        for cut in [0usize, 1, b.len() - 1] { if <$ty>::decode(&b[..cut]).is_ok() { w(format!("{}: {} of {} bytes accepted", $what, cut, b.len())) } }
        let mut longer = b.to_vec(); longer.push(0); if <$ty>::decode(&longer).is_ok() { w(format!("{}: {} bytes accepted", $what, longer.len())) }
        // height bytes zeroed (the height leads every identifier, big endian)
        let mut z = b.to_vec(); for x in z[..8].iter_mut() { *x = 0; } if <$ty>::decode(&z).is_ok() { w(format!("{}: height 0 accepted by decode", $what)) }
        cases += 6;
        b
    }} }
    for &h in &heights {
        match EdsId::new(h) { Ok(id) => { if h == 0 { w("EdsId::new(0) accepted".into()) } if id.block_height() != h { w("EdsId height".into()) } bytes_roundtrip!(id, EdsId, "EdsId"); } Err(_) => if h != 0 { w(format!("EdsId::new({h}) rejected")) } }
        for &r in &idx {
            match RowId::new(r, h) { Ok(id) => { if h == 0 { w("RowId::new(_, 0) accepted".into()) } if (id.index(), id.block_height()) != (r, h) { w("RowId fields".into()) }
                    bytes_roundtrip!(id, RowId, "RowId");
                    // CID
                    let cid: CidGeneric<ROW_ID_SIZE> = id.into();
                    match RowId::try_from(cid) { Ok(back) => if back != id { w(format!("RowId {id:?} -> CID -> {back:?}")) }, Err(e) => w(format!("RowId CID of {id:?} rejected: {e}")) }
                    let mh = *cid.hash();
                    if RowId::try_from(CidGeneric::<ROW_ID_SIZE>::new_v1(ROW_ID_CODEC + 1, mh)).is_ok() { w("RowId: wrong codec accepted".into()) }
                    if RowId::try_from(CidGeneric::<ROW_ID_SIZE>::new_v1(ROW_ID_CODEC, Multihash::wrap(ROW_ID_MULTIHASH_CODE + 1, mh.digest()).unwrap())).is_ok() { w("RowId: wrong multihash code accepted".into()) }
                    if RowId::try_from(CidGeneric::<ROW_ID_SIZE>::new_v1(ROW_ID_CODEC, Multihash::wrap(ROW_ID_MULTIHASH_CODE, &mh.digest()[..ROW_ID_SIZE - 1]).unwrap())).is_ok() { w("RowId: short multihash accepted".into()) }
                    cases += 4; }
                Err(_) => if h != 0 { w(format!("RowId::new({r}, {h}) rejected")) } }
            for &c in &idx {
                match SampleId::new(r, c, h) { Ok(id) => { if h == 0 { w("SampleId height 0 accepted".into()) } if (id.row_index(), id.column_index(), id.block_height()) != (r, c, h) { w("SampleId fields".into()) }
                        bytes_roundtrip!(id, SampleId, "SampleId");
                        let cid: CidGeneric<12> = id.into();
                        match SampleId::try_from(cid) { Ok(back) => if back != id { w(format!("SampleId {id:?} -> CID -> {back:?}")) }, Err(e) => w(format!("SampleId CID of {id:?} rejected: {e}")) }
                        let mh = *cid.hash();
                        if SampleId::try_from(CidGeneric::<12>::new_v1(SAMPLE_ID_CODEC + 1, mh)).is_ok() { w("SampleId: wrong codec accepted".into()) }
                        if SampleId::try_from(CidGeneric::<12>::new_v1(SAMPLE_ID_CODEC, Multihash::wrap(SAMPLE_ID_MULTIHASH_CODE + 1, mh.digest()).unwrap())).is_ok() { w("SampleId: wrong multihash code accepted".into()) }
                        if SampleId::try_from(CidGeneric::<12>::new_v1(SAMPLE_ID_CODEC, Multihash::wrap(SAMPLE_ID_MULTIHASH_CODE, &mh.digest()[..11]).unwrap())).is_ok() { w("SampleId: short multihash accepted".into()) }
                        cases += 4; }
                    Err(_) => if h != 0 { w(format!("SampleId::new({r}, {c}, {h}) rejected")) } }
            }
            for ns in &nss {
                match RowNamespaceDataId::new(*ns, r, h) { Ok(id) => { if h == 0 { w("RowNamespaceDataId height 0 accepted".into()) } if (id.namespace(), id.row_index(), id.block_height()) != (*ns, r, h) { w("RowNamespaceDataId fields".into()) }
                        let b = bytes_roundtrip!(id, RowNamespaceDataId, "RowNamespaceDataId");
                        // an invalid namespace (version 1) in the byte form
                        let mut bad = b.to_vec(); let at = bad.len() - 29; bad[at] = 1; if RowNamespaceDataId::decode(&bad).is_ok() { w("RowNamespaceDataId: namespace version 1 accepted by decode".into()) }
                        let cid: CidGeneric<ROW_NAMESPACE_DATA_ID_SIZE> = id.into();
                        match RowNamespaceDataId::try_from(cid) { Ok(back) => if back != id { w(format!("RowNamespaceDataId {id:?} -> CID -> {back:?}")) }, Err(e) => w(format!("RowNamespaceDataId CID rejected: {e}")) }
                        let mh = *cid.hash();
                        if RowNamespaceDataId::try_from(CidGeneric::<ROW_NAMESPACE_DATA_ID_SIZE>::new_v1(ROW_NAMESPACE_DATA_CODEC + 1, mh)).is_ok() { w("RowNamespaceDataId: wrong codec accepted".into()) }
                        if RowNamespaceDataId::try_from(CidGeneric::<ROW_NAMESPACE_DATA_ID_SIZE>::new_v1(ROW_NAMESPACE_DATA_CODEC, Multihash::wrap(ROW_NAMESPACE_DATA_ID_MULTIHASH_CODE + 1, mh.digest()).unwrap())).is_ok() { w("RowNamespaceDataId: wrong multihash code accepted".into()) }
                        let mut badd = mh.digest().to_vec(); let at = badd.len() - 29; badd[at] = 1;
                        if RowNamespaceDataId::try_from(CidGeneric::<ROW_NAMESPACE_DATA_ID_SIZE>::new_v1(ROW_NAMESPACE_DATA_CODEC, Multihash::wrap(ROW_NAMESPACE_DATA_ID_MULTIHASH_CODE, &badd).unwrap())).is_ok() { w("RowNamespaceDataId: CID with an invalid namespace accepted".into()) }
                        cases += 6; }
                    Err(_) => if h != 0 { w(format!("RowNamespaceDataId::new({ns:?}, {r}, {h}) rejected")) } }
            }
        }
        for ns in &nss {
            match NamespaceDataId::new(*ns, h) { Ok(id) => { if h == 0 { w("NamespaceDataId height 0 accepted".into()) } if (id.namespace(), id.block_height()) != (*ns, h) { w("NamespaceDataId fields".into()) }
                    let b = bytes_roundtrip!(id, NamespaceDataId, "NamespaceDataId");
                    let mut bad = b.to_vec(); let at = bad.len() - 29; bad[at] = 1; if NamespaceDataId::decode(&bad).is_ok() { w("NamespaceDataId: namespace version 1 accepted by decode".into()) }
                    cases += 1; }
                Err(_) => if h != 0 { w(format!("NamespaceDataId::new({ns:?}, {h}) rejected")) } }
        }
    }
    println!("ENUM-OK cases={cases}");
}

// Bounded stand-in for the parts of C14 outside the Kani harnesses (serde form) plus a re-check of the rest on boundary values.
#[test]
fn verif_enum_namespace_forms() {
    let mut cases = 0u64;
    let mut samples: Vec<[u8; 29]> = Vec::new();
    // version 0 with ids around the prefix rule, version 255 with the 0xff prefix, and neighbours that must be rejected
    for last in [0u8, 1, 2, 3, 4, 0x7f, 0xfe, 0xff] { for first in [0u8, 1, 0xff] {
        let mut b = [0u8; 29]; b[19] = first; b[28] = last; samples.push(b);
        let mut c = [0xffu8; 29]; c[28] = last; samples.push(c);
        let mut d = [0u8; 29]; d[18] = first; d[28] = last; samples.push(d);          // byte 18 belongs to the zero prefix
        let mut e = [0xffu8; 29]; e[27] = first; e[28] = last; samples.push(e);       // a hole in the 0xff prefix
        let mut f = [0u8; 29]; f[0] = 1; f[28] = last; samples.push(f);                // unknown version
    }}
    let mut valid: Vec<Namespace> = Vec::new();
    for raw in &samples {
        cases += 1;
        let ok = (raw[0] == 0 && raw[1..19].iter().all(|x| *x == 0)) || (raw[0] == 0xff && raw[1..28].iter().all(|x| *x == 0xff));
        match Namespace::from_raw(raw) {
            Ok(ns) => {
                if !ok { w(format!("Namespace::from_raw accepted {raw:?}")) }
                if ns.as_bytes() != &raw[..] { w("Namespace byte form differs from its raw input".into()) }
                let json = serde_json::to_string(&ns).unwrap();
                match serde_json::from_str::<Namespace>(&json) { Ok(back) => if back != ns { w(format!("Namespace {raw:?} -> {json} -> {:?}", back.as_bytes())) }, Err(e) => w(format!("Namespace json {json} does not parse: {e}")) }
                if raw[0] == 0 { match Namespace::new_v0(&raw[19..]) { Ok(b2) => if b2 != ns { w("new_v0 shorthand differs".into()) }, Err(e) => w(format!("new_v0 rejected a valid id: {e}")) } }
                valid.push(ns);
            }
            Err(_) => if ok { w(format!("Namespace::from_raw rejected {raw:?}")) },
        }
        if Namespace::from_raw(&raw[..28]).is_ok() { w("28-byte namespace accepted".into()) }
    }
    for a in &valid { for b in &valid {
        cases += 1;
        if a.cmp(b) != a.as_bytes().cmp(b.as_bytes()) { w(format!("ordering of {:?} and {:?} is not the byte order", a.as_bytes(), b.as_bytes())) }
    }
        let reserved = *a <= Namespace::MAX_PRIMARY_RESERVED || *a >= Namespace::MIN_SECONDARY_RESERVED;
        if a.is_reserved() != reserved { w(format!("is_reserved({:?}) = {}", a.as_bytes(), a.is_reserved())) }
    }
    println!("ENUM-OK cases={cases}");
}
