// Native replays for C07 (bad-encoding fraud proofs). Included inside `mod tests` of types/src/byzantine.rs
// only with `--cfg lumina_verif`.
use super::*;

// D6: for an HONESTLY encoded block no fraud proof may validate - but a permutation of validly proven shares does
#[test]
fn verif_c07_permuted_honest_shares_validate() {
    let mut generator = ExtendedHeaderGenerator::new();
    let eds = generate_dummy_eds(8, AppVersion::V2);
    let dah = DataAvailabilityHeader::from_eds(&eds);
    let eh = generator.next_with_dah(dah);
    let mut found = None;
    // proof axes are chosen at random by the helper: retry until shares 0 and 1 both carry row proofs
    for _ in 0..200 {
        let honest = befp_from_header_and_eds(&eh, &eds, 2, AxisType::Row);
        assert!(honest.validate(&eh).is_err(), "honest proof over an honest block must be rejected");
        let both_row = matches!((&honest.shares[0], &honest.shares[1]),
            (Some(a), Some(b)) if a.proof_axis == AxisType::Row && b.proof_axis == AxisType::Row);
        if !both_row { continue; }
        let mut forged = honest.clone();
        forged.shares.swap(0, 1);
        if forged.validate(&eh).is_ok() { found = Some(()); break; }
    }
    match found {
        Some(()) => println!("WITNESS C07/D6: honest 8x8 square, fraud proof for row 2 with shares[0] and shares[1] swapped (both with valid row proofs) VALIDATES"),
        None => println!("NO-WITNESS D6: permuted proofs are rejected"),
    }
}

// D16: validating a fraud proof must never panic. A block whose row holds shares with an unsupported namespace
// (possible for a malicious producer: NMT roots are over raw bytes) makes validate() hit
// `Namespace::from_raw(&share[..NS_SIZE]).unwrap()` on the reconstructed axis.
#[test]
fn verif_c07_invalid_namespace_in_reconstructed_share() {
    use crate::consts::appconsts::SHARE_SIZE;
    let mut generator = ExtendedHeaderGenerator::new();
    let mut eds = generate_dummy_eds(8, AppVersion::V2);
    let w = eds.square_width();
    let row = 2u16;
    // an unsupported namespace: version 0 with a non-zero byte in the 18-byte zero prefix
    let mut bad_ns = [0u8; NS_SIZE];
    bad_ns[1] = 1;
    let mut shards: Vec<Vec<u8>> = Vec::new();
    for col in 0..w {
        let sh = eds.share_mut(row, col).unwrap();
        if col < w / 2 { sh.as_mut()[..NS_SIZE].copy_from_slice(&bad_ns); }
        shards.push(sh.as_ref().to_vec());
    }
    // make the row a proper codeword again (so this is NOT a bad encoding at all)
    for s in shards.iter_mut().skip((w / 2) as usize) { *s = vec![0u8; SHARE_SIZE]; }
    leopard_codec::encode(&mut shards, (w / 2) as usize).unwrap();
    for col in w / 2..w { eds.share_mut(row, col).unwrap().as_mut().copy_from_slice(&shards[col as usize]); }
    // header whose DAH commits to this row (only the row root matters for row proofs)
    let mut dah = DataAvailabilityHeader::from_eds(&generate_dummy_eds(8, AppVersion::V2));
    let row_root = eds.row_nmt(row).unwrap().root();
    let mut rows = dah.row_roots().to_vec(); rows[row as usize] = row_root;
    dah = DataAvailabilityHeader::new_unchecked(rows, dah.column_roots().to_vec());
    let eh = generator.next_with_dah(dah);
    // fraud proof for that row: every share proven with a ROW proof at its own position
    let mut shares = Vec::new();
    for idx in 0..w {
        let mut nmt = eds.row_nmt(row).unwrap();
        let (share, proof) = nmt.get_index_with_proof(idx.into());
        let ns = if idx < w / 2 { Namespace::new_unchecked(bad_ns) } else { Namespace::PARITY_SHARE };
        shares.push(Some(ShareWithProof {
            leaf: NmtLeaf { namespace: ns, share },
            proof: nmt_rs::NamespaceProof::PresenceProof { proof, ignore_max_ns: true }.into(),
            proof_axis: AxisType::Row,
        }));
    }
    let befp = BadEncodingFraudProof { header_hash: eh.hash(), block_height: eh.height(), shares, index: row, axis: AxisType::Row };
    let res = std::panic::catch_unwind(std::panic::AssertUnwindSafe(|| befp.validate(&eh).map_err(|e| e.to_string())));
    match res {
        Err(_) => println!("WITNESS C07/D16: BadEncodingFraudProof::validate panics (Namespace::from_raw(..).unwrap()) on a row whose original shares carry an unsupported namespace"),
        Ok(r) => println!("NO-WITNESS D16: validate returned {r:?}"),
    }
}

// ---------------------------------------------------------------------------------------------
// Witness finder / bounded stand-in for C07: 4x4 and 8x8 squares, every axis and index.
//  - soundness: on an honestly encoded block no fraud proof built from real shares and real inclusion proofs validates,
//    whatever mix of proof axes, and neither after swapping two shares, dropping shares down to half, or re-labelling
//    the index;
//  - completeness: after corrupting more than half of one row/column (data part only), the proof for that axis built
//    from real inclusion proofs validates, for every mix of proof axes the helper draws.
// A panic of the nmt-rs dependency (finding D17) counts as "rejected"; any other panic is a witness.
// ---------------------------------------------------------------------------------------------
fn c07_validates(p: &BadEncodingFraudProof, eh: &ExtendedHeader) -> bool {
    let (p, eh) = (p.clone(), eh.clone());
    match std::panic::catch_unwind(move || p.validate(&eh).is_ok()) {
        Ok(b) => b,
        Err(e) => {
            let msg = e.downcast_ref::<String>().cloned().or_else(|| e.downcast_ref::<&str>().map(|s| s.to_string())).unwrap_or_default();
            if msg.contains("left max namespace must be <= right min namespace") { false } else { println!("WITNESS C07/C16: BadEncodingFraudProof::validate panicked: {msg}"); panic!("witness"); }
        }
    }
}

#[test]
fn verif_enum_befp() {
    use crate::consts::appconsts::{FIRST_SPARSE_SHARE_CONTENT_SIZE, SHARE_SIZE};
    let mut cases = 0u64;
    for width in [4usize, 8] {
        let mut generator = ExtendedHeaderGenerator::new();
        let eds = generate_dummy_eds(width, AppVersion::V2);
        let dah = DataAvailabilityHeader::from_eds(&eds);
        let eh = generator.next_with_dah(dah);
        let w = eds.square_width();
        for axis in [AxisType::Row, AxisType::Col] { for idx in 0..w { for _rep in 0..6 {
            let honest = befp_from_header_and_eds(&eh, &eds, idx, axis);
            cases += 1;
            if c07_validates(&honest, &eh) { println!("WITNESS C07: a fraud proof for {axis:?} {idx} of an HONESTLY encoded {width}x{width} block validates"); panic!("witness"); }
            // permutations, omissions, re-labelled index
            for (a, b) in [(0usize, 1usize), (0, usize::from(w) - 1), (1, 2)] {
                cases += 1;
                let mut f = honest.clone(); f.shares.swap(a, b);
                if c07_validates(&f, &eh) { println!("WITNESS C07: honest block, proof for {axis:?} {idx} with shares {a} and {b} swapped validates (width {width})"); panic!("witness"); }
            }
            cases += 1;
            let mut f = honest.clone(); for k in 0..usize::from(w) / 2 { f.shares[2 * k] = None; }
            if c07_validates(&f, &eh) { println!("WITNESS C07: honest block, proof for {axis:?} {idx} with every other share omitted validates (width {width})"); panic!("witness"); }
            cases += 1;
            let mut f = honest.clone(); f.index = (idx + 1) % w;
            if c07_validates(&f, &eh) { println!("WITNESS C07: honest block, proof for {axis:?} {idx} re-labelled as index {} validates (width {width})", f.index); panic!("witness"); }
        }}}
        // completeness: corrupt one axis at a time
        for axis in [AxisType::Row, AxisType::Col] { for idx in 0..w {
            let mut bad = eds.clone();
            for k in 0..=w / 2 {
                let share = match axis { AxisType::Row => bad.share_mut(idx, k).unwrap(), AxisType::Col => bad.share_mut(k, idx).unwrap() };
                let offset = SHARE_SIZE - FIRST_SPARSE_SHARE_CONTENT_SIZE;
                for (j, byte) in share.as_mut()[offset..].iter_mut().enumerate() { *byte = byte.wrapping_add(1 + (j as u8 & 3)); }
            }
            let bad_dah = DataAvailabilityHeader::from_eds(&bad);
            let bad_eh = generator.next_with_dah(bad_dah);
            for _rep in 0..4 {
                cases += 1;
                let proof = befp_from_header_and_eds(&bad_eh, &bad, idx, axis);
                if !c07_validates(&proof, &bad_eh) { println!("WITNESS C07: {axis:?} {idx} of a {width}x{width} block is corrupted in {} shares but the fraud proof carrying all its shares is rejected", w / 2 + 1); panic!("witness"); }
            }
        }}
    }
    println!("ENUM-OK cases={cases}");
}
