// Bounded stand-in / witness finder for C11 (the byte-exact half that is not under contract): every data length
// 1..=3000 and a sample of larger ones, without signer (share version 0) and with signer (share version 1):
// shares_len() == to_shares().len(), reconstruct(to_shares(blob)) == blob; plus reconstruct_all over several blobs
// interleaved with reserved-namespace shares.
use crate::consts::appconsts::AppVersion;
use crate::nmt::Namespace;
use crate::state::AccAddress;
use crate::{Blob, Share};

#[test]
fn verif_enum_blob_roundtrip() {
    let ns = Namespace::new_v0(&[9, 8, 7]).unwrap();
    let signer = AccAddress::new(tendermint::account::Id::new([7u8; 20]));
    let mut cases = 0u64;
    let mut lens: Vec<usize> = (1..=3000).collect();
    lens.extend([4096, 10_000, 65_535, 65_536, 100_000, 478 * 3 + 482 * 200 + 1]);
    for len in lens {
        for with_signer in [false, true] {
            cases += 1;
            let data: Vec<u8> = (0..len).map(|i| (i * 31 + len) as u8).collect();
            let blob = Blob::new(ns, data, if with_signer { Some(signer.clone()) } else { None }, AppVersion::V3).unwrap();
            let shares = blob.to_shares().unwrap();
            if blob.shares_len() != shares.len() { println!("WITNESS C11: blob of {len} bytes (signer: {with_signer}): shares_len() = {} but to_shares() produces {} shares", blob.shares_len(), shares.len()); panic!("witness"); }
            match Blob::reconstruct(shares.iter(), AppVersion::V3) {
                Ok(back) => if back != blob { println!("WITNESS C11: blob of {len} bytes (signer: {with_signer}) does not round-trip through to_shares/reconstruct (data len {} -> {})", blob.data.len(), back.data.len()); panic!("witness"); },
                Err(e) => { println!("WITNESS C11: blob of {len} bytes (signer: {with_signer}) cannot be reconstructed from its own shares: {e}"); panic!("witness"); }
            }
        }
    }
    // reconstruct_all: blobs around the share-size boundaries, interleaved with reserved-namespace shares
    for base in [1usize, 457, 458, 459, 477, 478, 479, 960, 961] {
        cases += 1;
        let blobs: Vec<Blob> = (0..4).map(|k| {
            let l = base + k * 7;
            Blob::new(Namespace::new_v0(&[1, k as u8 + 1]).unwrap(), vec![k as u8 + 1; l], if k % 2 == 1 { Some(signer.clone()) } else { None }, AppVersion::V3).unwrap()
        }).collect();
        let mut all: Vec<Share> = Vec::new();
        // reserved-namespace shares as they occur in a square: a primary reserved sequence start (transactions /
        // pay-for-blob), secondary reserved ones (tail padding: sequence start with length 0; another v255 namespace),
        // continuation shares of both kinds, and a parity share
        let mk = |ns: Namespace, info: u8, fill: u8| { let mut raw = vec![fill; 512]; raw[..29].copy_from_slice(ns.as_bytes()); raw[29] = info; if info & 1 == 1 { raw[30..34].copy_from_slice(&0u32.to_be_bytes()); } Share::from_raw(&raw) };
        let reserved: Vec<Share> = [
            mk(Namespace::PAY_FOR_BLOB, 1, 0), mk(Namespace::PAY_FOR_BLOB, 0, 0xcd), mk(Namespace::TRANSACTION, 1, 0),
            mk(Namespace::TAIL_PADDING, 1, 0), mk(Namespace::TAIL_PADDING, 0, 0), mk(Namespace::const_v255(0x10), 1, 0xab),
        ].into_iter().filter_map(|s| s.ok()).chain(Share::parity(&[0x5a; 512]).ok()).collect();
        for (i, b) in blobs.iter().enumerate() { all.push(reserved[(i + base) % reserved.len()].clone()); all.extend(b.to_shares().unwrap()); all.push(reserved[(i + base + 3) % reserved.len()].clone()); }
        match Blob::reconstruct_all(all.iter(), AppVersion::V3) {
            Ok(back) => if back != blobs { println!("WITNESS C11: reconstruct_all over 4 blobs of {base}.. bytes returns {} blobs / different content", back.len()); panic!("witness"); },
            Err(e) => { println!("WITNESS C11: reconstruct_all over 4 blobs of {base}.. bytes failed: {e}"); panic!("witness"); }
        }
    }
    println!("ENUM-OK cases={cases}");
}
