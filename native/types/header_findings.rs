// Native replays for the C01 obligations that cannot be discharged (findings D14, D15) and related witness checks.
// Included from types/src/test_utils.rs only with `--cfg lumina_verif` (test builds, feature test-utils).
use super::*;
use tendermint::block::CommitSig;

fn multi_validator_header(n: usize) -> (ExtendedHeader, Vec<SigningKey>) { multi_validator_header_pow(n, 100) }
fn multi_validator_header_pow(n: usize, power: u32) -> (ExtendedHeader, Vec<SigningKey>) { multi_validator_header_with(n, power, |_| {}) }
// `tweak` runs after the header fields are set and BEFORE the block hash is taken and the commit is signed: the result is a
// header that is consistently hashed and signed by its validators, whatever the tweak did
fn multi_validator_header_with(n: usize, power: u32, tweak: impl Fn(&mut ExtendedHeader)) -> (ExtendedHeader, Vec<SigningKey>) {
    // start from a generated single-validator header and rebuild validator set + commit for n equal validators
    let mut generator = ExtendedHeaderGenerator::new();
    let mut header = generator.next();
    let keys: Vec<SigningKey> = (0..n).map(|_| SigningKey::new(rand::thread_rng())).collect();
    let infos: Vec<tendermint::validator::Info> = keys
        .iter()
        .map(|k| {
            let pk = PublicKey::from_raw_ed25519(&k.verification_key().to_bytes()).unwrap();
            tendermint::validator::Info {
                address: tendermint::account::Id::from(pk),
                pub_key: pk,
                power: power.into(),
                name: None,
                proposer_priority: 0_i64.into(),
            }
        })
        .collect();
    header.validator_set = ValidatorSet::new(infos.clone(), Some(infos[0].clone()));
    // tendermint sorts validators (by power, then address): take the set's own order
    let ordered: Vec<tendermint::validator::Info> = header.validator_set.validators().to_vec();
    let (ts, _) = match &header.commit.signatures[0] {
        CommitSig::BlockIdFlagCommit { timestamp, .. } => (*timestamp, ()),
        _ => panic!("unexpected"),
    };
    header.header.proposer_address = ordered[0].address;
    header.commit.signatures = ordered
        .iter()
        .map(|v| CommitSig::BlockIdFlagCommit { validator_address: v.address, timestamp: ts, signature: None })
        .collect();
    header.header.validators_hash = header.validator_set.hash();
    header.header.next_validators_hash = header.validator_set.hash();
    header.header.data_hash = Some(header.dah.hash());
    tweak(&mut header);
    header.commit.block_id.hash = header.header.hash();
    for (i, v) in ordered.iter().enumerate() {
        let key = keys
            .iter()
            .find(|k| PublicKey::from_raw_ed25519(&k.verification_key().to_bytes()).unwrap() == v.pub_key)
            .unwrap();
        let bytes = header.commit.vote_sign_bytes(&header.header.chain_id, i).unwrap();
        let sig = key.sign(&bytes).to_bytes();
        if let CommitSig::BlockIdFlagCommit { signature, .. } = &mut header.commit.signatures[i] {
            *signature = Some(Signature::new(sig).unwrap().unwrap());
        }
    }
    (header, keys)
}

// D15: the validator address of a commit signature is not bound by validation
#[test]
fn verif_c01_validator_address_not_bound() {
    let (header, _) = multi_validator_header(1);
    header.validate().expect("honest header validates");
    let mut mutated = header.clone();
    if let CommitSig::BlockIdFlagCommit { validator_address, .. } = &mut mutated.commit.signatures[0] {
        let mut raw = validator_address.as_bytes().to_vec();
        raw[0] ^= 0xff;
        *validator_address = tendermint::account::Id::try_from(raw).unwrap();
    }
    assert_ne!(format!("{:?}", header.commit.signatures[0]), format!("{:?}", mutated.commit.signatures[0]));
    match mutated.validate() {
        Ok(()) => println!("WITNESS C01/D15: commit.signatures[0].validator_address changed (first byte flipped) and ExtendedHeader::validate() still returns Ok"),
        Err(e) => println!("NO-WITNESS D15: mutated header rejected: {e}"),
    }
}

// D14: commit signatures after the 2/3 threshold has been reached are never checked
#[test]
fn verif_c01_trailing_signature_not_checked() {
    let (header, _) = multi_validator_header(4);
    header.validate().expect("honest 4-validator header validates");
    let mut mutated = header.clone();
    if let CommitSig::BlockIdFlagCommit { signature, .. } = &mut mutated.commit.signatures[3] {
        let mut raw = signature.as_ref().unwrap().as_bytes().to_vec();
        raw[5] ^= 0x01;
        *signature = Some(Signature::new(raw).unwrap().unwrap());
    }
    match mutated.validate() {
        Ok(()) => println!("WITNESS C01/D14: 4 validators of equal power, signature of commit entry 3 corrupted (one bit) and ExtendedHeader::validate() still returns Ok (3/4 > 2/3 reached after entry 2)"),
        Err(e) => println!("NO-WITNESS D14: mutated header rejected: {e}"),
    }
    // the same mutation on entry 0 is rejected
    let mut m0 = header.clone();
    if let CommitSig::BlockIdFlagCommit { signature, .. } = &mut m0.commit.signatures[0] {
        let mut raw = signature.as_ref().unwrap().as_bytes().to_vec();
        raw[5] ^= 0x01;
        *signature = Some(Signature::new(raw).unwrap().unwrap());
    }
    assert!(m0.validate().is_err());
}

// ---------------------------------------------------------------------------------------------
// C13 replays
// ---------------------------------------------------------------------------------------------
// D1: a merkle proof whose index is not below its leaf count must not verify
#[test]
fn verif_c13_index_not_below_total() {
    use tendermint::crypto::default::Sha256;
    use tendermint::merkle::MerkleHash;
    let leaf = b"a";
    let root = Sha256::default().leaf_hash(leaf);
    let proof = crate::MerkleProof { index: 5, total: 1, leaf_hash: root, aunts: vec![] };
    match proof.verify(leaf, root) {
        Ok(()) => println!("WITNESS C13/D1: MerkleProof {{ index: 5, total: 1, aunts: [] }}.verify(leaf, leaf_hash(leaf)) returns Ok although index >= total"),
        Err(e) => println!("NO-WITNESS D1: rejected: {e}"),
    }
    let (p, r) = crate::MerkleProof::new(1, &[b"a", b"b"]).unwrap();
    let forged = crate::MerkleProof { index: 3, ..p.clone() };
    match forged.verify(b"b", r) {
        Ok(()) => println!("WITNESS C13/D1: proof for leaf 1 of 2 re-labelled index 3 (total 2) verifies"),
        Err(e) => println!("NO-WITNESS D1 (second form): rejected: {e}"),
    }
}

// D2: a row span of 65536 rows (0..=65535) must not panic and must not be accepted with zero roots
#[test]
fn verif_c13_row_span_overflow() {
    use celestia_proto::celestia::core::v1::proof::RowProof as RawRowProof;
    let raw = RawRowProof { row_roots: vec![], proofs: vec![], root: vec![], start_row: 0, end_row: 65535 };
    let proof = crate::RowProof::try_from(raw).unwrap();
    let res = std::panic::catch_unwind(|| proof.verify(tendermint::Hash::Sha256([7u8; 32])));
    match res {
        Err(_) => println!("WITNESS C13/D2: RowProof {{ start_row: 0, end_row: 65535, no roots }}.verify() panics (u16 overflow in end_row - start_row + 1)"),
        Ok(Ok(())) => println!("WITNESS C13/D2: RowProof claiming rows 0..=65535 with zero roots verifies"),
        Ok(Err(e)) => println!("NO-WITNESS D2: rejected: {e}"),
    }
}

// ---------------------------------------------------------------------------------------------
// C11 replay. D7: shares_len() must equal the number of shares produced
// ---------------------------------------------------------------------------------------------
#[test]
fn verif_c11_shares_len_with_signer() {
    use crate::state::AccAddress;
    let ns = Namespace::new_v0(&[1, 2, 3]).unwrap();
    let signer = AccAddress::new(tendermint::account::Id::new([7u8; 20]));
    let mut bad = Vec::new();
    for len in 440usize..500 {
        let blob = crate::Blob::new(ns, vec![0xAB; len], Some(signer.clone()), AppVersion::V3).unwrap();
        let produced = blob.to_shares().unwrap().len();
        if blob.shares_len() != produced { bad.push((len, blob.shares_len(), produced)); }
    }
    if bad.is_empty() { println!("NO-WITNESS D7: shares_len agrees with to_shares for signer blobs of 440..500 bytes"); }
    else { println!("WITNESS C11/D7: blob with signer: (data len, shares_len(), to_shares().len()) = {:?} ... {} lengths in total", &bad[..bad.len().min(3)], bad.len()); }
}

// ---------------------------------------------------------------------------------------------
// C04 replays. D5: a sample must verify only for ITS coordinates; D12: from_raw must not panic on long sibling lists
// ---------------------------------------------------------------------------------------------
#[test]
fn verif_c04_sample_position_not_bound() {
    use crate::sample::{Sample, SampleId};
    use crate::eds::AxisType;
    let eds = generate_dummy_eds(4, AppVersion::V2);
    let dah = DataAvailabilityHeader::from_eds(&eds);
    // honest sample of (row 0, col 1) with a row proof ...
    let sample = Sample::new(0, 1, AxisType::Row, &eds).unwrap();
    sample.verify(SampleId::new(0, 1, 1).unwrap(), &dah).expect("honest sample verifies");
    // ... presented for other columns of the same row
    let mut accepted = vec![];
    for col in [0u16, 2, 3] {
        if sample.verify(SampleId::new(0, col, 1).unwrap(), &dah).is_ok() { accepted.push(col); }
    }
    // column proof of (1,2) presented for another row of the same column
    let csample = Sample::new(1, 2, AxisType::Col, &eds).unwrap();
    let mut caccepted = vec![];
    for row in [0u16, 2, 3] {
        if csample.verify(SampleId::new(row, 2, 1).unwrap(), &dah).is_ok() { caccepted.push(row); }
    }
    if accepted.is_empty() && caccepted.is_empty() { println!("NO-WITNESS D5: samples are rejected for foreign coordinates"); }
    else { println!("WITNESS C04/D5: row-proof sample of (0,1) verifies for SampleId (0,{accepted:?}); column-proof sample of (1,2) verifies for SampleId ({caccepted:?},2)"); }
}

#[test]
fn verif_c04_from_raw_many_siblings() {
    use crate::sample::{Sample, SampleId};
    use celestia_proto::shwap::{Sample as RawSample, Share as RawShare};
    use celestia_proto::proof::pb::Proof as RawProof;
    let raw = RawSample {
        share: Some(RawShare { data: vec![0u8; 512] }),
        proof: Some(RawProof { start: 0, end: 1, nodes: vec![vec![0u8; 90]; 64], leaf_hash: vec![], is_max_namespace_ignored: true }),
        proof_type: 0,
    };
    let res = std::panic::catch_unwind(|| Sample::from_raw(SampleId::new(0, 0, 1).unwrap(), raw).map(|_| ()));
    match res {
        Err(_) => println!("WITNESS C04/D12: Sample::from_raw with 64 proof nodes panics (shift overflow in NamespaceProof::total_leaves)"),
        Ok(r) => println!("NO-WITNESS D12: from_raw returned {:?}", r.map_err(|e| e.to_string())),
    }
}

// further native checks of the types crate share this hook
mod verif_shwap {
    include!(concat!(env!("LUMINA_VERIF_DIR"), "/native/types/shwap.rs"));
}
mod verif_merkle {
    include!(concat!(env!("LUMINA_VERIF_DIR"), "/native/types/merkle.rs"));
}

// ---------------------------------------------------------------------------------------------
// Witness finder / bounded stand-in for C01, C02, C03: validator sets of 1..=7 equal-power validators with every
// subset-prefix of signatures present; single-field mutations of an honest header; links between generated headers.
// (The two known findings D14 / D15 - trailing signatures and validator addresses - are excluded by construction: the
// mutations here touch only entries that are needed to reach the threshold, and never the address.)
// ---------------------------------------------------------------------------------------------
#[test]
fn verif_enum_header_validation() {
    let mut cases = 0u64;
    // C03: with n equal validators and the first k signatures present (the rest absent), the header validates iff 3k > 2n
    for n in 1usize..=7 {
        let (header, _) = multi_validator_header(n);
        header.validate().expect("honest header validates");
        for k in 0..=n {
            cases += 1;
            let mut h = header.clone();
            for i in k..n { h.commit.signatures[i] = CommitSig::BlockIdFlagAbsent; }
            let ok = h.validate().is_ok();
            let want = 3 * k > 2 * n;
            if ok != want { println!("WITNESS C03: {n} validators of equal power, {k} signatures present: validate() accepted={ok}, the 2/3 rule says {want}"); panic!("witness"); }
        }
        // a needed signature corrupted -> rejected (entry 0 is always needed when the header validates)
        cases += 1;
        let mut h = header.clone();
        if let CommitSig::BlockIdFlagCommit { signature, .. } = &mut h.commit.signatures[0] {
            let mut raw = signature.as_ref().unwrap().as_bytes().to_vec(); raw[7] ^= 0x10; *signature = Some(Signature::new(raw).unwrap().unwrap());
        }
        if h.validate().is_ok() { println!("WITNESS C01: signature of commit entry 0 corrupted ({n} validators) and validate() still accepts"); panic!("witness"); }
    }
    // C03 at fine granularity: validators of power 1, where floor(2*total/3) differs from 2*floor(total/3)
    for n in [5usize, 8, 11, 14] {
        let (header, _) = multi_validator_header_pow(n, 1);
        for k in 0..=n {
            cases += 1;
            let mut h = header.clone();
            for i in k..n { h.commit.signatures[i] = CommitSig::BlockIdFlagAbsent; }
            let ok = h.validate().is_ok();
            let want = 3 * k > 2 * n;
            if ok != want { println!("WITNESS C03: {n} validators of power 1, {k} signatures present: validate() accepted={ok}, the 2/3 rule says {want}"); panic!("witness"); }
        }
    }
    // C01: single-field mutations of an honest 3-validator header
    let (header, _) = multi_validator_header(3);
    let muts: Vec<(&str, Box<dyn Fn(&mut ExtendedHeader)>)> = vec![
        ("header.height + 1", Box::new(|h| { h.header.height = (h.header.height.value() + 1).try_into().unwrap(); })),
        ("header.chain_id", Box::new(|h| { h.header.chain_id = "other-chain".try_into().unwrap(); })),
        ("header.data_hash", Box::new(|h| { h.header.data_hash = Some(tendermint::Hash::Sha256([9u8; 32])); })),
        ("header.app_hash", Box::new(|h| { h.header.app_hash = vec![1, 2, 3].try_into().unwrap(); })),
        ("header.validators_hash", Box::new(|h| { h.header.validators_hash = tendermint::Hash::Sha256([4u8; 32]); })),
        ("header.time + 1s", Box::new(|h| { h.header.time = (h.header.time + std::time::Duration::from_secs(1)).unwrap(); })),
        ("commit.height", Box::new(|h| { h.commit.height = (h.commit.height.value() + 1).try_into().unwrap(); })),
        ("commit.round", Box::new(|h| { h.commit.round = 7u16.into(); })),
        ("commit.block_id.hash", Box::new(|h| { h.commit.block_id.hash = tendermint::Hash::Sha256([5u8; 32]); })),
        ("dah: first row root replaced by the second", Box::new(|h| { let mut rows = h.dah.row_roots().to_vec(); let cols = h.dah.column_roots().to_vec(); if rows.len() >= 2 && rows[0] != rows[1] { rows[0] = rows[1].clone(); } else { rows.swap(0, 1); } h.dah = DataAvailabilityHeader::new_unchecked(rows, cols); })),
        ("dah: last column root dropped", Box::new(|h| { let rows = h.dah.row_roots().to_vec(); let mut cols = h.dah.column_roots().to_vec(); cols.pop(); h.dah = DataAvailabilityHeader::new_unchecked(rows, cols); })),
        ("validator 0 power + 1", Box::new(|h| { let mut v = h.validator_set.validators().to_vec(); v[0].power = (v[0].power.value() + 1).try_into().unwrap(); h.validator_set = ValidatorSet::new(v.clone(), Some(v[0].clone())); })),
        ("commit entry 0 timestamp + 1s", Box::new(|h| { if let CommitSig::BlockIdFlagCommit { timestamp, .. } = &mut h.commit.signatures[0] { *timestamp = (*timestamp + std::time::Duration::from_secs(1)).unwrap(); } })),
    ];
    for (what, m) in muts.iter() {
        cases += 1;
        let mut h = header.clone();
        m(&mut h);
        let r = std::panic::catch_unwind(std::panic::AssertUnwindSafe(|| h.validate().is_ok()));
        match r { Ok(false) => {}, Ok(true) => { println!("WITNESS C01: honest header with `{what}` changed still validates"); panic!("witness"); }
                  Err(_) => { println!("WITNESS C01/C16: validate() panicked after changing `{what}`"); panic!("witness"); } }
    }
    // C01: headers that are consistently hashed and signed by their own validators but do not commit to their DAH
    let signed_variants: Vec<(&str, Box<dyn Fn(&mut ExtendedHeader)>)> = vec![
        ("no data hash at all", Box::new(|h| { h.header.data_hash = None; })),
        ("the data hash of another square", Box::new(|h| { h.header.data_hash = Some(tendermint::Hash::Sha256([3u8; 32])); })),
        ("a validators_hash of another set", Box::new(|h| { h.header.validators_hash = tendermint::Hash::Sha256([6u8; 32]); })),
        // C16 (seed C16-b): a consistently signed header with an app version this node does not know must be an error, not a panic
        ("an unsupported app version (0)", Box::new(|h| { h.header.version.app = 0; })),
        ("an unsupported app version (99)", Box::new(|h| { h.header.version.app = 99; })),
    ];
    for (what, t) in signed_variants.iter() {
        cases += 1;
        let (h, _) = multi_validator_header_with(3, 100, t);
        let r = std::panic::catch_unwind(std::panic::AssertUnwindSafe(|| h.validate().is_ok()));
        match r { Ok(false) => {}, Ok(true) => { println!("WITNESS C01: a header signed by its validators over `{what}` validates although its DAH / validator set is not the one it commits to"); panic!("witness"); }
                  Err(_) => { println!("WITNESS C01/C16: validate() panicked on a signed header with `{what}`"); panic!("witness"); } }
    }
    // C02: generated chains verify link by link; a header does not verify against itself, a non-adjacent older one, or a
    // successor from another chain
    let mut generator = ExtendedHeaderGenerator::new();
    let chain = generator.next_many(6);
    let mut other = ExtendedHeaderGenerator::new();
    let foreign = other.next_many(6);
    for i in 0..5 {
        cases += 1;
        if chain[i].verify(&chain[i + 1]).is_err() { println!("WITNESS C02: header {} does not verify its generated successor", i + 1); panic!("witness"); }
        if chain[i].verify_adjacent(&chain[i + 1]).is_err() { println!("WITNESS C02: verify_adjacent rejects the generated successor of header {}", i + 1); panic!("witness"); }
        cases += 3;
        if chain[i].verify(&chain[i]).is_ok() { println!("WITNESS C02: header {} verifies itself as a successor", i + 1); panic!("witness"); }
        if chain[i + 1].verify(&chain[i]).is_ok() { println!("WITNESS C02: header {} verifies its predecessor as a successor", i + 2); panic!("witness"); }
        if chain[i].verify_adjacent(&foreign[i + 1]).is_ok() { println!("WITNESS C02: header {} accepts the height-{} header of another chain as its adjacent successor", i + 1, i + 2); panic!("witness"); }
    }
    cases += 2;
    if chain[0].verify_adjacent_range(&chain[1..]).is_err() { println!("WITNESS C02: verify_adjacent_range rejects a generated chain"); panic!("witness"); }
    let mut broken = chain[1..].to_vec(); broken.remove(2);
    if chain[0].verify_adjacent_range(&broken).is_ok() { println!("WITNESS C02: verify_adjacent_range accepts a chain with a missing header"); panic!("witness"); }
    println!("ENUM-OK cases={cases}");
}
mod verif_blob_roundtrip {
    include!(concat!(env!("LUMINA_VERIF_DIR"), "/native/types/blob_roundtrip.rs"));
}
mod verif_ids {
    include!(concat!(env!("LUMINA_VERIF_DIR"), "/native/types/ids.rs"));
}
