// Witness finder / bounded stand-in for C13 (merkle / row proofs are position-binding). Trees of 1..=9 leaves.
use tendermint::crypto::default::Sha256;
use tendermint::merkle::MerkleHash;
use crate::consts::appconsts::AppVersion;
use crate::test_utils::generate_dummy_eds;
use crate::{DataAvailabilityHeader, MerkleProof};

#[test]
fn verif_enum_merkle_proofs() {
    let mut cases = 0u64;
    for total in 1usize..=9 {
        let leaves: Vec<Vec<u8>> = (0..total).map(|i| vec![i as u8, 0xAB, (total * 7 + i) as u8]).collect();
        for index in 0..total {
            let (proof, root) = MerkleProof::new(index, &leaves).unwrap();
            cases += 1;
            if proof.verify(&leaves[index], root).is_err() { println!("WITNESS C13: honest merkle proof for leaf {index} of {total} rejected"); panic!("witness"); }
            // the same proof must not verify for another leaf, another index, another total or another root
            for other in 0..total { if other != index { cases += 1; if proof.verify(&leaves[other], root).is_ok() { println!("WITNESS C13: proof for leaf {index} of {total} verifies leaf {other}"); panic!("witness"); } } }
            for idx2 in 0..total + 9 {
                if idx2 == index { continue; }
                cases += 1;
                let forged = MerkleProof { index: idx2, ..proof.clone() };
                let r = std::panic::catch_unwind(|| forged.verify(&leaves[index], root).is_ok());
                match r { Ok(false) => {}, Ok(true) => { println!("WITNESS C13: proof for leaf {index} of {total} re-labelled as index {idx2} verifies"); panic!("witness"); }
                          Err(_) => { println!("WITNESS C13/C16: MerkleProof::verify panicked for index {idx2}, total {total}"); panic!("witness"); } }
            }
            for tot2 in 1..total + 9 {   // total >= 1 is guaranteed by the wire decoder (TryFrom<RawMerkleProof>)
                if tot2 == total { continue; }
                cases += 1;
                let forged = MerkleProof { total: tot2, ..proof.clone() };
                let r = std::panic::catch_unwind(|| forged.verify(&leaves[index], root).is_ok());
                // (acceptance under another leaf count is not a violation by itself: the root of a 3-leaf tree is not the
                // root of any 4-leaf list, so nothing false is proved; only a panic is reported)
                match r { Ok(_) => {},
                          Err(_) => { println!("WITNESS C13/C16: MerkleProof::verify panicked for index {index}, total {tot2}"); panic!("witness"); } }
            }
            // a dropped / surplus aunt
            if !proof.aunts.is_empty() {
                cases += 1;
                let mut p = proof.clone(); p.aunts.pop();
                if p.verify(&leaves[index], root).is_ok() { println!("WITNESS C13: proof with its last aunt dropped verifies"); panic!("witness"); }
            }
            cases += 1;
            let mut p = proof.clone(); p.aunts.push(Sha256::default().leaf_hash(b"x").into());
            if std::panic::catch_unwind(|| p.verify(&leaves[index], root).is_ok()).unwrap_or(true) { println!("WITNESS C13: proof with a surplus aunt verifies or panics"); panic!("witness"); }
        }
    }
    // row proofs of a real DAH: every span of rows verifies against the DAH hash; shifted spans and foreign roots do not
    for width in [2usize, 4] {
        let eds = generate_dummy_eds(width, AppVersion::V2);
        let dah = DataAvailabilityHeader::from_eds(&eds);
        let w = eds.square_width();
        let root = dah.hash();
        for a in 0..w { for b in a..w {
            cases += 1;
            let rp = dah.row_proof(a..=b).unwrap();
            if rp.verify(root).is_err() { println!("WITNESS C13: honest row proof for rows {a}..={b} rejected"); panic!("witness"); }
            cases += 1;
            let other = DataAvailabilityHeader::from_eds(&generate_dummy_eds(width, AppVersion::V2)).hash();
            if other != root && rp.verify(other).is_ok() { println!("WITNESS C13: row proof verifies against a foreign data root"); panic!("witness"); }
        }}
    }
    println!("ENUM-OK cases={cases}");
}
