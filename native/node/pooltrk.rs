// Witness finder / bounded stand-in for C40 on the real PoolTracker<InMemoryStore> (child module of pool_tracker::tests):
// random interleavings of ShrEx/Sub notifications (right / wrong data hashes, repeated votes, stale and future heights)
// with header arrivals; after every step every height is queried.
use super::*;

struct XorShiftT(u64);
impl XorShiftT {
    fn next(&mut self) -> u64 { self.0 ^= self.0 << 13; self.0 ^= self.0 >> 7; self.0 ^= self.0 << 17; self.0 }
    fn below(&mut self, n: u64) -> u64 { self.next() % n }
}

#[async_test]
async fn verif_model_pool_tracker() {
    let seed: u64 = std::env::var("VERIF_SEED").ok().and_then(|s| s.parse().ok()).unwrap_or(0);
    let rounds: u64 = std::env::var("VERIF_ROUNDS").ok().and_then(|s| s.parse().ok()).unwrap_or(25);
    let mut queries = 0u64;
    for round in 0..rounds {
        let mut rng = XorShiftT(0x94D049BB133111EB ^ seed.wrapping_mul(4099).wrapping_add(round + 1));
        let (mut tracker, store, mut g) = setup_tracker(10).await;
        let mut head = 10u64;
        let upcoming: Vec<ExtendedHeader> = (0..20).map(|_| g.next()).collect();   // heights 11..=30
        let hash_of = |h: u64| upcoming[(h - 11) as usize].header.data_hash.unwrap();
        let wrong = [Hash::Sha256([1u8; 32]), Hash::Sha256([2u8; 32])];
        let peers: Vec<PeerId> = (0..6).map(|_| PeerId::random()).collect();
        // the oracle: what the property says about each tracked height
        struct PoolModel { voted: HashSet<PeerId>, right: HashSet<PeerId>, wrong: HashSet<PeerId>, validated: bool }
        let mut pools: HashMap<u64, PoolModel> = HashMap::new();
        let mut tasks: HashSet<u64> = HashSet::new();     // heights whose header the tracker waits for
        let mut sub_head = 10u64;                           // newest height validated by the tracker
        for step in 0..80u64 {
            let ctx = format!("seed {seed}, round {round}, step {step}");
            let mut must_block: Vec<(PeerId, String)> = Vec::new();
            if rng.below(4) == 0 && head < 30 {
                // the next header arrives in the store
                head += 1;
                store.insert(upcoming[(head - 11) as usize].clone()).await.unwrap();
            } else {
                let p = peers[rng.below(6) as usize];
                let lo = sub_head.saturating_sub(12).max(11);
                let h = (lo + rng.below(20)).min(30);
                // a wrong hash is a foreign one or the (right) data hash of a neighbouring height
                let x = match rng.below(6) { 0 | 1 | 2 => hash_of(h), 3 => wrong[rng.below(2) as usize], _ => hash_of(if h > 11 { h - 1 } else { h + 1 }) };
                tracker.add_peer_for_hash(p, x, h);
                if h > sub_head.saturating_sub(10) {
                    if !pools.contains_key(&h) { tasks.insert(h); }
                    let pool = pools.entry(h).or_insert_with(|| PoolModel { voted: HashSet::new(), right: HashSet::new(), wrong: HashSet::new(), validated: false });
                    if pool.validated {
                        if x == hash_of(h) { pool.right.insert(p); } else { must_block.push((p, format!("announced another hash for the validated height {h}"))); }
                    } else if !pool.voted.insert(p) {
                        must_block.push((p, format!("announced twice for height {h}")));
                    } else if x == hash_of(h) { pool.right.insert(p); } else { pool.wrong.insert(p); }
                }
            }
            let events = poll_until_pending(&mut tracker).await;
            // headers that arrived for tracked heights (in an unspecified order)
            let done: Vec<u64> = tasks.iter().copied().filter(|h| *h <= head).collect();
            if let Some(m) = done.iter().copied().max() { sub_head = sub_head.max(m); }
            for h in done {
                tasks.remove(&h);
                if h > sub_head.saturating_sub(10) {
                    if let Some(pool) = pools.get_mut(&h) {
                        if !pool.validated {
                            pool.validated = true;
                            for p in pool.wrong.drain() { must_block.push((p, format!("announced another hash for height {h}, which is validated now"))); }
                        }
                    }
                }
            }
            pools.retain(|h, _| *h > sub_head.saturating_sub(10));
            let blocked: HashSet<PeerId> = events.iter().filter_map(|e| if let Event::BlockPeers(v) = e { Some(v.clone()) } else { None }).flatten().collect();
            for (p, why) in must_block {
                if !blocked.contains(&p) { println!("WITNESS C40: peer {p} {why} but no BlockPeers event names it ({ctx})"); panic!("witness"); }
            }
            // a blocked peer leaves every pool; it may vote again later
            for p in &blocked { for m in pools.values_mut() { m.voted.remove(p); m.right.remove(p); m.wrong.remove(p); } }
            // query every height (must not panic)
            for h in 1..=30u64 {
                queries += 1;
                let res = std::panic::catch_unwind(std::panic::AssertUnwindSafe(|| tracker.get_pool(h).map(|it| it.copied().collect::<Vec<PeerId>>())));
                let res = match res { Ok(r) => r, Err(_) => { println!("WITNESS C40: get_pool({h}) panicked ({ctx})"); panic!("witness"); } };
                match res {
                    Ok(pool) => {
                        if h <= sub_head.saturating_sub(10) { println!("WITNESS C40: height {h} is offered although the newest validated height is {sub_head} ({ctx})"); panic!("witness"); }
                        for p in pool.iter() {
                            if !pools.get(&h).is_some_and(|m| m.validated && m.right.contains(p)) {
                                println!("WITNESS C40: peer {p} is offered for height {h} but it did not announce the data hash of the stored header at that height ({ctx})"); panic!("witness");
                            }
                        }
                    }
                    Err(GetPoolError::HeightTooOld) => if h > sub_head.saturating_sub(10) { println!("WITNESS C40: height {h} reported as too old; newest validated height {sub_head} ({ctx})"); panic!("witness"); },
                    Err(_) => {}
                }
            }
        }
    }
    println!("ENUM-OK cases={queries}");
}
