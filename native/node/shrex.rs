// Bounded stand-in / witness finder for C09 (shrex EDS response). Included at the end of node/src/p2p/shrex/codec.rs only
// with `--cfg lumina_verif` (test builds).
use super::*;
use celestia_types::test_utils::generate_dummy_eds;

#[test]
fn verif_enum_shrex_eds_response() {
    let mut cases = 0u64;
    for width in [2u16, 4, 8] {
        let eds = generate_dummy_eds(usize::from(width), AppVersion::V2);
        let dah = DataAvailabilityHeader::from_eds(&eds);
        let other = DataAvailabilityHeader::from_eds(&generate_dummy_eds(usize::from(width), AppVersion::V2));
        let id = EdsId::new(7).unwrap();
        let payload = <ExtendedDataSquare as ResponseCodec>::encode(&eds);
        let ods = usize::from(width / 2);
        if payload.len() != ods * ods * SHARE_SIZE { println!("WITNESS C09: encoded ODS of width {ods} has {} bytes", payload.len()); panic!("witness"); }
        cases += 1;
        match ExtendedDataSquare::decode_and_verify(&payload, &id, &dah, AppVersion::V2) {
            Ok(e) => if e.data_square() != eds.data_square() { println!("WITNESS C09: honest payload decoded to a different square (width {width})"); panic!("witness"); },
            Err(e) => { println!("WITNESS C09: honest payload of width {width} rejected: {e}"); panic!("witness"); }
        }
        // a different header's DAH
        cases += 1;
        if ExtendedDataSquare::decode_and_verify(&payload, &id, &other, AppVersion::V2).is_ok() { println!("WITNESS C09: payload accepted against another block's DAH (width {width})"); panic!("witness"); }
        // a DAH that agrees with the payload on one axis only (rows of this square, columns of another one, and vice versa)
        let other_eds_dah = &other;
        for (rows, cols, what) in [(dah.row_roots().to_vec(), other_eds_dah.column_roots().to_vec(), "own rows + foreign columns"),
                                   (other_eds_dah.row_roots().to_vec(), dah.column_roots().to_vec(), "foreign rows + own columns")] {
            cases += 1;
            let mixed = DataAvailabilityHeader::new_unchecked(rows, cols);
            if mixed == dah { continue; }
            if ExtendedDataSquare::decode_and_verify(&payload, &id, &mixed, AppVersion::V2).is_ok() { println!("WITNESS C09: payload accepted against a DAH with {what} (width {width})"); panic!("witness"); }
        }
        // every truncation to a whole or partial number of shares, and the empty payload
        for cut in [0usize, 1, SHARE_SIZE - 1, SHARE_SIZE, payload.len() - SHARE_SIZE, payload.len() - 1] {
            if cut >= payload.len() { continue; }
            cases += 1;
            let r = std::panic::catch_unwind(|| ExtendedDataSquare::decode_and_verify(&payload[..cut], &id, &dah, AppVersion::V2).is_ok());
            match r { Ok(false) => {}, Ok(true) => { println!("WITNESS C09: payload truncated to {cut} bytes accepted (width {width})"); panic!("witness"); }
                      Err(_) => { println!("WITNESS C09/C16: decode_and_verify panicked on a payload truncated to {cut} bytes (width {width})"); panic!("witness"); } }
        }
        // one flipped bit in the data part of every share (the namespace prefix is left alone so that the square stays well-formed)
        for share in 0..ods * ods {
            cases += 1;
            let mut p = payload.clone();
            p[share * SHARE_SIZE + SHARE_SIZE - 1] ^= 1;
            let r = std::panic::catch_unwind(|| ExtendedDataSquare::decode_and_verify(&p, &id, &dah, AppVersion::V2).is_ok());
            match r { Ok(false) => {}, Ok(true) => { println!("WITNESS C09: payload with share {share} altered accepted (width {width})"); panic!("witness"); }
                      Err(_) => { println!("WITNESS C09/C16: decode_and_verify panicked on a payload with share {share} altered (width {width})"); panic!("witness"); } }
        }
        // two shares swapped
        if ods >= 2 {
            cases += 1;
            let mut p = payload.clone();
            let (a, b) = (0usize, ods * ods - 1);
            for k in 0..SHARE_SIZE { p.swap(a * SHARE_SIZE + k, b * SHARE_SIZE + k); }
            if p != payload {
                let r = std::panic::catch_unwind(|| ExtendedDataSquare::decode_and_verify(&p, &id, &dah, AppVersion::V2).is_ok());
                match r { Ok(false) => {}, Ok(true) => { println!("WITNESS C09: payload with first and last share swapped accepted (width {width})"); panic!("witness"); }
                          Err(_) => { println!("WITNESS C09/C16: decode_and_verify panicked on a payload with two shares swapped (width {width})"); panic!("witness"); } }
            }
        }
    }
    println!("ENUM-OK cases={cases}");
}
