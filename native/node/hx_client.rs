// Witness finder / bounded stand-in for C28 (header-ex client accepts only well-formed, validated responses). Included
// inside `mod tests` of node/src/p2p/header_ex/client.rs only with `--cfg lumina_verif`.
use super::*;

fn resp_of(h: &ExtendedHeader) -> HeaderResponse { h.to_header_response() }
fn not_found() -> HeaderResponse { HeaderResponse { body: vec![], status_code: StatusCode::NotFound.into() } }
fn garbage() -> HeaderResponse { HeaderResponse { body: vec![1, 2, 3, 4], status_code: StatusCode::Ok.into() } }

#[async_test]
async fn verif_enum_decode_and_verify_responses() {
    let mut generator = ExtendedHeaderGenerator::new();
    let chain = generator.next_many(8);
    let mut bad = chain[3].clone(); invalidate(&mut bad);
    let mut cases = 0u64;
    // every response is a sequence over a small alphabet of entries; every request origin/amount
    #[derive(Clone, Copy, Debug, PartialEq)]
    enum E { H(usize), NotFound, Garbage, Invalid }
    let alphabet = [E::H(0), E::H(1), E::H(2), E::H(3), E::H(5), E::NotFound, E::Garbage, E::Invalid];
    let mut seqs: Vec<Vec<E>> = vec![vec![]];
    for len in 1..=3usize { let prev: Vec<Vec<E>> = seqs.iter().filter(|s| s.len() == len - 1).cloned().collect(); for p in prev { for a in alphabet { let mut q = p.clone(); q.push(a); seqs.push(q); } } }
    for seq in seqs.iter() {
        let responses: Vec<HeaderResponse> = seq.iter().map(|e| match e { E::H(i) => resp_of(&chain[*i]), E::NotFound => not_found(), E::Garbage => garbage(), E::Invalid => resp_of(&bad) }).collect();
        for origin in [1u64, 2, 3] { for amount in [1u64, 2, 3, 4] {
            cases += 1;
            let request = HeaderRequest::with_origin(origin, amount);
            let res = decode_and_verify_responses(&request, &responses).await;
            // the property: accepted only as a non-empty run of validated headers with heights origin, origin+1, ... of at most `amount`
            // a response with more entries than requested is never acceptable, whatever its entries are
            if responses.len() as u64 > amount && res.is_ok() { println!("WITNESS C28: request origin {origin} amount {amount}: a response with {} entries ({seq:?}) was accepted", responses.len()); panic!("witness"); }
            if let Ok(hs) = &res {
                let ok = !hs.is_empty() && hs.len() as u64 <= amount && hs.len() <= responses.len()
                    && hs.iter().enumerate().all(|(i, h)| h.height() == origin + i as u64 && h.validate().is_ok())
                    // every returned header was really sent
                    && hs.iter().all(|h| seq.iter().any(|e| matches!(e, E::H(i) if chain[*i].height() == h.height())));
                if !ok { println!("WITNESS C28: request origin {origin} amount {amount}, response {seq:?}: accepted heights {:?}", hs.iter().map(|h| h.height()).collect::<Vec<_>>()); panic!("witness"); }
            }
            // completeness of the honest case: a valid prefix answer is accepted
            let honest = seq.len() as u64 <= amount && !seq.is_empty() && seq.iter().enumerate().all(|(i, e)| matches!(e, E::H(k) if chain[*k].height() == origin + i as u64));
            if honest && res.is_err() { println!("WITNESS C28: honest answer {seq:?} to origin {origin} amount {amount} rejected"); panic!("witness"); }
        }}
        // hash requests: only a single validated header with that hash
        for want in [0usize, 2] {
            cases += 1;
            let request = HeaderRequest::with_hash(chain[want].hash());
            let res = decode_and_verify_responses(&request, &responses).await;
            if let Ok(hs) = &res { if hs.len() != 1 || hs[0].hash() != chain[want].hash() { println!("WITNESS C28: hash request for header {} answered by {seq:?} accepted", want + 1); panic!("witness"); } }
            if *seq == vec![E::H(want)] && res.is_err() { println!("WITNESS C28: honest hash answer rejected"); panic!("witness"); }
        }
        // head request: a single validated header
        cases += 1;
        let res = decode_and_verify_responses(&HeaderRequest::head_request(), &responses).await;
        if let Ok(hs) = &res { if hs.len() != 1 || hs[0].validate().is_err() { println!("WITNESS C28: head request answered by {seq:?} accepted with {} headers", hs.len()); panic!("witness"); } }
    }
    println!("ENUM-OK cases={cases}");
}
