// Witness finder / bounded stand-in for C28 (header-ex client accepts only well-formed, validated responses). Included
// inside `mod tests` of node/src/p2p/header_ex/client.rs only with `--cfg lumina_verif`.
use super::*;

fn resp_of(h: &ExtendedHeader) -> HeaderResponse { h.to_header_response() }
fn not_found() -> HeaderResponse { HeaderResponse { body: vec![], status_code: StatusCode::NotFound.into() } }
fn garbage() -> HeaderResponse { HeaderResponse { body: vec![1, 2, 3, 4], status_code: StatusCode::Ok.into() } }

#[async_test]
async fn verif_enum_decode_and_verify_responses() {
    let mut generator = ExtendedHeaderGenerator::new();
    let chain = generator.next_many(8);
    let mut bad = chain[3].clone(); invalidate(&mut bad);
    let mut cases = 0u64;
    // every response is a sequence over a small alphabet of entries; every request origin/amount
    #[derive(Clone, Copy, Debug, PartialEq)]
    enum E { H(usize), NotFound, Garbage, Invalid }
    let alphabet = [E::H(0), E::H(1), E::H(2), E::H(3), E::H(5), E::NotFound, E::Garbage, E::Invalid];
    let mut seqs: Vec<Vec<E>> = vec![vec![]];
    for len in 1..=3usize { let prev: Vec<Vec<E>> = seqs.iter().filter(|s| s.len() == len - 1).cloned().collect(); for p in prev { for a in alphabet { let mut q = p.clone(); q.push(a); seqs.push(q); } } }
    for seq in seqs.iter() {
        let responses: Vec<HeaderResponse> = seq.iter().map(|e| match e { E::H(i) => resp_of(&chain[*i]), E::NotFound => not_found(), E::Garbage => garbage(), E::Invalid => resp_of(&bad) }).collect();
        for origin in [1u64, 2, 3] { for amount in [1u64, 2, 3, 4] {
            cases += 1;
            let request = HeaderRequest::with_origin(origin, amount);
            let res = decode_and_verify_responses(&request, &responses).await;
            // the property: accepted only as a non-empty run of validated headers with heights origin, origin+1, ... of at most `amount`
            // a response with more entries than requested is never acceptable, whatever its entries are
            if responses.len() as u64 > amount && res.is_ok() { println!("WITNESS C28: request origin {origin} amount {amount}: a response with {} entries ({seq:?}) was accepted", responses.len()); panic!("witness"); }
            if let Ok(hs) = &res {
                let ok = !hs.is_empty() && hs.len() as u64 <= amount && hs.len() <= responses.len()
                    && hs.iter().enumerate().all(|(i, h)| h.height() == origin + i as u64 && h.validate().is_ok())
                    // every returned header was really sent
                    && hs.iter().all(|h| seq.iter().any(|e| matches!(e, E::H(i) if chain[*i].height() == h.height())));
                if !ok { println!("WITNESS C28: request origin {origin} amount {amount}, response {seq:?}: accepted heights {:?}", hs.iter().map(|h| h.height()).collect::<Vec<_>>()); panic!("witness"); }
            }
            // completeness of the honest case: a valid prefix answer is accepted
            let honest = seq.len() as u64 <= amount && !seq.is_empty() && seq.iter().enumerate().all(|(i, e)| matches!(e, E::H(k) if chain[*k].height() == origin + i as u64));
            if honest && res.is_err() { println!("WITNESS C28: honest answer {seq:?} to origin {origin} amount {amount} rejected"); panic!("witness"); }
        }}
        // hash requests: only a single validated header with that hash
        for want in [0usize, 2] {
            cases += 1;
            let request = HeaderRequest::with_hash(chain[want].hash());
            let res = decode_and_verify_responses(&request, &responses).await;
            if let Ok(hs) = &res { if hs.len() != 1 || hs[0].hash() != chain[want].hash() { println!("WITNESS C28: hash request for header {} answered by {seq:?} accepted", want + 1); panic!("witness"); } }
            if *seq == vec![E::H(want)] && res.is_err() { println!("WITNESS C28: honest hash answer rejected"); panic!("witness"); }
        }
        // head request: a single validated header
        cases += 1;
        let res = decode_and_verify_responses(&HeaderRequest::head_request(), &responses).await;
        if let Ok(hs) = &res { if hs.len() != 1 || hs[0].validate().is_err() { println!("WITNESS C28: head request answered by {seq:?} accepted with {} headers", hs.len()); panic!("witness"); } }
    }
    println!("ENUM-OK cases={cases}");
}

// ---------------------------------------------------------------------------------------------
// Witness finder / bounded stand-in for C32: random peers (connected / archival / trusted flags), several height
// requests, every attempt fails with a retryable outbound failure or a not-found response; all sends are recorded.
// (Recording sender adapted from the demonstration of seed C32-a.)
// ---------------------------------------------------------------------------------------------
#[derive(Default)]
struct RecordingSender { next_id: u64, sent: Vec<(u64, PeerId, u64)> }
impl RequestSender for RecordingSender {
    type RequestId = u64;
    fn send_request(&mut self, peer: &PeerId, request: HeaderRequest) -> u64 {
        let id = self.next_id; self.next_id += 1;
        let origin = match request.data { Some(Data::Origin(o)) => o, _ => 0 };
        self.sent.push((id, *peer, origin));
        id
    }
}
struct XorShiftC(u64);
impl XorShiftC {
    fn next(&mut self) -> u64 { self.0 ^= self.0 << 13; self.0 ^= self.0 >> 7; self.0 ^= self.0 << 17; self.0 }
    fn below(&mut self, n: u64) -> u64 { self.next() % n }
}

#[async_test]
async fn verif_model_header_ex_retries() {
    let seed: u64 = std::env::var("VERIF_SEED").ok().and_then(|s| s.parse().ok()).unwrap_or(0);
    let rounds: u64 = std::env::var("VERIF_ROUNDS").ok().and_then(|s| s.parse().ok()).unwrap_or(150);
    let mut attempts_total = 0u64;
    for round in 0..rounds {
        let mut rng = XorShiftC(0x9E3779B97F4A7C15 ^ seed.wrapping_mul(7001).wrapping_add(round + 1));
        let event_channel = EventChannel::new();
        let mut tracker = PeerTracker::new(event_channel.publisher());
        let mut peers = Vec::new();
        for k in 0..(2 + rng.below(5)) {
            let p = PeerId::random();
            let connected = rng.below(4) != 0;
            let archival = rng.below(2) == 0;
            if connected { tracker.add_connection(&p, ConnectionId::new_unchecked(k as usize + 1)); }
            if archival { tracker.mark_as_archival(&p); }
            peers.push((p, connected, archival));
        }
        let mut sender = RecordingSender::default();
        let mut handler = HeaderExClientHandler::<RecordingSender>::new();
        let nreq = 1 + rng.below(4);
        let mut rxs = Vec::new();
        for r in 0..nreq { let (tx, rx) = oneshot::channel(); handler.on_send_request(HeaderRequest::with_origin(100 + r, 1), tx); rxs.push(rx); }
        let mut answered = vec![0u32; nreq as usize];
        let mut handled = 0usize;
        for _step in 0..12 {
            handler.schedule_pending_requests(&mut sender, &tracker);
            // every new attempt: to a peer that is connected right now
            for (id, peer, origin) in sender.sent[handled..].iter() {
                attempts_total += 1;
                if !tracker.is_connected(peer) { println!("WITNESS C32: attempt {id} for the request of height {origin} was sent to a peer without a connection (seed {seed}, round {round})"); panic!("witness"); }
            }
            // fail every new attempt in a retryable way
            let new: Vec<(u64, PeerId, u64)> = sender.sent[handled..].to_vec();
            handled = sender.sent.len();
            for (id, peer, _origin) in new {
                if rng.below(2) == 0 { handler.on_failure(peer, id, match rng.below(4) { 0 => OutboundFailure::DialFailure, 1 => OutboundFailure::Timeout, 2 => OutboundFailure::UnsupportedProtocols, _ => OutboundFailure::ConnectionClosed }); }
                else {
                    handler.on_response_received(peer, id, vec![HeaderResponse { body: vec![], status_code: StatusCode::NotFound.into() }]);
                    // let the decoding task run and the handler pick up its result
                    for _ in 0..20 { let _ = futures::poll!(std::future::poll_fn(|cx| handler.poll(cx))); tokio::task::yield_now().await; }
                }
            }
            for (i, rx) in rxs.iter_mut().enumerate() { if let Ok(_) = rx.try_recv() { answered[i] += 1; } }
            // sometimes a peer (dis)connects
            if rng.below(3) == 0 { let k = rng.below(peers.len() as u64) as usize; if !peers[k].1 { tracker.add_connection(&peers[k].0, ConnectionId::new_unchecked(50 + k)); peers[k].1 = true; } }
        }
        for r in 0..nreq {
            let mine: Vec<&(u64, PeerId, u64)> = sender.sent.iter().filter(|s| s.2 == 100 + r).collect();
            if mine.len() > MAX_TRIES { println!("WITNESS C32: the request of height {} was sent {} times (seed {seed}, round {round})", 100 + r, mine.len()); panic!("witness"); }
            if mine.len() == MAX_TRIES {
                let last = mine[MAX_TRIES - 1].1;
                let arch = peers.iter().find(|p| p.0 == last).map(|p| p.2).unwrap_or(false);
                if !arch { println!("WITNESS C32: the last attempt for the request of height {} went to a non-archival peer (seed {seed}, round {round})", 100 + r); panic!("witness"); }
            }
            if answered[r as usize] > 1 { println!("WITNESS C32: the caller of the request of height {} received {} answers", 100 + r, answered[r as usize]); panic!("witness"); }
            if mine.len() == MAX_TRIES && answered[r as usize] != 1 { println!("WITNESS C32: the request of height {} used all its tries but its caller has {} answers (seed {seed}, round {round})", 100 + r, answered[r as usize]); panic!("witness"); }
        }
    }
    println!("ENUM-OK cases={attempts_total}");
}

// ---------------------------------------------------------------------------------------------
// Witness finder / bounded stand-in for C31: random trusted / untrusted, connected / unconnected peers, 1-3 concurrent
// head callers, every head request answered by a random valid header (several peers may agree), a fork at the same
// height, a two-header answer, a not-found answer or a failure.  Oracle: the best-head rule applied to the answers.
// ---------------------------------------------------------------------------------------------
#[async_test]
async fn verif_model_header_ex_head_selection() {
    let seed: u64 = std::env::var("VERIF_SEED").ok().and_then(|s| s.parse().ok()).unwrap_or(0);
    let rounds: u64 = std::env::var("VERIF_ROUNDS").ok().and_then(|s| s.parse().ok()).unwrap_or(60);
    let mut generator = ExtendedHeaderGenerator::new_from_height(3);
    let mut pool: Vec<ExtendedHeader> = Vec::new();
    for _ in 0..5 { let h = generator.next(); pool.push(generator.another_of(&h)); pool.push(h); }
    let mut answered_rounds = 0u64;
    for round in 0..rounds {
        let mut rng = XorShiftC(0xC2B2AE3D27D4EB4F ^ seed.wrapping_mul(6151).wrapping_add(round + 1));
        let event_channel = EventChannel::new();
        let mut tracker = PeerTracker::new(event_channel.publisher());
        let mut flags = std::collections::HashMap::new();
        for k in 0..(1 + rng.below(12)) {
            let p = PeerId::random();
            let connected = rng.below(5) != 0;
            let trusted = rng.below(3) != 0;
            if connected { tracker.add_connection(&p, ConnectionId::new_unchecked(k as usize + 1)); }
            tracker.set_trusted(&p, trusted);
            flags.insert(p, (connected, trusted));
        }
        let mut sender = RecordingSender::default();
        let mut handler = HeaderExClientHandler::<RecordingSender>::new();
        let ncallers = 1 + rng.below(3);
        let mut rxs = Vec::new();
        for _ in 0..ncallers { let (tx, rx) = oneshot::channel(); handler.on_send_request(HeaderRequest::head_request(), tx); rxs.push(rx); }
        handler.schedule_pending_requests(&mut sender, &tracker);
        // C31: only connected trusted peers are asked
        for (id, peer, _) in sender.sent.iter() {
            let (c, t) = flags[peer];
            if !(c && t) { println!("WITNESS C31: head request {id} was sent to a peer that is connected={c} trusted={t} (seed {seed}, round {round})"); panic!("witness"); }
        }
        // answers
        let mut reported: Vec<ExtendedHeader> = Vec::new();
        let mode = rng.below(3);   // 0: all ten headers, 1: two heights with a fork each, 2: four different heights (agreement is likely)
        let sent: Vec<(u64, PeerId, u64)> = sender.sent.clone();
        for (id, peer, _) in sent {
            match rng.below(8) {
                0 => handler.on_failure(peer, id, OutboundFailure::Timeout),
                1 => handler.on_response_received(peer, id, vec![HeaderResponse { body: vec![], status_code: StatusCode::NotFound.into() }]),
                2 => handler.on_response_received(peer, id, vec![pool[0].to_header_response(), pool[2].to_header_response()]),
                _ => {
                    let h = match mode { 0 => &pool[rng.below(pool.len() as u64) as usize], 1 => &pool[rng.below(4) as usize], _ => &pool[1 + 2 * rng.below(4) as usize] };
                    reported.push(h.clone());
                    handler.on_response_received(peer, id, vec![h.to_header_response()]);
                }
            }
        }
        for _ in 0..60 { let _ = futures::poll!(std::future::poll_fn(|cx| handler.poll(cx))); tokio::task::yield_now().await; }
        let mut answers = Vec::new();
        for rx in rxs.iter_mut() { if let Ok(a) = rx.try_recv() { answers.push(a); } }
        let ctx = format!("seed {seed}, round {round}, reported heights {:?}", reported.iter().map(|h| h.height()).collect::<Vec<_>>());
        if reported.is_empty() || sender.sent.is_empty() {
            if !answers.is_empty() && sender.sent.is_empty() { println!("WITNESS C31: callers were answered although no trusted peer was asked ({ctx})"); panic!("witness"); }
            continue;
        }
        if answers.len() as u64 != ncallers { println!("WITNESS C31: {} of {ncallers} waiting callers were answered ({ctx})", answers.len()); panic!("witness"); }
        let votes = |x: &ExtendedHeader| reported.iter().filter(|y| y.hash() == x.hash()).count();
        let agreed_max = reported.iter().filter(|x| votes(x) >= 2).map(|x| x.height()).max();
        let overall_max = reported.iter().map(|x| x.height()).max().unwrap();
        let mut first: Option<ExtendedHeader> = None;
        for a in answers {
            let v = match a { Ok(v) => v, Err(e) => { println!("WITNESS C31: a caller received the error {e} although peers reported usable heads ({ctx})"); panic!("witness"); } };
            if v.len() != 1 { println!("WITNESS C31: a caller received {} headers ({ctx})", v.len()); panic!("witness"); }
            let got = v.into_iter().next().unwrap();
            if !reported.iter().any(|y| y.hash() == got.hash()) { println!("WITNESS C31: the answer (height {}) was not reported by any peer ({ctx})", got.height()); panic!("witness"); }
            match agreed_max {
                Some(m) => if votes(&got) < 2 || got.height() != m {
                    println!("WITNESS C31: the answer has height {} and {} votes, but the highest header reported by at least two peers has height {m} ({ctx})", got.height(), votes(&got)); panic!("witness");
                },
                None => if got.height() != overall_max {
                    println!("WITNESS C31: no header was reported twice; the answer has height {} but the highest reported is {overall_max} ({ctx})", got.height()); panic!("witness");
                },
            }
            if let Some(f) = &first { if f.hash() != got.hash() { println!("WITNESS C31: two waiting callers received different heads ({ctx})"); panic!("witness"); } }
            first = Some(got);
        }
        answered_rounds += 1;
    }
    println!("ENUM-OK cases={answered_rounds}");
}
