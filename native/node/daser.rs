// Witness finders / bounded stand-ins for C33 and C34 on the real daser Worker (child module of daser::tests).
// T1 calls Worker::update_queue / on_want_to_prune / schedule_next_sample_block directly on random stores and worker
// states and compares every started block with an independently computed expectation.
// T2 runs the whole Daser against the mocked P2p with random answer orders and time-outs.
use super::*;
use celestia_types::sample::SampleId;
use tokio::sync::mpsc;

struct XorShiftD(u64);
impl XorShiftD {
    fn next(&mut self) -> u64 { self.0 ^= self.0 << 13; self.0 ^= self.0 >> 7; self.0 ^= self.0 << 17; self.0 }
    fn below(&mut self, n: u64) -> u64 { self.next() % n }
}

fn heights_of(r: &BlockRanges) -> std::collections::BTreeSet<u64> {
    let mut s = std::collections::BTreeSet::new();
    for range in r.clone().into_inner() { for h in range { s.insert(h); } }
    s
}

#[async_test]
async fn verif_model_daser_scheduling() {
    let seed: u64 = std::env::var("VERIF_SEED").ok().and_then(|s| s.parse().ok()).unwrap_or(0);
    let rounds: u64 = std::env::var("VERIF_ROUNDS").ok().and_then(|s| s.parse().ok()).unwrap_or(40);
    let dahs: Vec<(u16, DataAvailabilityHeader)> = [2usize, 4, 8].iter().map(|w| {
        let eds = generate_dummy_eds(*w, AppVersion::V2);
        (*w as u16, DataAvailabilityHeader::from_eds(&eds))
    }).collect();
    let mut started_total = 0u64;
    for round in 0..rounds {
        let mut rng = XorShiftD(0xD1B54A32D192ED03 ^ seed.wrapping_mul(7919).wrapping_add(round + 1));
        let (mock, _handle) = P2p::mocked();
        let store = Arc::new(InMemoryStore::new());
        let events = EventChannel::new();
        let n = 4 + rng.below(20);
        // header i is (n - i) * 100 s + 50 s old; the window covers a random number of the newest blocks
        let now = Time::now();
        let window_blocks = rng.below(n + 2);
        let sampling_window = Duration::from_secs(window_blocks * 100);
        let mut generator = ExtendedHeaderGenerator::new();
        let mut widths = std::collections::HashMap::new();
        let mut headers = Vec::new();
        for i in 1..=n {
            let age = Duration::from_secs((n - i) * 100 + 50);
            generator.set_time((now - age).unwrap(), Duration::ZERO);
            let (w, dah) = dahs[rng.below(3) as usize].clone();
            widths.insert(i, w);
            headers.push(generator.next_with_dah(dah));
        }
        store.insert(headers).await.unwrap();
        for h in 1..=n { if rng.below(4) == 0 { store.mark_as_sampled(h).await.unwrap(); } }
        let concurrency_limit = 1 + rng.below(4) as usize;
        let additional = rng.below(3) as usize;
        let (_cmd_tx, cmd_rx) = mpsc::channel(4);
        let mut worker = Worker::new(
            DaserArgs { event_pub: events.publisher(), p2p: Arc::new(mock), store: store.clone(), sampling_window, concurrency_limit, additional_headersub_concurrency: additional },
            CancellationToken::new(), cmd_rx).unwrap();
        worker.update_queue().await.unwrap();
        // the pruner's reports and promises
        if rng.below(2) == 0 { worker.highest_prunable_height = Some(rng.below(n + 1)); }
        worker.num_of_prunable_blocks = [0, 511, 512, 600][rng.below(4) as usize];
        for _ in 0..rng.below(4) { let h = 1 + rng.below(n); worker.on_want_to_prune(h).await; }

        for step in 0..40u64 {
            // between two calls: the queue may be rebuilt, the pruner may ask for a block
            if rng.below(3) == 0 { worker.update_queue().await.unwrap(); }
            if rng.below(3) == 0 {
                let h = 1 + rng.below(n);
                let busy = worker.ongoing.contains(h);
                let granted = worker.on_want_to_prune(h).await;
                if granted == busy {
                    println!("WITNESS C34: on_want_to_prune({h}) answered {granted} while the block is {}being sampled (seed {seed}, round {round}, step {step})", if busy { "" } else { "not " }); panic!("witness");
                }
            }
            let stored = heights_of(&store.get_stored_header_ranges().await.unwrap());
            let sampled = heights_of(&store.get_sampled_ranges().await.unwrap());
            let timed_out = heights_of(&worker.timed_out);
            let ongoing = heights_of(&worker.ongoing);
            let promised = heights_of(&worker.will_be_pruned);
            let cands: Vec<u64> = stored.iter().copied().filter(|h| !sampled.contains(h) && !timed_out.contains(h) && !ongoing.contains(h) && !promised.contains(h)).collect();
            let in_progress = worker.sampling_futs.len();
            let started = worker.schedule_next_sample_block().await.unwrap();
            let ongoing_after = heights_of(&worker.ongoing);
            let new: Vec<u64> = ongoing_after.difference(&ongoing).copied().collect();
            let ctx = format!("seed {seed}, round {round}, step {step}");
            if !started {
                if !new.is_empty() || worker.sampling_futs.len() != in_progress {
                    println!("WITNESS C34: schedule_next_sample_block answered 'nothing started' but {new:?} became ongoing ({ctx})"); panic!("witness");
                }
                break;
            }
            started_total += 1;
            if new.len() != 1 || worker.sampling_futs.len() != in_progress + 1 {
                println!("WITNESS C34: one call started {new:?} ({} futures before, {} after) ({ctx})", in_progress, worker.sampling_futs.len()); panic!("witness");
            }
            let h = new[0];
            let best = cands.iter().copied().max();
            if best != Some(h) {
                println!("WITNESS C34: started block {h} but the highest stored height that is not sampled / in progress / promised to the pruner / timed out is {best:?} ({ctx})"); panic!("witness");
            }
            let prunable_paused = h <= worker.highest_prunable_height.unwrap_or(0) && worker.num_of_prunable_blocks >= 512;
            if prunable_paused {
                println!("WITNESS C34: started the prunable block {h} (highest prunable {:?}) while the pruner reports a backlog of {} ({ctx})", worker.highest_prunable_height, worker.num_of_prunable_blocks); panic!("witness");
            }
            let limit = if Some(h) == stored.iter().copied().max() { concurrency_limit + additional } else { concurrency_limit };
            if in_progress >= limit {
                println!("WITNESS C34: started block {h} while {in_progress} samplings were in progress (limit {limit}; newest stored {:?}) ({ctx})", stored.iter().max()); panic!("witness");
            }
            // block i is (n - i) * 100 + 50 seconds old
            let age = (n - h) * 100 + 50;
            if age > window_blocks * 100 + 20 {
                println!("WITNESS C34: started block {h} which is {age} s old; the sampling window is {} s ({ctx})", window_blocks * 100); panic!("witness");
            }
            // C33: the chosen shares, as recorded in the sampling metadata before anything is requested
            let w = widths[&h];
            let meta = store.get_sampling_metadata(h).await.unwrap();
            let cids = meta.map(|m| m.cids).unwrap_or_default();
            let mut pairs = std::collections::BTreeSet::new();
            for cid in &cids {
                let id: SampleId = cid.try_into().unwrap();
                if id.block_height() != h || id.row_index() >= w || id.column_index() >= w {
                    println!("WITNESS C33: block {h} (width {w}): recorded share ({}, {}) of height {} is outside the square ({ctx})", id.row_index(), id.column_index(), id.block_height()); panic!("witness");
                }
                pairs.insert((id.row_index(), id.column_index()));
            }
            let want = std::cmp::min(w as usize * w as usize, 16);
            if pairs.len() != want || cids.len() != want {
                println!("WITNESS C33: block {h} (width {w}): {} distinct shares ({} CIDs) were chosen and recorded, expected min(width^2, 16) = {want} ({ctx})", pairs.len(), cids.len()); panic!("witness");
            }
        }
    }
    println!("ENUM-OK cases={started_total}");
}

#[async_test]
async fn verif_model_daser_marking() {
    let seed: u64 = std::env::var("VERIF_SEED").ok().and_then(|s| s.parse().ok()).unwrap_or(0);
    let rounds: u64 = std::env::var("VERIF_ROUNDS").ok().and_then(|s| s.parse().ok()).unwrap_or(12);
    let mut rng = XorShiftD(0xA0761D6478BD642F ^ seed.wrapping_mul(104729).wrapping_add(1));
    let (mock, mut handle) = P2p::mocked();
    let store = Arc::new(InMemoryStore::new());
    let events = EventChannel::new();
    let mut event_sub = events.subscribe();
    let _daser = Daser::start(DaserArgs { event_pub: events.publisher(), p2p: Arc::new(mock), store: store.clone(), sampling_window: SAMPLING_WINDOW, concurrency_limit: 1, additional_headersub_concurrency: 5 }).unwrap();
    let mut generator = ExtendedHeaderGenerator::new();
    handle.expect_no_cmd().await;
    handle.announce_peer_connected();
    handle.expect_no_cmd().await;
    let mut cases = 0u64;
    for round in 0..rounds {
        let w = [2usize, 4, 8][rng.below(3) as usize];
        let eds = generate_dummy_eds(w, AppVersion::V2);
        let header = generator.next_with_dah(DataAvailabilityHeader::from_eds(&eds));
        let height = header.height();
        store.insert(header).await.unwrap();
        let want = std::cmp::min(w * w, 16);
        // collect every request of the block first: the metadata must already list all of them
        let mut reqs = Vec::new();
        for _ in 0..want { reqs.push(handle.expect_get_shwap_cid().await); }
        handle.expect_no_cmd().await;
        let meta = store.get_sampling_metadata(height).await.unwrap().map(|m| m.cids).unwrap_or_default();
        for (cid, _) in &reqs {
            if !meta.contains(cid) {
                println!("WITNESS C33: block {height}: a share was requested whose CID is not in the sampling metadata (seed {seed}, round {round})"); panic!("witness");
            }
        }
        // answer in random order, a random subset with time-outs
        let mode = rng.below(3);
        let mut any_timeout = false;
        while !reqs.is_empty() {
            let (cid, respond_to) = reqs.swap_remove(rng.below(reqs.len() as u64) as usize);
            let fail = match mode { 0 => false, 1 => rng.below(want as u64) == 0, _ => rng.below(2) == 0 };
            if fail { any_timeout = true; respond_to.send(Err(P2pError::RequestTimedOut)).unwrap(); }
            else {
                let id: SampleId = (&cid).try_into().unwrap();
                respond_to.send(Ok(gen_sample_of_cid(id, &eds).await)).unwrap();
            }
        }
        sleep(Duration::from_millis(60)).await;
        let sampled = store.get_sampled_ranges().await.unwrap().contains(height);
        if sampled && any_timeout {
            println!("WITNESS C33: block {height} (width {w}) is marked as sampled although a share request timed out (seed {seed}, round {round})"); panic!("witness");
        }
        if !sampled && !any_timeout {
            println!("WITNESS C33: block {height} (width {w}) is not marked as sampled although every share was retrieved (seed {seed}, round {round})"); panic!("witness");
        }
        while event_sub.try_recv().is_ok() {}
        cases += 1;
    }
    println!("ENUM-OK cases={cases}");
}

// T3 (C35 / C34): several blocks sampled concurrently through the running Daser; blocks finish in random order (sampled or
// timed out); after every completion the pruner's question is asked for every height: it must be refused exactly for
// the blocks whose sampling is still in progress.
#[async_test]
async fn verif_model_daser_prune_requests() {
    let seed: u64 = std::env::var("VERIF_SEED").ok().and_then(|s| s.parse().ok()).unwrap_or(0);
    let rounds: u64 = std::env::var("VERIF_PRUNE_ROUNDS").ok().and_then(|s| s.parse().ok()).unwrap_or(4);
    let mut asked = 0u64;
    for round in 0..rounds {
        let mut rng = XorShiftD(0xE7037ED1A0B428DB ^ seed.wrapping_mul(15485863).wrapping_add(round + 1));
        let (mock, mut handle) = P2p::mocked();
        let store = Arc::new(InMemoryStore::new());
        let events = EventChannel::new();
        let k = 3 + rng.below(3);
        let eds = generate_dummy_eds(2, AppVersion::V2);
        let dah = DataAvailabilityHeader::from_eds(&eds);
        let mut generator = ExtendedHeaderGenerator::new();
        let headers: Vec<celestia_types::ExtendedHeader> = (0..k).map(|_| generator.next_with_dah(dah.clone())).collect();
        store.insert(headers).await.unwrap();
        let daser = Daser::start(DaserArgs { event_pub: events.publisher(), p2p: Arc::new(mock), store: store.clone(), sampling_window: SAMPLING_WINDOW, concurrency_limit: k as usize, additional_headersub_concurrency: 1 }).unwrap();
        handle.expect_no_cmd().await;
        handle.announce_peer_connected();
        // all k blocks start: 4 requests each
        let mut pending: HashMap<u64, Vec<(Cid, OneshotResultSender<Vec<u8>, P2pError>)>> = HashMap::new();
        for _ in 0..(4 * k) {
            let (cid, tx) = handle.expect_get_shwap_cid().await;
            let id: SampleId = (&cid).try_into().unwrap();
            pending.entry(id.block_height()).or_default().push((cid, tx));
        }
        handle.expect_no_cmd().await;
        let mut in_flight: Vec<u64> = pending.keys().copied().collect();
        in_flight.sort();
        while !in_flight.is_empty() {
            // finish one block
            let h = in_flight.remove(rng.below(in_flight.len() as u64) as usize);
            let timeout_it = rng.below(2) == 0;
            for (cid, tx) in pending.remove(&h).unwrap() {
                if timeout_it { tx.send(Err(P2pError::RequestTimedOut)).unwrap(); }
                else { let id: SampleId = (&cid).try_into().unwrap(); tx.send(Ok(gen_sample_of_cid(id, &eds).await)).unwrap(); }
            }
            sleep(Duration::from_millis(40)).await;
            for q in 1..=k {
                asked += 1;
                let granted = daser.want_to_prune(q).await.unwrap();
                let busy = in_flight.contains(&q);
                if granted && busy {
                    println!("WITNESS C35: the daser allows the pruner to remove block {q} while its sampling is still in progress (block {h} just finished; in progress {in_flight:?}) (seed {seed}, round {round})"); panic!("witness");
                }
                if !granted && !busy {
                    println!("WITNESS C34: the daser refuses to let block {q} be pruned although its sampling is not in progress (in progress {in_flight:?}) (seed {seed}, round {round})"); panic!("witness");
                }
            }
        }
    }
    println!("ENUM-OK cases={asked}");
}

// T4 (C33): a block of width 8 (64 shares: every attempt draws a fresh random 16) is sampled, one share times out, all peers
// disconnect and one reconnects: the block is sampled again. Every CID requested in the second attempt must already be in
// the sampling metadata when it is requested.
#[async_test]
async fn verif_model_daser_resample() {
    let (mock, mut handle) = P2p::mocked();
    let store = Arc::new(InMemoryStore::new());
    let events = EventChannel::new();
    let _daser = Daser::start(DaserArgs { event_pub: events.publisher(), p2p: Arc::new(mock), store: store.clone(), sampling_window: SAMPLING_WINDOW, concurrency_limit: 1, additional_headersub_concurrency: 5 }).unwrap();
    let mut generator = ExtendedHeaderGenerator::new();
    handle.expect_no_cmd().await;
    handle.announce_peer_connected();
    handle.expect_no_cmd().await;
    let mut cases = 0u64;
    for round in 0..2u64 {
        let eds = generate_dummy_eds(8, AppVersion::V2);
        let header = generator.next_with_dah(DataAvailabilityHeader::from_eds(&eds));
        let height = header.height();
        store.insert(header).await.unwrap();
        // first attempt: the first request times out, the rest succeed
        for i in 0..16 {
            let (cid, tx) = handle.expect_get_shwap_cid().await;
            if i == 0 { tx.send(Err(P2pError::RequestTimedOut)).unwrap(); }
            else { let id: SampleId = (&cid).try_into().unwrap(); tx.send(Ok(gen_sample_of_cid(id, &eds).await)).unwrap(); }
        }
        sleep(Duration::from_millis(60)).await;
        if store.get_sampled_ranges().await.unwrap().contains(height) { println!("WITNESS C33: block {height} marked as sampled although a share timed out (round {round})"); panic!("witness"); }
        // reconnect: timed-out blocks are tried again
        handle.announce_all_peers_disconnected();
        handle.expect_no_cmd().await;
        handle.announce_peer_connected();
        let mut reqs = Vec::new();
        for _ in 0..16 { reqs.push(handle.expect_get_shwap_cid().await); }
        let meta = store.get_sampling_metadata(height).await.unwrap().map(|m| m.cids).unwrap_or_default();
        let missing = reqs.iter().filter(|(cid, _)| !meta.contains(cid)).count();
        cases += 16;
        if missing > 0 { println!("WITNESS C33: block {height} sampled a second time: {missing} of the 16 requested shares have no CID in the sampling metadata (round {round})"); panic!("witness"); }
        for (cid, tx) in reqs { let id: SampleId = (&cid).try_into().unwrap(); tx.send(Ok(gen_sample_of_cid(id, &eds).await)).unwrap(); }
        sleep(Duration::from_millis(60)).await;
        if !store.get_sampled_ranges().await.unwrap().contains(height) { println!("WITNESS C33: block {height} not marked as sampled after a fully successful second attempt (round {round})"); panic!("witness"); }
    }
    println!("ENUM-OK cases={cases}");
}
