// Bounded stand-in / witness finder for C37 (header subscriptions). Included at the end of node/src/node/subscriptions.rs
// only with `--cfg lumina_verif` (test builds). Random partitions of a height interval announced in random order
// through the real BroadcastingStore<InMemoryStore>, interleaved with historical inserts and re-initialisations; a
// subscriber drains the channel concurrently.
use super::*;
use crate::store::InMemoryStore;
use celestia_types::test_utils::ExtendedHeaderGenerator;
use lumina_utils::test_utils::async_test;
use std::sync::Mutex;

struct XorShift(u64);
impl XorShift {
    fn next(&mut self) -> u64 { self.0 ^= self.0 << 13; self.0 ^= self.0 >> 7; self.0 ^= self.0 << 17; self.0 }
    fn below(&mut self, n: u64) -> u64 { self.next() % n }
}

#[async_test]
async fn verif_model_header_subscription() {
    let seed: u64 = std::env::var("VERIF_SEED").ok().and_then(|s| s.parse().ok()).unwrap_or(0);
    let rounds: u64 = std::env::var("VERIF_ROUNDS").ok().and_then(|s| s.parse().ok()).unwrap_or(40);
    let mut generator = ExtendedHeaderGenerator::new();
    let chain = generator.next_many(160);
    let hdr = |h: u64| chain[(h - 1) as usize].clone();
    let mut announced = 0u64;
    for round in 0..rounds {
        let mut rng = XorShift(0x9E3779B97F4A7C15 ^ seed.wrapping_mul(104729).wrapping_add(round + 1));
        let h0 = 20 + rng.below(30);            // initial network head
        let h1 = h0 + 1 + rng.below(100);       // everything up to h1 gets inserted eventually
        let inner = Arc::new(InMemoryStore::new());
        let mut store = BroadcastingStore::new(inner.clone());
        let mut rx = store.subscribe();
        let got: Arc<Mutex<Vec<u64>>> = Arc::new(Mutex::new(Vec::new()));
        let got2 = got.clone();
        let lagged = Arc::new(Mutex::new(false));
        let lagged2 = lagged.clone();
        lumina_utils::executor::spawn(async move {
            loop {
                match rx.recv().await {
                    Ok(h) => got2.lock().unwrap().push(h.height()),
                    Err(RecvError::Lagged(_)) => { *lagged2.lock().unwrap() = true; }
                    Err(RecvError::Closed) => break,
                }
            }
        });
        // try_init: the head goes into the store, then the stream is initialised
        inner.insert(hdr(h0)).await.unwrap();
        store.init_broadcast(hdr(h0));
        // partition (h0, h1] into runs; some singletons are delivered as re-initialisations
        let mut runs: Vec<(u64, u64, bool)> = Vec::new();
        let mut a = h0 + 1;
        while a <= h1 {
            let len = 1 + rng.below(9);
            let b = (a + len - 1).min(h1);
            let reinit = rng.below(6) == 0;
            if reinit { runs.push((a, a, true)); a += 1; } else { runs.push((a, b, false)); a = b + 1; }
        }
        // historical runs below the initial head
        let mut hist: Vec<(u64, u64, bool)> = Vec::new();
        let mut t = h0 - 1;
        while t >= 1 && hist.len() < 4 { let len = 1 + rng.below(5); let lo = t.saturating_sub(len - 1).max(1); hist.push((lo, t, false)); if lo == 1 { break; } t = lo - 1; }
        let mut todo: Vec<(u64, u64, bool)> = runs.clone();
        todo.extend(hist.iter().cloned());
        let mut stored: std::collections::BTreeSet<u64> = [h0].into_iter().collect();
        let mut stalls = 0;
        while !todo.is_empty() && stalls < 2000 {
            let k = rng.below(todo.len() as u64) as usize;
            let (lo, hi, reinit) = todo[k];
            let headers: Vec<ExtendedHeader> = (lo..=hi).map(hdr).collect();
            let store_head = *stored.iter().next_back().unwrap();
            let ok = if reinit && lo > store_head {
                // reconnect: try_init stores the new network head directly, then re-initialises the stream
                let r = inner.insert(hdr(lo)).await.is_ok();
                if r { store.init_broadcast(hdr(lo)); }
                r
            } else {
                announced += 1;
                store.announce_insert(headers).await.is_ok()
            };
            lumina_utils::executor::yield_now().await;
            if ok { for h in lo..=hi { stored.insert(h); } todo.swap_remove(k); } else { stalls += 1; }
            // what the subscriber has seen so far
            for _ in 0..4 { lumina_utils::executor::yield_now().await; }
            let seen = got.lock().unwrap().clone();
            if *lagged.lock().unwrap() { break; }
            for (i, h) in seen.iter().enumerate() {
                if *h != h0 + i as u64 { println!("WITNESS C37: subscriber received {seen:?}: position {i} is {h}, expected {} (seed {seed}, round {round})", h0 + i as u64); panic!("witness"); }
                if !stored.contains(h) { println!("WITNESS C37: subscriber received height {h} before it was stored (seed {seed}, round {round})"); panic!("witness"); }
            }
            // completeness: everything contiguous above h0 that is stored must have been delivered
            let mut upto = h0; while stored.contains(&(upto + 1)) { upto += 1; }
            // (a pending re-initialisation head is delivered by the next announce_insert at the latest)
            if ok && !reinit && seen.len() as u64 != upto - h0 + 1 && lo > h0 {
                println!("WITNESS C37: all heights {h0}..={upto} are stored but the subscriber received only {} of them: {seen:?} (seed {seed}, round {round})", seen.len());
                panic!("witness");
            }
        }
        drop(store);
    }
    println!("ENUM-OK cases={announced}");
}

// D20 (C37, known finding): a head announced by a re-initialisation that directly continues the stream waits in `pending`
// until the next forward insert - all heights up to it are stored, the subscriber has not received it.
#[async_test]
async fn verif_c37_reinit_adjacent_head_waits() {
    let mut generator = ExtendedHeaderGenerator::new();
    let chain = generator.next_many(6);
    let inner = Arc::new(InMemoryStore::new());
    let mut store = BroadcastingStore::new(inner.clone());
    let mut rx = store.subscribe();
    inner.insert(chain[0].clone()).await.unwrap();
    store.init_broadcast(chain[0].clone());                       // head 1
    store.announce_insert(vec![chain[1].clone()]).await.unwrap();  // 2
    // reconnect: the new network head is 3 = last sent + 1; try_init stores it and re-initialises the stream
    inner.insert(chain[2].clone()).await.unwrap();
    store.init_broadcast(chain[2].clone());
    // a historical insert does not help either
    let mut seen = Vec::new();
    while let Ok(h) = rx.try_recv() { seen.push(h.height()); }
    let stored = inner.get_stored_header_ranges().await.unwrap();
    if seen == vec![1, 2] {
        println!("WITNESS C37/D20: heights {stored} are stored, the stream was re-initialised with head 3 (= last sent + 1), but the subscriber received only {seen:?}; 3 is delivered only with the next forward insert");
    } else {
        println!("NO-WITNESS D20: subscriber received {seen:?}");
    }
    store.announce_insert(vec![chain[3].clone()]).await.unwrap();
    while let Ok(h) = rx.try_recv() { seen.push(h.height()); }
    assert_eq!(seen, vec![1, 2, 3, 4]);
}
