// Witness finder / bounded stand-in for C39: random event histories on the real PeerTracker; after every event the
// published statistics are compared with a recount through the public getters, the per-tag counts with a count of
// the peers carrying the tag, and garbage collection with the set of connected or protected peers before it.
use super::*;
use crate::events::EventChannel;

struct XorShiftP(u64);
impl XorShiftP {
    fn next(&mut self) -> u64 { self.0 ^= self.0 << 13; self.0 ^= self.0 >> 7; self.0 ^= self.0 << 17; self.0 }
    fn below(&mut self, n: u64) -> u64 { self.next() % n }
}

fn check(tracker: &PeerTracker, what: &str, seed: u64, round: u64, step: u64) {
    let mut want = PeerTrackerInfo::default();
    for p in tracker.peers() {
        if p.is_connected() {
            want.num_connected_peers += 1;
            if p.is_trusted() { want.num_connected_trusted_peers += 1; }
            if matches!(p.node_kind(), NodeKind::Full | NodeKind::Bridge) { want.num_connected_full_nodes += 1; }
            if p.is_archival() { want.num_connected_archival_nodes += 1; }
        }
    }
    let got = tracker.info();
    if got != want {
        println!("WITNESS C39: after {what} the published statistics are {got:?} but a recount of the tracked peers gives {want:?} (seed {seed}, round {round}, step {step})");
        panic!("witness");
    }
    for tag in 0..4u32 {
        let n = tracker.peers().filter(|p| p.is_protected_with_tag(tag)).count();
        if tracker.protected_len(tag) != n {
            println!("WITNESS C39: after {what} protected_len({tag}) = {} but {n} peers are protected with that tag (seed {seed}, round {round}, step {step})", tracker.protected_len(tag));
            panic!("witness");
        }
    }
}

#[test]
fn verif_model_peer_tracker_counts() {
    let seed: u64 = std::env::var("VERIF_SEED").ok().and_then(|s| s.parse().ok()).unwrap_or(0);
    let rounds: u64 = std::env::var("VERIF_ROUNDS").ok().and_then(|s| s.parse().ok()).unwrap_or(200);
    let agents = ["lumina/celestia/1", "celestia-node/celestia/bridge/v1", "celestia-node/celestia/full/v1", "celestia-node/celestia/light/v1", "other", ""];
    let mut events = 0u64;
    for round in 0..rounds {
        let mut rng = XorShiftP(0x2545F4914F6CDD1D ^ seed.wrapping_mul(9001).wrapping_add(round + 1));
        let ch = EventChannel::new();
        let mut tracker = PeerTracker::new(ch.publisher());
        let peers: Vec<PeerId> = (0..(1 + rng.below(8))).map(|_| PeerId::random()).collect();
        for step in 0..(20 + rng.below(60)) {
            let p = peers[rng.below(peers.len() as u64) as usize];
            let conn = ConnectionId::new_unchecked(rng.below(3) as usize);
            let tag = rng.below(3) as u32;
            let what = match rng.below(10) {
                0 => { tracker.add_peer_id(&p); "add_peer_id" }
                1 => { tracker.set_trusted(&p, rng.below(2) == 0); "set_trusted" }
                2 => { tracker.protect(&p, tag); "protect" }
                3 => { tracker.unprotect(&p, tag); "unprotect" }
                4 | 5 => { tracker.add_connection(&p, conn); "add_connection" }
                6 => { tracker.remove_connection(&p, conn); "remove_connection" }
                7 => { tracker.on_agent_version(&p, agents[rng.below(agents.len() as u64) as usize]); "on_agent_version" }
                8 => { tracker.mark_as_archival(&p); "mark_as_archival" }
                _ => {
                    let must_stay: Vec<PeerId> = tracker.peers().filter(|x| x.is_connected() || x.is_protected()).map(|x| *x.id()).collect();
                    // make disconnected peers look expired for some of the collections
                    if rng.below(2) == 0 {
                        for x in tracker.peers.values_mut() {
                            if let Some(at) = x.disconnected_at.as_mut() {
                                if let Some(earlier) = at.checked_sub(EXPIRED_AFTER + Duration::from_secs(1)) { *at = earlier; }
                            }
                        }
                    }
                    tracker.gc();
                    for id in must_stay {
                        if tracker.peer(&id).is_none() {
                            println!("WITNESS C39: garbage collection forgot the connected or protected peer {id} (seed {seed}, round {round}, step {step})");
                            panic!("witness");
                        }
                    }
                    "gc"
                }
            };
            events += 1;
            check(&tracker, what, seed, round, step);
        }
    }
    println!("ENUM-OK cases={events}");
}
