// Native replays for C20 (failed store operations leave the store unchanged). Included inside `mod tests` of
// node/src/store/in_memory_store.rs only with `--cfg lumina_verif`.
use super::*;
use celestia_types::test_utils::ExtendedHeaderGenerator;

// D3: a batch whose k-th header carries a hash that is already stored must be rejected WITHOUT side effects
#[lumina_utils::test_utils::async_test]
async fn verif_c20_hash_exists_leaves_partial_batch() {
    let store = InMemoryStore::new();
    let mut generator = ExtendedHeaderGenerator::new();
    let first = generator.next_many(4);
    store.insert(first.clone()).await.unwrap();
    // batch [h5, h6'] where h6' claims the hash of header 4 (already stored) as its own block id hash
    let h5 = generator.next();
    let mut h6 = generator.next();
    h6.commit.block_id.hash = first[3].hash();
    let h5_hash = h5.hash();
    let batch = unsafe { crate::store::utils::VerifiedExtendedHeaders::new_unchecked(vec![h5.clone(), h6]) };
    let res = store.insert(batch).await;
    assert!(res.is_err(), "duplicate hash must be rejected");
    let has_hash = store.has(&h5_hash).await;
    let by_height = store.get_by_height(5).await.is_ok();
    let has_at = store.has_at(5).await;
    if has_hash || by_height || has_at {
        println!("WITNESS C20/D3: insert([h5, h6']) failed with {:?} but afterwards has(h5.hash)={has_hash}, get_by_height(5).is_ok()={by_height}, has_at(5)={has_at}", res.unwrap_err().to_string());
    } else {
        println!("NO-WITNESS D3: rejected batch left no trace");
    }
}

// ---------------------------------------------------------------------------------------------
// Witness finder / bounded stand-in for the store unit (C19, C20, C21): random operation histories on the REAL
// InMemoryStore against an abstract model. Chain of 14 headers plus a fork; every op's result kind and every query
// is compared with the model; after an Err the whole observable state must be unchanged. Seeded by VERIF_SEED.
// ---------------------------------------------------------------------------------------------
use std::collections::{BTreeMap, BTreeSet};

struct Rng(u64);
impl Rng {
    fn next(&mut self) -> u64 { self.0 ^= self.0 << 13; self.0 ^= self.0 >> 7; self.0 ^= self.0 << 17; self.0 }
    fn below(&mut self, n: u64) -> u64 { self.next() % n }
}

#[derive(Clone, PartialEq, Debug)]
struct Model { hdr: BTreeMap<u64, celestia_types::hash::Hash>, sampled: BTreeSet<u64>, pruned: BTreeSet<u64>, meta: BTreeMap<u64, Vec<u64>> }

async fn observe<S: Store>(store: &S, n: u64, hashes: &[celestia_types::hash::Hash]) -> Model {
    let mut m = Model { hdr: BTreeMap::new(), sampled: BTreeSet::new(), pruned: BTreeSet::new(), meta: BTreeMap::new() };
    let stored = store.get_stored_header_ranges().await.unwrap();
    let sampled = store.get_sampled_ranges().await.unwrap();
    let pruned = store.get_pruned_ranges().await.unwrap();
    for h in 1..=n {
        let at = store.has_at(h).await;
        let by_h = store.get_by_height(h).await.ok();
        assert_eq!(at, stored.contains(h), "WITNESS-CHECK has_at vs ranges at {h}");
        if at != by_h.is_some() { println!("WITNESS store: has_at({h})={at} but get_by_height({h}).is_ok()={}", by_h.is_some()); panic!("witness"); }
        if let Some(e) = by_h {
            if e.height() != h { println!("WITNESS store: get_by_height({h}) returned height {}", e.height()); panic!("witness"); }
            let by_hash = store.get_by_hash(&e.hash()).await.ok();
            if by_hash.as_ref().map(|x| x.height()) != Some(h) { println!("WITNESS store: get_by_hash(hash of height {h}) does not return that header"); panic!("witness"); }
            m.hdr.insert(h, e.hash());
        }
        if sampled.contains(h) { m.sampled.insert(h); }
        if pruned.contains(h) { m.pruned.insert(h); }
        if let Ok(Some(md)) = store.get_sampling_metadata(h).await { m.meta.insert(h, md.cids.iter().map(|c| c.hash().digest()[0] as u64).collect()); }
    }
    // no header may be reachable by hash without being stored at its height
    for (i, hash) in hashes.iter().enumerate() {
        if store.has(hash).await && !m.hdr.values().any(|x| x == hash) { println!("WITNESS store: has(hash #{i}) is true but no stored height carries it"); panic!("witness"); }
    }
    m
}

fn cid_of(x: u64) -> Cid {
    let mh = cid::multihash::Multihash::<64>::wrap(0x12, &[x as u8; 32]).unwrap();
    Cid::new_v1(0x55, mh)
}

async fn model_run<S: Store, F: std::future::Future<Output = S>>(label: &str, mk: impl Fn() -> F) {
    let seed: u64 = std::env::var("VERIF_SEED").ok().and_then(|s| s.parse().ok()).unwrap_or(0);
    let rounds: u64 = std::env::var(if label == "redb" { "VERIF_REDB_ROUNDS" } else { "VERIF_ROUNDS" }).ok().and_then(|s| s.parse().ok()).unwrap_or(40);
    let mut ops = 0u64;
    for round in 0..rounds {
        let mut rng = Rng(0x9E3779B97F4A7C15 ^ (seed.wrapping_mul(1000003)).wrapping_add(round + 1));
        let n = 14u64;
        let mut generator = ExtendedHeaderGenerator::new();
        let chain = generator.next_many(n);
        // a fork from height 6 on
        let fork = generator.next_many_of(&chain[4], n - 5);
        let mut all_hashes: Vec<_> = chain.iter().map(|h| h.hash()).collect();
        all_hashes.extend(fork.iter().map(|h| h.hash()));
        let store = mk().await;
        let mut model = Model { hdr: BTreeMap::new(), sampled: BTreeSet::new(), pruned: BTreeSet::new(), meta: BTreeMap::new() };
        for _ in 0..60 {
            ops += 1;
            let before = observe(&store, n, &all_hashes).await;
            if before != model { println!("WITNESS store[{label}]: observable state {before:?} differs from the model {model:?} (seed {seed}, round {round})"); panic!("witness"); }
            match rng.below(10) {
                0..=4 => {
                    // insert a batch: a run of the main chain or of the fork, sometimes with a foreign header in the middle
                    let from = 1 + rng.below(n); let len = 1 + rng.below(4); let to = (from + len - 1).min(n);
                    let use_fork = rng.below(4) == 0 && from >= 6;
                    let mut batch: Vec<ExtendedHeader> = (from..=to).map(|h| if use_fork { fork[(h - 6) as usize].clone() } else { chain[(h - 1) as usize].clone() }).collect();
                    let mixed = rng.below(6) == 0 && batch.len() >= 2 && to >= 7 && !use_fork;
                    if mixed { let k = batch.len() - 1; let h = batch[k].height(); if h >= 6 { batch[k] = fork[(h - 6) as usize].clone(); } }
                    // a batch whose last header claims the hash of an already stored header (unchecked constructor, as a
                    // buggy or malicious producer would): must be rejected as a whole
                    if !mixed && batch.len() >= 2 && rng.below(4) == 0 && (!model.hdr.is_empty() || batch.len() >= 2) {
                        let k = batch.len() - 1;
                        // ... or the hash of an earlier header of the same batch
                        let victim = if model.hdr.is_empty() || rng.below(2) == 0 { batch[rng.below(k as u64) as usize].hash() }
                            else { *model.hdr.values().nth(rng.below(model.hdr.len() as u64) as usize).unwrap() };
                        batch[k].commit.block_id.hash = victim;
                        let forged = unsafe { crate::store::utils::VerifiedExtendedHeaders::new_unchecked(batch.clone()) };
                        let res = store.insert(forged).await;
                        if res.is_ok() { println!("WITNESS store[{label}]: batch {from}..={to} whose last header carries the hash of a stored header was accepted (seed {seed}, round {round})"); panic!("witness"); }
                        continue;
                    }
                    // a batch with a hole (one inner header left out) is not a chain: must be rejected as a whole
                    if !mixed && batch.len() >= 3 && rng.below(5) == 0 {
                        let mut holed = batch.clone();
                        let gone = 1 + rng.below(holed.len() as u64 - 2) as usize;
                        let missing = holed.remove(gone).height();
                        let res = store.insert(holed).await;
                        if res.is_ok() { println!("WITNESS store[{label}]: a batch of heights {from}..={to} without height {missing} was accepted (seed {seed}, round {round})"); panic!("witness"); }
                        continue;
                    }
                    let res = store.insert(batch.clone()).await;
                    // legality per the model
                    let internally_ok = !mixed || batch.last().map(|b| chain[(b.height() - 1) as usize].hash() == b.hash()).unwrap_or(true);
                    let disjoint = (from..=to).all(|h| !model.hdr.contains_key(&h));
                    let head = model.hdr.keys().next_back().copied();
                    let touches = model.hdr.contains_key(&(from - 1)) || model.hdr.contains_key(&(to + 1));
                    let admitted = disjoint && (model.hdr.is_empty() || head.map(|h| from > h).unwrap_or(true) || touches);
                    let link_ok = |lo: u64, hi: u64, b: &Vec<ExtendedHeader>| -> bool {
                        let lower = model.hdr.get(&(lo - 1)).map(|hh| if lo >= 2 { let prev_is_chain = chain[(lo - 2) as usize].hash() == *hh; let cur_is_chain = chain[(lo - 1) as usize].hash() == b[0].hash(); (prev_is_chain == cur_is_chain) || lo == 6 && !cur_is_chain && prev_is_chain } else { true }).unwrap_or(true);
                        let upper = model.hdr.get(&(hi + 1)).map(|hh| { let next_is_chain = chain[hi as usize].hash() == *hh; let cur_is_chain = chain[(hi - 1) as usize].hash() == b[b.len() - 1].hash(); (next_is_chain == cur_is_chain) || hi == 5 && cur_is_chain && !next_is_chain }).unwrap_or(true);
                        lower && upper
                    };
                    let dup_hash = batch.iter().any(|b| model.hdr.values().any(|x| *x == b.hash()));
                    let expect_ok = internally_ok && admitted && link_ok(from, to, &batch) && !dup_hash;
                    if res.is_ok() != expect_ok {
                        println!("WITNESS store[{label}]: insert of heights {from}..={to} (fork={use_fork}, mixed={mixed}) returned {:?}, model expects ok={expect_ok}; stored={:?} (seed {seed}, round {round})", res.map_err(|e| e.to_string()), model.hdr.keys().collect::<Vec<_>>());
                        panic!("witness");
                    }
                    if res.is_ok() { for b in &batch { model.hdr.insert(b.height(), b.hash()); model.sampled.remove(&b.height()); model.pruned.remove(&b.height()); } }
                }
                5 => { let h = 1 + rng.below(n); let res = store.remove_height(h).await; let exp = model.hdr.contains_key(&h);
                    if res.is_ok() != exp { println!("WITNESS store[{label}]: remove_height({h}) ok={} expected {exp}", res.is_ok()); panic!("witness"); }
                    if exp { model.hdr.remove(&h); model.sampled.remove(&h); model.meta.remove(&h); model.pruned.insert(h); } }
                6 => { let h = 1 + rng.below(n); let res = store.mark_as_sampled(h).await; let exp = model.hdr.contains_key(&h);
                    if res.is_ok() != exp { println!("WITNESS store[{label}]: mark_as_sampled({h}) ok={} expected {exp}", res.is_ok()); panic!("witness"); }
                    if exp { model.sampled.insert(h); } }
                7 | 8 => { let h = 1 + rng.below(n); let c1 = rng.below(5); let c2 = rng.below(5);
                    let res = store.update_sampling_metadata(h, vec![cid_of(c1), cid_of(c2)]).await; let exp = model.hdr.contains_key(&h);
                    if res.is_ok() != exp { println!("WITNESS store[{label}]: update_sampling_metadata({h}) ok={} expected {exp}", res.is_ok()); panic!("witness"); }
                    // a vacant entry takes the list as given (the property only asks that every added CID accumulates)
                    if exp { if !model.meta.contains_key(&h) { model.meta.insert(h, vec![c1, c2]); } else { let e = model.meta.get_mut(&h).unwrap(); for c in [c1, c2] { if !e.contains(&c) { e.push(c); } } } } }
                _ => { let res = store.head_height().await.ok(); if res != model.hdr.keys().next_back().copied() { println!("WITNESS store[{label}]: head_height {res:?} vs model"); panic!("witness"); } }
            }
        }
    }
    println!("ENUM-OK cases={ops} backend={label}");
}

#[lumina_utils::test_utils::async_test]
async fn verif_model_in_memory_store() {
    model_run("in-memory", || async { InMemoryStore::new() }).await;
}

// the same histories on the redb back end (bounded stand-in only: RedbStore is outside the verifier's reach)
#[cfg(not(target_arch = "wasm32"))]
#[lumina_utils::test_utils::async_test]
async fn verif_model_redb_store() {
    model_run("redb", || async { crate::store::RedbStore::in_memory().await.unwrap() }).await;
}
