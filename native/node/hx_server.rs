// Native replays for C29 (header-ex server). Included inside `mod tests` of node/src/p2p/header_ex/server.rs
// only with `--cfg lumina_verif`.
use super::*;

// D8: a by-height request whose origin + amount exceeds u64::MAX must be answered, not panic
#[async_test]
async fn verif_c29_origin_plus_amount_overflow() {
    let (store, _) = gen_filled_store(4).await;
    let (mut handler, mut sender) = mocked_server_handler(store);
    let (tx, rx) = oneshot::channel();
    handler.on_request_received(
        PeerId::random(),
        "test",
        HeaderRequest::with_origin(u64::MAX - 5, 10),
        &mut sender,
        tx,
    );
    let res = tokio::task::spawn(async move {
        poll_handler_for_result(&mut handler, &mut sender, rx).await
    })
    .await;
    match res {
        Err(e) if e.is_panic() => println!("WITNESS C29/D8: HeaderRequest::with_origin(u64::MAX - 5, 10) panics the server task (attempt to add with overflow in handle_request_by_height)"),
        Ok(r) => println!("NO-WITNESS D8: answered with {} response(s), status {}", r.len(), r[0].status_code),
        Err(e) => println!("NO-WITNESS D8: join error {e}"),
    }
}
