// Native replays for C29 (header-ex server). Included inside `mod tests` of node/src/p2p/header_ex/server.rs
// only with `--cfg lumina_verif`.
use super::*;

// D8: a by-height request whose origin + amount exceeds u64::MAX must be answered, not panic
#[async_test]
async fn verif_c29_origin_plus_amount_overflow() {
    let (store, _) = gen_filled_store(4).await;
    let (mut handler, mut sender) = mocked_server_handler(store);
    let (tx, rx) = oneshot::channel();
    handler.on_request_received(
        PeerId::random(),
        "test",
        HeaderRequest::with_origin(u64::MAX - 5, 10),
        &mut sender,
        tx,
    );
    let res = tokio::task::spawn(async move {
        poll_handler_for_result(&mut handler, &mut sender, rx).await
    })
    .await;
    match res {
        Err(e) if e.is_panic() => println!("WITNESS C29/D8: HeaderRequest::with_origin(u64::MAX - 5, 10) panics the server task (attempt to add with overflow in handle_request_by_height)"),
        Ok(r) => println!("NO-WITNESS D8: answered with {} response(s), status {}", r.len(), r[0].status_code),
        Err(e) => println!("NO-WITNESS D8: join error {e}"),
    }
}

// ---------------------------------------------------------------------------------------------
// Witness finder / bounded stand-in for C29: stored sets with gaps (heights 1..=12, removed heights via remove_height)
// x every height request (origin 0..=14, amount 0..=6 and huge), head, hash and invalid requests.
// ---------------------------------------------------------------------------------------------
async fn serve_one(store: &InMemoryStore, request: HeaderRequest) -> std::result::Result<Vec<HeaderResponse>, String> {
    let (mut handler, mut sender) = mocked_server_handler(store.async_clone().await);
    let (tx, rx) = oneshot::channel();
    handler.on_request_received(PeerId::random(), "test", request, &mut sender, tx);
    let res = tokio::task::spawn(async move { poll_handler_for_result(&mut handler, &mut sender, rx).await }).await;
    res.map_err(|e| if e.is_panic() { "panic".to_string() } else { e.to_string() })
}

#[async_test]
async fn verif_enum_header_ex_server() {
    let mut cases = 0u64;
    for removed_mask in [0u32, 0b0000_0001_0000, 0b0011_0000_0100, 0b1000_0000_0001, 0b0000_0110_0000] {
        let (store, _) = gen_filled_store(12).await;
        for h in 1..=12u64 { if removed_mask & (1 << (h - 1)) != 0 { store.remove_height(h).await.unwrap(); } }
        let stored: Vec<u64> = (1..=12u64).filter(|h| removed_mask & (1 << (h - 1)) == 0).collect();
        let head = *stored.last().unwrap();
        for origin in 1..=14u64 { for amount in [0u64, 1, 2, 3, 6, 20, 513, u64::MAX, u64::MAX - 3] {
            cases += 1;
            let request = HeaderRequest::with_origin(origin, amount);
            let valid = request.is_valid();
            let res = match serve_one(&store, request).await { Ok(r) => r, Err(e) => { println!("WITNESS C29: request origin {origin} amount {amount} on stored {stored:?}: server task failed: {e}"); panic!("witness"); } };
            if !valid {
                if res.len() != 1 || res[0].status_code != i32::from(StatusCode::Invalid) { println!("WITNESS C29: invalid request origin {origin} amount {amount} answered by {} responses, first status {}", res.len(), res[0].status_code); panic!("witness"); }
                continue;
            }
            // expected: the longest run of consecutive stored heights from origin, capped at min(amount, 512); or one not-found
            let mut run = 0u64; while run < amount.min(512) && stored.contains(&(origin + run)) { run += 1; }
            if run == 0 {
                if res.len() != 1 || res[0].status_code != i32::from(StatusCode::NotFound) { println!("WITNESS C29: origin {origin} is not stored ({stored:?}) but the answer has {} responses, first status {}", res.len(), res[0].status_code); panic!("witness"); }
            } else {
                let heights: Vec<u64> = res.iter().map(|r| r.to_validated_extented_header().map(|h| h.height()).unwrap_or(0)).collect();
                let want: Vec<u64> = (origin..origin + run).collect();
                if heights != want { println!("WITNESS C29: request origin {origin} amount {amount} on stored {stored:?} answered with heights {heights:?}, expected {want:?}"); panic!("witness"); }
            }
        }}
        // head
        cases += 1;
        let res = serve_one(&store, HeaderRequest::head_request()).await.unwrap_or_default();
        if res.len() != 1 || res[0].to_validated_extented_header().map(|h| h.height()).ok() != Some(head) { println!("WITNESS C29: head request on stored {stored:?} not answered with header {head}"); panic!("witness"); }
        // hash: stored and unknown
        let some = store.get_by_height(stored[0]).await.unwrap();
        cases += 2;
        let res = serve_one(&store, HeaderRequest::with_hash(some.hash())).await.unwrap_or_default();
        if res.len() != 1 || res[0].to_validated_extented_header().map(|h| h.hash()).ok() != Some(some.hash()) { println!("WITNESS C29: hash request for a stored header not answered with it"); panic!("witness"); }
        let res = serve_one(&store, HeaderRequest::with_hash(celestia_types::hash::Hash::Sha256([7u8; 32]))).await.unwrap_or_default();
        if res.len() != 1 || res[0].status_code != i32::from(StatusCode::NotFound) { println!("WITNESS C29: hash request for an unknown hash not answered with a single not-found"); panic!("witness"); }
    }
    // the 512 cap needs a long store
    {
        let (store, _) = gen_filled_store(520).await;
        for (origin, amount, want) in [(1u64, 600u64, 512usize), (1, 512, 512), (1, 513, 512), (9, 520, 512), (10, 600, 511)] {
            cases += 1;
            let res = serve_one(&store, HeaderRequest::with_origin(origin, amount)).await.unwrap_or_default();
            if res.len() != want { println!("WITNESS C29: request origin {origin} amount {amount} on a store holding 1..=520 answered with {} responses, expected {want} (cap min(amount, 512))", res.len()); panic!("witness"); }
        }
    }
    // empty store: head is not-found
    cases += 1;
    let empty = InMemoryStore::new();
    let res = serve_one(&empty, HeaderRequest::head_request()).await.unwrap_or_default();
    if res.len() != 1 || res[0].status_code != i32::from(StatusCode::NotFound) { println!("WITNESS C29: head request on an empty store not answered with a single not-found"); panic!("witness"); }
    println!("ENUM-OK cases={cases}");
}
