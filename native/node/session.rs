// Native replays / witness finder for C26, C27 (header session). Included inside `mod tests` of
// node/src/p2p/header_session.rs only with `--cfg lumina_verif`.
use super::*;
use crate::p2p::header_ex::utils::HeaderRequestExt as _;
use std::sync::atomic::{AtomicU64, Ordering};
use std::sync::Arc;

// a header-ex client stand-in that answers like the real one: an invalid request (amount 0, or an overflowing range)
// gets HeaderExError::InvalidRequest; a valid one gets the requested headers of `chain` (heights 1..)
fn serve_like_client(mut p2p_mock: crate::test_utils::MockP2pHandle, chain: Vec<ExtendedHeader>, served: Arc<AtomicU64>) {
    spawn(async move {
        loop {
            // serve until the P2p handle is dropped
            let Some(cmd) = p2p_mock.cmd_rx.recv().await else { break };
            let P2pCmd::HeaderExRequest { request: req, respond_to } = cmd else { continue };
            served.fetch_add(1, Ordering::SeqCst);
            if !req.is_valid() {
                let _ = respond_to.send(Err(P2pError::HeaderEx(HeaderExError::InvalidRequest)));
                continue;
            }
            let h = match req.data { Some(celestia_proto::p2p::pb::header_request::Data::Origin(h)) => h, _ => 0 };
            let lo = (h as usize).saturating_sub(1).min(chain.len());
            let hi = (lo + req.amount as usize).min(chain.len());
            let _ = respond_to.send(Ok(chain[lo..hi].to_vec()));
        }
    });
}

// D9 (C27): amount == 0 must return promptly
#[async_test]
async fn verif_c27_zero_amount_returns() {
    let (p2p, p2p_mock) = P2p::mocked();
    let mut generator = ExtendedHeaderGenerator::new();
    let chain = generator.next_many(8);
    let served = Arc::new(AtomicU64::new(0));
    serve_like_client(p2p_mock, chain.clone(), served.clone());
    let res = lumina_utils::time::timeout(std::time::Duration::from_secs(2), p2p.get_verified_headers_range(&chain[0], 0)).await;
    match res {
        Err(_) => println!("WITNESS C27/D9: get_verified_headers_range(from, 0) did not return within 2 s; the zero-amount request was (re)sent {} times", served.load(Ordering::SeqCst)),
        Ok(r) => println!("NO-WITNESS D9: amount 0 returned promptly: {:?}", r.map(|v| v.len()).map_err(|e| e.to_string())),
    }
}

// D9 (C27): amounts near u64::MAX must not panic
#[async_test]
async fn verif_c27_huge_amount_no_panic() {
    use futures::FutureExt;
    for amount in [u64::MAX, u64::MAX - 1, u64::MAX - 7] {
        let (p2p, p2p_mock) = P2p::mocked();
        let mut generator = ExtendedHeaderGenerator::new();
        let chain = generator.next_many(8);
        serve_like_client(p2p_mock, chain.clone(), Arc::new(AtomicU64::new(0)));
        let fut = std::panic::AssertUnwindSafe(lumina_utils::time::timeout(std::time::Duration::from_secs(2), p2p.get_verified_headers_range(&chain[6], amount)));
        match fut.catch_unwind().await {
            Err(p) => {
                let msg = p.downcast_ref::<String>().cloned().or_else(|| p.downcast_ref::<&str>().map(|s| s.to_string())).unwrap_or_default();
                println!("WITNESS C27/D9: get_verified_headers_range(header 7, {amount}) panicked: {msg}");
                return;
            }
            Ok(_) => {}
        }
    }
    println!("NO-WITNESS D9: huge amounts do not panic");
}

// bounded stand-in: amounts 0..=80 and range positions against the stand-in client: returns exactly the requested headers
#[async_test]
async fn verif_enum_verified_range_requests() {
    let mut generator = ExtendedHeaderGenerator::new();
    let chain = generator.next_many(200);
    let mut cases = 0u64;
    for from in [1usize, 2, 57, 100] {
        for amount in 0u64..=80 {
            cases += 1;
            let (p2p, p2p_mock) = P2p::mocked();
            serve_like_client(p2p_mock, chain.clone(), Arc::new(AtomicU64::new(0)));
            let res = lumina_utils::time::timeout(std::time::Duration::from_secs(5), p2p.get_verified_headers_range(&chain[from - 1], amount)).await;
            match res {
                Err(_) => { println!("WITNESS C27: get_verified_headers_range(header {from}, {amount}) did not return within 5 s"); panic!("witness"); }
                Ok(Ok(v)) => {
                    let want = &chain[from..from + amount as usize];
                    if v != want { println!("WITNESS C26/C27: get_verified_headers_range(header {from}, {amount}) returned heights {:?}", v.iter().map(|h| h.height()).collect::<Vec<_>>()); panic!("witness"); }
                }
                Ok(Err(e)) => if amount > 0 { println!("WITNESS C27: get_verified_headers_range(header {from}, {amount}) failed although every header was served: {e}"); panic!("witness"); },
            }
        }
    }
    println!("ENUM-OK cases={cases}");
}

// ---------------------------------------------------------------------------------------------
// Bounded stand-in for the part of C26 that is not under contract (the final result of `run`): random adversarial
// schedules. Pending requests are answered in random order with a random prefix (possibly empty) or a header-ex
// error; every request is checked to be a non-empty range of at most 64 not-yet-received heights, and a completed
// session must return exactly the requested range in ascending order.
// ---------------------------------------------------------------------------------------------
struct XorShift(u64);
impl XorShift {
    fn next(&mut self) -> u64 { self.0 ^= self.0 << 13; self.0 ^= self.0 >> 7; self.0 ^= self.0 << 17; self.0 }
    fn below(&mut self, n: u64) -> u64 { self.next() % n }
}

#[async_test]
async fn verif_model_header_session() {
    let seed: u64 = std::env::var("VERIF_SEED").ok().and_then(|s| s.parse().ok()).unwrap_or(0);
    let rounds: u64 = std::env::var("VERIF_ROUNDS").ok().and_then(|s| s.parse().ok()).unwrap_or(60);
    let mut generator = ExtendedHeaderGenerator::new();
    let chain = generator.next_many(2100);
    let mut requests = 0u64;
    for round in 0..rounds {
        let mut rng = XorShift(0x9E3779B97F4A7C15 ^ seed.wrapping_mul(7919).wrapping_add(round + 1));
        let len = match round % 6 { 0 => 1 + rng.below(8), 1 => 1 + rng.below(70), 2 => 500 + rng.below(40), 3 => 1 + rng.below(2000), 4 => 64 * (1 + rng.below(9)), _ => 1 + rng.below(600) };
        let lo = 1 + rng.below(2100 - len);
        let hi = lo + len - 1;
        let (_p2p, mut p2p_mock) = P2p::mocked();
        let mut session = HeaderSession::new(lo..=hi, p2p_mock.cmd_tx.clone());
        let (result_tx, mut result_rx) = oneshot::channel();
        spawn(async move { let _ = result_tx.send(session.run().await); });
        let mut received = std::collections::BTreeSet::new();
        let mut outstanding: Vec<(u64, u64)> = Vec::new();
        let mut pending = Vec::new();
        let result = loop {
            // collect whatever was sent
            while let Ok(cmd) = p2p_mock.cmd_rx.try_recv() {
                let P2pCmd::HeaderExRequest { request, respond_to } = cmd else { continue };
                let h = match request.data { Some(celestia_proto::p2p::pb::header_request::Data::Origin(h)) => h, _ => 0 };
                let a = request.amount;
                requests += 1;
                let bad = a == 0 || a > 64 || h < lo || h.checked_add(a - 1).map(|e| e > hi).unwrap_or(true)
                    || (h..h + a).any(|x| received.contains(&x))
                    || outstanding.iter().any(|&(oh, oa)| h < oh + oa && oh < h + a);
                if bad {
                    println!("WITNESS C26: session for {lo}..={hi} issued the request origin {h} amount {a} (received so far: {} heights, in flight: {outstanding:?}) (seed {seed}, round {round})", received.len());
                    panic!("witness");
                }
                outstanding.push((h, a));
                pending.push((h, a, respond_to));
            }
            if let Ok(r) = result_rx.try_recv() { break r; }
            if pending.is_empty() { tokio::task::yield_now().await; lumina_utils::time::sleep(std::time::Duration::from_millis(1)).await; continue; }
            // answer one pending request, chosen at random
            let k = rng.below(pending.len() as u64) as usize;
            let (h, a, respond_to) = pending.swap_remove(k);
            outstanding.retain(|&x| x != (h, a));
            match rng.below(10) {
                0 | 1 => { let _ = respond_to.send(Err(P2pError::HeaderEx(HeaderExError::HeaderNotFound))); }
                2 | 3 => {
                    let n = rng.below(a + 1); // a prefix, possibly empty
                    for x in h..h + n { received.insert(x); }
                    let _ = respond_to.send(Ok(chain[(h - 1) as usize..(h - 1 + n) as usize].to_vec()));
                }
                _ => { for x in h..h + a { received.insert(x); } let _ = respond_to.send(Ok(chain[(h - 1) as usize..(h - 1 + a) as usize].to_vec())); }
            }
            tokio::task::yield_now().await;
        };
        match result {
            Ok(v) => {
                let got: Vec<u64> = v.iter().map(|h| h.height()).collect();
                let want: Vec<u64> = (lo..=hi).collect();
                if got != want { println!("WITNESS C26: session for {lo}..={hi} returned {} headers, first mismatch at index {:?} (seed {seed}, round {round})", got.len(), got.iter().zip(want.iter()).position(|(a, b)| a != b)); panic!("witness"); }
            }
            Err(e) => { println!("WITNESS C26: session for {lo}..={hi} failed with {e} although only header-ex errors were injected"); panic!("witness"); }
        }
    }
    println!("ENUM-OK cases={requests}");
}
