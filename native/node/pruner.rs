// Witness finder / bounded stand-in for C36 (window-edge search). Included inside `mod test` of node/src/pruner.rs only
// with `--cfg lumina_verif`. Exhaustive: every stored subset of heights 1..=10, every cutoff position (ties and
// in-between), every admissible previous answer; the real find_height_after_window{,_fast,_slow} against the
// property's own wording.
use super::*;

fn c36_answer_ok(stored: &[u64], time_of: &dyn Fn(u64) -> Time, cutoff: &Time, ans: Option<u64>) -> Result<(), String> {
    match ans {
        Some(r) => {
            if !stored.contains(&r) { return Err(format!("answer {r} is not a stored height")); }
            if time_of(r) > *cutoff { return Err(format!("answer {r} is newer than the cutoff")); }
            for &h in stored { if h > r && time_of(h) < *cutoff { return Err(format!("stored height {h} above the answer {r} is older than the cutoff")); } }
        }
        None => { for &h in stored { if time_of(h) < *cutoff { return Err(format!("returned nothing although stored height {h} is strictly older than the cutoff")); } } }
    }
    Ok(())
}

#[async_test]
async fn verif_enum_window_search() {
    let n = 10u64;
    let base = (Time::now() - Duration::from_secs(100_000)).unwrap();
    let mut generator = ExtendedHeaderGenerator::new();
    // header h has time base + 2*(h-1) seconds
    generator.set_time(base, Duration::from_secs(2));
    let headers = generator.next_many(n);
    let base = (headers[0].time() - Duration::from_secs(0)).unwrap();
    let time_of = |h: u64| (base + Duration::from_secs(2 * (h - 1))).unwrap();
    for h in 1..=n { assert_eq!(headers[(h - 1) as usize].time(), time_of(h), "generator time layout"); }
    let mut cases = 0u64;
    for mask in 0u32..(1 << n) {
        let stored: Vec<u64> = (1..=n).filter(|h| mask & (1 << (h - 1)) != 0).collect();
        let store = InMemoryStore::new();
        // insert maximal runs in ascending order
        let mut i = 0;
        while i < stored.len() {
            let mut j = i;
            while j + 1 < stored.len() && stored[j + 1] == stored[j] + 1 { j += 1; }
            store.insert(&headers[(stored[i] - 1) as usize..=(stored[j] - 1) as usize]).await.unwrap();
            i = j + 1;
        }
        let ranges = store.get_stored_header_ranges().await.unwrap();
        // cutoffs: from one second before the first header to one second after the last one, in 1 s steps (even = tie)
        for step in 0..=(2 * n + 1) {
            let cutoff = if step == 0 { (base - Duration::from_secs(1)).unwrap() } else { (base + Duration::from_secs(step - 1)).unwrap() };
            let mut prevs: Vec<Option<u64>> = vec![None];
            for p in 1..=n { if time_of(p) <= cutoff { prevs.push(Some(p)); } }
            for prev in prevs {
                cases += 1;
                let mut cache = Cache::default();
                let res = find_height_after_window(&store, &ranges, &cutoff, prev, &mut cache).await;
                match res {
                    Ok(ans) => if let Err(why) = c36_answer_ok(&stored, &time_of, &cutoff, ans) {
                        println!("WITNESS C36 find_height_after_window: stored={stored:?} cutoff=base+{}s prev={prev:?} -> {ans:?}: {why}", step as i64 - 1);
                        panic!("witness");
                    },
                    Err(e) => { println!("WITNESS C36 find_height_after_window: stored={stored:?} cutoff step {step} prev={prev:?} -> Err({e})"); panic!("witness"); }
                }
                let mut cache = Cache::default();
                if let Ok(Some(ans)) = find_height_after_window_fast(&store, &ranges, &cutoff, prev, &mut cache).await {
                    if let Err(why) = c36_answer_ok(&stored, &time_of, &cutoff, ans) {
                        println!("WITNESS C36 find_height_after_window_fast: stored={stored:?} cutoff=base+{}s prev={prev:?} -> {ans:?}: {why}", step as i64 - 1);
                        panic!("witness");
                    }
                }
                if prev.is_none() {
                    let mut cache = Cache::default();
                    let ans = find_height_after_window_slow(&store, &ranges, &cutoff, &mut cache).await.unwrap();
                    if let Err(why) = c36_answer_ok(&stored, &time_of, &cutoff, ans) {
                        println!("WITNESS C36 find_height_after_window_slow: stored={stored:?} cutoff=base+{}s -> {ans:?}: {why}", step as i64 - 1);
                        panic!("witness");
                    }
                }
            }
        }
    }
    println!("ENUM-OK cases={cases}");
}
