// Witness finder / bounded stand-in for C36 (window-edge search). Included inside `mod test` of node/src/pruner.rs only
// with `--cfg lumina_verif`. Exhaustive: every stored subset of heights 1..=10, every cutoff position (ties and
// in-between), every admissible previous answer; the real find_height_after_window{,_fast,_slow} against the
// property's own wording.
use super::*;

fn c36_answer_ok(stored: &[u64], time_of: &dyn Fn(u64) -> Time, cutoff: &Time, ans: Option<u64>) -> Result<(), String> {
    match ans {
        Some(r) => {
            if !stored.contains(&r) { return Err(format!("answer {r} is not a stored height")); }
            if time_of(r) > *cutoff { return Err(format!("answer {r} is newer than the cutoff")); }
            for &h in stored { if h > r && time_of(h) < *cutoff { return Err(format!("stored height {h} above the answer {r} is older than the cutoff")); } }
        }
        None => { for &h in stored { if time_of(h) < *cutoff { return Err(format!("returned nothing although stored height {h} is strictly older than the cutoff")); } } }
    }
    Ok(())
}

#[async_test]
async fn verif_enum_window_search() {
    let n = 10u64;
    let base = (Time::now() - Duration::from_secs(100_000)).unwrap();
    let mut generator = ExtendedHeaderGenerator::new();
    // header h has time base + 2*(h-1) seconds
    generator.set_time(base, Duration::from_secs(2));
    let headers = generator.next_many(n);
    let base = (headers[0].time() - Duration::from_secs(0)).unwrap();
    let time_of = |h: u64| (base + Duration::from_secs(2 * (h - 1))).unwrap();
    for h in 1..=n { assert_eq!(headers[(h - 1) as usize].time(), time_of(h), "generator time layout"); }
    let mut cases = 0u64;
    for mask in 0u32..(1 << n) {
        let stored: Vec<u64> = (1..=n).filter(|h| mask & (1 << (h - 1)) != 0).collect();
        let store = InMemoryStore::new();
        // insert maximal runs in ascending order
        let mut i = 0;
        while i < stored.len() {
            let mut j = i;
            while j + 1 < stored.len() && stored[j + 1] == stored[j] + 1 { j += 1; }
            store.insert(&headers[(stored[i] - 1) as usize..=(stored[j] - 1) as usize]).await.unwrap();
            i = j + 1;
        }
        let ranges = store.get_stored_header_ranges().await.unwrap();
        // cutoffs: from one second before the first header to one second after the last one, in 1 s steps (even = tie)
        for step in 0..=(2 * n + 1) {
            let cutoff = if step == 0 { (base - Duration::from_secs(1)).unwrap() } else { (base + Duration::from_secs(step - 1)).unwrap() };
            let mut prevs: Vec<Option<u64>> = vec![None];
            for p in 1..=n { if time_of(p) <= cutoff { prevs.push(Some(p)); } }
            for prev in prevs {
                cases += 1;
                let mut cache = Cache::default();
                let res = find_height_after_window(&store, &ranges, &cutoff, prev, &mut cache).await;
                match res {
                    Ok(ans) => if let Err(why) = c36_answer_ok(&stored, &time_of, &cutoff, ans) {
                        println!("WITNESS C36 find_height_after_window: stored={stored:?} cutoff=base+{}s prev={prev:?} -> {ans:?}: {why}", step as i64 - 1);
                        panic!("witness");
                    },
                    Err(e) => { println!("WITNESS C36 find_height_after_window: stored={stored:?} cutoff step {step} prev={prev:?} -> Err({e})"); panic!("witness"); }
                }
                let mut cache = Cache::default();
                if let Ok(Some(ans)) = find_height_after_window_fast(&store, &ranges, &cutoff, prev, &mut cache).await {
                    if let Err(why) = c36_answer_ok(&stored, &time_of, &cutoff, ans) {
                        println!("WITNESS C36 find_height_after_window_fast: stored={stored:?} cutoff=base+{}s prev={prev:?} -> {ans:?}: {why}", step as i64 - 1);
                        panic!("witness");
                    }
                }
                if prev.is_none() {
                    let mut cache = Cache::default();
                    let ans = find_height_after_window_slow(&store, &ranges, &cutoff, &mut cache).await.unwrap();
                    if let Err(why) = c36_answer_ok(&stored, &time_of, &cutoff, ans) {
                        println!("WITNESS C36 find_height_after_window_slow: stored={stored:?} cutoff=base+{}s -> {ans:?}: {why}", step as i64 - 1);
                        panic!("witness");
                    }
                }
            }
        }
    }
    println!("ENUM-OK cases={cases}");
}

// ---------------------------------------------------------------------------------------------
// Witness finder / bounded stand-in for C35: random stores (gaps that were never synced, gaps that were pruned, sampled
// marks), random window cut-offs in either order, a daser that grants by an arbitrary rule; one
// get_next_prunable_batch on a fresh Worker, every height of the batch checked against the property's wording.
// ---------------------------------------------------------------------------------------------
struct XorShift(u64);
impl XorShift {
    fn next(&mut self) -> u64 { self.0 ^= self.0 << 13; self.0 ^= self.0 >> 7; self.0 ^= self.0 << 17; self.0 }
    fn below(&mut self, n: u64) -> u64 { self.next() % n }
}

#[async_test]
async fn verif_model_prunable_batch() {
    let seed: u64 = std::env::var("VERIF_SEED").ok().and_then(|s| s.parse().ok()).unwrap_or(0);
    let rounds: u64 = std::env::var("VERIF_ROUNDS").ok().and_then(|s| s.parse().ok()).unwrap_or(120);
    let n = 60u64;
    let mut checked = 0u64;
    for round in 0..rounds {
        let mut rng = XorShift(0x9E3779B97F4A7C15 ^ seed.wrapping_mul(2654435761).wrapping_add(round + 1));
        let base = (Time::now() - Duration::from_secs(500_000)).unwrap();
        let mut generator = ExtendedHeaderGenerator::new();
        generator.set_time(base, Duration::from_secs(1));
        let store = Arc::new(InMemoryStore::new());
        // runs of stored heights separated by never-synced gaps
        let mut h = 1u64;
        let mut times = std::collections::BTreeMap::new();
        while h <= n {
            let run = 1 + rng.below(12);
            let hs = generator.next_many_empty_verified(run.min(n - h + 1));
            for x in hs.as_ref().iter() { times.insert(x.height(), x.time()); }
            store.insert(hs).await.unwrap();
            h += run;
            if h <= n && rng.below(3) == 0 { let gap = 1 + rng.below(4); generator.skip(gap); h += gap; }
        }
        // pruned gaps and sampled marks
        let stored0: Vec<u64> = times.keys().copied().collect();
        for &x in stored0.iter() { if rng.below(9) == 0 { store.remove_height(x).await.unwrap(); } }
        let stored = store.get_stored_header_ranges().await.unwrap();
        let pruned = store.get_pruned_ranges().await.unwrap();
        for &x in stored0.iter() { if stored.contains(x) && rng.below(3) != 0 { store.mark_as_sampled(x).await.unwrap(); } }
        let sampled = store.get_sampled_ranges().await.unwrap();
        // cut-offs anywhere (ties included), in either order
        let first = *times.values().next().unwrap();
        let sampling_cutoff = (first + Duration::from_secs(rng.below(n + 8))).unwrap();
        let pruning_cutoff = (first + Duration::from_secs(rng.below(n + 8))).unwrap();
        let grant_rule = rng.below(4);
        let grants = move |x: u64| match grant_rule { 0 => true, 1 => false, 2 => x % 2 == 0, _ => x % 3 != 0 };
        let (daser, mut daser_handle) = Daser::mocked();
        spawn(async move {
            while let Some(cmd) = daser_handle.cmd_rx.recv().await {
                if let crate::daser::DaserCmd::WantToPrune { height, respond_to } = cmd { let _ = respond_to.send(grants(height)); }
            }
        });
        let events = EventChannel::new();
        let mut worker = Worker::new(PrunerArgs {
            daser: Arc::new(daser), store: store.clone(), blockstore: Arc::new(InMemoryBlockstore::new()), event_pub: events.publisher(),
            block_time: Duration::from_millis(1), pruning_window: Duration::from_secs(60), sampling_window: Duration::from_secs(120),
        }, CancellationToken::new());
        // two calls on the same worker: the second one goes through the cached window edges (refreshed after block_time)
        for call in 0..2 {
        if call == 1 { lumina_utils::time::sleep(Duration::from_millis(3)).await; }
        let batch = match worker.get_next_prunable_batch(sampling_cutoff, pruning_cutoff).await {
            Ok(b) => b,
            Err(e) => { println!("WITNESS C35: get_next_prunable_batch failed: {e} (seed {seed}, round {round})"); panic!("witness"); }
        };
        if batch.len() > 512 { println!("WITNESS C35: batch of {} blocks", batch.len()); panic!("witness"); }
        let synced = |x: u64| stored.contains(x) || pruned.contains(x);
        for x in 1..=n + 20 {
            if !batch.contains(x) { continue; }
            checked += 1;
            let ctx = format!("call {call}: stored={stored} pruned={pruned} sampled={sampled} sampling cut-off=first+{}s pruning cut-off=first+{}s (seed {seed}, round {round})",
                (sampling_cutoff.duration_since(first).map(|d| d.as_secs() as i64).unwrap_or(-1)), (pruning_cutoff.duration_since(first).map(|d| d.as_secs() as i64).unwrap_or(-1)));
            if !stored.contains(x) { println!("WITNESS C35: height {x} is in the batch but not stored; {ctx}"); panic!("witness"); }
            let t = times[&x];
            if t > pruning_cutoff { println!("WITNESS C35: height {x} is inside the pruning window but in the batch; {ctx}"); panic!("witness"); }
            if t > sampling_cutoff {
                if !sampled.contains(x) { println!("WITNESS C35: height {x} is inside the sampling window and NOT sampled but in the batch; {ctx}"); panic!("witness"); }
                if !synced(x - 1) && x > 1 || !synced(x + 1) || x == 1 { println!("WITNESS C35: height {x} is inside the sampling window and borders an unsynced gap but is in the batch; {ctx}"); panic!("witness"); }
            }
            if !sampled.contains(x) && !grants(x) { println!("WITNESS C35: height {x} is unsampled and the daser refused it, but it is in the batch; {ctx}"); panic!("witness"); }
        }
        }
    }
    println!("ENUM-OK cases={checked}");
}
