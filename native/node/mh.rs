// Witness finder / bounded stand-in for C10 (ShwapMultihasher). Included inside `mod tests` of node/src/p2p/shwap.rs only
// with `--cfg lumina_verif`. For a 4x4 EDS: every (row, col) sample, row and row-namespace-data block is accepted with
// the hash of its own CID; the same container under every OTHER id of its kind, a container against another block's
// header, a missing header, a truncated container and an unknown multihash code are all rejected.
use super::*;
use celestia_types::nmt::Namespace;

// the hasher driven under catch_unwind: a panic of the real code is a witness of its own (C10: "otherwise it reports an error")
async fn hash_catch<S: Store + 'static>(hasher: &ShwapMultihasher<S>, code: u64, input: &[u8]) -> std::result::Result<std::result::Result<Multihash<MAX_MH_SIZE>, MultihasherError>, String> {
    use futures::FutureExt;
    match std::panic::AssertUnwindSafe(hasher.hash(code, input)).catch_unwind().await {
        Ok(r) => Ok(r),
        Err(p) => Err(p.downcast_ref::<String>().cloned().or_else(|| p.downcast_ref::<&str>().map(|s| s.to_string())).unwrap_or_default()),
    }
}
// a panic inside nmt-rs' hash_nodes ("Invalid nodes: ...") is reported once under a key; check.py decides from
// known-findings.json whether that key is a listed finding or a new violation. Any other panic is a witness at once.
fn on_panic(seen: &mut bool, what: String, msg: &str) {
    if msg.contains("left max namespace must be <= right min namespace") {
        if !*seen { println!("KNOWN-CANDIDATE nmt-hash-nodes-panic {what}: {msg}"); *seen = true; }
    } else { println!("WITNESS C10/C16: ShwapMultihasher::hash panicked: {what}: {msg}"); panic!("witness"); }
}

fn block_bytes(cid: &Cid, container: &[u8]) -> Vec<u8> {
    Block { cid: cid.to_bytes(), container: container.to_vec() }.encode_to_vec()
}

#[async_test]
async fn verif_enum_shwap_multihasher() {
    let store = Arc::new(InMemoryStore::new());
    let eds = generate_dummy_eds(4, AppVersion::V2);
    let dah = DataAvailabilityHeader::from_eds(&eds);
    let other_eds = generate_dummy_eds(4, AppVersion::V2);
    let other_dah = DataAvailabilityHeader::from_eds(&other_eds);
    let mut generator = ExtendedHeaderGenerator::new();
    let h1 = generator.next_with_dah(dah.clone());
    let h2 = generator.next_with_dah(other_dah.clone());
    store.insert(vec![h1, h2]).await.unwrap();
    let hasher = ShwapMultihasher::new(store);
    let w = eds.square_width();
    let mut cases = 0u64;
    let mut nmt_panic_seen = false;
    // samples
    for r in 0..w { for c in 0..w { for axis in [AxisType::Row, AxisType::Col] {
        let sample = Sample::new(r, c, axis, &eds).unwrap();
        let mut bytes = BytesMut::new(); sample.encode(&mut bytes);
        for rr in 0..w { for cc in 0..w { for height in [1u64, 2, 3] {
            cases += 1;
            let cid = sample_cid(rr, cc, height).unwrap();
            let res = match hash_catch(&hasher, SAMPLE_ID_MULTIHASH_CODE, &block_bytes(&cid, &bytes)).await {
                Ok(r) => r,
                Err(msg) => { on_panic(&mut nmt_panic_seen, format!("honest sample of (row {r}, col {c}, {axis:?}) of block 1 presented under the id (row {rr}, col {cc}, height {height})"), &msg); continue; }
            };
            let honest = rr == r && cc == c && height == 1;
            match (honest, res) {
                (true, Ok(h)) => if h != *cid.hash() { println!("WITNESS C10: sample ({r},{c}) accepted with a hash that is not its CID's"); panic!("witness"); },
                (true, Err(e)) => { println!("WITNESS C10: honest sample ({r},{c},{axis:?}) at height 1 rejected: {e}"); panic!("witness"); }
                (false, Ok(_)) => { println!("WITNESS C10: sample of ({r},{c},{axis:?}) of block 1 accepted under the id (row {rr}, col {cc}, height {height})"); panic!("witness"); }
                (false, Err(_)) => {}
            }
        }}}
        // truncated container, wrong multihash code
        cases += 2;
        let cid = sample_cid(r, c, 1).unwrap();
        if matches!(hash_catch(&hasher, SAMPLE_ID_MULTIHASH_CODE, &block_bytes(&cid, &bytes[..bytes.len() / 2])).await, Ok(Ok(_))) { println!("WITNESS C10: truncated sample container accepted"); panic!("witness"); }
        if matches!(hash_catch(&hasher, ROW_ID_MULTIHASH_CODE, &block_bytes(&cid, &bytes)).await, Ok(Ok(_))) { println!("WITNESS C10: sample block accepted under the row multihash code"); panic!("witness"); }
    }}}
    // rows
    for r in 0..w {
        let row = Row::new(r, &eds).unwrap();
        let mut bytes = BytesMut::new(); row.encode(&mut bytes);
        for rr in 0..w { for height in [1u64, 2, 3] {
            cases += 1;
            let id = RowId::new(rr, height).unwrap();
            let cid = convert_cid(&id.into()).unwrap();
            let res = match hash_catch(&hasher, ROW_ID_MULTIHASH_CODE, &block_bytes(&cid, &bytes)).await {
                Ok(r) => r,
                Err(msg) => { on_panic(&mut nmt_panic_seen, format!("row {r} of block 1 presented under (row {rr}, height {height})"), &msg); continue; }
            };
            let honest = rr == r && height == 1;
            if honest != res.is_ok() { println!("WITNESS C10: row {r} of block 1 under id (row {rr}, height {height}): accepted={}", res.is_ok()); panic!("witness"); }
            if let Ok(h) = res { if h != *cid.hash() { println!("WITNESS C10: row accepted with a foreign hash"); panic!("witness"); } }
        }}
    }
    // row namespace data: what the square itself produces for each namespace present in it
    let mut namespaces: Vec<Namespace> = Vec::new();
    for r in 0..w / 2 { for c in 0..w / 2 { let n = eds.share(r, c).unwrap().namespace(); if !namespaces.contains(&n) { namespaces.push(n); } } }
    for ns in namespaces {
        let Ok(rows) = eds.get_namespace_data(ns, &dah, 1) else { continue };
        for (own_id, data) in rows {
            let mut bytes = BytesMut::new(); data.encode(&mut bytes);
            for rr in 0..w { for height in [1u64, 2, 3] {
                let Ok(id) = RowNamespaceDataId::new(ns, rr, height) else { continue };
                cases += 1;
                let cid = convert_cid(&id.into()).unwrap();
                let res = match hash_catch(&hasher, ROW_NAMESPACE_DATA_ID_MULTIHASH_CODE, &block_bytes(&cid, &bytes)).await {
                    Ok(r) => r,
                    Err(msg) => { on_panic(&mut nmt_panic_seen, format!("row namespace data {own_id:?} presented under (row {rr}, height {height})"), &msg); continue; }
                };
                let honest = id == own_id;
                if honest && res.is_err() { println!("WITNESS C10: honest row namespace data (row {rr}) rejected"); panic!("witness"); }
                if let Ok(h) = &res {
                    if *h != *cid.hash() { println!("WITNESS C10: row namespace data accepted with a foreign hash"); panic!("witness"); }
                    // acceptance must coincide with direct verification against the stored header's DAH
                    let d = if height == 1 { &dah } else { &other_dah };
                    if height == 3 || data.verify(id, d).is_err() { println!("WITNESS C10: row namespace data of {own_id:?} accepted under (row {rr}, height {height}) although it does not verify"); panic!("witness"); }
                }
            }}
        }
    }
    // fabricated row namespace data: a share of a namespace that is NOT in the row (outside or inside the row root's
    // range), "proven" by an absence proof / an empty presence proof with garbage - never committed to by the DAH
    for (tag, ns_bytes) in [("below", [0u8; 10]), ("above", [0xFEu8; 10])] {
        let Ok(forged_ns) = Namespace::new_v0(&ns_bytes[..if tag == "below" { 1 } else { 10 }]) else { continue };
        for rr in 0..w / 2 { for absence in [true, false] { for nodes in [0usize, 1] {
            let mut share = vec![0xEEu8; celestia_types::consts::appconsts::SHARE_SIZE];
            share[..celestia_types::nmt::NS_SIZE].copy_from_slice(forged_ns.as_bytes());
            share[celestia_types::nmt::NS_SIZE] = 0;
            let raw = celestia_proto::shwap::RowNamespaceData {
                shares: vec![celestia_proto::shwap::Share { data: share }],
                proof: Some(celestia_proto::proof::pb::Proof {
                    start: 0, end: if absence { 0 } else { 1 },
                    nodes: vec![vec![0xAB; 2 * celestia_types::nmt::NS_SIZE + 32]; nodes],
                    leaf_hash: if absence { vec![0xAA; 2 * celestia_types::nmt::NS_SIZE + 32] } else { vec![] },
                    is_max_namespace_ignored: true,
                }),
            };
            let Ok(id) = RowNamespaceDataId::new(forged_ns, rr, 1) else { continue };
            let cid = convert_cid(&id.into()).unwrap();
            cases += 1;
            match hash_catch(&hasher, ROW_NAMESPACE_DATA_ID_MULTIHASH_CODE, &block_bytes(&cid, &raw.encode_to_vec())).await {
                Ok(Ok(_)) => { println!("WITNESS C10: a fabricated share of a namespace {tag} row {rr}'s range with a garbage {} proof ({nodes} nodes) was accepted as row namespace data of block 1", if absence { "absence" } else { "presence" }); panic!("witness"); }
                Ok(Err(_)) => {}
                Err(msg) => { on_panic(&mut nmt_panic_seen, format!("fabricated row namespace data ({tag}, row {rr})"), &msg); }
            }
        }}}
    }
    if hasher.hash(0x1234, &[]).await.is_ok() { println!("WITNESS C10: unknown multihash code accepted"); panic!("witness"); }
    println!("ENUM-OK cases={cases}");
}
