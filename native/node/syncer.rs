// Witness finder for the sync unit (C24): exhaustive enumeration of `calculate_range_to_fetch` on the REAL code.
// Included inside `mod tests` of node/src/syncer.rs only with `--cfg lumina_verif`.
// Universe: every set of synced heights over 1..=9 (512 sets, as normalised ranges), every head 0..=11, every limit 0..=11,
// once at the bottom of the u64 domain and once shifted to the top (heights u64::MAX-10.. with head <= u64::MAX-1).
// Bounded: a witness finder / bounded stand-in, never counted as proof.
use super::*;

fn ranges_of(mask: u32, n: u64, base: u64) -> Vec<BlockRange> {
    let mut out: Vec<BlockRange> = Vec::new();
    let mut i = 0;
    while i < n {
        if mask & (1 << i) != 0 {
            let s = i;
            while i + 1 < n && mask & (1 << (i + 1)) != 0 { i += 1; }
            out.push(base + s..=base + i);
        }
        i += 1;
    }
    out
}

fn check(head: u64, synced: &[BlockRange], limit: u64) -> Option<String> {
    let r = calculate_range_to_fetch(head, synced, limit);
    let has = |h: u64| synced.iter().any(|x| x.contains(&h));
    let nonempty = r.start() <= r.end();
    let ctx = format!("head={head} synced={synced:?} limit={limit} -> {r:?}");
    if nonempty {
        if *r.start() < 1 { return Some(format!("range starts at 0: {ctx}")); }
        if r.end() - r.start() + 1 > limit { return Some(format!("more than limit heights: {ctx}")); }
        let mut h = *r.start();
        loop { if has(h) { return Some(format!("requests synced height {h}: {ctx}")); } if h == *r.end() { break; } h += 1; }
        match synced.last() {
            None => { if *r.start() != 1 { return Some(format!("nothing synced but start != 1: {ctx}")); } if *r.end() > head { return Some(format!("above head: {ctx}")); } }
            Some(last) if *last.end() < head => {
                if *r.start() != last.end() + 1 { return Some(format!("behind head but not directly above the highest synced height: {ctx}")); }
                if *r.end() > head { return Some(format!("above head: {ctx}")); }
            }
            Some(last) => { if r.end() + 1 != *last.start() { return Some(format!("caught up but not directly below the highest synced range: {ctx}")); } }
        }
    } else {
        let nothing = limit == 0 || (synced.is_empty() && head == 0)
            || synced.last().map(|l| *l.end() >= head && *l.start() == 1).unwrap_or(false);
        if !nothing { return Some(format!("empty answer although something is fetchable: {ctx}")); }
    }
    None
}

#[test]
fn verif_enum_calculate_range_to_fetch() {
    let n = 9u64;
    let mut cases = 0u64;
    for base in [1u64, u64::MAX - 10] {
        for mask in 0..(1u32 << n) {
            let synced = ranges_of(mask, n, base);
            for dh in 0..=11u64 {
                // heads around the universe; at the top keep head <= u64::MAX - 1 (tendermint heights are bounded by i64::MAX)
                let head = if base == 1 { dh } else { (base - 1).saturating_add(dh).min(u64::MAX - 1) };
                for limit in 0..=11u64 {
                    cases += 1;
                    if let Some(w) = check(head, &synced, limit) {
                        println!("WITNESS calculate_range_to_fetch: {w}");
                        panic!("witness found");
                    }
                }
            }
        }
    }
    println!("ENUM-OK cases={cases}");
}
