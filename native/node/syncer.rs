// Witness finder for the sync unit (C24): exhaustive enumeration of `calculate_range_to_fetch` on the REAL code.
// Included inside `mod tests` of node/src/syncer.rs only with `--cfg lumina_verif`.
// Universe: every set of synced heights over 1..=9 (512 sets, as normalised ranges), every head 0..=11, every limit 0..=11,
// once at the bottom of the u64 domain and once shifted to the top (heights u64::MAX-10.. with head <= u64::MAX-1).
// Bounded: a witness finder / bounded stand-in, never counted as proof.
use super::*;

fn ranges_of(mask: u32, n: u64, base: u64) -> Vec<BlockRange> {
    let mut out: Vec<BlockRange> = Vec::new();
    let mut i = 0;
    while i < n {
        if mask & (1 << i) != 0 {
            let s = i;
            while i + 1 < n && mask & (1 << (i + 1)) != 0 { i += 1; }
            out.push(base + s..=base + i);
        }
        i += 1;
    }
    out
}

fn check(head: u64, synced: &[BlockRange], limit: u64) -> Option<String> {
    let r = calculate_range_to_fetch(head, synced, limit);
    let has = |h: u64| synced.iter().any(|x| x.contains(&h));
    let nonempty = r.start() <= r.end();
    let ctx = format!("head={head} synced={synced:?} limit={limit} -> {r:?}");
    if nonempty {
        if *r.start() < 1 { return Some(format!("range starts at 0: {ctx}")); }
        if r.end() - r.start() + 1 > limit { return Some(format!("more than limit heights: {ctx}")); }
        let mut h = *r.start();
        loop { if has(h) { return Some(format!("requests synced height {h}: {ctx}")); } if h == *r.end() { break; } h += 1; }
        match synced.last() {
            None => { if *r.start() != 1 { return Some(format!("nothing synced but start != 1: {ctx}")); } if *r.end() > head { return Some(format!("above head: {ctx}")); } }
            Some(last) if *last.end() < head => {
                if *r.start() != last.end() + 1 { return Some(format!("behind head but not directly above the highest synced height: {ctx}")); }
                if *r.end() > head { return Some(format!("above head: {ctx}")); }
            }
            Some(last) => { if r.end() + 1 != *last.start() { return Some(format!("caught up but not directly below the highest synced range: {ctx}")); } }
        }
    } else {
        let nothing = limit == 0 || (synced.is_empty() && head == 0)
            || synced.last().map(|l| *l.end() >= head && *l.start() == 1).unwrap_or(false);
        if !nothing { return Some(format!("empty answer although something is fetchable: {ctx}")); }
    }
    None
}

#[test]
fn verif_enum_calculate_range_to_fetch() {
    let n = 9u64;
    let mut cases = 0u64;
    for base in [1u64, u64::MAX - 10] {
        for mask in 0..(1u32 << n) {
            let synced = ranges_of(mask, n, base);
            for dh in 0..=11u64 {
                // heads around the universe; at the top keep head <= u64::MAX - 1 (tendermint heights are bounded by i64::MAX)
                let head = if base == 1 { dh } else { (base - 1).saturating_add(dh).min(u64::MAX - 1) };
                for limit in 0..=11u64 {
                    cases += 1;
                    if let Some(w) = check(head, &synced, limit) {
                        println!("WITNESS calculate_range_to_fetch: {w}");
                        panic!("witness found");
                    }
                }
            }
        }
    }
    println!("ENUM-OK cases={cases}");
}

// ---------------------------------------------------------------------------------------------
// Worker-level witness finder for C24: Worker::fetch_next_batch called directly on random store states: one run of
// stored headers up to the head (the store only accepts adjacent ranges, gaps arise from pruning alone), some of whose
// heights were removed again (pruned) at the low edge, in the middle, or not at all; the network head at or above the
// stored head. The scheduled range (ongoing_batch.range) is compared with the batch the property asks for.
// ---------------------------------------------------------------------------------------------
struct XorShiftS(u64);
impl XorShiftS {
    fn next(&mut self) -> u64 { self.0 ^= self.0 << 13; self.0 ^= self.0 >> 7; self.0 ^= self.0 << 17; self.0 }
    fn below(&mut self, n: u64) -> u64 { self.next() % n }
}

#[async_test]
async fn verif_model_syncer_batches() {
    let seed: u64 = std::env::var("VERIF_SEED").ok().and_then(|s| s.parse().ok()).unwrap_or(0);
    let rounds: u64 = std::env::var("VERIF_ROUNDS").ok().and_then(|s| s.parse().ok()).unwrap_or(40);
    let mut generator = ExtendedHeaderGenerator::new();
    let n = 900u64;
    let headers = generator.next_many(n);
    let mut checked = 0u64;
    for round in 0..rounds {
        let mut rng = XorShiftS(0xBF58476D1CE4E5B9 ^ seed.wrapping_mul(5381).wrapping_add(round + 1));
        let (mock, mut _handle) = P2p::mocked();
        _handle.announce_peer_connected();
        let store = Arc::new(InMemoryStore::new());
        let events = EventChannel::new();
        let (_cmd_tx, cmd_rx) = mpsc::channel(4);
        let batch_size = [16u64, 64, 512][rng.below(3) as usize];
        let mut worker = Worker::new(SyncerArgs { p2p: Arc::new(mock), store: store.clone(), event_pub: events.publisher(), batch_size, sampling_window: SAMPLING_WINDOW, pruning_window: DEFAULT_PRUNING_WINDOW }, CancellationToken::new(), cmd_rx).unwrap();
        // stored run [lo ..= hi]
        let hi = 100 + rng.below(n - 100);
        let lo = 1 + rng.below(hi);
        store.insert(headers[(lo - 1) as usize..hi as usize].to_vec()).await.unwrap();
        // pruning: low edge / middle / both / none
        let mode = rng.below(4);
        if mode == 0 || mode == 2 { for h in lo..=(lo + rng.below(20)).min(hi - 1) { store.remove_height(h).await.unwrap(); } }
        if mode == 1 || mode == 2 { let a = lo + (hi - lo) / 2; for h in a..=(a + rng.below(20)).min(hi - 1) { let _ = store.remove_height(h).await; } }
        // the network head: the stored head, or above it
        let net_head = if rng.below(2) == 0 { hi } else { (hi + 1 + rng.below(700)).min(u64::MAX - 1) };
        worker.subjective_head_height = Some(net_head);
        let stored: std::collections::BTreeSet<u64> = store.get_stored_header_ranges().await.unwrap().into_inner().into_iter().flatten().collect();
        let pruned: std::collections::BTreeSet<u64> = store.get_pruned_ranges().await.unwrap().into_inner().into_iter().flatten().collect();
        let synced_lo = lo; // stored and pruned together are the run lo..=hi
        let want: Option<(u64, u64)> = if net_head > hi { Some((hi + 1, (hi + batch_size).min(net_head))) }
            else if synced_lo > 1 { Some((synced_lo.saturating_sub(batch_size).max(1), synced_lo - 1)) } else { None };
        worker.fetch_next_batch().await.unwrap();
        let got = worker.ongoing_batch.range.clone();
        let ctx = format!("seed {seed}, round {round}, stored {}, pruned {}, network head {net_head}, batch size {batch_size}", store.get_stored_header_ranges().await.unwrap(), store.get_pruned_ranges().await.unwrap());
        if let Some(r) = &got {
            for x in r.clone() {
                if stored.contains(&x) || pruned.contains(&x) { println!("WITNESS C24: the syncer scheduled {}..={} which contains height {x}, which is {} ({ctx})", r.start(), r.end(), if stored.contains(&x) { "stored" } else { "pruned" }); panic!("witness"); }
            }
            if r.end() - r.start() + 1 > batch_size || *r.end() > net_head { println!("WITNESS C24: the syncer scheduled {}..={} ({ctx})", r.start(), r.end()); panic!("witness"); }
        }
        match (want, &got) {
            (Some((ws, we)), Some(r)) => if (*r.start(), *r.end()) != (ws, we) { println!("WITNESS C24: the syncer scheduled {}..={} but the batch that extends the stored data is {ws}..={we} ({ctx})", r.start(), r.end()); panic!("witness"); },
            (None, Some(r)) => { println!("WITNESS C24: the syncer scheduled {}..={} although nothing is missing ({ctx})", r.start(), r.end()); panic!("witness"); }
            _ => {}
        }
        if got.is_some() { checked += 1; }
    }
    println!("ENUM-OK cases={checked}");
}

// Worker-level witness finder for C25: headers 1..=OLD are older than the sampling window (by 30 minutes) but younger than
// the pruning window, the rest are fresh. With the network head stored, a batch may be scheduled below the stored run
// only if the lowest stored header is still inside the sampling window.
#[async_test]
async fn verif_model_syncer_window() {
    let seed: u64 = std::env::var("VERIF_SEED").ok().and_then(|s| s.parse().ok()).unwrap_or(0);
    let rounds: u64 = std::env::var("VERIF_ROUNDS").ok().and_then(|s| s.parse().ok()).unwrap_or(40).min(200);
    let old = 300u64; let n = 600u64;
    let mut generator = ExtendedHeaderGenerator::new();
    generator.set_time((Time::now() - (SAMPLING_WINDOW + Duration::from_secs(30 * 60))).unwrap(), Duration::from_secs(1));
    let mut headers = generator.next_many(old);
    generator.reset_time();
    headers.append(&mut generator.next_many(n - old));
    let mut checked = 0u64;
    for round in 0..rounds {
        let mut rng = XorShiftS(0x94D049BB133111EB ^ seed.wrapping_mul(7877).wrapping_add(round + 1));
        let (mock, mut _handle) = P2p::mocked();
        _handle.announce_peer_connected();
        let store = Arc::new(InMemoryStore::new());
        let events = EventChannel::new();
        let (_cmd_tx, cmd_rx) = mpsc::channel(4);
        let mut worker = Worker::new(SyncerArgs { p2p: Arc::new(mock), store: store.clone(), event_pub: events.publisher(), batch_size: 64, sampling_window: SAMPLING_WINDOW, pruning_window: SAMPLING_WINDOW + Duration::from_secs(3600) }, CancellationToken::new(), cmd_rx).unwrap();
        let lo = old - 20 + rng.below(40);            // around the window edge (header `old` is the last old one)
        store.insert(headers[(lo - 1) as usize..n as usize].to_vec()).await.unwrap();
        worker.subjective_head_height = Some(n);
        worker.fetch_next_batch().await.unwrap();
        let got = worker.ongoing_batch.range.clone();
        let edge_is_old = lo <= old;
        checked += 1;
        match (&got, edge_is_old) {
            (Some(r), true) => { println!("WITNESS C25: the syncer scheduled {}..={} directly below stored header {lo}, which is older than the sampling window (30 min outside; pruning window 1 h larger) (seed {seed}, round {round})", r.start(), r.end()); panic!("witness"); }
            (None, false) => { println!("WITNESS C24: nothing scheduled although stored header {lo} is inside the sampling window and heights below it are missing (seed {seed}, round {round})"); panic!("witness"); }
            _ => {}
        }
    }
    println!("ENUM-OK cases={checked}");
}
