// Bounded stand-in / witness finder for C30 (header-ex framing). Included inside `mod tests` of node/src/p2p/header_ex.rs
// only with `--cfg lumina_verif`. Random requests and response lists written by the real codec and read back through a
// reader that hands out the bytes in random chunk sizes; truncated and garbage streams must be errors, never panics.
use super::*;
use celestia_proto::p2p::pb::header_request::Data as ReqData;

struct XorShift(u64);
impl XorShift {
    fn next(&mut self) -> u64 { self.0 ^= self.0 << 13; self.0 ^= self.0 >> 7; self.0 ^= self.0 << 17; self.0 }
    fn below(&mut self, n: u64) -> u64 { self.next() % n }
}
// hands out at most `chunks[k]` bytes on the k-th read
struct RandomChunks { data: Vec<u8>, pos: usize, rng: XorShift, first: Option<usize> }
impl AsyncRead for RandomChunks {
    fn poll_read(mut self: Pin<&mut Self>, _cx: &mut Context<'_>, buf: &mut [u8]) -> Poll<Result<usize, Error>> {
        let left = self.data.len() - self.pos;
        if left == 0 || buf.is_empty() { return Poll::Ready(Ok(0)); }
        // `first`: the size of the first chunk is fixed (every split point of the frame start is enumerated, seed C30-c)
        let n = self.first.take().unwrap_or(1 + self.rng.below(97) as usize).min(left).min(buf.len());
        let p = self.pos;
        buf[..n].copy_from_slice(&self.data[p..p + n]);
        self.pos += n;
        Poll::Ready(Ok(n))
    }
}

#[async_test]
async fn verif_model_header_ex_framing() {
    let seed: u64 = std::env::var("VERIF_SEED").ok().and_then(|s| s.parse().ok()).unwrap_or(0);
    let rounds: u64 = std::env::var("VERIF_ROUNDS").ok().and_then(|s| s.parse().ok()).unwrap_or(150);
    let proto = StreamProtocol::new("/foo/bar/v0.1");
    let mut cases = 0u64;
    for round in 0..rounds {
        let mut rng = XorShift(0x9E3779B97F4A7C15 ^ seed.wrapping_mul(31337).wrapping_add(round + 1));
        // a request; every 8th round one whose wire form is within 2 bytes of the size limit (the limit itself included)
        let req = if round % 8 == 7 {
            let want = REQUEST_SIZE_LIMIT - 2 + (round / 8 % 3) as usize;
            let mut found = None;
            for hash_len in (want - 16)..=want {
                let r = HeaderRequest { amount: 7, data: Some(ReqData::Hash((0..hash_len).map(|i| (i % 251) as u8).collect())) };
                if prost::Message::encode_length_delimited_to_vec(&r).len() == want { found = Some(r); break; }
            }
            found.expect("a request of the wanted wire length")
        } else { HeaderRequest {
            data: match rng.below(3) { 0 => None, 1 => Some(ReqData::Origin(rng.next())), _ => Some(ReqData::Hash((0..rng.below(40)).map(|_| rng.next() as u8).collect())) },
            amount: rng.next() >> rng.below(64),
        } };
        let mut wire = Vec::new();
        HeaderCodec.write_request(&proto, &mut futures::io::Cursor::new(&mut wire), req.clone()).await.unwrap();
        cases += 1;
        let mut rd = RandomChunks { data: wire.clone(), pos: 0, rng: XorShift(rng.next() | 1), first: None };
        match HeaderCodec.read_request(&proto, &mut rd).await {
            Ok(back) => if back != req { println!("WITNESS C30: request {req:?} read back as {back:?} (seed {seed}, round {round})"); panic!("witness"); },
            Err(e) => { println!("WITNESS C30: request {req:?} written by the codec is not readable: {e} (seed {seed}, round {round})"); panic!("witness"); }
        }
        // the same request with the first chunk of every size 1..=6 (one- and two-byte length delimiters split at every point) and,
        // every 4th round, a request with a two-byte delimiter (wire length >= 130) instead of the random one
        {
            let reqs2 = if round % 4 == 0 { vec![req.clone(), HeaderRequest { amount: 1 + round, data: Some(ReqData::Hash((0..(126 + round % 40) as usize).map(|i| (i % 249) as u8).collect())) }] } else { vec![req.clone()] };
            for rq in reqs2 {
                let mut w2 = Vec::new();
                HeaderCodec.write_request(&proto, &mut futures::io::Cursor::new(&mut w2), rq.clone()).await.unwrap();
                for k in 1..=6usize.min(w2.len()) {
                    cases += 1;
                    let mut rd = RandomChunks { data: w2.clone(), pos: 0, rng: XorShift(rng.next() | 1), first: Some(k) };
                    match HeaderCodec.read_request(&proto, &mut rd).await {
                        Ok(back) => if back != rq { println!("WITNESS C30: request {rq:?} read back as {back:?} with a first chunk of {k} bytes"); panic!("witness"); },
                        Err(e) => { println!("WITNESS C30: request of {} wire bytes is not readable when the first chunk has {k} bytes: {e}", w2.len()); panic!("witness"); }
                    }
                }
            }
        }
        // a truncated request stream must be an error (a strictly shorter prefix of one frame is never a complete frame)
        if wire.len() > 1 {
            let cut = 1 + rng.below(wire.len() as u64 - 1) as usize;
            let mut rd = RandomChunks { data: wire[..cut].to_vec(), pos: 0, rng: XorShift(rng.next() | 1), first: None };
            cases += 1;
            if let Ok(back) = HeaderCodec.read_request(&proto, &mut rd).await { if back == req && cut < wire.len() { println!("WITNESS C30: request truncated to {cut} of {} bytes still read back in full", wire.len()); panic!("witness"); } }
        }
        // a list of responses
        let n = 1 + rng.below(6) as usize;
        let resps: Vec<HeaderResponse> = (0..n).map(|_| HeaderResponse { body: (0..rng.below(300)).map(|_| rng.next() as u8).collect(), status_code: (rng.below(5) as i32) }).collect();
        let mut wire = Vec::new();
        HeaderCodec.write_response(&proto, &mut futures::io::Cursor::new(&mut wire), resps.clone()).await.unwrap();
        cases += 1;
        let mut rd = RandomChunks { data: wire.clone(), pos: 0, rng: XorShift(rng.next() | 1), first: None };
        match HeaderCodec.read_response(&proto, &mut rd).await {
            Ok(back) => if back != resps { println!("WITNESS C30: {} responses read back as {} responses / different content (seed {seed}, round {round})", resps.len(), back.len()); panic!("witness"); },
            Err(e) => { println!("WITNESS C30: responses written by the codec are not readable: {e} (seed {seed}, round {round})"); panic!("witness"); }
        }
        // truncation: what is read back is a strict prefix of the list (or an error), never something else
        let cut = rng.below(wire.len() as u64) as usize;
        let mut rd = RandomChunks { data: wire[..cut].to_vec(), pos: 0, rng: XorShift(rng.next() | 1), first: None };
        cases += 1;
        if let Ok(back) = HeaderCodec.read_response(&proto, &mut rd).await {
            if back.len() >= resps.len() || back[..] != resps[..back.len()] { println!("WITNESS C30: stream truncated to {cut} of {} bytes read back as {} responses that are not a strict prefix", wire.len(), back.len()); panic!("witness"); }
        }
        // garbage
        let junk: Vec<u8> = (0..rng.below(64)).map(|_| rng.next() as u8).collect();
        cases += 1;
        let r = std::panic::AssertUnwindSafe(async { let mut rd = RandomChunks { data: junk.clone(), pos: 0, rng: XorShift(7), first: None }; let _ = HeaderCodec.read_response(&proto, &mut rd).await; let mut rd = RandomChunks { data: junk.clone(), pos: 0, rng: XorShift(9), first: None }; let _ = HeaderCodec.read_request(&proto, &mut rd).await; });
        if futures::FutureExt::catch_unwind(r).await.is_err() { println!("WITNESS C30/C16: the codec panicked on the garbage stream {junk:?}"); panic!("witness"); }
    }
    println!("ENUM-OK cases={cases}");
}
