// Witness finder for the range unit (C17/C18): exhaustive enumeration on the REAL code.
// Compiled into lumina-node only with `--cfg lumina_verif` (hook at the end of node/src/block_ranges.rs).
// Universe: 8 heights, once at the bottom (1..=8) and once at the top (u64::MAX-7..=u64::MAX).
// Bounded: this is a witness finder / bounded stand-in, never counted as proof.
use super::*;
use std::collections::BTreeSet;

const N: u64 = 8;

fn universe(base: u64) -> Vec<u64> { (0..N).map(|i| base + i).collect() }

fn build(mask: u32, base: u64) -> (BlockRanges, BTreeSet<u64>) {
    let mut r = BlockRanges::new();
    let mut m = BTreeSet::new();
    for i in 0..N {
        if mask & (1 << i) != 0 {
            r.insert_relaxed(base + i..=base + i).unwrap();
            m.insert(base + i);
        }
    }
    (r, m)
}

fn to_set(r: &BlockRanges) -> BTreeSet<u64> {
    let mut s = BTreeSet::new();
    for rg in r.as_ref() {
        let mut h = *rg.start();
        loop {
            s.insert(h);
            if h == *rg.end() { break; }
            h += 1;
        }
    }
    s
}

fn wf(r: &BlockRanges) -> bool {
    let v = r.as_ref();
    for (i, rg) in v.iter().enumerate() {
        if *rg.start() == 0 || rg.start() > rg.end() { return false; }
        if i > 0 && v[i - 1].end().checked_add(1).map(|e| e >= *rg.start()).unwrap_or(true) { return false; }
    }
    true
}

fn fail(what: &str, detail: String) -> ! {
    println!("WITNESS {what}: {detail}");
    panic!("witness found for {what}");
}

fn check_eq(what: &str, r: &BlockRanges, expect: &BTreeSet<u64>, ctx: String) {
    if !wf(r) { fail(what, format!("representation not well-formed {:?}; {ctx}", r.as_ref())); }
    if &to_set(r) != expect { fail(what, format!("got {:?} expected {:?}; {ctx}", r.as_ref(), expect)); }
}

fn run_universe(base: u64, only: Option<&str>) -> u64 {
    let uni = universe(base);
    let want = |n: &str| only.map(|o| o.contains(n) || n.contains(o)).unwrap_or(true);
    let mut cases = 0u64;
    for mask in 0..(1u32 << N) {
        let (r, m) = build(mask, base);
        let ctx = format!("set={:?}", r.as_ref());
        check_eq("insert_relaxed", &r, &m, ctx.clone());
        if want("len") && r.len() != m.len() as u64 { fail("len", format!("{} vs {}; {ctx}", r.len(), m.len())); }
        if want("is_empty") && r.is_empty() != m.is_empty() { fail("is_empty", ctx.clone()); }
        if want("head") && r.head() != m.iter().next_back().copied() { fail("head", ctx.clone()); }
        if want("tail") && r.tail() != m.iter().next().copied() { fail("tail", ctx.clone()); }
        for &h in &uni {
            cases += 1;
            if want("contains") && r.contains(h) != m.contains(&h) { fail("contains", format!("h={h}; {ctx}")); }
            if want("left_of") && r.left_of(h) != m.range(..h).next_back().copied() { fail("left_of", format!("h={h} got {:?}; {ctx}", r.left_of(h))); }
            if want("right_of") && r.right_of(h) != m.range(h..).filter(|x| **x > h).next().copied() { fail("right_of", format!("h={h} got {:?}; {ctx}", r.right_of(h))); }
        }
        if want("pop_head") { let mut c = r.clone(); let got = c.pop_head(); let mut e = m.clone(); let exp = e.iter().next_back().copied(); if let Some(x) = exp { e.remove(&x); }
            if got != exp { fail("pop_head", ctx.clone()); } check_eq("pop_head", &c, &e, ctx.clone()); }
        if want("pop_tail") { let mut c = r.clone(); let got = c.pop_tail(); let mut e = m.clone(); let exp = e.iter().next().copied(); if let Some(x) = exp { e.remove(&x); }
            if got != exp { fail("pop_tail", ctx.clone()); } check_eq("pop_tail", &c, &e, ctx.clone()); }
        if want("edges") { let mut e = BTreeSet::new(); for rg in r.as_ref() { e.insert(*rg.start()); e.insert(*rg.end()); } check_eq("edges", &r.edges(), &e, ctx.clone()); }
        if want("not") {
            // complement restricted to the universe (the rest is one or two big ranges)
            let c = !r.clone();
            for &h in &uni { if c.contains(h) == m.contains(&h) { fail("not", format!("h={h}; {ctx}")); } }
            if !wf(&c) { fail("not", format!("not wf; {ctx}")); }
        }
        for limit in 0..=N + 1 {
            cases += 1;
            if want("headn") { let e: BTreeSet<u64> = m.iter().rev().take(limit as usize).copied().collect(); check_eq("headn", &r.headn(limit), &e, format!("limit={limit}; {ctx}")); }
            if want("tailn") { let e: BTreeSet<u64> = m.iter().take(limit as usize).copied().collect(); check_eq("tailn", &r.tailn(limit), &e, format!("limit={limit}; {ctx}")); }
        }
        if want("tailn") {
            for limit in [u64::MAX - 1, u64::MAX] { let e = m.clone(); check_eq("tailn", &r.tailn(limit), &e, format!("limit={limit}; {ctx}")); }
        }
        if want("headn") {
            for limit in [u64::MAX - 1, u64::MAX] { let e = m.clone(); check_eq("headn", &r.headn(limit), &e, format!("limit={limit}; {ctx}")); }
        }
        if want("partitions") {
            match r.partitions() {
                None => if !m.is_empty() { fail("partitions", format!("None for non-empty; {ctx}")) },
                Some((l, mid, rt)) => {
                    let ls = to_set(&l); let rs = to_set(&rt);
                    let ok = wf(&l) && wf(&rt) && m.contains(&mid) && ls.iter().all(|x| *x < mid) && rs.iter().all(|x| *x > mid)
                        && { let mut u = ls.clone(); u.extend(rs.iter().copied()); u.insert(mid); u == m }
                        && (ls.len() as i64 - rs.len() as i64).abs() <= 1;
                    if !ok { fail("partitions", format!("got ({:?},{mid},{:?}); {ctx}", l.as_ref(), rt.as_ref())); }
                }
            }
        }
        // every candidate range (also invalid ones): insert / remove / constraints
        for a in 0..=N {
            for b in 0..=N {
                cases += 1;
                let (s, e) = if a == 0 { (0u64, base + b.saturating_sub(1)) } else { (base + (a - 1), if b == 0 { base.saturating_sub(1) } else { base + (b - 1) }) };
                let rg = s..=e;
                let valid = s > 0 && s <= e;
                let rset: BTreeSet<u64> = if valid { uni.iter().copied().filter(|h| *h >= s && *h <= e).collect() } else { BTreeSet::new() };
                let c2 = format!("range={s}..={e}; {ctx}");
                if want("insert_relaxed") { let mut c = r.clone(); let res = c.insert_relaxed(rg.clone());
                    if res.is_ok() != valid { fail("insert_relaxed", c2.clone()); }
                    let mut ex = m.clone(); ex.extend(rset.iter().copied()); check_eq("insert_relaxed", &c, &ex, c2.clone()); }
                if want("remove_relaxed") { let mut c = r.clone(); let res = c.remove_relaxed(rg.clone());
                    if res.is_ok() != valid { fail("remove_relaxed", c2.clone()); }
                    let ex: BTreeSet<u64> = m.difference(&rset).copied().collect(); check_eq("remove_relaxed", &c, &ex, c2.clone()); }
                if want("check_insertion_constraints") {
                    let res = r.check_insertion_constraints(rg.clone());
                    let disjoint = rset.iter().all(|h| !m.contains(h));
                    let prev = s > 0 && m.contains(&(s - 1));
                    let next = e < u64::MAX && m.contains(&(e + 1));
                    let above = m.iter().next_back().map(|h| s > *h).unwrap_or(true);
                    let admit = valid && disjoint && (m.is_empty() || above || prev || next);
                    match res {
                        Ok((p, n)) => if !admit || p != prev || n != next { fail("check_insertion_constraints", format!("Ok({p},{n}) expected admit={admit} prev={prev} next={next}; {c2}")) },
                        Err(err) => {
                            if admit { fail("check_insertion_constraints", format!("Err({err:?}) but should be admitted; {c2}")) }
                            let kind_ok = match err { BlockRangesError::InvalidBlockRange(_) => !valid, BlockRangesError::BlockRangeOverlap(..) => valid && !disjoint, BlockRangesError::NoAdjacentNeighbors(_) => valid && disjoint, _ => false };
                            if !kind_ok { fail("check_insertion_constraints", format!("wrong error kind {err:?}; {c2}")) }
                        }
                    }
                }
            }
        }
        // binary set operations against every 16th other set (keeps the run short)
        let mut other = mask.wrapping_mul(37) & 0xff;
        for _ in 0..4 {
            cases += 1;
            let (r2, m2) = build(other, base);
            let c2 = format!("rhs={:?}; {ctx}", r2.as_ref());
            if want("add") { let ex: BTreeSet<u64> = m.union(&m2).copied().collect(); check_eq("add_assign", &(r.clone() + &r2), &ex, c2.clone()); }
            if want("sub") { let ex: BTreeSet<u64> = m.difference(&m2).copied().collect(); check_eq("sub_assign", &(r.clone() - &r2), &ex, c2.clone()); }
            if want("bitand") { let ex: BTreeSet<u64> = m.intersection(&m2).copied().collect(); check_eq("bitand_assign", &(r.clone() & &r2), &ex, c2.clone()); }
            other = other.wrapping_mul(5).wrapping_add(17) & 0xff;
        }
    }
    cases
}

// the validating constructor: every list of up to three ranges with bounds in 0..=6 (zero, inverted, overlapping, touching,
// unsorted included); accepted exactly when every range is valid and each starts above the end of its predecessor,
// and an accepted value behaves as the set of its heights
fn run_from_vec() -> u64 {
    let mut cases = 0u64;
    let bounds: Vec<(u64, u64)> = (0..=6u64).flat_map(|a| (0..=6u64).map(move |b| (a, b))).collect();
    let mut lists: Vec<Vec<(u64, u64)>> = vec![vec![]];
    for a in &bounds { lists.push(vec![*a]); }
    for a in &bounds { for b in &bounds { lists.push(vec![*a, *b]); } }
    for a in bounds.iter().step_by(3) { for b in bounds.iter().step_by(2) { for c in bounds.iter().step_by(5) { lists.push(vec![*a, *b, *c]); } } }
    for l in lists {
        cases += 1;
        let v: Vec<BlockRange> = l.iter().map(|(a, b)| *a..=*b).collect();
        let ok = l.iter().all(|(a, b)| *a >= 1 && a <= b) && l.windows(2).all(|w| w[1].0 > w[0].1);
        match BlockRanges::from_vec(v.clone().into()) {
            Ok(r) => {
                if !ok { fail("C17", format!("from_vec accepted {l:?}, which is not a list of valid, increasing, pairwise disjoint ranges")); }
                let want: BTreeSet<u64> = l.iter().flat_map(|(a, b)| *a..=*b).collect();
                if to_set(&r) != want || r.len() != want.len() as u64 { fail("C17", format!("from_vec({l:?}) has len {} and heights {:?}", r.len(), to_set(&r))); }
            }
            Err(_) => if ok { fail("C17", format!("from_vec rejected the valid list {l:?}")); },
        }
    }
    cases
}

#[test]
fn verif_enum_block_ranges() {
    let only = std::env::var("VERIF_ONLY").ok();
    let a = run_universe(1, only.as_deref());
    let b = run_universe(u64::MAX - (N - 1), only.as_deref());
    let c = run_from_vec();
    println!("ENUM-OK cases={}", a + b + c);
}
