// Witness finder / bounded stand-in for C45 (ProofChain::verify_membership as called by get_verified_balance_impl).
// Included at the end of grpc/src/abci_proofs.rs only with `--cfg lumina_verif` (test builds). Hand-built ics23 proofs:
// an iavl existence proof for the balance key in the bank store, a simple-merkle existence proof for "bank" in the
// multistore whose root is the header's app hash. (Proof construction adapted from the demonstration of seed C45-a.)
use celestia_proto::cosmos::base::tendermint::v1beta1::{ProofOp, ProofOps};
use ics23::commitment_proof::Proof;
use ics23::{CommitmentProof, ExistenceProof, HashOp, InnerOp, LeafOp, LengthOp};
use prost::Message;

use super::{ProofChain, Sha256Provider};

const BANK: &[u8] = b"bank";
fn account_key(tag: u8) -> Vec<u8> { let mut k = vec![0x02, 20]; k.extend_from_slice(&[tag; 20]); k.extend_from_slice(b"utia"); k }
fn leaf_op(prefix: Vec<u8>) -> LeafOp {
    LeafOp { hash: HashOp::Sha256.into(), prehash_key: HashOp::NoHash.into(), prehash_value: HashOp::Sha256.into(), length: LengthOp::VarProto.into(), prefix }
}
fn iavl_exist(key: &[u8], value: &[u8]) -> ExistenceProof { ExistenceProof { key: key.to_vec(), value: value.to_vec(), leaf: Some(leaf_op(vec![0, 2, 2])), path: vec![] } }
fn simple_exist(key: &[u8], value: &[u8], sibling: [u8; 32]) -> ExistenceProof {
    ExistenceProof { key: key.to_vec(), value: value.to_vec(), leaf: Some(leaf_op(vec![0])), path: vec![InnerOp { hash: HashOp::Sha256.into(), prefix: vec![1], suffix: sibling.to_vec() }] }
}
fn root_of(p: &ExistenceProof) -> Vec<u8> { ics23::calculate_existence_root::<Sha256Provider>(p).unwrap() }
fn op(ty: &str, p: &ExistenceProof) -> ProofOp { ProofOp { r#type: ty.to_string(), key: p.key.clone(), data: CommitmentProof { proof: Some(Proof::Exist(p.clone())) }.encode_to_vec() } }
fn verify(ops: Vec<ProofOp>, root: &[u8], keys: &[&[u8]], value: &[u8]) -> Option<bool> {
    let chain: ProofChain = match (ProofOps { ops }).try_into() { Ok(c) => c, Err(_) => return Some(false) };
    let (root, keys, value) = (root.to_vec(), keys.iter().map(|k| k.to_vec()).collect::<Vec<_>>(), value.to_vec());
    std::panic::catch_unwind(move || chain.verify_membership(&root, keys.iter().map(|k| k.as_slice()), &value).is_ok()).ok()
}

#[test]
fn verif_enum_balance_proof_chain() {
    let mut cases = 0u64;
    for (tag, value) in [(0xAAu8, &b"1000"[..]), (0x01, b"0"), (0x7F, b"123456789012345678")] {
        let key = account_key(tag);
        let bank = iavl_exist(&key, value);
        let bank_root = root_of(&bank);
        let store = simple_exist(BANK, &bank_root, [7; 32]);
        let app_hash = root_of(&store);
        let honest = || vec![op("ics23:iavl", &bank), op("ics23:simple", &store)];
        let keys: [&[u8]; 2] = [&key, BANK];
        cases += 1;
        if verify(honest(), &app_hash, &keys, value) != Some(true) { println!("WITNESS C45: the honest two-level proof chain for a balance is rejected"); panic!("witness"); }
        // a self-consistent forged world not linked to the app hash
        let forged_bank = iavl_exist(&key, b"999999999");
        let forged_store = simple_exist(BANK, &root_of(&forged_bank), [9; 32]);
        let forged_root = root_of(&forged_store);
        let trailing = simple_exist(b"whatever", &forged_root, [1; 32]);
        let other_key = account_key(tag ^ 1);
        let mut bad_root = app_hash.clone(); bad_root[3] ^= 0x40;
        let variants: Vec<(&str, Vec<ProofOp>, Vec<u8>, Vec<Vec<u8>>, Vec<u8>)> = vec![
            ("value tampered", honest(), app_hash.clone(), vec![key.clone(), BANK.to_vec()], b"1001".to_vec()),
            ("account key of another address", honest(), app_hash.clone(), vec![other_key.clone(), BANK.to_vec()], value.to_vec()),
            ("store key tampered", honest(), app_hash.clone(), vec![key.clone(), b"bonk".to_vec()], value.to_vec()),
            ("app hash tampered", honest(), bad_root.clone(), vec![key.clone(), BANK.to_vec()], value.to_vec()),
            ("proof operations swapped", vec![op("ics23:simple", &store), op("ics23:iavl", &bank)], app_hash.clone(), vec![key.clone(), BANK.to_vec()], value.to_vec()),
            ("store operation dropped", vec![op("ics23:iavl", &bank)], app_hash.clone(), vec![key.clone(), BANK.to_vec()], value.to_vec()),
            ("bank operation dropped", vec![op("ics23:simple", &store)], app_hash.clone(), vec![key.clone(), BANK.to_vec()], value.to_vec()),
            ("only the first key given", honest(), app_hash.clone(), vec![key.clone()], value.to_vec()),
            ("a third key given", honest(), app_hash.clone(), vec![key.clone(), BANK.to_vec(), b"x".to_vec()], value.to_vec()),
            ("forged world with a surplus trailing operation carrying its root", vec![op("ics23:iavl", &forged_bank), op("ics23:simple", &forged_store), op("ics23:simple", &trailing)], app_hash.clone(), vec![key.clone(), BANK.to_vec()], b"999999999".to_vec()),
            ("forged world, two operations", vec![op("ics23:iavl", &forged_bank), op("ics23:simple", &forged_store)], app_hash.clone(), vec![key.clone(), BANK.to_vec()], b"999999999".to_vec()),
            ("forged bank proof under the honest store proof", vec![op("ics23:iavl", &forged_bank), op("ics23:simple", &store)], app_hash.clone(), vec![key.clone(), BANK.to_vec()], b"999999999".to_vec()),
            ("honest operations followed by a surplus operation", { let mut v = honest(); v.push(op("ics23:simple", &trailing)); v }, app_hash.clone(), vec![key.clone(), BANK.to_vec()], value.to_vec()),
            ("no operations at all", vec![], app_hash.clone(), vec![key.clone(), BANK.to_vec()], value.to_vec()),
        ];
        for (what, ops, root, ks, val) in variants {
            cases += 1;
            let kr: Vec<&[u8]> = ks.iter().map(|k| k.as_slice()).collect();
            match verify(ops, &root, &kr, &val) {
                Some(false) => {}
                Some(true) => { println!("WITNESS C45: balance proof with `{what}` is accepted as verified"); panic!("witness"); }
                None => { println!("WITNESS C45: verify_membership panicked on `{what}`"); panic!("witness"); }
            }
        }
    }
    println!("ENUM-OK cases={cases}");
}
